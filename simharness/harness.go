// Package simharness is the worker side of a check: it runs batches of
// simulated executions of one property harness inside a test binary, and
// implements replay, shrinking and the determinism self-test.
package simharness

import (
	"encoding/json"
	"fmt"
	"os"
	"runtime"
	"runtime/debug"
	"sort"
	"strconv"
	"strings"
	"testing"
	"time"

	"verifsim/simrt"
)

var resetClock func()

var racyBuild = os.Getenv("VERIF_RACY") != ""

// Spec describes one property harness.
type Spec struct {
	ID string
	// Body generates a workload from r.Tape, runs it and checks the oracles.
	Body func(r *simrt.Run, tier string)
	// Config draws the scheduler knobs for a run (nil: DefaultConfig).
	Config func(t *simrt.Tape, tier string) simrt.Config
	// Post inspects the finished run (stuck, leftover tasks, crashes) and may
	// return a violation.  nil: DefaultPost.
	Post func(res *simrt.Result) *simrt.Failure
	// StuckIsViolation: main task not finished within budgets counts as a
	// liveness violation (class "stuck"); otherwise it is an engine error.
	StuckIsViolation bool
	// LeakIsViolation: tasks alive at the end (not declared background) are a violation.
	LeakIsViolation bool
	// CrashIsViolation: a task ending by an uncaught panic is a violation.
	CrashIsViolation bool
}

// DefaultConfig draws a swarm member.
func DefaultConfig(t *simrt.Tape, tier string) simrt.Config {
	sw := []int{20, 60, 150, 300, 500}[t.Intn(5)]
	st := []int{0, 0, 5, 30}[t.Intn(4)]
	sm := []time.Duration{time.Millisecond, 50 * time.Millisecond, 2 * time.Second}[t.Intn(3)]
	return simrt.Config{SwitchPerMille: sw, StallPerMille: st, StallMax: sm, MaxSteps: 30000, MaxVirtual: 48 * time.Hour}
}

// Failure signature: "class" identifies the violated clause, "sig" the
// specific failing scenario class used to match known findings.
type FailRec struct {
	Seed   uint64   `json:"seed"`
	Slot   int      `json:"slot"`
	Epoch  int      `json:"epoch"`
	Index  int      `json:"index"`
	Class  string   `json:"class"`
	Msg    string   `json:"msg"`
	Hash   string   `json:"hash"`
	Tape   []uint64 `json:"tape"`
	Start  int      `json:"start"` // index of the first run of the worker process that made this run
	First  bool     `json:"first_in_process"`
	Engine bool     `json:"engine"`
}

// Summary is written by a worker process when it ends.
type Summary struct {
	Runs         int                `json:"runs"`
	Steps        int64              `json:"steps"`
	Switches     int64              `json:"switches"`
	RacySwitches int64              `json:"racy_switches"`
	Stalls       int64              `json:"stalls"`
	Idles        int64              `json:"idles"`
	Tasks        int64              `json:"tasks"`
	VirtualS     float64            `json:"virtual_s"`
	Probes       map[string]int     `json:"probes"`
	Hashes       []string           `json:"hashes"`     // distinct event-log hashes of non-trivial runs
	Nontrivial   int                `json:"nontrivial"` // runs that were non-trivial
	Known        map[string]int     `json:"known"`      // known findings hit: sig -> count
	Failures     []FailRec          `json:"failures"`
	Dirty        bool               `json:"dirty"` // process should not be reused
	Done         bool               `json:"done"`  // budget exhausted
	WallMs       int64              `json:"wall_ms"`
	MaxSteps     int                `json:"max_steps"`
	MaxTasks     int                `json:"max_tasks"`
	Samples      []any              `json:"samples"`
	EngineErr    string             `json:"engine_err"`
	Goroutines   int                `json:"goroutines"`
	NextIndex    int                `json:"next_index"`
	KnownFirst   map[string]FailRec `json:"known_first"`
}

func mix(a ...uint64) uint64 {
	h := uint64(0x9e3779b97f4a7c15)
	for _, x := range a {
		h ^= x + 0x9e3779b97f4a7c15 + (h << 6) + (h >> 2)
		h *= 0xbf58476d1ce4e5b9
		h ^= h >> 31
	}
	return h
}

func envInt(k string, def int) int {
	if v := os.Getenv(k); v != "" {
		if n, err := strconv.Atoi(v); err == nil {
			return n
		}
	}
	return def
}

func (sp *Spec) config(t *simrt.Tape, tier string) simrt.Config {
	if sp.Config != nil {
		return sp.Config(t, tier)
	}
	return DefaultConfig(t, tier)
}

// RunOnce executes a single run under the given tape.
func (sp *Spec) RunOnce(t *testing.T, tape *simrt.Tape, tier string, trace bool) (*simrt.Result, *simrt.Failure) {
	cfg := sp.config(tape, tier)
	cfg.Trace = trace
	if racyBuild && cfg.RacyMean == 0 {
		// harness built in racy mode (meta.json "racy": true): statement-level switches in a
		// part of the runs, swarm style (draw 0 = off)
		cfg.RacyMean = []int{0, 0, 4, 15, 60}[tape.Intn(5)]
		if cfg.RacyMean > 0 {
			// statement-level switches count as scheduling points: widen the step budget
			if cfg.MaxSteps == 0 {
				cfg.MaxSteps = 20000
			}
			cfg.MaxSteps *= 5
		}
	}
	res := simrt.Execute(t, cfg, tape, func(r *simrt.Run) {
		if resetClock == nil {
			r.EngineError("harness built without -tags verif: timex seam missing")
			return
		}
		resetClock() // seam: re-base go-zero's relative clock on the bubble clock
		sp.Body(r, tier)
	})
	f := res.Failure
	if f == nil && res.EngineErr == "" {
		if sp.Post != nil {
			f = sp.Post(res)
		}
		if f == nil {
			f = sp.defaultPost(res)
		}
	}
	return res, f
}

func (sp *Spec) defaultPost(res *simrt.Result) *simrt.Failure {
	if len(res.Crashed) > 0 && sp.CrashIsViolation {
		return &simrt.Failure{Class: "uncaught-panic", Msg: strings.Join(res.Crashed, "; ")}
	}
	if res.Stuck || res.StepsExceeded {
		if sp.StuckIsViolation {
			kind := "stuck"
			if res.StepsExceeded {
				kind = "livelock"
			}
			return &simrt.Failure{Class: kind, Msg: fmt.Sprintf("run did not finish (stuck=%v stepsExceeded=%v); alive: %s", res.Stuck, res.StepsExceeded, strings.Join(res.Leftover, "; "))}
		}
		return nil
	}
	if len(res.Leftover) > 0 && sp.LeakIsViolation {
		return &simrt.Failure{Class: "goroutine-leak", Msg: strings.Join(res.Leftover, "; ")}
	}
	return nil
}

func engineProblem(sp *Spec, res *simrt.Result) string {
	if res.EngineErr != "" {
		return res.EngineErr
	}
	// a verdict the harness reached before the run ran out of budget stands: the oracle judged real
	// behaviour, the overrun afterwards (e.g. a background loop of a changed go-zero spinning while a
	// client sleeps) only ends the run
	if (res.Stuck || res.StepsExceeded) && !sp.StuckIsViolation && res.Failure == nil {
		return fmt.Sprintf("run exceeded its budgets (stuck=%v stepsExceeded=%v) alive: %v", res.Stuck, res.StepsExceeded, res.Leftover)
	}
	if len(res.Crashed) > 0 && !sp.CrashIsViolation {
		return "task crashed: " + strings.Join(res.Crashed, "; ")
	}
	return ""
}

// KnownSet is the set of known-finding signatures (class strings) that do not stop a batch.
func knownSet() map[string]bool {
	m := map[string]bool{}
	for _, s := range strings.Split(os.Getenv("VERIF_KNOWN"), "\x1f") {
		if s != "" {
			m[s] = true
		}
	}
	return m
}

// Main is called from the harness package's TestSim.
func Main(t *testing.T, sp *Spec) {
	mode := os.Getenv("VERIF_MODE")
	if mode == "" {
		mode = "smoke"
	}
	debug.SetGCPercent(400)
	tier := os.Getenv("VERIF_TIER")
	if tier == "" {
		tier = "quick"
	}
	switch mode {
	case "smoke":
		sp.batch(t, tier, 1, 0, 0, 0, 200, 5000, "")
	case "run":
		seed, _ := strconv.ParseUint(os.Getenv("VERIF_SEED"), 10, 64)
		sp.batch(t, tier, seed, envInt("VERIF_SLOT", 0), envInt("VERIF_EPOCH", 0), envInt("VERIF_START", 0),
			envInt("VERIF_MAXRUNS", 1000), envInt("VERIF_BUDGET_MS", 10000), os.Getenv("VERIF_OUT"))
	case "replay":
		sp.replay(t, tier)
	case "shrink":
		sp.shrink(t, tier)
	case "det":
		sp.det(t, tier)
	default:
		fmt.Fprintln(os.Stderr, "unknown VERIF_MODE", mode)
		os.Exit(2)
	}
}

func watchdog(d time.Duration, what func() string) func() {
	tm := time.AfterFunc(d, func() {
		buf := make([]byte, 1<<20)
		n := runtime.Stack(buf, true)
		fmt.Fprintf(os.Stderr, "ENGINE watchdog: run exceeded %v of wall-clock (%s)\n%s\n", d, what(), buf[:n])
		os.Exit(2)
	})
	return func() { tm.Stop() }
}

func (sp *Spec) batch(t *testing.T, tier string, seed uint64, slot, epoch, start, maxRuns, budgetMs int, out string) {
	known := knownSet()
	sum := &Summary{Probes: map[string]int{}, Known: map[string]int{}, KnownFirst: map[string]FailRec{}}
	hashes := map[uint64]struct{}{}
	t0 := time.Now()
	deadline := t0.Add(time.Duration(budgetMs) * time.Millisecond)
	i := start
	for ; i < start+maxRuns; i++ {
		if time.Now().After(deadline) {
			sum.Done = true
			break
		}
		rs := mix(seed, uint64(slot), uint64(i))
		tape := simrt.NewTape(rs)
		stop := watchdog(120*time.Second, func() string { return fmt.Sprintf("seed=%d slot=%d index=%d", seed, slot, i) })
		res, f := sp.RunOnce(t, tape, tier, false)
		stop()
		sum.Runs++
		sum.Steps += int64(res.Steps)
		sum.Switches += int64(res.Switches)
		sum.RacySwitches += int64(res.RacySwitches)
		sum.Stalls += int64(res.Stalls)
		sum.Idles += int64(res.Idles)
		sum.Tasks += int64(res.Tasks)
		sum.VirtualS += res.Virtual.Seconds()
		if res.Steps > sum.MaxSteps {
			sum.MaxSteps = res.Steps
		}
		if res.Tasks > sum.MaxTasks {
			sum.MaxTasks = res.Tasks
		}
		for k, v := range res.Probes {
			sum.Probes[k] += v
		}
		if len(sum.Samples) < 3 && len(res.Samples) > 0 {
			sum.Samples = append(sum.Samples, map[string]any{"run_seed": rs, "steps": res.Steps, "tasks": res.Tasks, "switches": res.Switches, "stalls": res.Stalls, "virtual": res.Virtual.String(), "case": res.Samples})
		}
		if res.Probes["nontrivial"] > 0 || (res.Switches > 0 && res.Probes["oracle"] > 0) {
			sum.Nontrivial++
			if len(hashes) < 4_000_000 {
				hashes[res.Hash] = struct{}{}
			}
		}
		rec := FailRec{Seed: rs, Slot: slot, Epoch: epoch, Index: i, Start: start, Hash: fmt.Sprintf("%016x", res.Hash), Tape: res.Tape, First: i == start && epoch >= 0 && sum.Runs == 1}
		if ep := engineProblem(sp, res); ep != "" {
			rec.Engine, rec.Class, rec.Msg = true, "engine", ep
			sum.Failures = append(sum.Failures, rec)
			sum.EngineErr = ep
			sum.Dirty = true
			i++
			break
		}
		if f != nil {
			rec.Class, rec.Msg = f.Class, f.Msg
			if known[f.Class] {
				sum.Known[f.Class]++
				if _, ok := sum.KnownFirst[f.Class]; !ok {
					sum.KnownFirst[f.Class] = rec
				}
			} else {
				sum.Failures = append(sum.Failures, rec)
				sum.Dirty = true
				i++
				break
			}
		}
		if len(res.Leftover) > 0 || res.DeadlockPanic || res.Stuck || res.StepsExceeded {
			// goroutines of this run stay behind, possibly holding simulated
			// locks of package-level state: do not reuse the process
			if res.Stuck || res.StepsExceeded || hasLockHolder(res.Leftover) {
				sum.Dirty = true
				i++
				break
			}
		}
		if runtime.NumGoroutine() > 3000 {
			sum.Dirty = true
			i++
			break
		}
	}
	if i >= start+maxRuns {
		// chunk finished
	}
	sum.NextIndex = i
	sum.WallMs = time.Since(t0).Milliseconds()
	sum.Goroutines = runtime.NumGoroutine()
	for h := range hashes {
		sum.Hashes = append(sum.Hashes, fmt.Sprintf("%016x", h))
	}
	sort.Strings(sum.Hashes)
	if out == "" {
		b, _ := json.Marshal(map[string]any{"runs": sum.Runs, "steps": sum.Steps, "nontrivial": sum.Nontrivial, "distinct": len(sum.Hashes),
			"probes": sum.Probes, "failures": len(sum.Failures), "wall_ms": sum.WallMs, "known": sum.Known})
		fmt.Println(string(b))
		for _, f := range sum.Failures {
			fmt.Printf("FAIL seed=%d index=%d class=%s msg=%s\n", f.Seed, f.Index, f.Class, f.Msg)
		}
		if len(sum.Failures) > 0 {
			t.Fail()
		}
		return
	}
	b, _ := json.Marshal(sum)
	if err := os.WriteFile(out, b, 0o644); err != nil {
		fmt.Fprintln(os.Stderr, "write summary:", err)
		os.Exit(2)
	}
}

func hasLockHolder(left []string) bool {
	for _, l := range left {
		if strings.Contains(l, "runnable") || strings.Contains(l, "Mutex") {
			return true
		}
	}
	return false
}

// ReplayFile is the on-disk form of a violation.
type ReplayFile struct {
	Property string   `json:"property"`
	Tier     string   `json:"tier"`
	Seed     uint64   `json:"seed"`
	Class    string   `json:"class"`
	Msg      string   `json:"msg"`
	Hash     string   `json:"hash"`
	Tape     []uint64 `json:"tape"`
	Shrunk   bool     `json:"shrunk"`
	OrigLen  int      `json:"orig_tape_len"`
	Trace    []string `json:"trace,omitempty"`
	Note     string   `json:"note,omitempty"`
	// Pred, when set, names the runs the worker process had executed before the failing one: the
	// violation did not reproduce in a fresh process, i.e. it depends on state the code under test
	// keeps in process globals (a changed go-zero may add such state).  Replaying executes those
	// runs first (their tapes are a pure function of base seed, slot and index), then the tape.
	Pred *PredRuns `json:"predecessor_runs,omitempty"`
}

// PredRuns identifies the runs start..start+count-1 of a worker slot.
type PredRuns struct {
	BaseSeed uint64 `json:"base_seed"`
	Slot     int    `json:"slot"`
	Start    int    `json:"start"`
	Count    int    `json:"count"`
}

func readReplay(path string) *ReplayFile {
	b, err := os.ReadFile(path)
	if err != nil {
		fmt.Fprintln(os.Stderr, "replay:", err)
		os.Exit(2)
	}
	rf := &ReplayFile{}
	if err := json.Unmarshal(b, rf); err != nil {
		fmt.Fprintln(os.Stderr, "replay:", err)
		os.Exit(2)
	}
	return rf
}

// replay re-executes a replay file; result is written as JSON to VERIF_OUT.
func (sp *Spec) replay(t *testing.T, tier string) {
	rf := readReplay(os.Getenv("VERIF_REPLAY"))
	if rf.Tier != "" {
		tier = rf.Tier
	}
	if p := rf.Pred; p != nil {
		for i := p.Start; i < p.Start+p.Count; i++ {
			stop := watchdog(120*time.Second, func() string { return fmt.Sprintf("replay predecessor index=%d", i) })
			sp.RunOnce(t, simrt.NewTape(mix(p.BaseSeed, uint64(p.Slot), uint64(i))), tier, false)
			stop()
		}
	}
	stop := watchdog(120*time.Second, func() string { return "replay" })
	res, f := sp.RunOnce(t, simrt.ReplayTape(rf.Tape), tier, true)
	stop()
	outRec := map[string]any{"hash": fmt.Sprintf("%016x", res.Hash), "trace": res.Trace, "engine": engineProblem(sp, res), "tape": res.Tape, "steps": res.Steps}
	if f != nil {
		outRec["class"], outRec["msg"] = f.Class, f.Msg
	}
	b, _ := json.Marshal(outRec)
	if out := os.Getenv("VERIF_OUT"); out != "" {
		os.WriteFile(out, b, 0o644)
	} else {
		for _, l := range res.Trace {
			fmt.Println(l)
		}
		fmt.Printf("class=%v msg=%v hash=%016x\n", outRec["class"], outRec["msg"], res.Hash)
	}
}

// shrink minimises the tape of a replay file while the same violation class persists.
func (sp *Spec) shrink(t *testing.T, tier string) {
	rf := readReplay(os.Getenv("VERIF_REPLAY"))
	if rf.Tier != "" {
		tier = rf.Tier
	}
	budget := time.Duration(envInt("VERIF_BUDGET_MS", 60000)) * time.Millisecond
	t0 := time.Now()
	tries := 0
	test := func(vals []uint64) ([]uint64, bool) {
		tries++
		stop := watchdog(120*time.Second, func() string { return "shrink" })
		res, f := sp.RunOnce(t, simrt.ReplayTape(vals), tier, false)
		stop()
		if engineProblem(sp, res) != "" {
			return nil, false
		}
		if f != nil && f.Class == rf.Class {
			return trimZeros(res.Tape), true
		}
		return nil, false
	}
	best, ok := test(rf.Tape)
	if !ok {
		fmt.Fprintln(os.Stderr, "shrink: original tape does not reproduce class", rf.Class)
		os.Exit(3)
	}
	improved := true
	for improved && time.Since(t0) < budget {
		improved = false
		// 1. delete blocks
		for size := len(best) / 2; size >= 1 && time.Since(t0) < budget; size /= 2 {
			for i := 0; i+size <= len(best) && time.Since(t0) < budget; {
				cand := append(append([]uint64{}, best[:i]...), best[i+size:]...)
				if nb, ok := test(cand); ok && less(nb, best) {
					best, improved = nb, true
				} else {
					i += size
				}
			}
		}
		// 2. zero blocks
		for size := len(best) / 2; size >= 1 && time.Since(t0) < budget; size /= 2 {
			for i := 0; i+size <= len(best) && time.Since(t0) < budget; i += size {
				allZero := true
				for _, v := range best[i : i+size] {
					if v != 0 {
						allZero = false
					}
				}
				if allZero {
					continue
				}
				cand := append([]uint64{}, best...)
				for j := i; j < i+size; j++ {
					cand[j] = 0
				}
				if nb, ok := test(cand); ok && less(nb, best) {
					best, improved = nb, true
				}
			}
		}
		// 3. lower single values
		for i := 0; i < len(best) && time.Since(t0) < budget; i++ {
			for best[i] > 0 && time.Since(t0) < budget {
				cand := append([]uint64{}, best...)
				cand[i] = best[i] / 2
				if nb, ok := test(cand); ok && less(nb, best) {
					best, improved = nb, true
					if i >= len(best) {
						break
					}
				} else {
					cand[i] = best[i] - 1
					if nb, ok := test(cand); ok && less(nb, best) {
						best, improved = nb, true
						if i >= len(best) {
							break
						}
					} else {
						break
					}
				}
			}
		}
	}
	res, f := sp.RunOnce(t, simrt.ReplayTape(best), tier, true)
	out := &ReplayFile{Property: sp.ID, Tier: tier, Seed: rf.Seed, Class: rf.Class, Hash: fmt.Sprintf("%016x", res.Hash),
		Tape: trimZeros(res.Tape), Shrunk: true, OrigLen: len(rf.Tape), Trace: res.Trace,
		Note: fmt.Sprintf("shrunk with %d candidate runs in %v", tries, time.Since(t0).Round(time.Millisecond))}
	if f != nil {
		out.Msg = f.Msg
	}
	b, _ := json.MarshalIndent(out, "", " ")
	os.WriteFile(os.Getenv("VERIF_OUT"), b, 0o644)
}

func trimZeros(v []uint64) []uint64 {
	n := len(v)
	for n > 0 && v[n-1] == 0 {
		n--
	}
	return append([]uint64{}, v[:n]...)
}

// less orders tapes: shorter first, then lexicographically smaller.
func less(a, b []uint64) bool {
	if len(a) != len(b) {
		return len(a) < len(b)
	}
	for i := range a {
		if a[i] != b[i] {
			return a[i] < b[i]
		}
	}
	return false
}

// det runs a list of seeds (VERIF_DETSEEDS, comma separated) each preceded by
// VERIF_DETPRE unrelated runs, and prints "seed hash" lines.
func (sp *Spec) det(t *testing.T, tier string) {
	pre := envInt("VERIF_DETPRE", 0)
	for j := 0; j < pre; j++ {
		sp.RunOnce(t, simrt.NewTape(mix(0xdead, uint64(j), uint64(os.Getpid()))), tier, false)
	}
	var lines []string
	for _, s := range strings.Split(os.Getenv("VERIF_DETSEEDS"), ",") {
		seed, err := strconv.ParseUint(strings.TrimSpace(s), 10, 64)
		if err != nil {
			continue
		}
		res, f := sp.RunOnce(t, simrt.NewTape(seed), tier, false)
		cls := "-"
		if f != nil {
			cls = f.Class
		}
		ep := engineProblem(sp, res)
		if ep != "" {
			cls = "ENGINE:" + ep
		}
		lines = append(lines, fmt.Sprintf("%d %016x %d %s", seed, res.Hash, res.Steps, cls))
	}
	os.WriteFile(os.Getenv("VERIF_OUT"), []byte(strings.Join(lines, "\n")+"\n"), 0o644)
}
