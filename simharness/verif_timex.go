//go:build verif

package simharness

import (
	"github.com/zeromicro/go-zero/core/stat"
	"github.com/zeromicro/go-zero/core/timex"
)

func init() {
	resetClock = timex.VerifResetClock
	// go-zero's alert reporter rate-limits through a process-global executor whose state would
	// leak from one simulated run into the next; go-zero switches the reporter off in test
	// binaries itself (stat's init looks for the test.v flag), but that guard runs before the
	// testing flags are registered and never fires.  Alerts are logging infrastructure.
	stat.SetReporter(nil)
}
