//go:build verif

package simharness

import "github.com/zeromicro/go-zero/core/timex"

func init() { resetClock = timex.VerifResetClock }
