module verifsim

go 1.26.8

require github.com/zeromicro/go-zero v0.0.0

replace github.com/zeromicro/go-zero => /repo
