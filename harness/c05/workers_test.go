package c05

import (
	"fmt"
	"time"

	"github.com/zeromicro/go-zero/core/fx"
	"github.com/zeromicro/go-zero/core/mr"

	"verifsim/simrt"
)

// Worker pools of mr.MapReduce / MapReduceVoid / ForEach and fx.Stream.Walk / Parallel / Map / Filter:
// at most `workers` user functions run at any instant (worker-count clause only).

func drawItems(t *simrt.Tape, tier string, allowPanic bool) (n int, holds []hold) {
	n = t.Range(1, maxN(tier))
	m := t.Range(n+1, 3*n)
	holds = make([]hold, m)
	for i := range holds {
		holds[i] = drawHold(t, allowPanic)
	}
	return n, holds
}

func mapReduceRun(r *simrt.Run, tier string) {
	t := r.Tape
	variant := t.Intn(3) // 0 MapReduce, 1 MapReduceVoid, 2 ForEach
	// a mapper panic is only injected into ForEach: what MapReduce does with panics is C10's business
	allowPanic := t.Chance(1, 2) && variant == 2
	n, holds := drawItems(t, tier, allowPanic)
	names := []string{"mr.MapReduce", "mr.MapReduceVoid", "mr.ForEach"}
	comp := "mapreduce"
	g := newGauge(r, comp, n)
	r.Sample(map[string]any{"component": names[variant], "workers": n, "items": len(holds), "panics_enabled": allowPanic, "item_holds": fmt.Sprintf("%v", holds)})
	if r.Tracing() {
		r.Logf("%s workers=%d holds=%v", names[variant], n, holds)
	}
	gen := func(source chan<- int) {
		for i := range holds {
			simrt.Send("generate", source, i)
		}
	}
	mapped := 0
	mapper := func(item int) {
		mapped++
		g.region(fmt.Sprintf("mapper(item %d)", item), holds[item])
	}
	var callPanicked bool
	call := r.Go("caller", func() {
		callPanicked = guard(func() {
			switch variant {
			case 0:
				mr.MapReduce(gen, func(item int, w mr.Writer[int], cancel func(error)) {
					mapper(item)
					w.Write(item)
				}, func(pipe <-chan int, w mr.Writer[int], cancel func(error)) {
					sum := 0
					for {
						v, ok := simrt.Recv2("reduce", pipe)
						if !ok {
							break
						}
						sum += v
					}
					w.Write(sum)
				}, mr.WithWorkers(n))
			case 1:
				mr.MapReduceVoid(gen, func(item int, w mr.Writer[int], cancel func(error)) {
					mapper(item)
					w.Write(item)
				}, func(pipe <-chan int, cancel func(error)) {
					for {
						if _, ok := simrt.Recv2("reduce", pipe); !ok {
							break
						}
					}
				}, mr.WithWorkers(n))
			default:
				mr.ForEach(gen, func(item int) { mapper(item) }, mr.WithWorkers(n))
			}
		})
	})
	if !r.JoinTimeout(joinBudget, call) {
		r.Fail(comp+"/stuck", "%s did not return although every mapper ends: %v", names[variant], r.AliveTasks())
		return
	}
	if callPanicked {
		r.Probe("call-repanicked")
	}
	// let mappers that outlive a panicking call finish
	r.Sleep(time.Hour)
	r.Quiesce()
	if g.peak == n {
		r.Probe("all-workers-busy")
	}
	r.Probe("oracle")
}

func fxRun(r *simrt.Run, tier string) {
	t := r.Tape
	variant := t.Intn(4) // 0 Parallel, 1 Walk, 2 Map, 3 Filter
	fromGen := t.Bool()
	allowPanic := t.Chance(1, 2)
	n, holds := drawItems(t, tier, allowPanic)
	fan := make([]int, len(holds))
	for i := range fan {
		fan[i] = t.Intn(3)
	}
	names := []string{"fx.Parallel", "fx.Walk", "fx.Map", "fx.Filter"}
	comp := "fx"
	g := newGauge(r, comp, n)
	r.Sample(map[string]any{"component": names[variant], "workers": n, "items": len(holds), "source_from_generator": fromGen,
		"panics_enabled": allowPanic, "item_holds": fmt.Sprintf("%v", holds)})
	if r.Tracing() {
		r.Logf("%s workers=%d fromGen=%v holds=%v fan=%v", names[variant], n, fromGen, holds, fan)
	}
	source := func() fx.Stream {
		if fromGen {
			return fx.From(func(source chan<- any) {
				for i := range holds {
					simrt.Send("generate", source, any(i))
				}
			})
		}
		items := make([]any, len(holds))
		for i := range items {
			items[i] = i
		}
		return fx.Just(items...)
	}
	work := func(item any) {
		i := item.(int)
		g.region(fmt.Sprintf("worker(item %d)", i), holds[i])
	}
	out := 0
	call := r.Go("caller", func() {
		switch variant {
		case 0:
			source().Parallel(func(item any) { work(item) }, fx.WithWorkers(n))
		case 1:
			source().Walk(func(item any, pipe chan<- any) {
				i := item.(int)
				who := fmt.Sprintf("walker(item %d)", i)
				g.enter(who)
				defer g.exit(who)
				h := holds[i]
				for y := 0; y < h.yields; y++ {
					r.Yield()
				}
				for f := 0; f < fan[i]; f++ {
					simrt.Send("walk-out", pipe, any(i))
				}
				if h.dur > 0 {
					r.Sleep(h.dur)
				}
				if h.panics {
					r.Probe("holder-panicked")
					panic(holderPanic{who})
				}
			}, fx.WithWorkers(n)).ForEach(func(item any) { out++ })
		case 2:
			out = source().Map(func(item any) any { work(item); return item }, fx.WithWorkers(n)).Count()
		default:
			out = source().Filter(func(item any) bool { work(item); return item.(int)%2 == 0 }, fx.WithWorkers(n)).Count()
		}
	})
	if !r.JoinTimeout(joinBudget, call) {
		r.Fail(comp+"/stuck", "%s did not finish although every worker function ends (worker slots lost?): %v", names[variant], r.AliveTasks())
		return
	}
	r.Sleep(time.Hour)
	r.Quiesce()
	if g.peak == n {
		r.Probe("all-workers-busy")
	}
	r.Probe("oracle")
}
