package c05

import (
	"fmt"
	"strings"
	"time"

	"github.com/zeromicro/go-zero/core/fx"
	"github.com/zeromicro/go-zero/core/mr"

	"verifsim/simrt"
)

// Worker pools of mr.MapReduce / MapReduceVoid / ForEach / MapReduceChan / Finish and of the
// fx.Stream stages Map / Filter / Walk / Parallel.
//
// A run is a sequence of 1-4 operations (in some runs spread over two concurrent callers).  An
// mr operation has one worker stage (the mappers); an fx operation is a pipeline of 1-3 worker
// stages (Map, Filter, Walk in any order, possibly closed by Parallel) followed by a terminal
// (Parallel, ForEach, Count, Done, ForAll).  Every stage draws its own worker option
// {WithWorkers(n>=1), WithWorkers(n<=0), no option, UnlimitedWorkers()} and has its own gauge:
//   - at most cap(option) user functions of that stage are inside at any instant (nothing is
//     asserted about the cap of a stage explicitly made unlimited);
//   - every item that reaches a stage is handed to its user function exactly once, and what the
//     stage emitted is exactly what the next stage / the terminal / the reducer receives;
//   - every operation returns.
// The operations of one run share nothing but the packages themselves, so whatever one operation
// leaves behind in package state must not change the cap of another one.

const (
	// worker count of mr and fx operations given no option (go-zero's published default), and the
	// documented minimum a WithWorkers(n) with n < 1 is raised to
	publishedDefaultWorkers = 16
	publishedMinWorkers     = 1
)

const (
	famMr = iota
	famFx
)

const (
	optWorkers = iota
	optNone
	optUnlimited
)

// wopt is the worker option of one stage.
type wopt struct {
	kind int
	arg  int
}

func (o wopt) String() string {
	switch o.kind {
	case optNone:
		return "no option"
	case optUnlimited:
		return "UnlimitedWorkers()"
	}
	return fmt.Sprintf("WithWorkers(%d)", o.arg)
}

// limit is the number of workers the option stands for.
func (o wopt) limit() (n int, capped bool) {
	switch o.kind {
	case optNone:
		return publishedDefaultWorkers, true
	case optUnlimited:
		return 0, false
	}
	if o.arg < publishedMinWorkers {
		return publishedMinWorkers, true
	}
	return o.arg, true
}

func (o wopt) fx() []fx.Option {
	switch o.kind {
	case optNone:
		return nil
	case optUnlimited:
		return []fx.Option{fx.UnlimitedWorkers()}
	}
	return []fx.Option{fx.WithWorkers(o.arg)}
}

func (o wopt) mr() []mr.Option {
	if o.kind == optNone {
		return nil
	}
	return []mr.Option{mr.WithWorkers(o.arg)}
}

// drawOpt: draw 0 is WithWorkers(1); mr has no unlimited mode.
func drawOpt(t *simrt.Tape, tier string, fam int) wopt {
	k := t.Intn(8)
	a := t.Intn(maxN(tier))
	switch {
	case k <= 3:
		return wopt{optWorkers, a + 1}
	case k == 4:
		return wopt{optWorkers, -(a % 3)}
	case k == 5:
		return wopt{kind: optNone}
	case fam == famFx:
		return wopt{kind: optUnlimited}
	case k == 6:
		return wopt{optWorkers, a + 1}
	default:
		return wopt{kind: optNone}
	}
}

// drawCount draws the number of source items so that the first stage is contended.
func drawCount(t *simrt.Tape, tier string, o wopt) int {
	n, capped := o.limit()
	switch {
	case !capped:
		return t.Range(2, 2*maxN(tier))
	case o.kind == optNone:
		return t.Range(n+1, n+4)
	default:
		return t.Range(n+1, 3*n)
	}
}

const (
	stMapper   = iota // mr mapper / ForEach function / Finish function
	stMap             // fx
	stFilter          // fx
	stWalk            // fx
	stParallel        // fx, closes the pipeline
)

var stageNames = []string{"mapper", "Map", "Filter", "Walk", "Parallel"}

// wstage is one worker stage: its option, its gauge, and what went in and came out per item id.
type wstage struct {
	r     *simrt.Run
	comp  string
	name  string
	kind  int
	opt   wopt
	g     *gauge
	holds []hold
	fan   []int  // Walk: copies written per item
	keep  []bool // Filter: verdict per item
	in    []int  // how often the user function was called with the item
	out   []int  // how often the item was emitted downstream
}

func (st *wstage) String() string {
	s := fmt.Sprintf("%s[%v] holds=%v", stageNames[st.kind], st.opt, st.holds)
	if st.kind == stWalk {
		s += fmt.Sprintf(" fan=%v", st.fan)
	}
	if st.kind == stFilter {
		s += fmt.Sprintf(" keep=%v", st.keep)
	}
	return s
}

// newStage draws a stage over the item ids 0..m-1.  mult[id] is how often the item can reach the stage
// and copies the total number of items a Walk stage may write (fx pipelines only).
func newStage(r *simrt.Run, tier string, comp, name string, kind int, opt wopt, m int, mult []int, copies int, allowPanic bool) *wstage {
	t := r.Tape
	st := &wstage{r: r, comp: comp, name: name, kind: kind, opt: opt, in: make([]int, m), out: make([]int, m)}
	n, capped := opt.limit()
	st.g = newGauge(r, comp, n)
	st.g.nocap = !capped
	st.holds = make([]hold, m)
	for i := range st.holds {
		st.holds[i] = drawHold(t, allowPanic)
	}
	switch kind {
	case stWalk:
		st.fan = make([]int, m)
		for i := range st.fan {
			st.fan[i] = t.Intn(3)
			for st.fan[i] > 0 && st.fan[i]*mult[i] > copies {
				st.fan[i]--
			}
			copies -= st.fan[i] * mult[i]
		}
	case stFilter:
		st.keep = make([]bool, m)
		for i := range st.keep {
			st.keep[i] = !t.Bool()
		}
	}
	return st
}

func (st *wstage) who(id int) string { return fmt.Sprintf("%s(item %d)", st.name, id) }

// id checks an item handed to a user function (a panic inside fx workers would be swallowed by go-zero).
func (st *wstage) id(item any) (int, bool) {
	id, ok := item.(int)
	if !ok || id < 0 || id >= len(st.in) {
		st.r.Fail(st.comp+"/unknown-item", "%s was handed %v, which is not an item of its source", st.name, item)
		return 0, false
	}
	return id, true
}

// region is the guarded region of a stage for one item: counted, inside the gauge, may panic.
func (st *wstage) region(id int) {
	st.in[id]++
	st.g.region(st.who(id), st.holds[id])
}

func (st *wstage) mapFn(item any) any {
	id, ok := st.id(item)
	if !ok {
		return item
	}
	st.region(id)
	st.out[id]++
	return item
}

func (st *wstage) filterFn(item any) bool {
	id, ok := st.id(item)
	if !ok {
		return false
	}
	st.region(id)
	if st.keep[id] {
		st.out[id]++
	}
	return st.keep[id]
}

func (st *wstage) parallelFn(item any) {
	if id, ok := st.id(item); ok {
		st.region(id)
	}
}

// walkFn writes its copies from inside the guarded region (a walker blocked on its output keeps its slot).
func (st *wstage) walkFn(item any, pipe chan<- any) {
	id, ok := st.id(item)
	if !ok {
		return
	}
	r := st.r
	who := st.who(id)
	st.in[id]++
	st.g.enter(who)
	defer st.g.exit(who)
	h := st.holds[id]
	for y := 0; y < h.yields; y++ {
		r.Yield()
	}
	for f := 0; f < st.fan[id]; f++ {
		simrt.Send("walk-out", pipe, any(id))
		st.out[id]++
	}
	if h.dur > 0 {
		r.Sleep(h.dur)
	}
	if h.panics {
		r.Probe("holder-panicked")
		panic(holderPanic{who})
	}
}

const (
	mrMapReduce = iota
	mrMapReduceVoid
	mrForEach
	mrMapReduceChan
	mrFinish
)

var mrNames = []string{"mr.MapReduce", "mr.MapReduceVoid", "mr.ForEach", "mr.MapReduceChan", "mr.Finish"}

const (
	tmParallel = iota // the last stage is the terminal
	tmForEach
	tmCount
	tmDone
	tmForAll
)

var tmNames = []string{"", "ForEach", "Count", "Done", "ForAll"}

// wop is one operation.
type wop struct {
	idx      int
	fam      int
	variant  int // mr: which function; fx: which terminal
	m        int // items of the source, ids 0..m-1, each once
	fromGen  bool
	mayAbort bool // a panicking mapper legitimately ends an mr operation early
	gap      time.Duration
	stages   []*wstage
	hasSink  bool
	sink     []int // per item: how often the reducer / terminal got it
	count    int   // Count()
	started  bool
	returned bool
	panicked bool
}

func (o *wop) comp() string {
	if o.fam == famMr {
		return "mapreduce"
	}
	return "fx"
}

func (o *wop) title() string {
	if o.fam == famMr {
		return mrNames[o.variant]
	}
	var b strings.Builder
	if o.fromGen {
		b.WriteString("fx.From")
	} else {
		b.WriteString("fx.Just")
	}
	for _, st := range o.stages {
		fmt.Fprintf(&b, ".%s[%v]", stageNames[st.kind], st.opt)
	}
	if o.variant != tmParallel {
		b.WriteString("." + tmNames[o.variant])
	}
	return b.String()
}

func (o *wop) describe() string {
	var b strings.Builder
	fmt.Fprintf(&b, "op%d %s items=%d", o.idx, o.title(), o.m)
	if o.fam == famMr && o.variant == mrMapReduceChan {
		fmt.Fprintf(&b, " source=%s", map[bool]string{false: "pre-filled channel", true: "channel fed by a task"}[o.fromGen])
	}
	if o.gap > 0 {
		fmt.Fprintf(&b, " after %v", o.gap)
	}
	for _, st := range o.stages {
		fmt.Fprintf(&b, "; %v", st)
	}
	return b.String()
}

func drawMrOp(r *simrt.Run, tier string, idx int) *wop {
	t := r.Tape
	o := &wop{idx: idx, fam: famMr}
	o.variant = t.Intn(5)
	// a mapper panic is only injected into ForEach: what MapReduce does with panics is C10's business
	allowPanic := t.Chance(1, 2) && o.variant == mrForEach
	o.mayAbort = allowPanic
	o.fromGen = t.Bool()
	opt := drawOpt(t, tier, famMr)
	o.m = drawCount(t, tier, opt)
	if o.variant == mrFinish {
		// Finish runs every function at once: its capacity is the number of functions
		opt = wopt{optWorkers, o.m}
	}
	o.stages = []*wstage{newStage(r, tier, o.comp(), fmt.Sprintf("op%d %s mapper", idx, mrNames[o.variant]), stMapper, opt, o.m, nil, 0, allowPanic)}
	if o.variant == mrMapReduce || o.variant == mrMapReduceVoid || o.variant == mrMapReduceChan {
		o.hasSink = true
		o.sink = make([]int, o.m)
	}
	return o
}

func drawFxOp(r *simrt.Run, tier string, idx int) *wop {
	t := r.Tape
	o := &wop{idx: idx, fam: famFx}
	o.variant = t.Intn(5)
	inter := t.Intn(3)
	if o.variant != tmParallel && inter == 0 {
		inter = 1
	}
	o.fromGen = t.Bool()
	allowPanic := t.Chance(1, 2)
	kinds := make([]int, 0, inter+1)
	var mult []int
	for i := 0; i < inter; i++ {
		kinds = append(kinds, []int{stWalk, stMap, stFilter}[t.Intn(3)])
	}
	if o.variant == tmParallel {
		kinds = append(kinds, stParallel)
	}
	for i, k := range kinds {
		opt := drawOpt(t, tier, famFx)
		if i == 0 {
			o.m = drawCount(t, tier, opt)
			mult = make([]int, o.m)
			for id := range mult {
				mult[id] = 1
			}
		}
		// a Walk may multiply the items, but the flow through a pipeline stays bounded (a run has a step budget)
		flow := 0
		for _, c := range mult {
			flow += c
		}
		st := newStage(r, tier, o.comp(), fmt.Sprintf("op%d %s#%d", idx, stageNames[k], i), k, opt, o.m, mult, flow+2*maxN(tier), allowPanic)
		for id := range mult {
			switch {
			case k == stWalk:
				mult[id] *= st.fan[id]
			case k == stFilter && !st.keep[id]:
				mult[id] = 0
			}
		}
		o.stages = append(o.stages, st)
	}
	if o.variant == tmForEach || o.variant == tmForAll || o.variant == tmCount {
		o.hasSink = true
		o.sink = make([]int, o.m)
	}
	return o
}

func (o *wop) sinkItem(v any) {
	id, ok := v.(int)
	if !ok || id < 0 || id >= o.m {
		o.stages[0].r.Fail(o.comp()+"/unknown-item", "op%d %s: %v came out, which is not an item of the source", o.idx, o.title(), v)
		return
	}
	o.sink[id]++
}

func (o *wop) runMr(r *simrt.Run) {
	st := o.stages[0]
	gen := func(source chan<- int) {
		for i := 0; i < o.m; i++ {
			simrt.Send("generate", source, i)
		}
	}
	mapper := func(item int, w mr.Writer[int], cancel func(error)) {
		st.region(item)
		st.out[item]++
		w.Write(item)
	}
	reducer := func(pipe <-chan int, w mr.Writer[int], cancel func(error)) {
		sum := 0
		for {
			v, ok := simrt.Recv2("reduce", pipe)
			if !ok {
				break
			}
			o.sinkItem(v)
			sum += v
		}
		w.Write(sum)
	}
	opts := st.opt.mr()
	o.panicked = guard(func() {
		switch o.variant {
		case mrMapReduce:
			mr.MapReduce(gen, mapper, reducer, opts...)
		case mrMapReduceVoid:
			mr.MapReduceVoid(gen, mapper, func(pipe <-chan int, cancel func(error)) {
				for {
					v, ok := simrt.Recv2("reduce", pipe)
					if !ok {
						break
					}
					o.sinkItem(v)
				}
			}, opts...)
		case mrForEach:
			mr.ForEach(gen, func(item int) { st.region(item) }, opts...)
		case mrMapReduceChan:
			var source chan int
			if o.fromGen {
				source = make(chan int)
				r.Go(fmt.Sprintf("op%d-feeder", o.idx), func() {
					gen(source)
					simrt.Close("feeder-close", source)
				})
			} else {
				source = make(chan int, o.m)
				gen(source)
				simrt.Close("source-close", source)
			}
			mr.MapReduceChan(source, mapper, reducer, opts...)
		default:
			fns := make([]func() error, o.m)
			for i := range fns {
				i := i
				fns[i] = func() error {
					st.region(i)
					return nil
				}
			}
			mr.Finish(fns...)
		}
	})
}

func (o *wop) runFx(r *simrt.Run) {
	var s fx.Stream
	if o.fromGen {
		s = fx.From(func(source chan<- any) {
			for i := 0; i < o.m; i++ {
				simrt.Send("generate", source, any(i))
			}
		})
	} else {
		items := make([]any, o.m)
		for i := range items {
			items[i] = i
		}
		s = fx.Just(items...)
	}
	for _, st := range o.stages {
		switch st.kind {
		case stMap:
			s = s.Map(st.mapFn, st.opt.fx()...)
		case stFilter:
			s = s.Filter(st.filterFn, st.opt.fx()...)
		case stWalk:
			s = s.Walk(st.walkFn, st.opt.fx()...)
		case stParallel:
			s.Parallel(st.parallelFn, st.opt.fx()...)
			return
		}
	}
	switch o.variant {
	case tmForEach:
		s.ForEach(func(item any) { o.sinkItem(item) })
	case tmCount:
		o.count = s.Count()
	case tmForAll:
		s.ForAll(func(pipe <-chan any) {
			for {
				v, ok := simrt.Recv2("forall", pipe)
				if !ok {
					break
				}
				o.sinkItem(v)
			}
		})
	default:
		s.Done()
	}
}

// check runs when the operation has returned and nothing of it is running any more.
func (o *wop) check(r *simrt.Run) {
	comp := o.comp()
	exp := make([]int, o.m)
	for i := range exp {
		exp[i] = 1
	}
	from := "the source"
	for _, st := range o.stages {
		if st.g.in != 0 {
			r.Fail(comp+"/holder-left", "%s returned, but %d calls of %s never ended", o.title(), st.g.in, st.name)
			return
		}
		for id := range exp {
			if st.in[id] > exp[id] {
				r.Fail(comp+"/item-duplicated", "%s: %s was called %d times with item %d, %s delivered it %d times", o.title(), st.name, st.in[id], id, from, exp[id])
				return
			}
			if st.in[id] < exp[id] && !o.mayAbort {
				r.Fail(comp+"/item-lost", "%s: %s was called %d times with item %d, %s delivered it %d times", o.title(), st.name, st.in[id], id, from, exp[id])
				return
			}
		}
		exp, from = st.out, st.name
	}
	if !o.hasSink || o.mayAbort {
		return
	}
	if o.fam == famFx && o.variant == tmCount {
		want := 0
		for _, c := range exp {
			want += c
		}
		if o.count != want {
			r.Fail(comp+"/item-lost", "%s: Count() = %d, but %s emitted %d items", o.title(), o.count, from, want)
		}
		return
	}
	for id := range exp {
		if o.sink[id] != exp[id] {
			cls := "/item-lost"
			if o.sink[id] > exp[id] {
				cls = "/item-duplicated"
			}
			r.Fail(comp+cls, "%s: item %d arrived %d times at the end of the operation, %s emitted it %d times", o.title(), id, o.sink[id], from, exp[id])
			return
		}
	}
}

func workersRun(r *simrt.Run, tier string, firstFam int) {
	t := r.Tape
	nops := []int{1, 1, 2, 2, 3, 4}[t.Intn(6)]
	concurrent := t.Chance(1, 3)
	ops := make([]*wop, nops)
	for i := range ops {
		fam := firstFam
		if i > 0 && t.Intn(4) == 3 {
			fam = famMr + famFx - firstFam
		}
		if fam == famMr {
			ops[i] = drawMrOp(r, tier, i)
		} else {
			ops[i] = drawFxOp(r, tier, i)
		}
		if i > 0 {
			ops[i].gap = drawDur(t)
		}
	}
	callers := 1
	if concurrent && nops > 1 {
		callers = 2
	}
	descs := make([]string, nops)
	for i, o := range ops {
		descs[i] = o.describe()
		if r.Tracing() {
			r.Logf("%s", descs[i])
		}
	}
	r.Sample(map[string]any{"component": "worker pools (mr / fx)", "operations": descs, "callers": callers})
	var tasks []*simrt.Task
	for k := 0; k < callers; k++ {
		k := k
		tasks = append(tasks, r.Go(fmt.Sprintf("caller%d", k), func() {
			for i := k; i < nops; i += callers {
				o := ops[i]
				if o.gap > 0 {
					r.Sleep(o.gap)
				}
				o.started = true
				if r.Tracing() {
					r.Logf("caller%d starts op%d %s", k, i, o.title())
				}
				if o.fam == famMr {
					o.runMr(r)
				} else {
					o.runFx(r)
				}
				o.returned = true
				if r.Tracing() {
					r.Logf("caller%d: op%d returned (re-panicked=%v)", k, i, o.panicked)
				}
			}
		}))
	}
	if !r.JoinTimeout(joinBudget, tasks...) {
		for _, o := range ops {
			if o.started && !o.returned {
				r.Fail(o.comp()+"/stuck", "%s did not return although every worker function ends (worker slots lost?): %v", o.title(), r.AliveTasks())
				return
			}
		}
		r.Fail("workers/stuck", "the callers did not finish: %v", r.AliveTasks())
		return
	}
	// let mappers that outlive a panicking call finish
	r.Sleep(time.Hour)
	r.Quiesce()
	if r.Failed() {
		return
	}
	unlimitedSeen := false
	for _, o := range ops {
		o.check(r)
		if r.Failed() {
			return
		}
		if o.panicked {
			r.Probe("call-repanicked")
		}
		if len(o.stages) > 1 {
			r.Probe("pipeline")
		}
		for _, st := range o.stages {
			n, capped := st.opt.limit()
			switch {
			case !capped:
				r.Probe("unlimited-stage")
				if st.g.peak > 1 {
					r.Probe("unlimited-stage-overlap")
				}
			case st.opt.kind == optNone:
				r.Probe("default-workers-stage")
			case st.opt.arg < publishedMinWorkers:
				r.Probe("min-workers-stage")
			}
			if capped {
				if unlimitedSeen {
					r.Probe("capped-after-unlimited")
				}
				if st.g.peak == n {
					r.Probe("all-workers-busy")
				}
			}
		}
		for _, st := range o.stages {
			if _, capped := st.opt.limit(); !capped {
				unlimitedSeen = true
			}
		}
	}
	if nops > 1 {
		r.Probe("operation-sequence")
		if callers > 1 {
			r.Probe("concurrent-operations")
		}
	}
	r.Probe("oracle")
}
