package c05

import (
	"context"
	"fmt"
	"net/http"
	"net/http/httptest"
	"strconv"
	"time"

	"github.com/zeromicro/go-zero/rest/handler"

	"verifsim/simrt"
)

// rest/handler.MaxConnsHandler driven with recorder/request objects (no sockets).

type hreq struct {
	id         int
	h          hold
	gate       chan struct{}
	nextCalled bool
	code       int
	panicked   bool
}

type connsWorld struct {
	r    *simrt.Run
	n    int
	g    *gauge
	h    http.Handler
	reqs []*hreq
}

func (w *connsWorld) next(rw http.ResponseWriter, req *http.Request) {
	id, err := strconv.Atoi(req.Header.Get("X-C05-Req"))
	if err != nil || id < 0 || id >= len(w.reqs) {
		w.r.Fail("maxconns/foreign-request", "next handler got an unknown request %q", req.Header.Get("X-C05-Req"))
		return
	}
	rq := w.reqs[id]
	rq.nextCalled = true
	who := fmt.Sprintf("req%d", id)
	rw.WriteHeader(http.StatusOK)
	w.g.enter(who)
	defer w.g.exit(who)
	for i := 0; i < rq.h.yields; i++ {
		w.r.Yield()
	}
	if rq.h.dur > 0 {
		w.r.Sleep(rq.h.dur)
	}
	if rq.gate != nil {
		simrt.Recv("gate", rq.gate)
	}
	if rq.h.panics {
		w.r.Probe("holder-panicked")
		panic(holderPanic{who})
	}
}

// serve performs one request like a server goroutine would (a handler panic ends the request).
// It returns true if the request was admitted; a refusal must be a 503.
func (w *connsWorld) serve(h hold, gate chan struct{}) (admitted, valid bool) {
	return w.serveCtx(h, gate, -1)
}

// serveCtx: with cancelAfter >= 0 the request context is cancelled that long after the
// request was made (the client went away) - possibly while the handler is still running,
// which does not end the handler and therefore must not free its slot.  Like net/http, the
// context is cancelled in any case once ServeHTTP has returned.
func (w *connsWorld) serveCtx(h hold, gate chan struct{}, cancelAfter time.Duration) (admitted, valid bool) {
	rq := &hreq{id: len(w.reqs), h: h, gate: gate}
	w.reqs = append(w.reqs, rq)
	rec := httptest.NewRecorder()
	req := httptest.NewRequest(http.MethodGet, "/c05", nil)
	req.Header.Set("X-C05-Req", strconv.Itoa(rq.id))
	ctx, cancel := context.WithCancel(context.Background())
	defer cancel()
	req = req.WithContext(ctx)
	if cancelAfter >= 0 {
		w.r.Probe("request-context-cancelled-by-client")
		w.r.Go(fmt.Sprintf("client-gone%d", rq.id), func() {
			if cancelAfter > 0 {
				w.r.Sleep(cancelAfter)
			}
			cancel()
		})
	}
	rq.panicked = guard(func() { w.h.ServeHTTP(rec, req) })
	rq.code = rec.Code
	if rq.nextCalled {
		return true, true
	}
	if rq.panicked {
		w.r.Fail("maxconns/foreign-panic", "request %d panicked without reaching the next handler", rq.id)
		return false, false
	}
	if rq.code != http.StatusServiceUnavailable {
		w.r.Fail("maxconns/refused-without-503", "request %d was not passed on but answered with status %d, want 503", rq.id, rq.code)
		return false, false
	}
	return false, true
}

func maxConnsRun(r *simrt.Run, tier string) {
	t := r.Tape
	w := &connsWorld{r: r}
	n := t.Range(1, maxN(tier))
	k := t.Range(n+1, 3*n)
	perTask := t.Range(1, maxOps(tier))
	allowPanic := t.Chance(1, 2)
	w.n = n
	w.g = newGauge(r, "maxconns", n)
	w.h = handler.MaxConnsHandler(n)(http.HandlerFunc(w.next))
	type op struct {
		think  time.Duration
		h      hold
		cancel time.Duration // < 0: the client stays until the response
	}
	plans := make([][]op, k)
	for i := range plans {
		for j := 0; j < perTask; j++ {
			o := op{think: drawDur(t) / 2, h: drawHold(t, allowPanic), cancel: -1}
			if t.Chance(1, 3) {
				// the client goes away at once, halfway through or at the end of the hold time
				o.cancel = o.h.dur * time.Duration(t.Intn(3)) / 2
			}
			plans[i] = append(plans[i], o)
		}
	}
	if r.Tracing() {
		r.Logf("maxconns n=%d clients=%d plans=%+v", n, k, plans)
	}
	r.Sample(map[string]any{"component": "maxconns", "capacity": n, "clients": k, "requests_per_client": perTask,
		"panics_enabled": allowPanic, "first_client_plan": fmt.Sprintf("%+v", plans[0])})
	var clients []*simrt.Task
	for i := 0; i < k; i++ {
		i := i
		clients = append(clients, r.Go(fmt.Sprintf("client%d", i), func() {
			for _, p := range plans[i] {
				if p.think > 0 {
					r.Sleep(p.think)
				}
				admitted, valid := w.serveCtx(p.h, nil, p.cancel)
				if !valid {
					return
				}
				if !admitted {
					r.Probe("refused")
				}
			}
		}))
	}
	if !r.JoinTimeout(joinBudget, clients...) {
		r.Fail("maxconns/stuck", "requests did not finish although every handler returns: %v", r.AliveTasks())
		return
	}
	r.Quiesce()
	if r.Failed() {
		return
	}
	// no request in flight: exactly n are let through at once
	gate := make(chan struct{})
	var gated []*simrt.Task
	decided := 0
	for i := 0; i < n; i++ {
		gone := time.Duration(-1)
		if t.Chance(1, 3) {
			gone = 0 // its client goes away while it waits on the gate: the slot stays taken
		}
		gated = append(gated, r.Go(fmt.Sprintf("gated%d", i), func() {
			w.serveCtx(hold{}, gate, gone)
			decided++
		}))
	}
	// every gated request ends up either inside the next handler (blocked on the gate) or
	// answered; injected stalls take virtual time, so give them time to get there
	settle(r, func() bool { return w.g.in+decided >= n })
	if r.Failed() {
		return
	}
	if w.g.in != n {
		r.Fail("maxconns/capacity-leak", "with no request in flight only %d of %d concurrent requests were let through (%d requests ended before, %d by panic)",
			w.g.in, n, w.g.exited, w.panics())
		return
	}
	admitted, valid := w.serve(hold{}, nil)
	if !valid {
		return
	}
	if admitted {
		return // cap-exceeded was reported by the gauge
	}
	r.Probe("refused-at-cap")
	simrt.Close("gate", gate)
	if !r.JoinTimeout(checkBudget, gated...) {
		r.Fail("maxconns/stuck", "gated requests did not finish: %v", r.AliveTasks())
		return
	}
	// and once they have left, a request is let through again
	admitted, valid = w.serve(hold{}, nil)
	if !valid {
		return
	}
	if !admitted {
		r.Fail("maxconns/capacity-leak", "a request was refused although no request is in flight")
		return
	}
	r.Probe("oracle")
}

func (w *connsWorld) panics() int {
	c := 0
	for _, rq := range w.reqs {
		if rq.panicked {
			c++
		}
	}
	return c
}
