package c05

import (
	"fmt"
	"testing"
	"time"

	"github.com/zeromicro/go-zero/core/logx"

	"verifsim/simharness"
	"verifsim/simrt"
)

// C05: concurrency caps are never exceeded and capacity is never leaked.
//
// Every component harness follows the same scheme:
//   - a harness gauge counts the holders that are *certainly* inside the guarded
//     region: it is incremented right after the acquiring call returned (or at the
//     first instruction of the callback) and decremented *before* the releasing call
//     is made (or as the last action of the callback), with no scheduling point in
//     between.  So gauge <= (true number of holders) at every instant and
//     "gauge > n" is a sound cap violation;
//   - refusals must have the documented form (false / ErrTimeout / ErrTaskRunnerBusy / 503)
//     and a refused request must never reach the guarded region;
//   - when every holder has finished (also the panicking ones) the harness is the only
//     user of the primitive: exactly n acquisitions must succeed, the (n+1)-th must be
//     refused or stay blocked, and it must be admitted once one holder leaves.

type hold struct {
	yields int
	dur    time.Duration
	panics bool
}

func (h hold) String() string {
	s := fmt.Sprintf("y%d/%v", h.yields, h.dur)
	if h.panics {
		s += "/panic"
	}
	return s
}

func drawDur(t *simrt.Tape) time.Duration {
	switch t.Intn(4) {
	case 0, 1:
		return 0
	case 2:
		return time.Duration(t.Range(1, 50)) * time.Millisecond
	default:
		return time.Duration(t.Range(1, 5)) * time.Second
	}
}

// drawHold always consumes the same number of draws, whether or not panics are enabled.
func drawHold(t *simrt.Tape, allowPanic bool) hold {
	h := hold{yields: t.Intn(3), dur: drawDur(t)}
	p := t.Chance(1, 4)
	h.panics = allowPanic && p
	return h
}

type holderPanic struct{ who string }

// gauge is the in-region counter of one capped primitive.
type gauge struct {
	r       *simrt.Run
	comp    string
	n       int
	nocap   bool // the primitive was explicitly configured without a cap: nothing to assert, holders are only counted
	in      int
	peak    int
	entered int
	exited  int
}

func newGauge(r *simrt.Run, comp string, n int) *gauge {
	return &gauge{r: r, comp: comp, n: n}
}

func (g *gauge) enter(who string) {
	g.in++
	g.entered++
	if g.in > g.peak {
		g.peak = g.in
	}
	g.r.Ev("enter", int64(g.in))
	if g.r.Tracing() {
		if g.nocap {
			g.r.Logf("%s: %s enters, %d inside (no cap)", g.comp, who, g.in)
		} else {
			g.r.Logf("%s: %s enters, %d inside (cap %d)", g.comp, who, g.in, g.n)
		}
	}
	if g.nocap {
		return
	}
	if g.in > g.n {
		g.r.Fail(g.comp+"/cap-exceeded", "%s: %d holders inside the guarded region, capacity is %d (last in: %s)", g.comp, g.in, g.n, who)
	}
	if g.in == g.n {
		g.r.Probe("at-cap")
	}
}

func (g *gauge) exit(who string) {
	g.in--
	g.exited++
	g.r.Ev("exit", int64(g.in))
	if g.r.Tracing() {
		g.r.Logf("%s: %s leaves, %d inside", g.comp, who, g.in)
	}
}

// region is the body of a holder: enter, take virtual time / scheduling points,
// possibly panic, and leave.  The gauge is left (deferred) before the caller's
// frame unwinds any further, i.e. before the primitive can release the slot.
func (g *gauge) region(who string, h hold) {
	g.enter(who)
	defer g.exit(who)
	for i := 0; i < h.yields; i++ {
		g.r.Yield()
	}
	if h.dur > 0 {
		g.r.Sleep(h.dur)
	}
	if h.panics {
		g.r.Probe("holder-panicked")
		panic(holderPanic{who})
	}
}

// guard runs f and swallows a holder panic (like a server would), reporting whether one happened.
func guard(f func()) (panicked bool) {
	defer func() {
		if rec := recover(); rec != nil {
			if _, ok := rec.(holderPanic); !ok {
				panic(rec)
			}
			panicked = true
		}
	}()
	f()
	return false
}

// settle waits (virtual time) until cond holds and nothing else can run; tasks hit by an
// injected stall need time, which Quiesce alone does not give them.
func settle(r *simrt.Run, cond func() bool) bool {
	r.Quiesce()
	for i := 0; i < 600 && !cond(); i++ {
		r.Sleep(time.Second)
		r.Quiesce()
	}
	return cond()
}

func maxN(tier string) int {
	if tier == "thorough" {
		return 8
	}
	return 5
}

func maxOps(tier string) int {
	if tier == "thorough" {
		return 5
	}
	return 3
}

const (
	joinBudget  = 6 * time.Hour
	checkBudget = time.Hour
)

func body(r *simrt.Run, tier string) {
	switch r.Tape.Intn(9) {
	case 0:
		limitRun(r, tier, false)
	case 1:
		limitRun(r, tier, true)
	case 2:
		poolRun(r, tier)
	case 3:
		taskRunnerRun(r, tier)
	case 4:
		maxConnsRun(r, tier)
	case 5:
		workerGroupRun(r, tier)
	case 6:
		workersRun(r, tier, famMr)
	case 7:
		workersRun(r, tier, famFx)
	default:
		poolRun(r, tier)
	}
}

func TestSim(t *testing.T) {
	logx.Disable()
	simharness.Main(t, &simharness.Spec{ID: "C05", Body: body, StuckIsViolation: true, CrashIsViolation: true})
}
