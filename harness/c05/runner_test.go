package c05

import (
	"fmt"
	"time"

	"github.com/zeromicro/go-zero/core/threading"

	"verifsim/simrt"
)

// threading.TaskRunner and threading.WorkerGroup.

type rtask struct {
	id       int
	admitted bool // the scheduling call returned success
	refused  bool // ScheduleImmediately returned ErrTaskRunnerBusy
	started  bool
	ended    bool
}

type runnerWorld struct {
	r      *simrt.Run
	n      int
	g      *gauge
	runner *threading.TaskRunner
	tasks  []*rtask
}

func (w *runnerWorld) newTask(h hold, gate chan struct{}) (*rtask, func()) {
	tk := &rtask{id: len(w.tasks)}
	w.tasks = append(w.tasks, tk)
	who := fmt.Sprintf("task%d", tk.id)
	return tk, func() {
		if tk.refused {
			w.r.Fail("taskrunner/refused-but-ran", "task %d runs although ScheduleImmediately returned ErrTaskRunnerBusy", tk.id)
		}
		tk.started = true
		defer func() { tk.ended = true }()
		w.g.enter(who)
		defer w.g.exit(who)
		for i := 0; i < h.yields; i++ {
			w.r.Yield()
		}
		if h.dur > 0 {
			w.r.Sleep(h.dur)
		}
		if gate != nil {
			simrt.Recv("gate", gate)
		}
		if h.panics {
			w.r.Probe("holder-panicked")
			panic(holderPanic{who})
		}
	}
}

// immediately schedules without blocking and classifies the answer.
func (w *runnerWorld) immediately(tk *rtask, fn func()) (ok, valid bool) {
	err := w.runner.ScheduleImmediately(fn)
	switch err {
	case nil:
		tk.admitted = true
		return true, true
	case threading.ErrTaskRunnerBusy:
		tk.refused = true
		if tk.started {
			w.r.Fail("taskrunner/refused-but-ran", "task %d was started although ScheduleImmediately returned ErrTaskRunnerBusy", tk.id)
			return false, false
		}
		return false, true
	default:
		w.r.Fail("taskrunner/bad-refusal", "ScheduleImmediately returned %v, neither nil nor ErrTaskRunnerBusy", err)
		return false, false
	}
}

// waitAll calls Wait (no scheduling call is in flight) and checks that every admitted task has ended.
func (w *runnerWorld) waitAll(when string) bool {
	r := w.r
	wt := r.Go("wait", func() { w.runner.Wait() })
	if !r.JoinTimeout(joinBudget, wt) {
		r.Fail("taskrunner/stuck", "%s: Wait did not return although every task body ends: %v", when, r.AliveTasks())
		return false
	}
	for _, tk := range w.tasks {
		if tk.admitted && !tk.ended {
			r.Fail("taskrunner/wait-early", "%s: Wait returned while admitted task %d has not ended (started=%v)", when, tk.id, tk.started)
			return false
		}
	}
	return !r.Failed()
}

func taskRunnerRun(r *simrt.Run, tier string) {
	t := r.Tape
	w := &runnerWorld{r: r}
	n := t.Range(1, maxN(tier))
	k := t.Range(1, 3)
	perTask := t.Range(n+1, 3*n) / k
	if perTask < 1 {
		perTask = 1
	}
	allowPanic := t.Chance(1, 2)
	blockedProbe := t.Bool()
	w.n = n
	w.g = newGauge(r, "taskrunner", n)
	w.runner = threading.NewTaskRunner(n)
	type op struct {
		think time.Duration
		block bool
		h     hold
	}
	plans := make([][]op, k)
	for i := range plans {
		for j := 0; j < perTask; j++ {
			plans[i] = append(plans[i], op{think: drawDur(t) / 4, block: t.Bool(), h: drawHold(t, allowPanic)})
		}
	}
	if r.Tracing() {
		r.Logf("taskrunner n=%d schedulers=%d plans=%+v", n, k, plans)
	}
	r.Sample(map[string]any{"component": "taskrunner", "capacity": n, "schedulers": k, "tasks_per_scheduler": perTask,
		"panics_enabled": allowPanic, "first_scheduler_plan": fmt.Sprintf("%+v", plans[0])})
	var clients []*simrt.Task
	for i := 0; i < k; i++ {
		i := i
		clients = append(clients, r.Go(fmt.Sprintf("sched%d", i), func() {
			for _, p := range plans[i] {
				if p.think > 0 {
					r.Sleep(p.think)
				}
				tk, fn := w.newTask(p.h, nil)
				if p.block {
					w.runner.Schedule(fn)
					tk.admitted = true
					continue
				}
				ok, valid := w.immediately(tk, fn)
				if !valid {
					return
				}
				if !ok {
					r.Probe("refused")
				}
			}
		}))
	}
	if !r.JoinTimeout(joinBudget, clients...) {
		r.Fail("taskrunner/stuck", "Schedule calls did not return although every task body ends: %v", r.AliveTasks())
		return
	}
	if !w.waitAll("after contention") {
		return
	}
	r.Quiesce()
	// the runner is idle: exactly n tasks are admitted at once
	gate := make(chan struct{})
	for i := 0; i < n; i++ {
		tk, fn := w.newTask(hold{}, gate)
		ok, valid := w.immediately(tk, fn)
		if !valid {
			return
		}
		if !ok {
			r.Fail("taskrunner/capacity-leak", "idle runner of capacity %d refused task %d of %d (slots lost after %d tasks ended)", n, i+1, n, w.g.exited)
			return
		}
	}
	r.Quiesce()
	if r.Failed() {
		return
	}
	tk, fn := w.newTask(hold{}, gate)
	ok, valid := w.immediately(tk, fn)
	if !valid {
		return
	}
	if ok {
		r.Fail("taskrunner/cap-exceeded", "runner of capacity %d admitted task number %d while %d tasks hold their slots", n, n+1, n)
		return
	}
	r.Probe("refused-at-cap")
	var bt *simrt.Task
	if blockedProbe {
		late, lfn := w.newTask(hold{}, nil)
		bt = r.Go("late-schedule", func() {
			w.runner.Schedule(lfn)
			late.admitted = true
		})
		r.Quiesce()
		if r.Failed() {
			return
		}
		r.Probe("blocked-at-cap")
	}
	simrt.Close("gate", gate)
	if bt != nil && !r.JoinTimeout(checkBudget, bt) {
		r.Fail("taskrunner/capacity-leak", "a Schedule blocked at the cap was not admitted after the running tasks ended")
		return
	}
	if !w.waitAll("after capacity check") {
		return
	}
	r.Probe("oracle")
}

func workerGroupRun(r *simrt.Run, tier string) {
	t := r.Tape
	n := t.Range(1, maxN(tier))
	allowPanic := t.Chance(1, 2)
	holds := make([]hold, n+2)
	for i := range holds {
		holds[i] = drawHold(t, allowPanic)
	}
	g := newGauge(r, "workergroup", n)
	r.Sample(map[string]any{"component": "workergroup", "workers": n, "panics_enabled": allowPanic, "job_holds": fmt.Sprintf("%v", holds)})
	inv := 0
	job := func() {
		idx := inv
		inv++
		if inv > n {
			r.Fail("workergroup/too-many-workers", "job invoked %d times by a group of %d workers", inv, n)
		}
		g.region(fmt.Sprintf("worker%d", idx), holds[idx%len(holds)])
	}
	st := r.Go("start", func() { threading.NewWorkerGroup(job, n).Start() })
	if !r.JoinTimeout(joinBudget, st) {
		r.Fail("workergroup/stuck", "Start did not return although every job ends: %v", r.AliveTasks())
		return
	}
	r.Sleep(time.Minute)
	r.Quiesce()
	r.Probe("oracle")
}
