package c05

import (
	"fmt"
	"time"

	"github.com/zeromicro/go-zero/core/syncx"

	"verifsim/simrt"
)

// syncx.Pool: at most n live resources, at most n holders, one owner per resource.

type resource struct {
	id        int
	owner     string // "" = in the pool
	destroyed bool
}

type poolWorld struct {
	r       *simrt.Run
	n       int
	g       *gauge
	pool    *syncx.Pool
	live    int
	created int
	killed  int
}

// take validates a value handed out by Get and tags it with its new owner.
func (w *poolWorld) take(x any, who string) *resource {
	res, ok := x.(*resource)
	if !ok || res == nil {
		w.r.Fail("pool/foreign-resource", "Get returned %v (%T), not a resource made by create", x, x)
		return nil
	}
	if res.owner != "" {
		w.r.Fail("pool/double-owner", "resource %d handed to %s while %s still holds it", res.id, who, res.owner)
		return nil
	}
	if res.destroyed {
		w.r.Probe("got-destroyed-resource")
	}
	res.owner = who
	return res
}

func (w *poolWorld) give(res *resource) {
	res.owner = ""
	w.pool.Put(res)
}

func poolRun(r *simrt.Run, tier string) {
	t := r.Tape
	w := &poolWorld{r: r}
	n := t.Range(1, maxN(tier))
	k := t.Range(n+1, 3*n)
	perTask := t.Range(1, maxOps(tier))
	var maxAge time.Duration
	switch t.Intn(3) {
	case 1:
		maxAge = time.Duration(t.Range(1, 100)) * time.Millisecond
	case 2:
		maxAge = time.Duration(t.Range(1, 5)) * time.Second
	}
	createYields := t.Intn(3)
	createDur := drawDur(t) / 4
	idle := []time.Duration{0, maxAge / 2, maxAge + time.Millisecond, 10 * time.Second}[t.Intn(4)]
	w.n = n
	w.g = newGauge(r, "pool", n)
	create := func() any {
		w.live++
		w.created++
		res := &resource{id: w.created}
		r.Ev("create", int64(w.live))
		if w.live > n {
			r.Fail("pool/created-over-limit", "pool of %d has %d live resources (resource %d just created)", n, w.live, res.id)
		}
		for i := 0; i < createYields; i++ {
			r.Yield()
		}
		if createDur > 0 {
			r.Sleep(createDur)
		}
		return res
	}
	destroy := func(x any) {
		w.live--
		w.killed++
		r.Probe("resource-expired")
		r.Ev("destroy", int64(w.live))
		if res, ok := x.(*resource); ok && res != nil {
			res.destroyed = true
		}
	}
	var opts []syncx.PoolOption
	if maxAge > 0 {
		opts = append(opts, syncx.WithMaxAge(maxAge))
	}
	w.pool = syncx.NewPool(n, create, destroy, opts...)
	type op struct {
		think time.Duration
		h     hold
	}
	plans := make([][]op, k)
	for i := range plans {
		for j := 0; j < perTask; j++ {
			plans[i] = append(plans[i], op{think: drawDur(t) / 2, h: drawHold(t, false)})
		}
	}
	if r.Tracing() {
		r.Logf("pool n=%d contenders=%d maxAge=%v create=y%d/%v idle=%v plans=%+v", n, k, maxAge, createYields, createDur, idle, plans)
	}
	r.Sample(map[string]any{"component": "pool", "capacity": n, "contenders": k, "ops_per_contender": perTask, "max_age": maxAge.String(),
		"create_cost": fmt.Sprintf("y%d/%v", createYields, createDur), "idle_before_check": idle.String(), "first_contender_plan": fmt.Sprintf("%+v", plans[0])})

	var tasks []*simrt.Task
	for i := 0; i < k; i++ {
		i := i
		who := fmt.Sprintf("c%d", i)
		tasks = append(tasks, r.Go(who, func() {
			for _, p := range plans[i] {
				if p.think > 0 {
					r.Sleep(p.think)
				}
				res := w.take(w.pool.Get(), who)
				if res == nil {
					return
				}
				w.g.region(who, p.h)
				w.give(res)
			}
		}))
	}
	if !r.JoinTimeout(joinBudget, tasks...) {
		r.Fail("pool/stuck", "pool users did not finish although every holder puts its resource back: %v", r.AliveTasks())
		return
	}
	r.Quiesce()
	if r.Failed() {
		return
	}
	if idle > 0 {
		r.Sleep(idle)
	}
	// nobody holds a resource now: exactly n can be taken
	var held []*resource
	chk := r.Go("take-all", func() {
		for i := 0; i < n; i++ {
			res := w.take(w.pool.Get(), "main")
			if res == nil {
				return
			}
			held = append(held, res)
			w.g.enter("main")
		}
	})
	if !r.JoinTimeout(checkBudget, chk) {
		r.Fail("pool/capacity-leak", "with no holder left only %d of %d resources could be obtained, the next Get blocks (created %d, destroyed %d)", len(held), n, w.created, w.killed)
		return
	}
	if r.Failed() {
		return
	}
	var late *resource
	bt := r.Go("late-getter", func() {
		late = w.take(w.pool.Get(), "late-getter")
		if late != nil {
			w.g.enter("late-getter") // cap-exceeded unless main has left one
		}
	})
	r.Quiesce()
	if r.Failed() {
		return
	}
	r.Probe("blocked-at-cap")
	w.g.exit("main")
	w.give(held[0])
	held = held[1:]
	if !r.JoinTimeout(checkBudget, bt) {
		r.Fail("pool/capacity-leak", "a Get blocked at the cap was not served after a resource was put back")
		return
	}
	if r.Failed() || late == nil {
		return
	}
	held = append(held, late)
	for _, res := range held {
		w.g.exit("main")
		w.give(res)
	}
	r.Probe("oracle")
}
