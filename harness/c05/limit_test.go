package c05

import (
	"fmt"
	"time"

	"github.com/zeromicro/go-zero/core/syncx"

	"verifsim/simrt"
)

// syncx.Limit and syncx.TimeoutLimit.

type limWorld struct {
	r        *simrt.Run
	comp     string
	n        int
	g        *gauge
	timeout  bool
	lim      syncx.Limit
	tl       syncx.TimeoutLimit
	admitted int
	refused  int
}

func (w *limWorld) try() bool {
	if w.timeout {
		return w.tl.TryBorrow()
	}
	return w.lim.TryBorrow()
}

func (w *limWorld) ret() error {
	if w.timeout {
		return w.tl.Return()
	}
	return w.lim.Return()
}

// release leaves the region and gives the permit back; a holder's own Return must succeed.
func (w *limWorld) release(who string) bool {
	w.g.exit(who)
	if err := w.ret(); err != nil {
		w.r.Fail(w.comp+"/return-error", "%s: Return of a borrowed permit by %s failed: %v", w.comp, who, err)
		return false
	}
	return true
}

type limOp struct {
	think   time.Duration
	block   bool // Borrow (blocking / with timeout) instead of TryBorrow
	timeout time.Duration
	h       hold
}

func limitRun(r *simrt.Run, tier string, withTimeout bool) {
	t := r.Tape
	w := &limWorld{r: r, comp: "limit", timeout: withTimeout}
	if withTimeout {
		w.comp = "timeoutlimit"
	}
	n := t.Range(1, maxN(tier))
	k := t.Range(n+1, 3*n)
	perTask := t.Range(1, maxOps(tier))
	extraReturns := t.Intn(3)
	blockedProbe := t.Bool()
	releaseEarly := t.Bool()
	probeTimeout := []time.Duration{0, 10 * time.Millisecond, 2 * time.Second}[t.Intn(3)]
	w.n = n
	w.g = newGauge(r, w.comp, n)
	if withTimeout {
		w.tl = syncx.NewTimeoutLimit(n)
	} else {
		w.lim = syncx.NewLimit(n)
	}
	plans := make([][]limOp, k)
	for i := range plans {
		for j := 0; j < perTask; j++ {
			plans[i] = append(plans[i], limOp{think: drawDur(t) / 2, block: t.Bool(), timeout: drawDur(t), h: drawHold(t, false)})
		}
	}
	if r.Tracing() {
		r.Logf("%s n=%d contenders=%d plans=%+v extraReturns=%d", w.comp, n, k, plans, extraReturns)
	}
	r.Sample(map[string]any{"component": w.comp, "capacity": n, "contenders": k, "ops_per_contender": perTask,
		"extra_returns": extraReturns, "first_contender_plan": fmt.Sprintf("%+v", plans[0])})

	var tasks []*simrt.Task
	for i := 0; i < k; i++ {
		i := i
		who := fmt.Sprintf("c%d", i)
		tasks = append(tasks, r.Go(who, func() {
			for _, p := range plans[i] {
				if p.think > 0 {
					r.Sleep(p.think)
				}
				got := false
				switch {
				case !p.block:
					got = w.try()
				case withTimeout:
					switch err := w.tl.Borrow(p.timeout); err {
					case nil:
						got = true
					case syncx.ErrTimeout:
						r.Probe("borrow-timed-out")
					default:
						r.Fail(w.comp+"/bad-refusal", "Borrow(%v) returned %v, neither nil nor ErrTimeout", p.timeout, err)
						return
					}
				default:
					w.lim.Borrow()
					got = true
				}
				if !got {
					w.refused++
					r.Probe("refused")
					continue
				}
				w.admitted++
				w.g.region(who, p.h)
				if err := w.ret(); err != nil {
					r.Fail(w.comp+"/return-error", "%s: Return of a borrowed permit by %s failed: %v", w.comp, who, err)
					return
				}
			}
		}))
	}
	if !r.JoinTimeout(joinBudget, tasks...) {
		r.Fail(w.comp+"/stuck", "%s: contenders did not finish although every holder returns its permit: %v", w.comp, r.AliveTasks())
		return
	}
	r.Quiesce()
	if r.Failed() {
		return
	}
	// nobody holds a permit now
	if !w.capacityCheck("after contention", blockedProbe, releaseEarly, probeTimeout) {
		return
	}
	if extraReturns > 0 {
		for i := 0; i < extraReturns; i++ {
			var err error
			rt := r.Go("over-return", func() { err = w.ret() })
			if !r.JoinTimeout(checkBudget, rt) {
				r.Fail(w.comp+"/over-return-blocked", "%s: Return with nothing borrowed did not return (no error reported)", w.comp)
				return
			}
			if err != syncx.ErrLimitReturn {
				r.Fail(w.comp+"/over-return-not-reported", "%s: Return with nothing borrowed returned %v, want ErrLimitReturn", w.comp, err)
				return
			}
			r.Probe("over-return-reported")
		}
		if !w.capacityCheck("after over-return", false, false, 0) {
			return
		}
	}
	r.Probe("oracle")
}

// capacityCheck runs with no permit outstanding: exactly n permits can be taken.
func (w *limWorld) capacityCheck(when string, blockedProbe, releaseEarly bool, probeTimeout time.Duration) bool {
	r := w.r
	for i := 0; i < w.n; i++ {
		if !w.try() {
			r.Fail(w.comp+"/capacity-leak", "%s %s: with no holder left only %d of %d permits could be borrowed", w.comp, when, i, w.n)
			return false
		}
		w.g.enter("main")
	}
	if w.try() {
		w.g.enter("main-extra") // reports cap-exceeded
		return false
	}
	r.Probe("refused-at-cap")
	held := w.n
	if blockedProbe {
		// a borrower beyond the cap stays blocked (or times out) while all permits are out
		var berr error
		admitted := false
		bt := r.Go("late-borrower", func() {
			if w.timeout {
				berr = w.tl.Borrow(probeTimeout)
			} else {
				w.lim.Borrow()
			}
			if berr == nil {
				admitted = true
				w.g.enter("late-borrower")
			}
		})
		r.Quiesce()
		if r.Failed() {
			return false
		}
		if !w.timeout || releaseEarly {
			if w.timeout && bt.Done() {
				// already timed out (timeout 0): nothing to hand over
			} else {
				r.Probe("blocked-at-cap")
			}
			if !w.release("main") {
				return false
			}
			held--
		} else {
			r.Sleep(probeTimeout + time.Millisecond)
		}
		if !r.JoinTimeout(checkBudget, bt) {
			r.Fail(w.comp+"/capacity-leak", "%s %s: a Borrow blocked at the cap was not admitted after a permit was returned", w.comp, when)
			return false
		}
		if r.Failed() {
			return false
		}
		switch {
		case admitted:
			held++
			r.Probe("late-borrower-admitted")
		case berr == syncx.ErrTimeout:
			r.Probe("late-borrower-timed-out")
		default:
			r.Fail(w.comp+"/bad-refusal", "Borrow(%v) at the cap returned %v, neither nil nor ErrTimeout", probeTimeout, berr)
			return false
		}
	}
	for i := 0; i < held; i++ {
		if !w.release("main") {
			return false
		}
	}
	return true
}
