package c05

import (
	"fmt"
	"time"

	"github.com/zeromicro/go-zero/core/syncx"

	"verifsim/simrt"
)

// syncx.Limit and syncx.TimeoutLimit.

type limWorld struct {
	r        *simrt.Run
	comp     string
	n        int
	g        *gauge
	timeout  bool
	lim      syncx.Limit
	tl       syncx.TimeoutLimit
	admitted int
	refused  int
}

func (w *limWorld) try() bool {
	if w.timeout {
		return w.tl.TryBorrow()
	}
	return w.lim.TryBorrow()
}

func (w *limWorld) ret() error {
	if w.timeout {
		return w.tl.Return()
	}
	return w.lim.Return()
}

// release leaves the region and gives the permit back; a holder's own Return must succeed.
func (w *limWorld) release(who string) bool {
	w.g.exit(who)
	if err := w.ret(); err != nil {
		w.r.Fail(w.comp+"/return-error", "%s: Return of a borrowed permit by %s failed: %v", w.comp, who, err)
		return false
	}
	return true
}

type limOp struct {
	think   time.Duration
	block   bool // Borrow (blocking / with timeout) instead of TryBorrow
	timeout time.Duration
	h       hold
}

func limitRun(r *simrt.Run, tier string, withTimeout bool) {
	t := r.Tape
	w := &limWorld{r: r, comp: "limit", timeout: withTimeout}
	if withTimeout {
		w.comp = "timeoutlimit"
	}
	n := t.Range(1, maxN(tier))
	k := t.Range(n+1, 3*n)
	perTask := t.Range(1, maxOps(tier))
	extraReturns := t.Intn(3)
	blockedProbe := t.Bool()
	releaseEarly := t.Bool()
	probeTimeout := []time.Duration{0, 10 * time.Millisecond, 2 * time.Second}[t.Intn(3)]
	racingLate := t.Intn(4) // 0 = no racing-late-borrower phase
	raceTimeout := []time.Duration{time.Hour, 2 * time.Second, 10 * time.Millisecond, 0}[t.Intn(4)]
	racingReturns := t.Intn(3) // 0 = no racing-returns round
	w.n = n
	w.g = newGauge(r, w.comp, n)
	if withTimeout {
		w.tl = syncx.NewTimeoutLimit(n)
	} else {
		w.lim = syncx.NewLimit(n)
	}
	plans := make([][]limOp, k)
	for i := range plans {
		for j := 0; j < perTask; j++ {
			plans[i] = append(plans[i], limOp{think: drawDur(t) / 2, block: t.Bool(), timeout: drawDur(t), h: drawHold(t, false)})
		}
	}
	if r.Tracing() {
		r.Logf("%s n=%d contenders=%d plans=%+v extraReturns=%d", w.comp, n, k, plans, extraReturns)
	}
	r.Sample(map[string]any{"component": w.comp, "capacity": n, "contenders": k, "ops_per_contender": perTask,
		"extra_returns": extraReturns, "first_contender_plan": fmt.Sprintf("%+v", plans[0])})

	var tasks []*simrt.Task
	for i := 0; i < k; i++ {
		i := i
		who := fmt.Sprintf("c%d", i)
		tasks = append(tasks, r.Go(who, func() {
			for _, p := range plans[i] {
				if p.think > 0 {
					r.Sleep(p.think)
				}
				got := false
				switch {
				case !p.block:
					got = w.try()
				case withTimeout:
					switch err := w.tl.Borrow(p.timeout); err {
					case nil:
						got = true
					case syncx.ErrTimeout:
						r.Probe("borrow-timed-out")
					default:
						r.Fail(w.comp+"/bad-refusal", "Borrow(%v) returned %v, neither nil nor ErrTimeout", p.timeout, err)
						return
					}
				default:
					w.lim.Borrow()
					got = true
				}
				if !got {
					w.refused++
					r.Probe("refused")
					continue
				}
				w.admitted++
				w.g.region(who, p.h)
				if err := w.ret(); err != nil {
					r.Fail(w.comp+"/return-error", "%s: Return of a borrowed permit by %s failed: %v", w.comp, who, err)
					return
				}
			}
		}))
	}
	if !r.JoinTimeout(joinBudget, tasks...) {
		r.Fail(w.comp+"/stuck", "%s: contenders did not finish although every holder returns its permit: %v", w.comp, r.AliveTasks())
		return
	}
	r.Quiesce()
	if r.Failed() {
		return
	}
	// nobody holds a permit now
	if !w.capacityCheck("after contention", blockedProbe, releaseEarly, probeTimeout) {
		return
	}
	if extraReturns > 0 {
		for i := 0; i < extraReturns; i++ {
			var err error
			rt := r.Go("over-return", func() { err = w.ret() })
			if !r.JoinTimeout(checkBudget, rt) {
				r.Fail(w.comp+"/over-return-blocked", "%s: Return with nothing borrowed did not return (no error reported)", w.comp)
				return
			}
			if err != syncx.ErrLimitReturn {
				r.Fail(w.comp+"/over-return-not-reported", "%s: Return with nothing borrowed returned %v, want ErrLimitReturn", w.comp, err)
				return
			}
			r.Probe("over-return-reported")
		}
		if !w.capacityCheck("after over-return", false, false, 0) {
			return
		}
	}
	for i := 0; i < racingLate; i++ {
		if !w.racingLateBorrower(i, raceTimeout) {
			return
		}
	}
	for i := 0; i < racingReturns; i++ {
		if !w.racingReturnsRound(i) {
			return
		}
	}
	r.Probe("oracle")
}

// racingReturnsRound: main holds k of the n permits (nothing else is outstanding, nobody waits) and k+x
// tasks call Return at the same time.  However they interleave, exactly k of the calls give a permit back
// (nil) and x are refused with ErrLimitReturn; no Return blocks; afterwards all n permits are available.
func (w *limWorld) racingReturnsRound(round int) bool {
	r, t := w.r, w.r.Tape
	k := t.Range(0, w.n)
	x := t.Range(1, 3)
	for i := 0; i < k; i++ {
		if !w.try() {
			r.Fail(w.comp+"/capacity-leak", "%s racing-returns round %d: with no holder left only %d of %d permits could be borrowed", w.comp, round, i, w.n)
			return false
		}
		w.g.enter("main")
	}
	for i := 0; i < k; i++ {
		w.g.exit("main") // the permits are handed to the returning tasks
	}
	errs := make([]error, k+x)
	var ts []*simrt.Task
	for i := 0; i < k+x; i++ {
		i := i
		ts = append(ts, r.Go(fmt.Sprintf("returner%d", i), func() { errs[i] = w.ret() }))
	}
	if !r.JoinTimeout(checkBudget, ts...) {
		r.Fail(w.comp+"/over-return-blocked", "%s: %d Return calls racing on %d outstanding permit(s): a Return did not return: %v", w.comp, k+x, k, r.AliveTasks())
		return false
	}
	r.Quiesce()
	if r.Failed() {
		return false
	}
	okN, refused := 0, 0
	for _, e := range errs {
		switch e {
		case nil:
			okN++
		case syncx.ErrLimitReturn:
			refused++
		default:
			r.Fail(w.comp+"/return-error", "%s: Return gave %v, neither nil nor ErrLimitReturn", w.comp, e)
			return false
		}
	}
	if okN != k {
		r.Fail(w.comp+"/over-return-not-reported", "%s: %d Return calls racing on %d outstanding permit(s): %d succeeded, %d were refused", w.comp, k+x, k, okN, refused)
		return false
	}
	r.Probe("racing-returns-judged")
	return w.capacityCheck("after racing returns", false, false, 0)
}

// racingLateBorrower: with every permit out, a Borrow beyond the cap is started and the holders give all
// permits back while it is still on its way (the tape decides how far it got).  At the following quiescence
// the number of outstanding permits is known exactly: a Borrow that has not returned is blocked waiting, so
// it holds nothing.  With nothing outstanding a Return must be refused with ErrLimitReturn - also while a
// waiter is parked - and the capacity stays n.
func (w *limWorld) racingLateBorrower(round int, timeout time.Duration) bool {
	r := w.r
	for i := 0; i < w.n; i++ {
		if !w.try() {
			r.Fail(w.comp+"/capacity-leak", "%s racing round %d: with no holder left only %d of %d permits could be borrowed", w.comp, round, i, w.n)
			return false
		}
		w.g.enter("main")
	}
	var berr error
	admitted := false
	bt := r.Go("racing-borrower", func() {
		if w.timeout {
			berr = w.tl.Borrow(timeout)
		} else {
			w.lim.Borrow()
		}
		if berr == nil {
			admitted = true
			w.g.enter("racing-borrower")
		}
	})
	if r.Tape.Bool() {
		r.Yield()
	}
	for i := 0; i < w.n; i++ {
		if !w.release("main") {
			return false
		}
	}
	// injected stalls (each at most 2 s, one per scheduling point) may hold the borrower anywhere on its way;
	// ten minutes later it has returned or is parked waiting
	r.Sleep(10 * time.Minute)
	r.Quiesce()
	if r.Failed() {
		return false
	}
	outstanding := 0
	switch {
	case bt.Done() && admitted:
		outstanding = 1
		r.Probe("racing-borrower-admitted")
	case bt.Done():
		if berr != syncx.ErrTimeout {
			r.Fail(w.comp+"/bad-refusal", "Borrow(%v) returned %v, neither nil nor ErrTimeout", timeout, berr)
			return false
		}
		r.Probe("racing-borrower-timed-out")
	default:
		// still inside Borrow at quiescence: parked although permits are free (it missed every wake-up)
		r.Probe("waiter-parked-with-free-capacity")
	}
	if outstanding == 0 {
		var err error
		rt := r.Go("over-return", func() { err = w.ret() })
		if !r.JoinTimeout(checkBudget, rt) {
			r.Fail(w.comp+"/over-return-blocked", "%s: Return with nothing borrowed did not return (no error reported)", w.comp)
			return false
		}
		r.Sleep(10 * time.Minute)
		r.Quiesce()
		if r.Failed() {
			return false
		}
		if !bt.Done() || !admitted {
			// nobody was admitted meanwhile: the Return had nothing to give back
			if err != syncx.ErrLimitReturn {
				r.Fail(w.comp+"/over-return-not-reported", "%s: Return with nothing borrowed (a Borrow parked: %v) returned %v, want ErrLimitReturn", w.comp, !bt.Done(), err)
				return false
			}
			r.Probe("over-return-reported")
			if !bt.Done() {
				r.Probe("over-return-with-parked-waiter")
			}
		} else {
			// the borrower was admitted while the Return ran: it may have taken its permit before the Return
			outstanding = 1
			if err == nil {
				outstanding = 0 // the Return took the borrower's permit away: misuse, stop judging this object
				return true
			}
		}
	}
	// exactly n - outstanding permits are left
	took := 0
	for i := 0; i < w.n-outstanding; i++ {
		if !w.try() {
			r.Fail(w.comp+"/capacity-leak", "%s racing round %d: %d permit(s) outstanding, only %d of the other %d could be borrowed", w.comp, round, outstanding, i, w.n-outstanding)
			return false
		}
		w.g.enter("main")
		took++
	}
	if bt.Done() || !w.timeout {
		// (a waiter still parked may be woken by nothing here; a blocked Limit.Borrow cannot exist with free permits)
		if w.try() {
			w.g.enter("main-extra") // reports cap-exceeded
			return false
		}
		r.Probe("refused-at-cap")
	}
	for i := 0; i < took; i++ {
		if !w.release("main") {
			return false
		}
	}
	// let a parked waiter finish: it is admitted (permits are free, a Return just signalled) or times out
	if !r.JoinTimeout(checkBudget+timeout, bt) {
		if timeout < checkBudget {
			r.Fail(w.comp+"/stuck", "%s: Borrow(%v) neither admitted nor timed out", w.comp, timeout)
			return false
		}
	}
	r.Quiesce()
	if r.Failed() {
		return false
	}
	if bt.Done() && admitted {
		if !w.release("racing-borrower") {
			return false
		}
	} else if !bt.Done() {
		// Borrow(1h) still parked with free permits and nobody returning any more: hand it one wake-up
		if !w.try() {
			r.Fail(w.comp+"/capacity-leak", "%s racing round %d: no permit although nobody holds one", w.comp, round)
			return false
		}
		w.g.enter("main")
		if !w.release("main") {
			return false
		}
		if !r.JoinTimeout(checkBudget+timeout, bt) {
			r.Fail(w.comp+"/stuck", "%s: a parked Borrow(%v) was not admitted after a permit came back", w.comp, timeout)
			return false
		}
		if admitted && !w.release("racing-borrower") {
			return false
		}
	}
	return !r.Failed()
}

// capacityCheck runs with no permit outstanding: exactly n permits can be taken.
func (w *limWorld) capacityCheck(when string, blockedProbe, releaseEarly bool, probeTimeout time.Duration) bool {
	r := w.r
	for i := 0; i < w.n; i++ {
		if !w.try() {
			r.Fail(w.comp+"/capacity-leak", "%s %s: with no holder left only %d of %d permits could be borrowed", w.comp, when, i, w.n)
			return false
		}
		w.g.enter("main")
	}
	if w.try() {
		w.g.enter("main-extra") // reports cap-exceeded
		return false
	}
	r.Probe("refused-at-cap")
	held := w.n
	if blockedProbe {
		// a borrower beyond the cap stays blocked (or times out) while all permits are out
		var berr error
		admitted := false
		bt := r.Go("late-borrower", func() {
			if w.timeout {
				berr = w.tl.Borrow(probeTimeout)
			} else {
				w.lim.Borrow()
			}
			if berr == nil {
				admitted = true
				w.g.enter("late-borrower")
			}
		})
		r.Quiesce()
		if r.Failed() {
			return false
		}
		if !w.timeout || releaseEarly {
			if w.timeout && bt.Done() {
				// already timed out (timeout 0): nothing to hand over
			} else {
				r.Probe("blocked-at-cap")
			}
			if !w.release("main") {
				return false
			}
			held--
		} else {
			r.Sleep(probeTimeout + time.Millisecond)
		}
		if !r.JoinTimeout(checkBudget, bt) {
			r.Fail(w.comp+"/capacity-leak", "%s %s: a Borrow blocked at the cap was not admitted after a permit was returned", w.comp, when)
			return false
		}
		if r.Failed() {
			return false
		}
		switch {
		case admitted:
			held++
			r.Probe("late-borrower-admitted")
		case berr == syncx.ErrTimeout:
			r.Probe("late-borrower-timed-out")
		default:
			r.Fail(w.comp+"/bad-refusal", "Borrow(%v) at the cap returned %v, neither nil nor ErrTimeout", probeTimeout, berr)
			return false
		}
	}
	for i := 0; i < held; i++ {
		if !w.release("main") {
			return false
		}
	}
	return true
}
