package c12

import (
	"fmt"
	"strings"
	"testing"
	"time"

	"github.com/zeromicro/go-zero/core/collection"
	"github.com/zeromicro/go-zero/core/timex"

	"verifsim/simharness"
	"verifsim/simrt"
)

// C12: timing wheel fires every timer exactly once, at its due tick.
//
// Reference model (from the property text only): per key either "absent" or
// "pending(value, due tick index)".  set(v,d) at tick count T => pending(v, T+floor(d/interval));
// move(d) on a pending key => pending(same value, T+floor(d/interval)), on an absent key nothing;
// remove => absent; tick T => exactly the keys with due==T fire, once, with their value, and
// become absent; drain => every pending key delivered once, afterwards nothing is pending.
//
// In racing rounds an operation is concurrent with one tick; its position relative to the tick
// is not observable, so each key carries a *set* of candidate states (op-before-tick /
// op-after-tick) and the observation of every tick has to match at least one candidate.
// In sequential mode the set is always a singleton and the check is exact.

type opKind int

const (
	opSet opKind = iota
	opTick
	opMove
	opRemove
)

func (k opKind) String() string { return [...]string{"set", "tick", "move", "remove"}[k] }

type op struct {
	kind  opKind
	key   int
	val   int
	steps int           // floor(delay/interval)
	frac  time.Duration // delay = steps*interval + frac, 0 <= frac < interval
	n     int           // opTick: number of ticks
}

func (o op) String() string {
	switch o.kind {
	case opSet:
		return fmt.Sprintf("set(k%d,v%d,%d ticks+%v)", o.key, o.val, o.steps, o.frac)
	case opMove:
		return fmt.Sprintf("move(k%d,%d ticks+%v)", o.key, o.steps, o.frac)
	case opRemove:
		return fmt.Sprintf("remove(k%d)", o.key)
	}
	return fmt.Sprintf("tick x%d", o.n)
}

// step is one element of the generated history.
type step struct {
	race bool // ops are issued concurrently with exactly one tick
	ops  []op // !race: exactly one op
}

func (s step) String() string {
	var p []string
	for _, o := range s.ops {
		p = append(p, o.String())
	}
	if s.race {
		return "race{tick | " + strings.Join(p, " | ") + "}"
	}
	return strings.Join(p, "")
}

type cand struct {
	pending bool
	val     int
	due     int
}

type keyState struct {
	cands   []cand
	resched bool   // current schedule stems from a set/move issued while the key was (possibly) pending
	dues    []int  // due ticks of every candidate created by the last operation on this key
	gone    string // why the key is absent: never-set, removed, fired, drained
}

type fire struct{ key, val int }

type outcome struct {
	fire bool
	val  int
	next cand
}

type world struct {
	r        *simrt.Run
	n        int
	interval time.Duration
	tw       *collection.TimingWheel
	fake     timex.FakeTicker
	t0       time.Time
	T        int // ticks taken by the wheel so far
	keys     []*keyState
	fires    []fire
	drained  []fire
	verified int
	boundary bool
	stop     bool // a violation was reported: end the run
}

func (w *world) fail(class, format string, a ...any) {
	w.r.Fail(class, format, a...)
	w.stop = true
}

func (w *world) delay(o op) time.Duration { return time.Duration(o.steps)*w.interval + o.frac }

// issue performs one operation against the real wheel.
func (w *world) issue(o op) {
	var err error
	switch o.kind {
	case opSet:
		err = w.tw.SetTimer(o.key, o.val, w.delay(o))
	case opMove:
		err = w.tw.MoveTimer(o.key, w.delay(o))
	case opRemove:
		err = w.tw.RemoveTimer(o.key)
	}
	if err != nil {
		w.fail("op-error", "%v returned %v", o, err)
	}
}

func apply(c cand, o op, T int) cand {
	switch o.kind {
	case opSet:
		return cand{pending: true, val: o.val, due: T + o.steps}
	case opMove:
		if c.pending {
			return cand{pending: true, val: c.val, due: T + o.steps}
		}
		return c
	case opRemove:
		return cand{}
	}
	return c
}

func tickOutcome(c cand, T1 int) outcome {
	if c.pending && c.due == T1 {
		return outcome{fire: true, val: c.val}
	}
	return outcome{next: c}
}

func addCand(cs []cand, c cand) []cand {
	if !c.pending {
		c = cand{}
	}
	for _, x := range cs {
		if x == c {
			return cs
		}
	}
	return append(cs, c)
}

func (ks *keyState) anyPending() bool {
	for _, c := range ks.cands {
		if c.pending {
			return true
		}
	}
	return false
}

func (ks *keyState) origin() string {
	if ks.resched {
		return "resched"
	}
	return "fresh"
}

// noteOp updates the classification features of a key for an operation (before it is applied).
func (w *world) noteOp(ks *keyState, o op) {
	r := w.r
	switch o.kind {
	case opSet, opMove:
		if ks.anyPending() {
			ks.resched = true
			r.Probe("resched-pending")
			if o.kind == opSet {
				r.Probe("set-on-pending")
			}
		} else if o.kind == opSet {
			ks.resched = false
		} else {
			r.Probe("move-absent")
		}
		if o.steps > w.n {
			r.Probe("delay>1rev")
			w.boundary = true
		}
		if o.steps%w.n == 0 {
			r.Probe("delay=k*slots")
		}
		if w.T >= w.n {
			r.Probe("op-after-wrap")
			w.boundary = true
		}
	case opRemove:
		if ks.anyPending() {
			r.Probe("remove-pending")
		}
		ks.resched = false
	}
}

func (w *world) setCands(ks *keyState, cs []cand, o op) {
	ks.cands = cs
	ks.dues = ks.dues[:0]
	for _, c := range cs {
		if c.pending {
			ks.dues = append(ks.dues, c.due)
		}
	}
	if o.kind == opRemove {
		ks.gone = "removed"
	}
}

// seqOp issues one operation with nothing else going on and waits for quiescence.
func (w *world) seqOp(o op) {
	ks := w.keys[o.key]
	w.noteOp(ks, o)
	w.r.Ev("op", int64(o.kind), int64(o.key), int64(o.steps))
	w.issue(o)
	w.r.Quiesce()
	if w.stop {
		return
	}
	var cs []cand
	for _, c := range ks.cands {
		cs = addCand(cs, apply(c, o, w.T))
	}
	w.setCands(ks, cs, o)
	if len(w.fires) > 0 {
		w.fail("fired-outside-tick", "after %v (no tick since the last check) the wheel executed %v", o, w.fires)
	}
}

// rawTick makes the wheel take exactly one tick and waits for quiescence.
func (w *world) rawTick() bool {
	if w.fake != nil {
		w.fake.Tick()
		w.r.Quiesce()
		if len(w.fake.Chan()) != 0 {
			w.fail("tick-not-taken", "tick %d was not consumed by the wheel at quiescence", w.T+1)
			return false
		}
	} else {
		target := w.t0.Add(time.Duration(w.T+1)*w.interval + w.interval/2)
		w.r.Sleep(time.Until(target))
		w.r.Quiesce()
	}
	w.T++
	return true
}

func (w *world) seqTicks(k int) {
	for i := 0; i < k && !w.stop; i++ {
		if !w.rawTick() {
			return
		}
		w.checkTick(nil)
	}
}

// raceRound issues the given operations (distinct keys) concurrently with one tick.
func (w *world) raceRound(ops []op) {
	r := w.r
	// A key that carries a re-scheduled, still pending timer only gets operations at
	// quiescence: when such a timer misbehaves in the very round in which another operation
	// on it is in flight, the lateness of the failure can no longer be measured and the
	// failure class would be unspecific.  Those operations are issued just before the round.
	var racing []op
	for _, o := range ops {
		if ks := w.keys[o.key]; ks.resched && ks.anyPending() {
			r.Probe("race-op-demoted")
			w.seqOp(o)
			if w.stop {
				return
			}
			continue
		}
		racing = append(racing, o)
	}
	ops = racing
	if len(ops) == 0 {
		w.seqTicks(1)
		return
	}
	r.Probe("race-round")
	byKey := map[int]op{}
	for _, o := range ops {
		w.noteOp(w.keys[o.key], o)
		byKey[o.key] = o
		r.Ev("race-op", int64(o.kind), int64(o.key), int64(o.steps))
	}
	ts := []*simrt.Task{r.Go("tick", func() { w.fake.Tick() })}
	for i := range ops {
		o := ops[i]
		ts = append(ts, r.Go("op", func() { w.issue(o) }))
	}
	if !r.JoinTimeout(time.Hour, ts...) {
		w.fail("stuck", "operations racing with a tick did not return: %v", r.AliveTasks())
		return
	}
	r.Quiesce()
	if w.stop {
		return
	}
	if len(w.fake.Chan()) != 0 {
		w.fail("tick-not-taken", "tick %d was not consumed by the wheel at quiescence", w.T+1)
		return
	}
	w.T++
	w.checkTick(byKey)
}

// checkTick compares what fired since the last check with the model for tick w.T.
// ops (may be nil) are the operations that were concurrent with this tick, by key.
func (w *world) checkTick(ops map[int]op) {
	r := w.r
	T1 := w.T
	r.Probe("oracle")
	got := map[int][]int{}
	for _, f := range w.fires {
		got[f.key] = append(got[f.key], f.val)
	}
	w.fires = w.fires[:0]
	for k, ks := range w.keys {
		var outs []outcome
		o, raced := ops[k]
		prev := append([]cand{}, ks.cands...)
		for _, c := range ks.cands {
			if raced {
				// operation before the tick
				outs = append(outs, tickOutcome(apply(c, o, T1-1), T1))
				// tick before the operation
				a := tickOutcome(c, T1)
				a.next = apply(a.next, o, T1)
				outs = append(outs, a)
			} else {
				outs = append(outs, tickOutcome(c, T1))
			}
		}
		if raced {
			var all []cand
			for _, x := range outs {
				all = addCand(all, x.next)
			}
			w.setCands(ks, all, o)
			// a schedule created just before the tick and due at this very tick counts too
			for _, c := range prev {
				if b := apply(c, o, T1-1); b.pending {
					ks.dues = append(ks.dues, b.due)
				}
			}
		}
		obs := got[k]
		delete(got, k)
		if len(obs) > 1 {
			w.fail("duplicate-fire", "tick %d: key k%d executed %d times (values %v)", T1, k, len(obs), obs)
			return
		}
		var next []cand
		for _, x := range outs {
			if x.fire == (len(obs) == 1) && (!x.fire || x.val == obs[0]) {
				next = addCand(next, x.next)
			}
		}
		if len(next) > 0 {
			if len(obs) == 1 {
				w.verified++
				ks.gone = "fired"
				r.Probe("fire-verified")
			}
			if len(outs) > 1 && len(next) < len(ks.cands) {
				r.Probe("race-ambiguity-resolved")
			}
			if len(next) > 1 {
				r.Probe("race-ambiguous")
			}
			ks.cands = next
			if !ks.anyPending() && !raced {
				ks.resched = false
			}
			continue
		}
		// no candidate explains the observation
		if len(obs) == 1 {
			anyFire, early, earlyRev := false, false, false
			var dues []int
			for _, c := range prev {
				if c.pending && c.due-T1 == w.n {
					earlyRev = true
					dues = append(dues, c.due)
				}
			}
			for _, x := range outs {
				if x.fire {
					anyFire = true
				} else if x.next.pending {
					early = true
					dues = append(dues, x.next.due)
					if x.next.due-T1 == w.n {
						earlyRev = true
					}
				}
			}
			switch {
			case anyFire:
				w.fail("wrong-value", "tick %d: key k%d executed with value v%d, the most recently set value differs (model %v)", T1, k, obs[0], ks.cands)
			case earlyRev:
				w.fail(ks.origin()+":early-by-one-revolution", "tick %d: key k%d (value v%d) executed although it is due at tick %v - exactly one revolution (%d slots) early", T1, k, obs[0], dues, w.n)
			case early:
				w.fail(ks.origin()+":early-other", "tick %d: key k%d (value v%d) executed although it is due at tick %v (%d slots)", T1, k, obs[0], dues, w.n)
			default:
				w.fail("fired-not-pending:"+ks.gone, "tick %d: key k%d (value v%d) executed although no timer is pending for it (%s)", T1, k, obs[0], ks.gone)
			}
			return
		}
		// nothing fired although every candidate is due now: find out when (if ever) it fires
		dues := append([]int{T1}, ks.dues...)
		w.diagnoseMissed(k, ks, dues)
		return
	}
	if len(got) > 0 {
		w.fail("fired-unknown-key", "tick %d: executed keys that were never used: %v", T1, got)
	}
}

// diagnoseMissed is entered after the verdict (key k did not fire at its due tick) to refine
// the class of the violation: it keeps ticking, without further operations, and reports how
// late the timer fires.
func (w *world) diagnoseMissed(k int, ks *keyState, dues []int) {
	max := 0
	for _, d := range dues {
		if d > max {
			max = d
		}
	}
	due := w.T
	limit := max + 2*w.n + 2
	firedAt := -1
	for w.T < limit && firedAt < 0 {
		if !w.rawTick() {
			return
		}
		for _, f := range w.fires {
			if f.key == k && firedAt < 0 {
				firedAt = w.T
			}
		}
		w.fires = w.fires[:0]
	}
	switch {
	case firedAt < 0:
		w.fail(ks.origin()+":never-fires", "key k%d was due at tick %d (model %v) but did not execute then nor in the following %d ticks (%d slots)", k, due, ks.cands, limit-due, w.n)
	default:
		rev := false
		for _, d := range dues {
			if firedAt-d == w.n {
				rev = true
			}
		}
		if rev {
			w.fail(ks.origin()+":late-by-one-revolution", "key k%d was due at tick %d (model %v) but executed at tick %d - exactly one revolution (%d slots) late", k, due, ks.cands, firedAt, w.n)
		} else {
			w.fail(ks.origin()+":late-other", "key k%d was due at tick %d (model %v) but executed at tick %d (%d slots)", k, due, ks.cands, firedAt, w.n)
		}
	}
}

func (w *world) maxDue() int {
	m := 0
	for _, ks := range w.keys {
		for _, c := range ks.cands {
			if c.pending && c.due > m {
				m = c.due
			}
		}
	}
	return m
}

// drain calls Drain (optionally racing with one tick) and checks that every pending timer is
// delivered exactly once.
func (w *world) drain(raceTick bool) {
	r := w.r
	r.Probe("drain")
	fn := func(k, v any) {
		r.Yield()
		w.drained = append(w.drained, fire{k.(int), v.(int)})
		r.Ev("drained", int64(k.(int)), int64(v.(int)))
	}
	r.Ev("drain")
	if raceTick {
		r.Probe("drain-racing-tick")
		ts := []*simrt.Task{
			r.Go("tick", func() { w.fake.Tick() }),
			r.Go("drain", func() {
				if err := w.tw.Drain(fn); err != nil {
					w.fail("op-error", "Drain returned %v", err)
				}
			}),
		}
		if !r.JoinTimeout(time.Hour, ts...) {
			w.fail("stuck", "Drain racing with a tick did not return: %v", r.AliveTasks())
			return
		}
		r.Quiesce()
		if len(w.fake.Chan()) != 0 {
			w.fail("tick-not-taken", "tick %d was not consumed by the wheel at quiescence", w.T+1)
			return
		}
		w.T++
	} else {
		if err := w.tw.Drain(fn); err != nil {
			w.fail("op-error", "Drain returned %v", err)
		}
		r.Quiesce()
	}
	if w.stop {
		return
	}
	r.Probe("oracle")
	gotD := map[int][]int{}
	for _, f := range w.drained {
		gotD[f.key] = append(gotD[f.key], f.val)
	}
	gotF := map[int][]int{}
	for _, f := range w.fires {
		gotF[f.key] = append(gotF[f.key], f.val)
	}
	w.fires = w.fires[:0]
	if len(w.drained) > 0 {
		r.Probe("drain-nonempty")
	}
	for k := range w.keys {
		if len(gotD[k]) > 1 {
			w.fail("drain-duplicate", "Drain delivered key k%d %d times (values %v)", k, len(gotD[k]), gotD[k])
			return
		}
		if len(gotF[k]) > 1 {
			w.fail("duplicate-fire", "tick %d: key k%d executed %d times", w.T, k, len(gotF[k]))
			return
		}
		if len(gotF[k]) == 1 && len(gotD[k]) == 1 {
			w.fail("drain-duplicate", "key k%d was both executed by the tick and delivered by Drain", k)
			return
		}
	}
	// expectation of one candidate under one global order: (executed value or -1, drained value or -1)
	expect := func(c cand, tickFirst bool) (int, int) {
		if !c.pending {
			return -1, -1
		}
		if tickFirst && c.due == w.T {
			return c.val, -1
		}
		return -1, c.val
	}
	one := func(v []int) int {
		if len(v) == 0 {
			return -1
		}
		return v[0]
	}
	orders := []bool{false}
	if raceTick {
		orders = []bool{false, true}
	} else if len(gotF) > 0 {
		w.fail("fired-outside-tick", "Drain (no tick) made the wheel execute %v", gotF)
		return
	}
	var firstBad string
	badClass := ""
	for _, tickFirst := range orders {
		ok := true
		for k, ks := range w.keys {
			match := false
			for _, c := range ks.cands {
				ef, ed := expect(c, tickFirst)
				if ef == one(gotF[k]) && ed == one(gotD[k]) {
					match = true
				}
			}
			if !match {
				ok = false
				if firstBad == "" {
					cls := "drain-mismatch"
					switch {
					case !ks.anyPending() && len(gotD[k]) == 1:
						cls = "drain-extra:" + ks.gone
					case !ks.anyPending():
						cls = "fired-not-pending:" + ks.gone
					case len(gotD[k]) == 0 && len(gotF[k]) == 0:
						cls = "drain-missing"
					case len(gotD[k]) == 1:
						cls = "drain-wrong-value"
					}
					badClass = cls
					firstBad = fmt.Sprintf("key k%d: model %v, executed by tick %v, delivered by Drain %v", k, ks.cands, gotF[k], gotD[k])
				}
				break
			}
		}
		if ok {
			firstBad = ""
			break
		}
	}
	if firstBad != "" {
		w.fail(badClass, "Drain at tick %d (racing with a tick: %v): %s", w.T, raceTick, firstBad)
		return
	}
	w.verified += len(w.drained)
	for _, ks := range w.keys {
		if ks.anyPending() {
			ks.gone = "drained"
		}
		ks.cands = []cand{{}}
		ks.resched = false
		ks.dues = nil
	}
	w.drained = nil
}

func drawSteps(t *simrt.Tape, n int) int {
	switch t.Intn(6) {
	case 0:
		return t.Range(1, n) // within one revolution
	case 1:
		return n * t.Range(1, 3) // exact multiples of the wheel size
	case 2:
		return t.Range(n+1, 3*n+3) // longer than a revolution
	case 3:
		s := n*t.Range(1, 3) + t.Range(-1, 1)
		if s < 1 {
			s = 1
		}
		return s
	case 4:
		return t.Range(1, 2*n)
	default:
		return t.Range(3*n, 5*n+5)
	}
}

func drawFrac(t *simrt.Tape, interval time.Duration) time.Duration {
	switch t.Intn(3) {
	case 0:
		return 0
	case 1:
		return interval - 1
	default:
		return time.Duration(t.Intn(int(interval)))
	}
}

func drawTicks(t *simrt.Tape, n int) int {
	switch t.Intn(4) {
	case 0:
		return 1
	case 1:
		return t.Range(1, n)
	case 2:
		return t.Range(n, 2*n+1)
	default:
		return t.Range(1, 3)
	}
}

const (
	modeSeqFake = iota
	modeRace
	modeSeqReal
)

func body(r *simrt.Run, tier string) {
	t := r.Tape
	mode := modeSeqFake
	switch m := t.Intn(10); {
	case m < 5:
	case m < 8:
		mode = modeRace
	default:
		mode = modeSeqReal
	}
	maxSlots, maxSteps, maxKeys := 12, 14, 4
	if tier == "thorough" {
		maxSlots, maxSteps, maxKeys = 24, 40, 6
	}
	n := t.Range(1, maxSlots)
	var interval time.Duration
	if mode == modeSeqReal {
		interval = []time.Duration{time.Second, time.Millisecond, time.Minute}[t.Intn(3)]
	} else {
		interval = []time.Duration{time.Second, time.Millisecond, 7, time.Hour, 1}[t.Intn(5)]
	}
	nKeys := t.Range(1, maxKeys)
	nSteps := t.Range(1, maxSteps)
	nextVal := 100
	drawOp := func(key int, allowTick bool) op {
		o := op{key: key}
		v := t.Intn(12)
		switch {
		case v < 4:
			o.kind = opSet
		case v < 8:
			if allowTick {
				o.kind = opTick
			} else {
				o.kind = opSet
			}
		case v < 11:
			o.kind = opMove
		default:
			o.kind = opRemove
		}
		switch o.kind {
		case opSet:
			o.val = nextVal
			nextVal++
			o.steps, o.frac = drawSteps(t, n), drawFrac(t, interval)
		case opMove:
			o.steps, o.frac = drawSteps(t, n), drawFrac(t, interval)
		case opTick:
			o.n = drawTicks(t, n)
		}
		return o
	}
	var plan []step
	for i := 0; i < nSteps; i++ {
		if mode == modeRace && t.Intn(2) == 0 {
			m := t.Range(1, min(3, nKeys))
			keys := t.Perm(nKeys)[:m]
			st := step{race: true}
			for _, k := range keys {
				st.ops = append(st.ops, drawOp(k, false))
			}
			plan = append(plan, st)
			continue
		}
		plan = append(plan, step{ops: []op{drawOp(t.Intn(nKeys), true)}})
	}
	// 0: run out; 1: drain; 2: some ticks, then drain; 3: drain racing with a tick (race mode) / drain
	end := []int{0, 1, 0, 2, 0, 3}[t.Intn(6)]
	partial := drawTicks(t, n)
	extra := t.Intn(n + 2)

	w := &world{r: r, n: n, interval: interval}
	for i := 0; i < nKeys; i++ {
		w.keys = append(w.keys, &keyState{cands: []cand{{}}, gone: "never-set"})
	}
	if r.Tracing() {
		r.Logf("mode=%d slots=%d interval=%v keys=%d end=%d partial=%d extra=%d plan=%v", mode, n, interval, nKeys, end, partial, extra, plan)
	}
	var ps []string
	for _, s := range plan {
		ps = append(ps, s.String())
	}
	r.Sample(map[string]any{"mode": []string{"sequential, fake ticker", "operations racing with ticks, fake ticker", "sequential, real ticker on the virtual clock"}[mode],
		"slots": n, "interval": interval.String(), "keys": nKeys, "history": ps, "end": []string{"run out", "drain", "ticks then drain", "drain (racing with a tick in race mode)"}[end]})

	execute := func(k, v any) {
		r.Yield()
		w.fires = append(w.fires, fire{k.(int), v.(int)})
		r.Ev("fire", int64(k.(int)), int64(v.(int)))
	}
	var err error
	w.t0 = time.Now()
	if mode == modeSeqReal {
		r.Probe("real-ticker")
		w.tw, err = collection.NewTimingWheel(interval, n, execute)
	} else {
		w.fake = timex.NewFakeTicker()
		w.tw, err = collection.NewTimingWheelWithTicker(interval, n, execute, w.fake)
	}
	if err != nil {
		r.Fail("op-error", "NewTimingWheel(%v, %d) returned %v", interval, n, err)
		return
	}
	defer func() {
		w.tw.Stop()
		r.Quiesce()
	}()
	r.Quiesce()

	for _, s := range plan {
		if w.stop {
			return
		}
		switch {
		case s.race:
			w.raceRound(s.ops)
		case s.ops[0].kind == opTick:
			w.seqTicks(s.ops[0].n)
		default:
			w.seqOp(s.ops[0])
		}
	}
	if w.stop {
		return
	}
	switch end {
	case 0:
		if d := w.maxDue() - w.T; d > 0 {
			w.seqTicks(d)
		}
		if !w.stop {
			for _, ks := range w.keys {
				if ks.anyPending() {
					w.fail("model-error", "harness bug: key still pending after run-out: %v", ks.cands)
					return
				}
			}
		}
	case 2:
		w.seqTicks(partial)
		if !w.stop {
			w.drain(false)
		}
	case 3:
		race := mode == modeRace
		for _, ks := range w.keys {
			if ks.resched && ks.anyPending() {
				race = false // see raceRound
			}
		}
		w.drain(race)
	default:
		w.drain(false)
	}
	if !w.stop {
		// nothing may fire any more
		w.seqTicks(extra)
	}
	if !w.stop && w.verified > 0 && w.boundary {
		r.Probe("nontrivial")
	}
}

func config(t *simrt.Tape, tier string) simrt.Config {
	// The property is indexed by ticks, not by time: virtual-time stalls inside the wheel would
	// only blur which tick an observation belongs to, so only context switches are injected.
	sw := []int{20, 60, 150, 300, 500}[t.Intn(5)]
	return simrt.Config{SwitchPerMille: sw, MaxSteps: 60000, MaxVirtual: 2000 * time.Hour}
}

func TestSim(t *testing.T) {
	simharness.Main(t, &simharness.Spec{ID: "C12", Body: body, Config: config, StuckIsViolation: true, CrashIsViolation: true})
}
