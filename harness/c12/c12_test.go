package c12

import (
	"fmt"
	"strings"
	"testing"
	"time"

	"github.com/zeromicro/go-zero/core/collection"
	"github.com/zeromicro/go-zero/core/logx"
	"github.com/zeromicro/go-zero/core/timex"

	"verifsim/simharness"
	"verifsim/simrt"
)

func init() { logx.Disable() } // panicking callbacks are recovered and logged by the wheel

// C12: timing wheel fires every timer exactly once, at its due tick.
//
// Reference model (from the property text only): per key either "absent" or
// "pending(value, due tick index)".  set(v,d) at tick count T => pending(v, T+floor(d/interval));
// move(d) on a pending key => pending(same value, T+floor(d/interval)), on an absent key nothing;
// remove => absent; tick T => exactly the keys with due==T fire, once, with their value, and
// become absent; drain => every pending key delivered once, afterwards nothing is pending.
//
// In racing rounds an operation is concurrent with one tick; its position relative to the tick
// is not observable, so each key carries a *set* of candidate states (op-before-tick /
// op-after-tick) and the observation of every tick has to match at least one candidate.
// In sequential mode the set is always a singleton and the check is exact.
//
// Further dimensions of the workload live in files of their own: the objects used as keys and
// values, panic values, delays thousands of revolutions long (shapes_test.go); slow execute
// callbacks that stay parked in user code across ticks and operations (park_test.go); bursts of
// ticks without quiescence in between (burst_test.go); a second wheel in the same run
// (peer_test.go); slow Drain followed by operations (drain_test.go); and two layers on top of the
// wheel: the cache cleaner (cleaner_test.go) and collection.Cache (cache_test.go).

type opKind int

const (
	opSet opKind = iota
	opTick
	opMove
	opRemove
	opBurst // n ticks back to back, no quiescence in between (fake ticker)
	opDrain // Drain in the middle of the history; the history goes on afterwards
)

func (k opKind) String() string {
	return [...]string{"set", "tick", "move", "remove", "tick-burst", "drain"}[k]
}

type op struct {
	kind  opKind
	key   int
	val   int
	steps int           // floor(delay/interval)
	frac  time.Duration // delay = steps*interval + frac, 0 <= frac < interval
	n     int           // opTick / opBurst: number of ticks
	act   action        // opSet: what the execute callback does when it is called with this value
	rep   int           // opSet: 1 = re-uses the value of the previous set of this key, 2 = and its delay (identical refresh)
}

// action is the user code run by the execute callback for one particular value: it may call back
// into the wheel (as collection.Cache and the cache cleaner do) and it may panic.
type actKind int

const (
	actNone        actKind = iota
	actRearm               // SetTimer(same key, fresh value, delay) from inside the callback
	actMoveOther           // MoveTimer(other key, delay) from inside the callback
	actRemoveOther         // RemoveTimer(other key) from inside the callback
	actSetOther            // SetTimer(other key, fresh value, delay) from inside the callback
)

type action struct {
	kind   actKind
	key    int // actMoveOther / actRemoveOther / actSetOther: the other key (may be the callback's own key)
	steps  int
	frac   time.Duration
	chain  int  // actRearm: the re-armed value re-arms again, this many more times
	park   bool // the callback is slow: it parks (after the above) until the harness lets it go, ticks and operations later
	panics bool // the callback panics (after having done the above)
	pkind  int  // what it panics with (panicNames)
}

func (a action) String() string {
	s := ""
	switch a.kind {
	case actRearm:
		s = fmt.Sprintf(" cb:rearm(%d ticks+%v x%d)", a.steps, a.frac, a.chain+1)
	case actMoveOther:
		s = fmt.Sprintf(" cb:move(k%d,%d ticks+%v)", a.key, a.steps, a.frac)
	case actRemoveOther:
		s = fmt.Sprintf(" cb:remove(k%d)", a.key)
	case actSetOther:
		s = fmt.Sprintf(" cb:set(k%d,%d ticks+%v)", a.key, a.steps, a.frac)
	}
	if a.park {
		s += " cb:park"
	}
	if a.panics {
		s += " cb:panic(" + panicNames[a.pkind] + ")"
	}
	return s
}

func (o op) String() string {
	switch o.kind {
	case opSet:
		if o.act != (action{}) {
			return fmt.Sprintf("set(k%d,v%d,%d ticks+%v%v)", o.key, o.val, o.steps, o.frac, o.act)
		}
		return fmt.Sprintf("set(k%d,v%d,%d ticks+%v)", o.key, o.val, o.steps, o.frac)
	case opMove:
		return fmt.Sprintf("move(k%d,%d ticks+%v)", o.key, o.steps, o.frac)
	case opRemove:
		return fmt.Sprintf("remove(k%d)", o.key)
	case opBurst:
		return fmt.Sprintf("tick-burst x%d", o.n)
	case opDrain:
		return "drain"
	}
	return fmt.Sprintf("tick x%d", o.n)
}

// step is one element of the generated history.
type step struct {
	race     bool // ops are issued concurrently with exactly one tick
	ops      []op // !race && !b2b: exactly one op
	b2b      bool // ops are issued back to back by the sequential client, no quiescence in between ...
	thenTick bool // ... and are directly followed by one tick
}

func (s step) String() string {
	var p []string
	for _, o := range s.ops {
		p = append(p, o.String())
	}
	if s.race {
		return "race{tick | " + strings.Join(p, " | ") + "}"
	}
	if s.b2b {
		if s.thenTick {
			p = append(p, "tick x1")
		}
		return "back-to-back{" + strings.Join(p, "; ") + "}"
	}
	return strings.Join(p, "")
}

type cand struct {
	pending bool
	val     int
	due     int
}

type keyState struct {
	cands   []cand
	resched bool   // current schedule stems from a set/move issued while the key was (possibly) pending
	dues    []int  // due ticks of every candidate created by the last operation on this key
	gone    string // why the key is absent: never-set, removed, fired, drained
}

type fire struct {
	key, val int
	at       int  // tick-burst: base tick + number of ticks handed to the ticker when the callback was entered
	owed     bool // entered after a parked callback of its tick was let go (see park_test.go)
}

func (f fire) String() string { return fmt.Sprintf("k%d=v%d", f.key, f.val) }

type outcome struct {
	fire bool
	val  int
	mid  cand // state after the tick (and after a racing operation that came before the tick)
	pos  int  // -1, or: the racing operation came after the tick and after pos callback operations
	next cand // state at the quiescence after the tick
}

type world struct {
	r        *simrt.Run
	n        int
	interval time.Duration
	tw       *collection.TimingWheel
	fake     timex.FakeTicker
	tickGaps int // fake ticker: 0 = ticks follow each other at one virtual instant; else the clock moves unevenly between ticks
	t0       time.Time
	T        int // ticks taken by the wheel so far
	keys     []*keyState
	fires    []fire
	drained  []fire
	verified int
	boundary bool
	stop     bool // a violation was reported: end the run

	noDemote  bool           // operations on a re-scheduled pending key may race with a tick too
	acts      map[int]action // user code of the execute callback, by value
	hasActOps bool           // some value carries a callback that calls back into the wheel
	cbOps     []op           // operations issued from inside execute callbacks since the last check
	nextCbVal int            // values created by re-arming callbacks
	panicked  bool           // a panicking execute callback ran since the last check

	drainPanics   map[int]bool // the drain callback panics for these keys
	drainPanicked bool         // a drain callback panicked

	// slow Drain followed by operations (drain_test.go)
	sd *slowDrain

	// shapes of keys and values handed to the wheel (shapes_test.go)
	keyOf    []any
	keyIdx   map[any]int
	valShape int
	pkDrain  int // what a panicking drain callback panics with

	// slow execute callbacks (park_test.go)
	gate   chan struct{}
	parked []int      // the tick (batch) of every execute callback that is parked right now
	owed   []owedFire // timers that became due at a tick of which a callback is parked and were not executed yet
	inTick int        // the tick the wheel is taking right now (0: none)

	// tick bursts
	inBurst              bool
	burstBase, burstSent int

	// a second wheel living in the same run (peer_test.go); name distinguishes them in messages
	peer   *world
	name   string
	drains int
}

func (w *world) fail(class, format string, a ...any) {
	if w.name != "" {
		format = w.name + ": " + format
	}
	w.r.Fail(class, format, a...)
	w.stop = true
	if w.peer != nil {
		w.peer.stop = true
	}
}

func (w *world) delay(o op) time.Duration { return time.Duration(o.steps)*w.interval + o.frac }

// issue performs one operation against the real wheel.
func (w *world) issue(o op) {
	var err error
	switch o.kind {
	case opSet:
		err = w.tw.SetTimer(w.keyOf[o.key], encVal(w.valShape, o.val), w.delay(o))
	case opMove:
		err = w.tw.MoveTimer(w.keyOf[o.key], w.delay(o))
	case opRemove:
		err = w.tw.RemoveTimer(w.keyOf[o.key])
	}
	if err != nil {
		w.fail("op-error", "%v returned %v", o, err)
	}
}

// onExecute is the wheel's execute callback.  A call counts as "fired" the moment it is entered,
// whatever the user code does afterwards (call back into the wheel, panic).
func (w *world) onExecute(k, v any) {
	r := w.r
	r.Yield()
	key, val, known := w.decode(k, v)
	if !known {
		w.fail("fired-unknown-key", "the wheel executed (%#v, %#v): no such key or value was ever handed to it", k, v)
		return
	}
	f := fire{key: key, val: val}
	if w.inBurst {
		f.at = w.burstBase + w.burstSent
	}
	// the tick whose batch of callbacks this call belongs to
	batch := w.inTick
	if batch == 0 {
		batch, f.owed = w.enterOwed(key, val)
	}
	w.fires = append(w.fires, f)
	r.Ev("fire", int64(key), int64(val))
	a, ok := w.acts[val]
	if !ok {
		return
	}
	var o op
	switch a.kind {
	case actRearm:
		nv := w.nextCbVal
		w.nextCbVal++
		if a.chain > 0 {
			b := a
			b.chain--
			w.acts[nv] = b
		}
		o = op{kind: opSet, key: key, val: nv, steps: a.steps, frac: a.frac}
		r.Probe("callback-rearms-own-key")
	case actMoveOther:
		o = op{kind: opMove, key: a.key, steps: a.steps, frac: a.frac}
		if a.key == key {
			r.Probe("callback-moves-own-key")
		} else {
			r.Probe("callback-moves-other-key")
		}
	case actRemoveOther:
		o = op{kind: opRemove, key: a.key}
		if a.key == key {
			r.Probe("callback-removes-own-key")
		} else {
			r.Probe("callback-removes-other-key")
		}
	case actSetOther:
		nv := w.nextCbVal
		w.nextCbVal++
		o = op{kind: opSet, key: a.key, val: nv, steps: a.steps, frac: a.frac}
		r.Probe("callback-sets-other-key")
	}
	if a.kind != actNone {
		w.issue(o)
		w.cbOps = append(w.cbOps, o)
		r.Ev("cb-op", int64(o.kind), int64(o.key), int64(o.steps))
	}
	if a.park {
		w.park(batch)
	}
	if a.panics {
		r.Probe("execute-callback-panics")
		r.Probe("execute-callback-panics-with:" + panicNames[a.pkind])
		w.panicked = true
		doPanic(a.pkind, fmt.Sprintf("c12: user code of the execute callback panics (k%d, v%d)", key, val))
	}
}

func apply(c cand, o op, T int) cand {
	switch o.kind {
	case opSet:
		return cand{pending: true, val: o.val, due: T + o.steps}
	case opMove:
		if c.pending {
			return cand{pending: true, val: c.val, due: T + o.steps}
		}
		return c
	case opRemove:
		return cand{}
	}
	return c
}

func tickOutcome(c cand, T1 int) outcome {
	if c.pending && c.due == T1 {
		return outcome{fire: true, val: c.val, pos: -1}
	}
	return outcome{mid: c, next: c, pos: -1}
}

// settle computes the state at the quiescence after tick T1: the operations L issued from inside
// execute callbacks of this tick (necessarily after the tick, in this order) are applied to x.mid,
// with the racing client operation o inserted after x.pos of them (x.pos >= 0).  upTo < len(L)
// stops before L[upTo].
func settle(x outcome, o op, L []op, T1, upTo int) cand {
	c := x.mid
	for j := 0; j <= len(L); j++ {
		if j == x.pos {
			c = apply(c, o, T1)
		}
		if j == upTo || j == len(L) {
			break
		}
		c = apply(c, L[j], T1)
	}
	return c
}

func addCand(cs []cand, c cand) []cand {
	if !c.pending {
		c = cand{}
	}
	for _, x := range cs {
		if x == c {
			return cs
		}
	}
	return append(cs, c)
}

func (ks *keyState) anyPending() bool {
	for _, c := range ks.cands {
		if c.pending {
			return true
		}
	}
	return false
}

func (ks *keyState) origin() string {
	if ks.resched {
		return "resched"
	}
	return "fresh"
}

// noteOp updates the classification features of a key for an operation (before it is applied).
func (w *world) noteOp(ks *keyState, o op) { w.noteOpP(ks, o, ks.anyPending()) }

func (w *world) noteOpP(ks *keyState, o op, pending bool) {
	r := w.r
	switch o.kind {
	case opSet, opMove:
		if pending {
			ks.resched = true
			r.Probe("resched-pending")
			if o.kind == opSet {
				r.Probe("set-on-pending")
			}
		} else if o.kind == opSet {
			ks.resched = false
		} else {
			r.Probe("move-absent")
			if ks.gone == "drained" {
				ks.gone = "drained/move-after-drain"
			}
		}
		if o.steps > w.n {
			r.Probe("delay>1rev")
			w.boundary = true
		}
		if o.steps > farLimit {
			r.Probe("delay-thousands-of-revolutions")
		}
		if o.steps%w.n == 0 {
			r.Probe("delay=k*slots")
		}
		if w.T >= w.n {
			r.Probe("op-after-wrap")
			w.boundary = true
		}
	case opRemove:
		if pending {
			r.Probe("remove-pending")
		}
		ks.resched = false
	}
}

func (w *world) setCands(ks *keyState, cs []cand, o op) {
	ks.cands = cs
	ks.dues = ks.dues[:0]
	for _, c := range cs {
		if c.pending {
			ks.dues = append(ks.dues, c.due)
		}
	}
	if o.kind == opRemove {
		ks.gone = "removed"
	}
}

// beginOp: bookkeeping for an operation of the sequential client, before it is issued.
func (w *world) beginOp(o op) {
	ks := w.keys[o.key]
	w.noteOp(ks, o)
	w.r.Ev("op", int64(o.kind), int64(o.key), int64(o.steps))
	if o.kind == opSet && o.act != (action{}) {
		w.acts[o.val] = o.act
	}
	if len(w.parked) > 0 {
		w.r.Probe("op-while-execute-callback-parked")
	}
	if o.kind == opSet && o.rep > 0 {
		w.r.Probe([]string{"", "set-repeats-previous-value", "set-identical-refresh(same-value-same-delay)"}[o.rep])
	}
	if o.kind == opSet && o.val == nilVal {
		w.r.Probe("set-nil-value")
	}
}

// applyOp: the operation has returned to the sequential client; the model follows.
func (w *world) applyOp(o op) {
	ks := w.keys[o.key]
	var cs []cand
	for _, c := range ks.cands {
		cs = addCand(cs, apply(c, o, w.T))
	}
	w.setCands(ks, cs, o)
}

// seqOp issues one operation with nothing else going on and waits for quiescence.
func (w *world) seqOp(o op) {
	w.beginOp(o)
	if w.sd != nil {
		w.sd.opAfterDrain(o)
	} else {
		w.issue(o)
		w.r.Quiesce()
	}
	if w.stop {
		return
	}
	w.applyOp(o)
	if len(w.fires) > 0 {
		w.fail("fired-outside-tick", "after %v (no tick since the last check) the wheel executed %v", o, w.fires)
	}
}

// backToBack: the sequential client issues the operations one directly after the other and then,
// optionally, lets the ticker tick - without ever waiting for the wheel to be idle in between.
// SetTimer / MoveTimer / RemoveTimer return when the wheel has taken the request, so the order
// is the program order: every operation is applied before the next one and before the tick, and
// the model is as exact as with quiescence after every call.
func (w *world) backToBack(ops []op, thenTick bool) {
	r := w.r
	r.Probe("operations-back-to-back-without-quiescence")
	for _, o := range ops {
		w.beginOp(o)
		w.issue(o)
		if w.stop {
			return
		}
		w.applyOp(o)
	}
	if thenTick {
		r.Probe("tick-directly-after-operation-without-quiescence")
		w.seqTicks(1)
		return
	}
	r.Quiesce()
	if len(w.fires) > 0 {
		w.fail("fired-outside-tick", "after %v (no tick since the last check) the wheel executed %v", ops, w.fires)
	}
}

// rawTick makes the wheel take exactly one tick and waits for quiescence.
func (w *world) rawTick() bool {
	w.inTick = w.T + 1
	defer func() { w.inTick = 0 }()
	if len(w.parked) > 0 {
		w.r.Probe("tick-while-execute-callback-parked")
	}
	if w.fake != nil {
		if w.tickGaps > 0 && w.r.Tape.Intn(w.tickGaps+1) > 0 {
			// the wheel counts ticks, not time: an uneven clock between two ticks of a fake ticker changes nothing
			g := []time.Duration{w.interval / 2, w.interval + w.interval/2, 3 * w.interval, 17 * w.interval, w.interval - 1, 2*w.interval + 1}[w.r.Tape.Intn(6)]
			if g > 0 {
				w.r.Probe("fake-tick-after-uneven-clock-gap")
				w.r.Sleep(g)
			}
		}
		w.fake.Tick()
		w.r.Quiesce()
		if len(w.fake.Chan()) != 0 && w.sd != nil {
			// the wheel is busy handing timers to a slow drain callback
			w.r.Probe("tick-after-drain-waits-for-slow-drain")
			w.sd.settle(func() bool { return len(w.fake.Chan()) == 0 })
		}
		if len(w.fake.Chan()) != 0 {
			w.fail("tick-not-taken", "tick %d was not consumed by the wheel at quiescence", w.T+1)
			return false
		}
	} else {
		if w.sd != nil && w.sd.release("tick") {
			w.r.Quiesce() // a real ticker drops ticks nobody takes: let the slow drain finish first
		}
		target := w.t0.Add(time.Duration(w.T+1)*w.interval + w.interval/2)
		w.r.Sleep(time.Until(target))
		w.r.Quiesce()
	}
	w.T++
	return true
}

func (w *world) seqTicks(k int) {
	for i := 0; i < k && !w.stop; i++ {
		if !w.rawTick() {
			return
		}
		w.checkTick(nil)
	}
}

// raceRound issues the given operations (distinct keys) concurrently with one tick.
func (w *world) raceRound(ops []op) {
	r := w.r
	// A key that carries a re-scheduled, still pending timer only gets operations at
	// quiescence: when such a timer misbehaves in the very round in which another operation
	// on it is in flight, the lateness of the failure can no longer be measured and the
	// failure class would be unspecific.  Those operations are issued just before the round.
	var racing []op
	for _, o := range ops {
		if ks := w.keys[o.key]; ks.resched && ks.anyPending() && !w.noDemote {
			r.Probe("race-op-demoted")
			w.seqOp(o)
			if w.stop {
				return
			}
			continue
		}
		racing = append(racing, o)
	}
	ops = racing
	if len(ops) == 0 {
		w.seqTicks(1)
		return
	}
	r.Probe("race-round")
	byKey := map[int]op{}
	for _, o := range ops {
		if ks := w.keys[o.key]; ks.resched && ks.anyPending() && o.kind != opRemove {
			r.Probe("race-op-on-rescheduled-pending-key")
		}
		w.noteOp(w.keys[o.key], o)
		byKey[o.key] = o
		if o.kind == opSet && o.act != (action{}) {
			w.acts[o.val] = o.act
		}
		r.Ev("race-op", int64(o.kind), int64(o.key), int64(o.steps))
	}
	ts := []*simrt.Task{r.Go("tick", func() { w.fake.Tick() })}
	for i := range ops {
		o := ops[i]
		ts = append(ts, r.Go("op", func() { w.issue(o) }))
	}
	if !r.JoinTimeout(time.Hour, ts...) {
		w.fail("stuck", "operations racing with a tick did not return: %v", r.AliveTasks())
		return
	}
	r.Quiesce()
	if w.stop {
		return
	}
	if len(w.fake.Chan()) != 0 {
		w.fail("tick-not-taken", "tick %d was not consumed by the wheel at quiescence", w.T+1)
		return
	}
	w.T++
	w.checkTick(byKey)
}

// checkTick compares what fired since the last check with the model for tick w.T.
// ops (may be nil) are the operations that were concurrent with this tick, by key.
func (w *world) checkTick(ops map[int]op) {
	r := w.r
	T1 := w.T
	r.Probe("oracle")
	got := map[int][]int{}
	for _, f := range w.fires {
		got[f.key] = append(got[f.key], f.val)
	}
	w.fires = w.fires[:0]
	// operations issued by the execute callbacks of this tick, per key, in the order they were issued
	cb := map[int][]op{}
	for _, o := range w.cbOps {
		cb[o.key] = append(cb[o.key], o)
	}
	w.cbOps = w.cbOps[:0]
	hadPanic := w.panicked
	w.panicked = false
	for k, ks := range w.keys {
		var outs []outcome
		o, raced := ops[k]
		L := cb[k]
		prev := append([]cand{}, ks.cands...)
		for _, c := range ks.cands {
			if raced {
				// operation before the tick
				outs = append(outs, tickOutcome(apply(c, o, T1-1), T1))
				// tick before the operation; the operation may come before, between or after the
				// operations the callbacks of this tick issued on the same key
				for i := 0; i <= len(L); i++ {
					a := tickOutcome(c, T1)
					a.pos = i
					outs = append(outs, a)
				}
			} else {
				outs = append(outs, tickOutcome(c, T1))
			}
		}
		for i := range outs {
			outs[i].next = settle(outs[i], o, L, T1, len(L))
		}
		if raced {
			var all []cand
			for _, x := range outs {
				all = addCand(all, x.next)
			}
			w.setCands(ks, all, o)
			// a schedule created just before the tick and due at this very tick counts too
			for _, c := range prev {
				if b := apply(c, o, T1-1); b.pending {
					ks.dues = append(ks.dues, b.due)
				}
			}
		}
		obs := got[k]
		delete(got, k)
		if len(obs) > 1 {
			w.fail("duplicate-fire", "tick %d: key k%d executed %d times (values %v)", T1, k, len(obs), obs)
			return
		}
		var next []cand
		var match []outcome
		for _, x := range outs {
			if x.fire == (len(obs) == 1) && (!x.fire || x.val == obs[0]) {
				next = addCand(next, x.next)
				match = append(match, x)
			}
		}
		if len(next) == 0 && len(obs) == 0 && w.batchParked(T1) {
			// The timer is due now and its callback was not entered, but a callback of THIS tick
			// is parked in user code: the callbacks of one tick run one after the other, so this one
			// waits behind it.  For the wheel the timer has fired (it is no longer pending); the
			// execution is owed and has to arrive once the parked callback was let go.
			var vals []int
			for _, x := range outs {
				if x.fire {
					next = addCand(next, x.next)
					match = append(match, x)
					vals = append(vals, x.val)
				}
			}
			w.owed = append(w.owed, owedFire{key: k, vals: vals, batch: T1})
			ks.gone = "fired"
			r.Probe("timer-due-waits-behind-parked-callback-of-its-tick")
		}
		if len(next) > 0 {
			if len(obs) == 1 {
				w.verified++
				ks.gone = "fired"
				r.Probe("fire-verified")
			}
			for j, lo := range L {
				pend := false
				for _, x := range match {
					if settle(x, o, L, T1, j).pending {
						pend = true
					}
				}
				w.noteOpP(ks, lo, pend)
				if lo.kind == opRemove {
					ks.gone = "removed"
				}
			}
			if len(L) > 0 {
				ks.dues = ks.dues[:0]
				for _, c := range next {
					if c.pending {
						ks.dues = append(ks.dues, c.due)
					}
				}
			}
			if len(outs) > 1 && len(next) < len(ks.cands) {
				r.Probe("race-ambiguity-resolved")
			}
			if len(next) > 1 {
				r.Probe("race-ambiguous")
			}
			ks.cands = next
			if !ks.anyPending() && !raced {
				ks.resched = false
			}
			continue
		}
		// no candidate explains the observation
		if len(obs) == 1 {
			anyFire, early, earlyRev := false, false, false
			var dues []int
			for _, c := range prev {
				if c.pending && c.due-T1 == w.n {
					earlyRev = true
					dues = append(dues, c.due)
				}
			}
			for _, x := range outs {
				// the state before the callbacks of this tick called back into the wheel
				pre := x.mid
				if x.pos >= 0 {
					pre = apply(pre, o, T1)
				}
				if x.fire {
					anyFire = true
				} else if pre.pending {
					early = true
					dues = append(dues, pre.due)
					if pre.due-T1 == w.n {
						earlyRev = true
					}
				}
			}
			switch {
			case anyFire:
				w.fail("wrong-value", "tick %d: key k%d executed with value v%d, the most recently set value differs (model %v)", T1, k, obs[0], ks.cands)
			case earlyRev:
				w.fail(ks.origin()+":early-by-one-revolution", "tick %d: key k%d (value v%d) executed although it is due at tick %v - exactly one revolution (%d slots) early", T1, k, obs[0], dues, w.n)
			case early:
				w.fail(ks.origin()+":early-other", "tick %d: key k%d (value v%d) executed although it is due at tick %v (%d slots)", T1, k, obs[0], dues, w.n)
			default:
				w.fail("fired-not-pending:"+ks.gone, "tick %d: key k%d (value v%d) executed although no timer is pending for it (%s)", T1, k, obs[0], ks.gone)
			}
			return
		}
		// nothing fired although every candidate is due now: find out when (if ever) it fires
		dues := append([]int{T1}, ks.dues...)
		w.diagnoseMissed(k, ks, dues, hadPanic)
		return
	}
	if len(got) > 0 {
		w.fail("fired-unknown-key", "tick %d: executed keys that were never used: %v", T1, got)
	}
}

// diagnoseMissed is entered after the verdict (key k did not fire at its due tick) to refine
// the class of the violation: it keeps ticking, without further operations, and reports how
// late the timer fires.
func (w *world) diagnoseMissed(k int, ks *keyState, dues []int, hadPanic bool) {
	origin := ks.origin()
	if hadPanic {
		// the callback of another timer due at the same tick panicked
		origin = "after-panicking-callback"
	}
	max := 0
	for _, d := range dues {
		if d > max && d-w.T <= farLimit {
			max = d
		}
	}
	due := dues[0]
	if len(w.parked) > 0 {
		// slow callbacks of other ticks are still parked: let them all go first
		w.releaseQuietly()
		for _, f := range w.fires {
			if f.key == k {
				w.fail(origin+":held-up-by-slow-callback-of-another-tick", "key k%d was due at tick %d (model %v) and was only executed (at tick %d) when the parked callbacks of other ticks were let go; no callback of its own tick was parked", k, due, ks.cands, w.T)
				return
			}
		}
		w.fires = w.fires[:0]
	}
	if max < w.T {
		max = w.T
	}
	limit := max + 2*w.n + 2
	firedAt := -1
	for w.T < limit && firedAt < 0 {
		if !w.rawTick() {
			return
		}
		for _, f := range w.fires {
			if f.key == k && firedAt < 0 {
				firedAt = w.T
			}
		}
		w.fires = w.fires[:0]
	}
	switch {
	case firedAt < 0:
		w.fail(origin+":never-fires", "key k%d was due at tick %d (model %v) but did not execute then nor in the following %d ticks (%d slots)", k, due, ks.cands, limit-due, w.n)
	default:
		rev := false
		for _, d := range dues {
			if firedAt-d == w.n {
				rev = true
			}
		}
		if rev {
			w.fail(origin+":late-by-one-revolution", "key k%d was due at tick %d (model %v) but executed at tick %d - exactly one revolution (%d slots) late", k, due, ks.cands, firedAt, w.n)
		} else {
			w.fail(origin+":late-other", "key k%d was due at tick %d (model %v) but executed at tick %d (%d slots)", k, due, ks.cands, firedAt, w.n)
		}
	}
}

// maxDue is the latest due tick of any pending timer; timers thousands of revolutions away
// (never reached in a run) do not count.
func (w *world) maxDue() int {
	m := 0
	for _, ks := range w.keys {
		for _, c := range ks.cands {
			if c.pending && c.due > m && c.due-w.T <= farLimit {
				m = c.due
			}
		}
	}
	return m
}

// drain calls Drain (optionally racing with one tick) and checks that every pending timer is
// delivered exactly once.
func (w *world) drain(raceTick bool) {
	r := w.r
	r.Probe("drain")
	w.drains++
	if w.drains > 1 {
		r.Probe("drain-repeated-on-one-wheel")
	}
	if len(w.parked) > 0 {
		r.Probe("drain-while-execute-callback-parked")
	}
	fn := func(k, v any) {
		r.Yield()
		key, val, known := w.decode(k, v)
		if !known {
			w.fail("drain-unknown-key", "Drain delivered (%#v, %#v): no such key or value was ever handed to the wheel", k, v)
			return
		}
		w.drained = append(w.drained, fire{key: key, val: val})
		r.Ev("drained", int64(key), int64(val))
		if w.drainPanics[key] {
			r.Probe("drain-callback-panics")
			w.drainPanicked = true
			doPanic(w.pkDrain, fmt.Sprintf("c12: user code of the drain callback panics (k%d)", key))
		}
	}
	r.Ev("drain")
	if raceTick {
		r.Probe("drain-racing-tick")
		ts := []*simrt.Task{
			r.Go("tick", func() { w.fake.Tick() }),
			r.Go("drain", func() {
				if err := w.tw.Drain(fn); err != nil {
					w.fail("op-error", "Drain returned %v", err)
				}
			}),
		}
		if !r.JoinTimeout(time.Hour, ts...) {
			w.fail("stuck", "Drain racing with a tick did not return: %v", r.AliveTasks())
			return
		}
		r.Quiesce()
		if len(w.fake.Chan()) != 0 {
			w.fail("tick-not-taken", "tick %d was not consumed by the wheel at quiescence", w.T+1)
			return
		}
		w.T++
	} else {
		if err := w.tw.Drain(fn); err != nil {
			w.fail("op-error", "Drain returned %v", err)
		}
		r.Quiesce()
	}
	if w.stop {
		return
	}
	r.Probe("oracle")
	gotD := map[int][]int{}
	for _, f := range w.drained {
		gotD[f.key] = append(gotD[f.key], f.val)
	}
	gotF := map[int][]int{}
	for _, f := range w.fires {
		gotF[f.key] = append(gotF[f.key], f.val)
	}
	w.fires = w.fires[:0]
	w.cbOps = w.cbOps[:0] // only with a racing tick, and then only callbacks that do not call back
	w.panicked = false
	if len(w.drained) > 0 {
		r.Probe("drain-nonempty")
	} else {
		r.Probe("drain-of-an-empty-wheel")
	}
	for k := range w.keys {
		if len(gotD[k]) > 1 {
			w.fail("drain-duplicate", "Drain delivered key k%d %d times (values %v)", k, len(gotD[k]), gotD[k])
			return
		}
		if len(gotF[k]) > 1 {
			w.fail("duplicate-fire", "tick %d: key k%d executed %d times", w.T, k, len(gotF[k]))
			return
		}
		if len(gotF[k]) == 1 && len(gotD[k]) == 1 {
			w.fail("drain-duplicate", "key k%d was both executed by the tick and delivered by Drain", k)
			return
		}
	}
	// expectation of one candidate under one global order: (executed value or -1, drained value or -1)
	expect := func(c cand, tickFirst bool) (int, int) {
		if !c.pending {
			return -1, -1
		}
		if tickFirst && c.due == w.T {
			return c.val, -1
		}
		return -1, c.val
	}
	one := func(v []int) int {
		if len(v) == 0 {
			return -1
		}
		return v[0]
	}
	orders := []bool{false}
	if raceTick {
		orders = []bool{false, true}
	} else if len(gotF) > 0 {
		w.fail("fired-outside-tick", "Drain (no tick) made the wheel execute %v", gotF)
		return
	}
	var firstBad string
	badClass := ""
	for _, tickFirst := range orders {
		ok := true
		for k, ks := range w.keys {
			match := false
			for _, c := range ks.cands {
				ef, ed := expect(c, tickFirst)
				if ef == one(gotF[k]) && ed == one(gotD[k]) {
					match = true
				}
			}
			if !match {
				ok = false
				if firstBad == "" {
					cls := "drain-mismatch"
					switch {
					case !ks.anyPending() && len(gotD[k]) == 1:
						cls = "drain-extra:" + ks.gone
					case !ks.anyPending():
						cls = "fired-not-pending:" + ks.gone
					case len(gotD[k]) == 0 && len(gotF[k]) == 0:
						cls = "drain-missing"
						if w.drainPanicked {
							cls = "drain-missing/after-panicking-drain-callback"
						}
					case len(gotD[k]) == 1:
						cls = "drain-wrong-value"
					}
					badClass = cls
					firstBad = fmt.Sprintf("key k%d: model %v, executed by tick %v, delivered by Drain %v", k, ks.cands, gotF[k], gotD[k])
				}
				break
			}
		}
		if ok {
			firstBad = ""
			break
		}
	}
	if firstBad != "" {
		w.fail(badClass, "Drain at tick %d (racing with a tick: %v): %s", w.T, raceTick, firstBad)
		return
	}
	w.verified += len(w.drained)
	for _, ks := range w.keys {
		if ks.anyPending() {
			ks.gone = "drained"
		}
		ks.cands = []cand{{}}
		ks.resched = false
		ks.dues = nil
	}
	w.drained = nil
}

func drawSteps(t *simrt.Tape, n int) int {
	switch t.Intn(6) {
	case 0:
		return t.Range(1, n) // within one revolution
	case 1:
		return n * t.Range(1, 3) // exact multiples of the wheel size
	case 2:
		return t.Range(n+1, 3*n+3) // longer than a revolution
	case 3:
		s := n*t.Range(1, 3) + t.Range(-1, 1)
		if s < 1 {
			s = 1
		}
		return s
	case 4:
		return t.Range(1, 2*n)
	default:
		return t.Range(3*n, 5*n+5)
	}
}

func drawFrac(t *simrt.Tape, interval time.Duration) time.Duration {
	switch t.Intn(3) {
	case 0:
		return 0
	case 1:
		return interval - 1
	default:
		return time.Duration(t.Intn(int(interval)))
	}
}

func drawTicks(t *simrt.Tape, n int) int {
	switch t.Intn(4) {
	case 0:
		return 1
	case 1:
		return t.Range(1, n)
	case 2:
		return t.Range(n, 2*n+1)
	default:
		return t.Range(1, 3)
	}
}

const (
	modeSeqFake = iota
	modeRace
	modeSeqReal
	modeBulk    // sequential, fake ticker, more pending timers than Drain has workers, slow Drain
	modeCleaner // second layer: the cache cleaner's retry ladder on its own wheel (cleaner_test.go)
	modeCache   // second layer: collection.Cache's expiry timers on its own wheel (cache_test.go)
)

var modeNames = []string{"sequential, fake ticker", "operations racing with ticks, fake ticker", "sequential, real ticker on the virtual clock",
	"many pending timers, slow Drain followed by operations, fake ticker", "cache cleaner retry ladder", "collection.Cache expiry timers"}

func body(r *simrt.Run, tier string) {
	t := r.Tape
	mode := modeSeqFake
	switch m := t.Intn(13); {
	case m < 5:
	case m < 8:
		mode = modeRace
	case m < 10:
		mode = modeSeqReal
	case m < 11:
		mode = modeBulk
	case m < 12:
		cleanerBody(r, tier)
		return
	default:
		cacheBody(r, tier)
		return
	}
	maxSlots, maxSteps, maxKeys := 12, 14, 4
	if tier == "thorough" {
		maxSlots, maxSteps, maxKeys = 24, 40, 6
	}
	n := t.Range(1, maxSlots)
	var interval time.Duration
	if mode == modeSeqReal {
		interval = []time.Duration{time.Second, time.Millisecond, time.Minute}[t.Intn(3)]
	} else {
		interval = []time.Duration{time.Second, time.Millisecond, 7, time.Hour, 1}[t.Intn(5)]
	}
	nKeys := t.Range(1, maxKeys)
	nSteps := t.Range(1, maxSteps)
	if mode == modeBulk {
		// Drain hands the timers to a bounded number of workers: more pending timers than that
		nKeys = t.Range(9, 14)
		nSteps = t.Range(0, 4)
	}
	// user-code faults and callbacks that call back into the wheel: each in a part of the runs
	pPanic := []int{0, 0, 0, 3}[t.Intn(4)]   // of 10: the execute callback panics for this value
	pAct := []int{0, 0, 0, 3}[t.Intn(4)]     // of 10: the execute callback calls back into the wheel
	noDemote := mode == modeRace && t.Bool() // operations racing with a tick also on re-scheduled pending keys
	// 0: run out; 1: drain; 2: some ticks, then drain; 3: drain racing with a tick (race mode) / drain;
	// 4: slow drain followed by operations and ticks
	end := []int{0, 1, 0, 2, 0, 3, 4, 4}[t.Intn(8)]
	if mode == modeBulk {
		end = 4
	}
	// what is handed to the wheel (shapes_test.go); draw 0: ints
	keyShape := []int{0, 0, 0, 1, 2, 3, 4}[t.Intn(7)]
	valShape := []int{0, 0, 1, 2, 3}[t.Intn(5)]
	useNil := t.Intn(4) == 3             // some sets carry a nil value
	pRepeat := []int{0, 0, 3}[t.Intn(3)] // of 10: a set re-uses the value of the previous set of its key (half of them: and its delay)
	pkDrain := t.Intn(len(panicNames))   // what a panicking drain callback panics with
	far := t.Intn(4) == 3                // some delays are thousands of revolutions long
	pDrain := []int{0, 0, 1}[t.Intn(3)]  // of 12: a sequential step is a Drain (the history goes on afterwards)
	withPeer := t.Intn(6) == 5           // a second wheel lives in the same run (peer_test.go)
	pPark := 0                           // of 10: the execute callback parks for this value (park_test.go)
	if (mode == modeSeqFake || mode == modeSeqReal) && end != 4 {
		pPark = []int{0, 0, 3}[t.Intn(3)]
	}
	pBurst := 0 // of 10: a tick step is a burst of ticks without quiescence in between (burst_test.go)
	if (mode == modeSeqFake || mode == modeBulk) && pAct == 0 && pPark == 0 {
		pBurst = []int{0, 0, 5}[t.Intn(3)]
	}
	align := pPanic > 0 || pAct > 0 || mode == modeBulk || pPark > 0 || pBurst > 0
	pB2B := []int{0, 0, 4}[t.Intn(3)] // of 10: an operation step is issued without waiting for quiescence (backToBack)
	alignDen := 3                     // one delay in three is aligned with the due tick of another key
	if pPark > 0 || pBurst > 0 {
		alignDen = 2
	}

	// generation-time picture of the history (which keys are probably pending, and when they are
	// due); it only steers the workload towards several timers due at the same tick
	genT := 0
	genDue := make([]int, nKeys)
	for i := range genDue {
		genDue[i] = -1
	}
	steps := func(key int) int {
		if far && t.Intn(8) == 0 {
			return hugeSteps(t, n, interval)
		}
		if align && t.Intn(alignDen) == 0 {
			var c []int
			for k, d := range genDue {
				if k != key && d > genT {
					c = append(c, d-genT)
				}
			}
			if len(c) > 0 {
				return c[t.Intn(len(c))]
			}
		}
		return drawSteps(t, n)
	}
	genApply := func(o op) {
		switch o.kind {
		case opSet:
			genDue[o.key] = genT + o.steps
		case opMove:
			if genDue[o.key] > genT {
				genDue[o.key] = genT + o.steps
			}
		case opRemove:
			genDue[o.key] = -1
		case opTick, opBurst:
			genT += o.n
		case opDrain:
			for k := range genDue {
				genDue[k] = -1
			}
		}
	}
	genPending := func() []int {
		var p []int
		for k, d := range genDue {
			if d > genT {
				p = append(p, k)
			}
		}
		return p
	}
	nextVal := 100
	drawAct := func(key int) action {
		var a action
		if pAct > 0 && t.Intn(10) < pAct {
			other := key // a quarter of the callbacks that name a key name their own
			if nKeys > 1 && t.Intn(4) != 0 {
				other = (key + 1 + t.Intn(nKeys-1)) % nKeys
			}
			switch t.Intn(5) {
			case 0, 1:
				a = action{kind: actRearm, steps: steps(key), frac: drawFrac(t, interval), chain: []int{0, 0, 1, 3}[t.Intn(4)]}
			case 2:
				a = action{kind: actMoveOther, key: other, steps: steps(other), frac: drawFrac(t, interval)}
			case 3:
				a = action{kind: actRemoveOther, key: other}
			default:
				a = action{kind: actSetOther, key: other, steps: steps(other), frac: drawFrac(t, interval)}
			}
		}
		if pPark > 0 && t.Intn(10) < pPark {
			a.park = true
		}
		if pPanic > 0 && t.Intn(10) < pPanic {
			a.panics = true
			a.pkind = t.Intn(len(panicNames))
		}
		return a
	}
	inPlan := true // drains and bursts only as steps of the main history
	lastSet := make([]*op, nKeys)
	drawOp := func(key int, allowTick bool) op {
		o := op{key: key}
		if allowTick && inPlan && pDrain > 0 && t.Intn(12) < pDrain {
			o.kind = opDrain
			return o
		}
		v := t.Intn(12)
		switch {
		case v < 4:
			o.kind = opSet
		case v < 8:
			if allowTick {
				o.kind = opTick
			} else {
				o.kind = opSet
			}
		case v < 11:
			o.kind = opMove
		default:
			o.kind = opRemove
		}
		switch o.kind {
		case opSet:
			if p := lastSet[key]; p != nil && pRepeat > 0 && t.Intn(10) < pRepeat {
				// the same value again (a refresh): with a new delay or with the very same delay
				o.val, o.act, o.rep = p.val, p.act, 1
				if t.Bool() {
					o.steps, o.frac, o.rep = p.steps, p.frac, 2
				} else {
					o.steps, o.frac = steps(key), drawFrac(t, interval)
				}
			} else {
				o.val = nextVal
				nextVal++
				o.steps, o.frac = steps(key), drawFrac(t, interval)
				o.act = drawAct(key)
				if useNil && t.Intn(5) == 0 {
					o.val, o.act = nilVal, action{}
				}
			}
			c := o
			lastSet[key] = &c
		case opMove:
			o.steps, o.frac = steps(key), drawFrac(t, interval)
		case opTick:
			o.n = drawTicks(t, n)
			if inPlan && pBurst > 0 && t.Intn(10) < pBurst {
				o.kind = opBurst
				o.n = t.Range(2, n+3)
			}
		}
		return o
	}
	var plan []step
	if mode == modeBulk {
		for _, k := range t.Perm(nKeys) {
			o := op{kind: opSet, key: k, val: nextVal, steps: steps(k), frac: drawFrac(t, interval)}
			nextVal++
			o.act = drawAct(k)
			c := o
			lastSet[k] = &c
			genApply(o)
			plan = append(plan, step{ops: []op{o}})
		}
	}
	for i := 0; i < nSteps; i++ {
		if mode == modeRace && t.Intn(2) == 0 {
			m := t.Range(1, min(3, nKeys))
			keys := t.Perm(nKeys)[:m]
			st := step{race: true}
			for _, k := range keys {
				o := drawOp(k, false)
				genApply(o)
				st.ops = append(st.ops, o)
			}
			genT++
			plan = append(plan, st)
			continue
		}
		o := drawOp(t.Intn(nKeys), true)
		genApply(o)
		st := step{ops: []op{o}}
		if pB2B > 0 && o.kind != opTick && o.kind != opBurst && o.kind != opDrain && t.Intn(10) < pB2B {
			// no waiting for the wheel to be idle: 0-2 more operations directly behind it, then possibly a tick
			st.b2b = true
			for j, m := 0, t.Intn(3); j < m; j++ {
				x := drawOp(t.Intn(nKeys), false)
				genApply(x)
				st.ops = append(st.ops, x)
			}
			if st.thenTick = t.Intn(3) != 0; st.thenTick {
				genApply(op{kind: opTick, n: 1})
			}
		}
		plan = append(plan, st)
	}
	inPlan = false
	partial := drawTicks(t, n)
	extra := t.Intn(n + 2)
	drainPanics := map[int]bool{} // drain callback panics for these keys
	if pPanic > 0 && (end != 0 || pDrain > 0) {
		for k := 0; k < nKeys; k++ {
			if t.Intn(10) < pPanic {
				drainPanics[k] = true
			}
		}
	}
	var sdPlan *slowDrainPlan
	if end == 4 {
		sdPlan = &slowDrainPlan{ticksBefore: 0, quiesce: t.Bool()}
		if mode != modeBulk && t.Bool() {
			sdPlan.ticksBefore = partial
			genApply(op{kind: opTick, n: partial})
		}
		if t.Bool() {
			// an operation directly before Drain, without waiting for the wheel to be idle again
			o := drawOp(t.Intn(nKeys), false)
			genApply(o)
			sdPlan.pre = &o
		}
		style := t.Intn(4)
		for k := 0; k < nKeys; k++ {
			b := dbeh{panics: drainPanics[k]}
			sl := []time.Duration{1, time.Millisecond, 3 * time.Second}[t.Intn(3)]
			switch style {
			case 0:
				b.gate = true
			case 1:
				b.gate = t.Bool()
			case 2:
				b.sleep = sl
			default:
				switch t.Intn(3) {
				case 1:
					b.gate = true
				case 2:
					b.sleep = sl
				}
			}
			if mode == modeSeqReal && b.sleep > 0 {
				// on the real ticker virtual time is ticks: only gates there
				b.sleep, b.gate = 0, true
			}
			sdPlan.beh = append(sdPlan.beh, b)
		}
		for i, m := 0, t.Range(1, 6); i < m; i++ {
			key := t.Intn(nKeys)
			if p := genPending(); len(p) > 0 && t.Intn(3) != 0 {
				key = p[t.Intn(len(p))] // a key that was (probably) pending when Drain was called
			}
			o := drawOp(key, true)
			sdPlan.after = append(sdPlan.after, o)
		}
	}
	var pp *peerPlan
	if withPeer {
		pp = genPeer(t, maxSlots, nKeys, len(plan), &nextVal)
	}

	w := &world{r: r, n: n, interval: interval, noDemote: noDemote, acts: map[int]action{}, nextCbVal: 100000,
		valShape: valShape, pkDrain: pkDrain, gate: make(chan struct{})}
	w.setKeys(makeKeys(keyShape, nKeys))
	for i := 0; i < nKeys; i++ {
		w.keys = append(w.keys, &keyState{cands: []cand{{}}, gone: "never-set"})
	}
	w.hasActOps = pAct > 0
	if r.Tracing() {
		r.Logf("mode=%d slots=%d interval=%v keys=%d (%s) values=%s end=%d partial=%d extra=%d noDemote=%v drainPanics=%v plan=%v slowDrain=%v peer=%v", mode, n, interval, nKeys,
			keyShapeNames[keyShape], valShapeNames[valShape], end, partial, extra, noDemote, drainPanics, plan, sdPlan, pp)
	}
	var ps []string
	for _, s := range plan {
		ps = append(ps, s.String())
	}
	sample := map[string]any{"mode": modeNames[mode], "slots": n, "interval": interval.String(), "keys": nKeys, "history": ps,
		"key_objects": keyShapeNames[keyShape], "value_objects": valShapeNames[valShape],
		"end": []string{"run out", "drain", "ticks then drain", "drain (racing with a tick in race mode)", "slow drain, then operations on the drained keys and ticks"}[end]}
	if sdPlan != nil {
		sample["slow_drain"] = sdPlan.String()
	}
	if len(drainPanics) > 0 {
		sample["drain_callback_panics_for_keys"] = fmt.Sprint(drainPanics) + " with " + panicNames[pkDrain]
	}
	if pp != nil {
		sample["second_wheel"] = pp.String()
	}
	r.Sample(sample)
	if keyShape != 0 {
		r.Probe("keys:" + keyShapeNames[keyShape])
	}
	if valShape != 0 {
		r.Probe("values:" + valShapeNames[valShape])
	}

	var err error
	w.t0 = time.Now()
	if mode == modeSeqReal {
		r.Probe("real-ticker")
		w.tw, err = collection.NewTimingWheel(interval, n, w.onExecute)
	} else {
		w.fake = timex.NewFakeTicker()
		w.tickGaps = r.Tape.Intn(3)
		w.tw, err = collection.NewTimingWheelWithTicker(interval, n, w.onExecute, w.fake)
	}
	if err != nil {
		r.Fail("op-error", "NewTimingWheel(%v, %d) returned %v", interval, n, err)
		return
	}
	w.drainPanics = drainPanics
	defer func() {
		w.releaseQuietly()
		if w.sd != nil {
			w.sd.cleanup()
		}
		w.tw.Stop()
		r.Quiesce()
	}()
	var pw *world
	if pp != nil {
		r.Probe("second-wheel")
		if pw, err = w.newPeer(pp); err != nil {
			r.Fail("op-error", "NewTimingWheelWithTicker(%v, %d) returned %v", pp.interval, pp.n, err)
			return
		}
		defer func() {
			pw.tw.Stop()
			r.Quiesce()
		}()
	}
	r.Quiesce()

	for i, s := range plan {
		if w.stop {
			return
		}
		switch {
		case s.race:
			w.raceRound(s.ops)
		case s.b2b:
			w.backToBack(s.ops, s.thenTick)
		case s.ops[0].kind == opTick:
			w.seqTicks(s.ops[0].n)
		case s.ops[0].kind == opBurst:
			w.burst(s.ops[0].n)
		case s.ops[0].kind == opDrain:
			r.Probe("drain-in-the-middle-of-the-history")
			w.drain(false)
		default:
			w.seqOp(s.ops[0])
		}
		if pw != nil {
			w.cross(pw, s.String())
			w.peerSteps(pp, pp.sched[i])
		}
		if len(w.parked) > 0 && !w.stop && t.Intn(3) == 0 {
			w.releaseParked()
		}
	}
	if w.stop {
		return
	}
	if pw != nil {
		w.peerSteps(pp, -1) // the second wheel keeps what is pending on it while the first one ends
	}
	if len(w.parked) > 0 && !w.stop && t.Bool() {
		w.releaseParked()
	}
	if w.stop {
		return
	}
	switch end {
	case 0:
		w.runOut()
	case 2:
		w.seqTicks(partial)
		if !w.stop {
			w.drain(false)
		}
	case 3:
		// a callback of the racing tick that calls back into the wheel would be an operation
		// racing with Drain, which the statement does not order: no racing tick then
		race := mode == modeRace && !w.hasActOps
		for _, ks := range w.keys {
			if ks.resched && ks.anyPending() && !w.noDemote {
				race = false // see raceRound
			}
		}
		w.drain(race)
	case 4:
		w.seqTicks(sdPlan.ticksBefore)
		if !w.stop {
			w.slowDrainThenOps(sdPlan)
		}
		if !w.stop {
			w.runOut() // timers set after Drain fire normally
		}
	default:
		w.drain(false)
	}
	if !w.stop {
		// slow callbacks that are still parked are let go; what they re-arm runs out
		w.finishParked()
	}
	if !w.stop {
		// nothing may fire any more
		w.seqTicks(extra)
	}
	if pw != nil && !w.stop {
		w.cross(pw, "the end of the history")
		if pp.end == 0 {
			pw.runOut()
		} else {
			pw.drain(false)
		}
		if !w.stop {
			pw.seqTicks(1 + extra%3)
		}
		pw.cross(w, "the end of the history")
		if !w.stop && pw.verified > 0 {
			r.Probe("second-wheel-verified-fire-or-delivery")
		}
	}
	if !w.stop && w.verified > 0 && w.boundary {
		r.Probe("nontrivial")
	}
}

// runOut ticks until nothing is pending any more (callbacks may re-arm; chains are bounded).
func (w *world) runOut() {
	for i := 0; i < 64 && !w.stop; i++ {
		d := w.maxDue() - w.T
		if d <= 0 {
			break
		}
		w.seqTicks(d)
	}
	if w.stop {
		return
	}
	// timers thousands of revolutions away are never reached: they are taken out
	for k, ks := range w.keys {
		isFar := false
		for _, c := range ks.cands {
			if c.pending && c.due-w.T > farLimit {
				isFar = true
			}
		}
		if isFar {
			w.r.Probe("far-timer-removed-at-the-end")
			w.seqOp(op{kind: opRemove, key: k})
			if w.stop {
				return
			}
		}
	}
	for _, ks := range w.keys {
		if ks.anyPending() {
			w.fail("model-error", "harness bug: key still pending after run-out: %v", ks.cands)
			return
		}
	}
}

func config(t *simrt.Tape, tier string) simrt.Config {
	// The property is indexed by ticks, not by time: virtual-time stalls inside the wheel would
	// only blur which tick an observation belongs to, so only context switches are injected.
	sw := []int{20, 60, 150, 300, 500}[t.Intn(5)]
	return simrt.Config{SwitchPerMille: sw, MaxSteps: 150000, MaxVirtual: 2000 * time.Hour}
}

func TestSim(t *testing.T) {
	simharness.Main(t, &simharness.Spec{ID: "C12", Body: body, Config: config, StuckIsViolation: true, CrashIsViolation: true})
}
