package c12

import (
	"fmt"
	"strings"
	"time"

	"verifsim/simrt"
)

// Slow Drain followed by operations.
//
// Drain hands every pending timer to the drain callback on worker goroutines and returns as soon
// as the wheel has taken the request.  Here the callback is slow (parks on a gate until the
// harness opens it, or sleeps virtual time), and AFTER Drain has returned the client removes, moves
// and sets keys - in particular keys whose timers were pending when Drain was called - and lets
// the wheel tick.
//
// From the statement: every timer that was pending when Drain was called is delivered to the
// drain callback exactly once, with the value it had at that moment, whatever is done to its key
// afterwards; it does not fire through execute as well; a set after Drain creates a new timer
// that fires at its own due tick; a move or remove of a drained key finds nothing.  So the
// reference model simply makes every key absent when Drain returns and remembers what has to be
// delivered; the deliveries are compared once the callbacks were let go.
//
// The operations are issued one at a time, each on a task of its own: when the wheel is still busy
// inside Drain (it waits for a free worker while all of them sit in the slow callback) the
// operation cannot be taken yet; the harness sees that at quiescence and only then opens the gate.

type dbeh struct {
	gate   bool          // the callback parks until the harness opens the gate
	sleep  time.Duration // the callback sleeps virtual time (fake ticker only)
	panics bool          // the callback panics at its end
}

type slowDrainPlan struct {
	ticksBefore int
	pre         *op    // issued directly before Drain: the wheel is still busy with it when Drain is called
	quiesce     bool   // wait for quiescence between Drain's return and the first operation
	beh         []dbeh // per key
	after       []op   // operations (and ticks) issued after Drain returned
}

func (p *slowDrainPlan) String() string {
	var b []string
	for k, x := range p.beh {
		s := "instant"
		switch {
		case x.gate:
			s = "gate"
		case x.sleep > 0:
			s = "sleep " + x.sleep.String()
		}
		if x.panics {
			s += "+panic"
		}
		b = append(b, fmt.Sprintf("k%d:%s", k, s))
	}
	var a []string
	for _, o := range p.after {
		a = append(a, o.String())
	}
	pre := ""
	if p.pre != nil {
		pre = fmt.Sprintf("; directly before Drain %v", *p.pre)
	}
	return fmt.Sprintf("ticks before %d%s; drain callback {%s}; quiesce after Drain returned %v; then %s", p.ticksBefore, pre, strings.Join(b, " "), p.quiesce, strings.Join(a, ", "))
}

type slowDrain struct {
	w        *world
	plan     *slowDrainPlan
	gate     chan struct{}
	open     bool
	maxSleep time.Duration
	snap     [][]cand      // per key: the candidates when Drain was called
	gone     []string      // per key: why it was absent then
	setAfter map[int][]int // key -> values set after Drain returned
	opsAfter map[int][]string
	atTick   int
}

// release opens the gate; false if there is no closed gate.
func (sd *slowDrain) release(why string) bool {
	if sd.open {
		return false
	}
	sd.open = true
	sd.w.r.Probe("slow-drain-gate-opened-for-" + why)
	simrt.Close("c12.gate", sd.gate)
	return true
}

// settle lets parked / sleeping drain callbacks go until cond holds (the wheel took what it was
// offered).  Virtual time only passes for sleeping callbacks, which exist with the fake ticker only.
func (sd *slowDrain) settle(cond func() bool) {
	r := sd.w.r
	if sd.release("operation") {
		r.Quiesce()
	}
	for i := 0; i < len(sd.w.keys)+2 && !cond() && sd.maxSleep > 0; i++ {
		r.Sleep(sd.maxSleep)
		r.Quiesce()
	}
}

// cleanup lets every callback finish (also after a violation) so that nothing outlives the run.
func (sd *slowDrain) cleanup() {
	r := sd.w.r
	sd.release("end")
	r.Quiesce()
	for i := 0; i < len(sd.w.keys)+2 && sd.maxSleep > 0; i++ {
		r.Sleep(sd.maxSleep)
		r.Quiesce()
	}
}

// opAfterDrain issues one operation after Drain returned and waits until the wheel has taken it.
func (sd *slowDrain) opAfterDrain(o op) {
	w := sd.w
	r := w.r
	if o.kind == opSet {
		sd.setAfter[o.key] = append(sd.setAfter[o.key], o.val)
	}
	sd.opsAfter[o.key] = append(sd.opsAfter[o.key], o.kind.String())
	r.Probe("op-after-drain")
	if len(sd.snap[o.key]) > 0 && pendingIn(sd.snap[o.key]) {
		r.Probe("op-after-drain-on-drained-key:" + o.kind.String())
	}
	tk := r.Go("op-after-drain", func() { w.issue(o) })
	r.Quiesce()
	if !tk.Done() {
		// the wheel is still inside Drain, waiting for a free worker
		r.Probe("op-after-drain-waits-for-slow-drain")
		sd.settle(tk.Done)
		if !r.JoinTimeout(time.Hour, tk) {
			w.fail("stuck", "%v issued after Drain returned was not taken by the wheel although every drain callback was let go: %v", o, r.AliveTasks())
			return
		}
		r.Quiesce()
	}
}

func pendingIn(cs []cand) bool {
	for _, c := range cs {
		if c.pending {
			return true
		}
	}
	return false
}

func (w *world) slowDrainThenOps(p *slowDrainPlan) {
	r := w.r
	r.Probe("drain")
	r.Probe("slow-drain")
	w.drains++
	if w.drains > 1 {
		r.Probe("drain-repeated-on-one-wheel")
	}
	sd := &slowDrain{w: w, plan: p, gate: make(chan struct{}), setAfter: map[int][]int{}, opsAfter: map[int][]string{}, atTick: w.T}
	for _, b := range p.beh {
		if b.sleep > sd.maxSleep {
			sd.maxSleep = b.sleep
		}
	}
	fn := func(k, v any) {
		r.Yield()
		key, val, known := w.decode(k, v)
		if !known {
			w.fail("drain-unknown-key", "Drain delivered (%#v, %#v): no such key or value was ever handed to the wheel", k, v)
			return
		}
		w.drained = append(w.drained, fire{key: key, val: val})
		r.Ev("drained", int64(key), int64(val))
		var b dbeh
		if key >= 0 && key < len(p.beh) {
			b = p.beh[key]
		}
		if b.gate && !sd.open {
			r.Probe("drain-callback-parked")
			simrt.Recv("c12.gate", sd.gate)
		}
		if b.sleep > 0 {
			r.Probe("drain-callback-sleeps")
			r.Sleep(b.sleep)
		}
		if b.panics {
			r.Probe("drain-callback-panics")
			w.drainPanicked = true
			doPanic(w.pkDrain, fmt.Sprintf("c12: user code of the drain callback panics (k%d)", key))
		}
	}
	if p.pre != nil {
		// a sequential client that does not wait for the wheel to be idle: the operation has
		// been taken by the wheel when SetTimer/MoveTimer/RemoveTimer returns, so it precedes Drain
		o := *p.pre
		ks := w.keys[o.key]
		w.noteOp(ks, o)
		r.Ev("op-before-drain", int64(o.kind), int64(o.key), int64(o.steps))
		r.Probe("op-directly-before-drain")
		if o.kind == opSet && o.act != (action{}) {
			w.acts[o.val] = o.act
		}
		w.issue(o)
		if w.stop {
			return
		}
		var cs []cand
		for _, c := range ks.cands {
			cs = addCand(cs, apply(c, o, w.T))
		}
		w.setCands(ks, cs, o)
	}
	nPending := 0
	for _, ks := range w.keys {
		sd.snap = append(sd.snap, append([]cand{}, ks.cands...))
		sd.gone = append(sd.gone, ks.gone)
		if ks.anyPending() {
			nPending++
		}
	}
	if nPending > 8 {
		r.Probe("slow-drain-more-than-8-pending")
	}
	r.Ev("slow-drain", int64(nPending))
	w.sd = sd
	if err := w.tw.Drain(fn); err != nil {
		w.fail("op-error", "Drain returned %v", err)
		return
	}
	// Drain has returned: whatever was pending is Drain's to deliver, the keys are free again
	for _, ks := range w.keys {
		if ks.anyPending() {
			ks.gone = "drained"
		}
		ks.cands = []cand{{}}
		ks.resched = false
		ks.dues = nil
	}
	if p.quiesce {
		r.Quiesce()
	}
	for _, o := range p.after {
		if w.stop {
			return
		}
		if o.kind == opTick {
			w.seqTicks(o.n)
		} else {
			w.seqOp(o)
		}
	}
	if w.stop {
		return
	}
	// let every callback finish, then compare the deliveries
	sd.cleanup()
	if len(w.fires) > 0 {
		w.fail("fired-outside-tick", "letting the drain callbacks finish (no tick) made the wheel execute %v", w.fires)
		return
	}
	sd.evaluate()
	w.sd = nil
}

func (sd *slowDrain) evaluate() {
	w := sd.w
	r := w.r
	r.Probe("oracle")
	gotD := map[int][]int{}
	for _, f := range w.drained {
		gotD[f.key] = append(gotD[f.key], f.val)
	}
	if len(w.drained) > 0 {
		r.Probe("drain-nonempty")
	}
	for k := range w.keys {
		obs := gotD[k]
		delete(gotD, k)
		after := ""
		if a := sd.opsAfter[k]; len(a) > 0 {
			after = "/" + a[0] + "-after-drain"
		}
		if len(obs) > 1 {
			w.fail("drain-duplicate"+after, "Drain at tick %d delivered key k%d %d times (values %v)", sd.atTick, k, len(obs), obs)
			return
		}
		match := false
		for _, c := range sd.snap[k] {
			if c.pending && len(obs) == 1 && obs[0] == c.val || !c.pending && len(obs) == 0 {
				match = true
			}
		}
		if match {
			if len(obs) == 1 {
				w.verified++
				if after != "" {
					r.Probe("drain-delivery-verified-for-key-operated-on-after-drain")
				}
			}
			continue
		}
		desc := fmt.Sprintf("Drain at tick %d: key k%d: pending when Drain was called %v, delivered by Drain %v, operations on the key after Drain returned %v", sd.atTick, k, sd.snap[k], obs, sd.opsAfter[k])
		switch {
		case !pendingIn(sd.snap[k]):
			isSet := false
			for _, v := range sd.setAfter[k] {
				if v == obs[0] {
					isSet = true
				}
			}
			if isSet {
				w.fail("drain-delivers-timer-set-after-drain", "%s", desc)
			} else {
				w.fail("drain-extra:"+sd.gone[k]+after, "%s", desc)
			}
		case len(obs) == 0 && w.drainPanicked:
			w.fail("drain-missing/after-panicking-drain-callback", "%s", desc)
		case len(obs) == 0:
			w.fail("drain-missing"+after, "%s", desc)
		default:
			cls := "drain-wrong-value"
			for _, v := range sd.setAfter[k] {
				if v == obs[0] {
					cls = "drain-wrong-value/set-after-drain"
				}
			}
			w.fail(cls, "%s", desc)
		}
		return
	}
	if len(gotD) > 0 {
		w.fail("drain-unknown-key", "Drain delivered keys that were never used: %v", gotD)
		return
	}
	w.drained = nil
}
