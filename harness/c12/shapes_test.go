package c12

import (
	"errors"
	"fmt"
	"strconv"
	"time"

	"github.com/zeromicro/go-zero/core/collection"

	"verifsim/simrt"
)

// Shapes of what is handed to the wheel.
//
// The wheel's keys and values are `any`.  The model works with small integers (key index, value id);
// the objects the wheel actually gets are chosen per run:
//
//	keys:   ints | strings | structs | a mix of dynamic types that all print alike (int 0, int64 0,
//	        "0", uint8 0 are four different keys) | pointers to equal structs (identity, not content)
//	values: ints | strings | structs | pointers to structs; and, in a part of the runs, nil for some sets
//
// Draw value 0 is ints for both.

type keyBox struct {
	A int
	B string
}

type valBox struct {
	N int
	S string
}

// nilVal is the value id of "SetTimer(key, nil, d)" (value ids of ordinary sets start at 100).
const nilVal = 7

var keyShapeNames = []string{"int", "string", "struct", "mixed dynamic types printing alike", "pointers to equal structs"}
var valShapeNames = []string{"int", "string", "struct", "pointer to struct"}

func makeKeys(shape, n int) []any {
	var ks []any
	for i := 0; i < n; i++ {
		switch shape {
		case 1:
			ks = append(ks, "k"+strconv.Itoa(i))
		case 2:
			ks = append(ks, keyBox{A: i / 2, B: []string{"a", "b"}[i%2]})
		case 3:
			base := i / 4
			switch i % 4 {
			case 0:
				ks = append(ks, base)
			case 1:
				ks = append(ks, int64(base))
			case 2:
				ks = append(ks, strconv.Itoa(base))
			default:
				ks = append(ks, uint8(base))
			}
		case 4:
			ks = append(ks, &keyBox{A: 0, B: "same"})
		default:
			ks = append(ks, i)
		}
	}
	return ks
}

func encVal(shape, val int) any {
	if val == nilVal {
		return nil
	}
	switch shape {
	case 1:
		return "v" + strconv.Itoa(val)
	case 2:
		return valBox{N: val, S: "x"}
	case 3:
		return &valBox{N: val, S: "x"}
	}
	return val
}

func decVal(v any) (int, bool) {
	switch x := v.(type) {
	case nil:
		return nilVal, true
	case int:
		return x, true
	case string:
		if len(x) > 1 && x[0] == 'v' {
			if n, err := strconv.Atoi(x[1:]); err == nil {
				return n, true
			}
		}
	case valBox:
		return x.N, true
	case *valBox:
		if x != nil {
			return x.N, true
		}
	}
	return 0, false
}

// decode maps what the wheel handed to a callback back to (key index, value id).
func (w *world) decode(k, v any) (key, val int, ok bool) {
	switch k.(type) {
	case int, int64, uint8, string, keyBox, *keyBox:
	default:
		return 0, 0, false
	}
	key, ok = w.keyIdx[k]
	if !ok {
		return 0, 0, false
	}
	val, ok = decVal(v)
	return key, val, ok
}

func (w *world) setKeys(keys []any) {
	w.keyOf = keys
	w.keyIdx = map[any]int{}
	for i, k := range keys {
		w.keyIdx[k] = i
	}
}

// What a panicking callback panics with.
var panicNames = []string{"string", "error value", "runtime error (nil map write)", "runtime error (index out of range)", "the wheel's own ErrClosed, wrapped", "custom struct"}

type panicBox struct{ msg string }

func doPanic(kind int, msg string) {
	switch kind {
	case 1:
		panic(errors.New(msg))
	case 2:
		var m map[int]int
		m[len(msg)] = 1
	case 3:
		var a []int
		_ = a[len(msg)]
	case 4:
		panic(fmt.Errorf("%s: %w", msg, collection.ErrClosed))
	case 5:
		panic(panicBox{msg})
	}
	panic(msg)
}

// Delays thousands of revolutions long: never reached in a run.  They must not fire, can be
// moved / removed / drained like any other timer, and are taken out at the end of a run-out.
const farLimit = 1 << 16

func hugeSteps(t *simrt.Tape, n int, interval time.Duration) int {
	lim := int((int64(1) << 62) / int64(interval))
	if lim > 1<<40 {
		lim = 1 << 40
	}
	lo := 1 << 17
	if lim < lo {
		lim = lo
	}
	h := t.Range(lo, lim)
	if t.Intn(3) == 1 && h-h%n >= lo {
		h -= h % n // a whole number of revolutions
	}
	return h
}
