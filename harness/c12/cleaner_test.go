package c12

import (
	"errors"
	"fmt"
	"sort"
	"time"

	"github.com/zeromicro/go-zero/core/stores/cache"

	"verifsim/simrt"
)

// Second layer: the cache cleaner (core/stores/cache/cleaner.go) on its own timing wheel
// (1 s interval, 300 slots, real ticker on the virtual clock; built per run by the seam
// cache.VerifResetCleaner).
//
// AddCleanTask(fn) sets a timer of one second; when it fires, fn runs on the cleaner's task runner;
// when fn fails the cleaner re-arms the SAME key from inside that task with the next delay of its
// retry ladder (1 s, 5 s, 1 min, 5 min, 1 h; after the 1 h attempt it gives up).  For the wheel this
// is "a callback's task sets the key that just fired": by the statement every rung fires exactly
// once, at the floor(delay/1s)-th tick after the moment it was set, and never again.
//
// The scenario: 1-3 clean tasks added at tape-chosen instants (between two ticks), each failing a
// tape-chosen number of times; an attempt may take virtual time (then the re-arm happens later,
// possibly some ticks later).  Tick i of the wheel happens at t0 + i seconds; the instant a timer is
// set is chosen strictly between two ticks (or at an instant at which the tick was already taken),
// so "the number of ticks taken when it was set" is known exactly.

var cleanerLadder = []int{1, 5, 60, 300, 3600} // seconds == ticks: delay of the n-th attempt

type cleanTask struct {
	id       int
	addAfter time.Duration   // AddCleanTask is called this long after the wheel was built
	fails    int             // the first `fails` attempts return an error
	durs     []time.Duration // virtual time taken by the n-th attempt
	added    bool
	running  bool
	done     bool
	attempts int
	expTick  int // tick at which the next attempt is due
	lastEnd  time.Time
	fn       func() error
}

func cleanerBody(r *simrt.Run, tier string) {
	t := r.Tape
	r.Probe("cleaner-mode")
	nTasks := t.Range(1, 3)
	// shutdown scenario: what the cleaner's shutdown listener does - Drain(clean) while clean tasks
	// are pending.  clean runs the task on the cleaner's own bounded task runner and a failing task
	// re-arms its key (a SetTimer issued while / after the wheel drains).
	shutdown := t.Intn(4) == 3
	if shutdown {
		nTasks = t.Range(1, 18)
	}
	// the 1 h rung costs 3600 wheel ticks: rarely
	failChoices := []int{0, 1, 1, 2, 2, 3, 3, 0, 1, 2, 3, 2, 1, 3}
	longOneIn := 48
	if tier == "thorough" {
		longOneIn = 8
	}
	// instants between two ticks at which no attempt can end (attempts start at full seconds)
	offsets := []time.Duration{0, 300 * time.Millisecond, 1500 * time.Millisecond, 2600 * time.Millisecond, 7100 * time.Millisecond, 299500 * time.Millisecond}
	attemptDurs := []time.Duration{0, 0, 300 * time.Millisecond, 1700 * time.Millisecond, 4200 * time.Millisecond}
	var tasks []*cleanTask
	for i := 0; i < nTasks; i++ {
		ct := &cleanTask{id: i, addAfter: offsets[t.Intn(len(offsets))], fails: failChoices[t.Intn(len(failChoices))]}
		if t.Intn(longOneIn) == longOneIn-1 {
			ct.fails = 4 + t.Intn(2) // up to the 1 h rung; 5: the cleaner gives up after it
		}
		if shutdown {
			// all pending (due at tick 1) when the cleaner is drained 0.6 s after the start
			ct.addAfter = []time.Duration{300 * time.Millisecond, 0, 450 * time.Millisecond}[t.Intn(3)]
			ct.fails = []int{0, 1, 1, 2}[t.Intn(4)]
		}
		for j := 0; j < len(cleanerLadder); j++ {
			d := attemptDurs[t.Intn(len(attemptDurs))]
			if shutdown && d > 300*time.Millisecond {
				d = 300 * time.Millisecond
			}
			ct.durs = append(ct.durs, d)
		}
		tasks = append(tasks, ct)
	}
	extra := time.Duration(t.Intn(8)) * time.Second
	var desc []string
	for _, ct := range tasks {
		desc = append(desc, fmt.Sprintf("task %d: added after %v, fails %d times, attempts take %v", ct.id, ct.addAfter, ct.fails, ct.durs))
	}
	if r.Tracing() {
		r.Logf("cleaner mode: %v extra=%v", desc, extra)
	}
	r.Sample(map[string]any{"mode": modeNames[modeCleaner], "slots": 300, "interval": "1s", "tasks": desc, "drained_like_at_shutdown_after_600ms": shutdown})

	tw := cache.VerifResetCleaner()
	t0 := time.Now() // same virtual instant as the wheel's ticker: tick i is at t0 + i s
	stop := false
	fail := func(class, format string, a ...any) {
		if !stop {
			r.Fail(class, format, a...)
		}
		stop = true
	}
	var drainAt time.Time // shutdown scenario: when the cleaner was drained
	delivered := 0        // shutdown scenario: tasks delivered by the drain so far
	var lastDelivery time.Time
	defer func() {
		tw.Stop()
		r.Quiesce()
	}()
	ticksAt := func(now time.Time) int { return int(now.Sub(t0) / time.Second) }
	verified := 0

	for _, ct := range tasks {
		ct := ct
		fn := func() error {
			now := time.Now()
			i := ct.attempts
			ct.attempts++
			r.Ev("clean-attempt", int64(ct.id), int64(i), int64(ticksAt(now)))
			want := ct.fails + 1
			if want > len(cleanerLadder) {
				want = len(cleanerLadder)
			}
			switch {
			case ct.running:
				fail("cleaner:attempt-while-previous-attempt-runs", "task %d: attempt %d started at tick %d while the previous attempt was still running", ct.id, i+1, ticksAt(now))
				return nil
			case ct.done || i >= want:
				fail("cleaner:extra-attempt", "task %d: attempt %d at tick %d, but the task was finished after %d attempts", ct.id, i+1, ticksAt(now), want)
				return nil
			case shutdown && i == 0 && !drainAt.IsZero():
				// delivered by Drain, not by a tick
				r.Probe("cleaner-task-delivered-by-shutdown-drain")
				delivered++
				lastDelivery = now
			case shutdown && i == 1:
				// The re-arm after the drained attempt was issued while the wheel was (possibly)
				// still handing timers to the drain callback: it was taken some time between the
				// end of that attempt and the end of the drain (not later than the start of the
				// last delivery), and one tick may have been waiting in the ticker at that moment.
				lo := ct.expTick - 1
				if ticksAt(now) < lo {
					fail("cleaner:rung-fired-early", "task %d: attempt 2 (delay %d s, set while the wheel was drained) ran at tick %d, not due before tick %d", ct.id, cleanerLadder[1], ticksAt(now), lo)
					return nil
				}
				if delivered == len(tasks) && ticksAt(now) > ticksAt(lastDelivery)+cleanerLadder[1]+2 {
					fail("cleaner:rung-fired-late", "task %d: attempt 2 (delay %d s, set while the wheel was drained) ran at tick %d; the drain was over at tick %d", ct.id, cleanerLadder[1], ticksAt(now), ticksAt(lastDelivery))
					return nil
				}
			case ticksAt(now) != ct.expTick:
				cls := "cleaner:rung-fired-late"
				if ticksAt(now) < ct.expTick {
					cls = "cleaner:rung-fired-early"
				}
				fail(cls, "task %d: attempt %d (delay %d s) ran at tick %d (%v after the wheel was built), due at tick %d", ct.id, i+1, cleanerLadder[i], ticksAt(now), now.Sub(t0), ct.expTick)
				return nil
			}
			verified++
			r.Probe(fmt.Sprintf("cleaner-rung-verified:%ds", cleanerLadder[i]))
			ct.running = true
			if d := ct.durs[i]; d > 0 {
				r.Sleep(d)
			}
			ct.running = false
			ct.lastEnd = time.Now()
			if i < ct.fails {
				if i+1 < len(cleanerLadder) {
					// the cleaner re-arms the key now, from this task
					ct.expTick = ticksAt(ct.lastEnd) + cleanerLadder[i+1]
				} else {
					ct.done = true // the cleaner gives up after the last rung
					r.Probe("cleaner-gives-up")
				}
				return errors.New("c12: injected delete failure")
			}
			ct.done = true
			return nil
		}
		ct.fn = fn
	}
	// one client adds the tasks, in time order.  The cleaner keys its timers with random strings
	// (stringx.Randn, i.e. draws from the choice tape): equal keys - which a shrunk or exhausted
	// tape produces - make the second task replace the first.  That is not what this scenario is
	// about: such a run is discarded without a verdict (seam accessor VerifC12Pending).
	order := append([]*cleanTask{}, tasks...)
	sort.SliceStable(order, func(i, j int) bool { return order[i].addAfter < order[j].addAfter })
	r.Go("add-clean-tasks", func() {
		for _, ct := range order {
			if d := time.Until(t0.Add(ct.addAfter)); d > 0 {
				r.Sleep(d)
			}
			if stop {
				return
			}
			before := tw.VerifC12Pending()
			ct.expTick = ticksAt(time.Now()) + cleanerLadder[0]
			ct.added = true
			cache.AddCleanTask(ct.fn, fmt.Sprintf("key%d", ct.id))
			r.Quiesce()
			if tw.VerifC12Pending() != before+1 {
				r.Probe("cleaner-random-key-collision-run-discarded")
				stop = true
				return
			}
		}
	})

	if shutdown {
		r.Sleep(600 * time.Millisecond)
		r.Quiesce()
		r.Probe("cleaner-shutdown-drain")
		drainAt = time.Now() // deliveries may start before Drain returns to the caller
		if err := cache.VerifC12DrainCleaner(); err != nil {
			fail("op-error", "Drain of the cleaner's wheel returned %v", err)
			return
		}
	}
	// is the wheel still serving requests? (asked when something that was due did not happen)
	wheelStalled := func() bool {
		probe := r.Go("probe", func() { tw.RemoveTimer("c12-probe") })
		r.Quiesce()
		return !probe.Done()
	}
	// follow the tasks: sleep to the next instant at which something has to have happened
	for iter := 0; iter < 64 && !stop; iter++ {
		now := time.Now()
		var next time.Time
		pending := false
		for _, ct := range tasks {
			var at time.Time
			switch {
			case ct.done:
				continue
			case !ct.added:
				at = t0.Add(ct.addAfter + time.Millisecond)
			case ct.running:
				at = now.Add(time.Second)
			case shutdown && ct.attempts == 0:
				// every timer pending at Drain is delivered; the bound: at most 0.3 s per task, and
				// failing tasks keep their cleaner worker until the wheel takes their re-arm, so in
				// the worst case one worker does the rest one after the other
				at = drainAt.Add(time.Duration(len(tasks))*300*time.Millisecond + time.Second)
				if !at.After(now) {
					if wheelStalled() {
						fail("cleaner:shutdown-drain-stalls-wheel", "task %d was pending when the cleaner's wheel was drained (%v after the start) and has not been attempted %v later, and the wheel does not take requests any more; tasks alive: %v", ct.id, drainAt.Sub(t0), now.Sub(drainAt), r.AliveTasks())
					}
					fail("cleaner:shutdown-drain-delivery-missing", "task %d was pending when the cleaner's wheel was drained (%v after the start) and has not been attempted %v later; tasks alive: %v", ct.id, drainAt.Sub(t0), now.Sub(drainAt), r.AliveTasks())
				}
			case shutdown && ct.attempts == 1 && delivered < len(tasks):
				at = now.Add(time.Second) // the drain is not over (its own bound is checked above)
			default:
				at = t0.Add(time.Duration(ct.expTick)*time.Second + 500*time.Millisecond)
				if shutdown && ct.attempts == 1 {
					at = t0.Add(time.Duration(ticksAt(lastDelivery)+cleanerLadder[1]+2)*time.Second + 500*time.Millisecond)
				}
				if !at.After(now) && shutdown && wheelStalled() {
					fail("cleaner:shutdown-drain-stalls-wheel", "task %d: attempt %d (delay %d s), set while the cleaner's wheel was being drained, was due at tick %d and did not run (now %v after the wheel was built): the wheel does not take requests any more; tasks alive: %v", ct.id, ct.attempts+1, cleanerLadder[ct.attempts], ct.expTick, now.Sub(t0), r.AliveTasks())
				}
				if !at.After(now) {
					fail("cleaner:rung-missing", "task %d: attempt %d (delay %d s) was due at tick %d and did not run (now %v after the wheel was built)", ct.id, ct.attempts+1, cleanerLadder[ct.attempts], ct.expTick, now.Sub(t0))
				}
			}
			pending = true
			if next.IsZero() || at.Before(next) {
				next = at
			}
		}
		if !pending || stop {
			break
		}
		if d := next.Sub(now); d > 0 {
			r.Sleep(d)
		}
		r.Quiesce()
	}
	if stop {
		return
	}
	for _, ct := range tasks {
		if !ct.done {
			fail("model-error", "harness bug: cleaner task %d not finished: %+v", ct.id, *ct)
			return
		}
	}
	// nothing may run any more
	if extra > 0 {
		r.Sleep(extra)
		r.Quiesce()
	}
	r.Probe("oracle")
	if verified > 0 {
		r.Probe("nontrivial")
	}
}
