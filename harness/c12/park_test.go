package c12

import (
	"verifsim/simrt"
)

// Slow execute callbacks.
//
// User code run by the execute callback may take long: here, for tape-chosen values, it parks on a
// gate after it has been entered (and after it has called back into the wheel, if it does) and
// stays there while the client goes on with operations, ticks and Drain; the harness opens the gate
// some steps later.  So ticks are taken, and operations handled, while callbacks of earlier ticks
// are still running - what a production wheel sees all the time and a harness with instantaneous
// callbacks never produces.
//
// Oracle.  A call of the callback counts as "fired" when it is entered, so parking changes nothing
// for the parked timer itself.  What it does change: the wheel runs the callbacks of ONE tick one
// after the other, so a timer due at the same tick as a parked callback may wait behind it.  The
// statement fixes the tick at which a timer fires, not how long user code of another timer of the
// same tick may hold it up, so for a timer that is due at tick T and was not executed at the
// quiescence after tick T the model accepts exactly one excuse: a callback entered for tick T is
// parked right now.  Such a timer is no longer pending (it can be set again, a remove or move finds
// nothing - as after any firing); its execution is OWED and has to happen, exactly once and with
// the value it had at tick T, when the parked callback has been let go (checked at the quiescence
// after the gate was opened; it may park in turn, then the rest of its tick keeps waiting).
// Callbacks of OTHER ticks are no excuse: a timer due at tick T+1 fires at tick T+1 whatever the
// callbacks of tick T are doing.
//
// Operations issued by an owed callback when it finally runs are operations issued at that moment
// (at the current tick count), applied to the model in the order they were issued.

type owedFire struct {
	key     int
	vals    []int // acceptable values (one in sequential histories)
	batch   int   // the tick at which the timer became due
	entered bool
}

func (o owedFire) has(v int) bool {
	for _, x := range o.vals {
		if x == v {
			return true
		}
	}
	return false
}

func (w *world) batchParked(b int) bool {
	for _, p := range w.parked {
		if p == b {
			return true
		}
	}
	return false
}

// enterOwed is called when a callback is entered outside a tick: it is legitimate only for an
// owed execution whose tick has no parked callback any more.
func (w *world) enterOwed(key, val int) (batch int, owed bool) {
	for i := range w.owed {
		o := &w.owed[i]
		if !o.entered && o.key == key && o.has(val) && !w.batchParked(o.batch) {
			o.entered = true
			return o.batch, true
		}
	}
	return 0, false
}

// park is called from inside the execute callback.
func (w *world) park(batch int) {
	w.r.Probe("execute-callback-parked")
	g := w.gate
	w.parked = append(w.parked, batch)
	simrt.Recv("c12.exec-gate", g)
	for i, p := range w.parked {
		if p == batch {
			w.parked = append(w.parked[:i], w.parked[i+1:]...)
			break
		}
	}
}

func (w *world) openGate() {
	old := w.gate
	w.gate = make(chan struct{})
	simrt.Close("c12.exec-gate", old)
	w.r.Quiesce()
}

// releaseParked lets every callback that is parked right now go, waits for quiescence and checks
// the owed executions.
func (w *world) releaseParked() {
	r := w.r
	if len(w.parked) == 0 || w.stop {
		return
	}
	r.Probe("parked-execute-callbacks-let-go")
	r.Ev("release-parked", int64(len(w.parked)))
	w.openGate()
	if w.stop {
		return
	}
	r.Probe("oracle")
	for _, f := range w.fires {
		if !f.owed {
			w.fail("fired-outside-tick", "letting the parked execute callbacks go (no tick) made the wheel execute %v, which was not waiting behind one of them (waiting: %v)", f, w.owed)
			return
		}
		w.verified++
		r.Probe("owed-timer-executed-after-parked-callback-was-let-go")
	}
	w.fires = w.fires[:0]
	var rest []owedFire
	for _, o := range w.owed {
		if !o.entered {
			rest = append(rest, o)
		}
	}
	w.owed = rest
	// operations issued by the callbacks that ran just now: sequential, at the current tick count
	for _, o := range w.cbOps {
		ks := w.keys[o.key]
		w.noteOp(ks, o)
		var cs []cand
		for _, c := range ks.cands {
			cs = addCand(cs, apply(c, o, w.T))
		}
		w.setCands(ks, cs, o)
		r.Probe("owed-callback-calls-back-into-the-wheel")
	}
	w.cbOps = w.cbOps[:0]
	w.panicked = false
	for _, o := range w.owed {
		if !w.batchParked(o.batch) {
			w.fail("behind-slow-callback:not-executed-after-release", "key k%d (value %v) became due at tick %d while a callback of that tick was parked in user code; every callback of that tick has returned now (tick %d) and the timer was still not executed", o.key, o.vals, o.batch, w.T)
			return
		}
	}
}

// releaseQuietly opens the gate until nothing is parked any more, without any verdict (after a
// violation was found, and at the end of a run).
func (w *world) releaseQuietly() {
	for i := 0; i < 64 && len(w.parked) > 0; i++ {
		w.openGate()
	}
}

// finishParked: at the end of a run every parked callback is let go (callbacks that were waiting
// may park in turn, and may re-arm timers): until nothing is parked and nothing is pending.
func (w *world) finishParked() {
	for i := 0; i < 32 && !w.stop; i++ {
		if len(w.parked) == 0 && len(w.owed) == 0 {
			return
		}
		w.releaseParked()
		if w.stop {
			return
		}
		w.runOut()
	}
	if !w.stop && (len(w.parked) > 0 || len(w.owed) > 0) {
		w.fail("model-error", "harness bug: callbacks still parked %v / owed %v at the end", w.parked, w.owed)
	}
}
