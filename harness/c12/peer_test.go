package c12

import (
	"fmt"
	"strings"
	"time"

	"github.com/zeromicro/go-zero/core/collection"
	"github.com/zeromicro/go-zero/core/timex"

	"verifsim/simrt"
)

// A second wheel in the same run.
//
// A process has many timing wheels (every collection.Cache owns one, the cache cleaner another).
// In a part of the runs a second wheel - its own size, its own interval, a fake ticker of its own -
// lives next to the first one, is handed THE SAME key objects, and executes a short sequential
// history of its own, interleaved step by step with the history of the first wheel.  The statement
// holds for each wheel by itself: each has its own exact reference model, and whatever one wheel
// does (tick, set, move, remove, Drain, slow callbacks) must not make the other one execute or
// deliver anything.

type peerPlan struct {
	n        int
	interval time.Duration
	ops      []op
	sched    []int // number of steps of the second wheel after the i-th step of the first
	end      int   // 0: run out, 1: drain
	next     int
}

func (p *peerPlan) String() string {
	var s []string
	for _, o := range p.ops {
		s = append(s, o.String())
	}
	return fmt.Sprintf("slots=%d interval=%v history=[%s] interleaved %v, end: %s", p.n, p.interval, strings.Join(s, ", "), p.sched,
		[]string{"run out", "drain"}[p.end])
}

func genPeer(t *simrt.Tape, maxSlots, nKeys, planLen int, nextVal *int) *peerPlan {
	p := &peerPlan{n: t.Range(1, maxSlots), interval: []time.Duration{time.Second, time.Millisecond, 7, time.Hour, 1}[t.Intn(5)]}
	for i, m := 0, t.Range(1, 8); i < m; i++ {
		o := op{key: t.Intn(nKeys)}
		switch v := t.Intn(10); {
		case v < 4:
			o.kind = opSet
			o.val = *nextVal
			*nextVal++
			o.steps, o.frac = drawSteps(t, p.n), drawFrac(t, p.interval)
		case v < 7:
			o.kind = opTick
			o.n = drawTicks(t, p.n)
		case v < 9:
			o.kind = opMove
			o.steps, o.frac = drawSteps(t, p.n), drawFrac(t, p.interval)
		default:
			o.kind = opRemove
		}
		p.ops = append(p.ops, o)
	}
	for i := 0; i < planLen; i++ {
		p.sched = append(p.sched, []int{0, 1, 0, 2}[t.Intn(4)])
	}
	p.end = t.Intn(2)
	return p
}

// newPeer builds the second wheel.
func (w *world) newPeer(p *peerPlan) (*world, error) {
	pw := &world{r: w.r, n: p.n, interval: p.interval, acts: map[int]action{}, nextCbVal: 200000, valShape: w.valShape, name: "second wheel"}
	pw.setKeys(w.keyOf)
	pw.gate = make(chan struct{})
	for range w.keys {
		pw.keys = append(pw.keys, &keyState{cands: []cand{{}}, gone: "never-set"})
	}
	pw.t0 = time.Now()
	pw.fake = timex.NewFakeTicker()
	var err error
	pw.tw, err = collection.NewTimingWheelWithTicker(p.interval, p.n, pw.onExecute, pw.fake)
	if err != nil {
		return nil, err
	}
	pw.peer, w.peer = w, pw
	if w.name == "" {
		w.name = "first wheel"
	}
	return pw, nil
}

// cross: a step of one wheel is over (quiescence): the OTHER wheel must not have done anything.
func (w *world) cross(other *world, what string) {
	if w.stop || other == nil {
		return
	}
	if len(other.fires) > 0 {
		other.fail("fired-outside-tick/step-of-another-wheel", "%s of the other wheel made this wheel execute %v", what, other.fires)
		return
	}
	if len(other.drained) > 0 && other.sd == nil {
		other.fail("drain-delivers-timer-of-another-wheel", "%s of the other wheel delivered timers of this wheel to a drain callback: %v", what, other.drained)
	}
}

// peerSteps executes the next k steps of the second wheel's history (k < 0: all that are left).
func (w *world) peerSteps(p *peerPlan, k int) {
	pw := w.peer
	for ; (k < 0 || k > 0) && p.next < len(p.ops) && !w.stop; k-- {
		o := p.ops[p.next]
		p.next++
		w.r.Probe("second-wheel-step-interleaved")
		if o.kind == opTick {
			pw.seqTicks(o.n)
		} else {
			pw.seqOp(o)
		}
		pw.cross(w, o.String())
	}
}
