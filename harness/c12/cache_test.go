package c12

import (
	"errors"
	"fmt"
	"strings"
	"time"

	"github.com/zeromicro/go-zero/core/collection"

	"verifsim/simrt"
)

// Third layer: collection.Cache (core/collection/cache.go) on its own timing wheel (1 s interval,
// 300 slots, real ticker on the virtual clock).
//
// The cache is the wheel's main user and reaches it through paths of its own: a store of a new key
// is a SetTimer, a store of an existing key a MoveTimer (the "refresh" pattern), Del and an LRU
// eviction are RemoveTimers, and the execute callback (cache.Del) removes the timer of the very key
// that has just fired, from inside the callback.  Expiries are jittered: cache.go documents the
// delay handed to the wheel as [0.95, 1.05] x expire.
//
// One sequential client, acting half a second after a tick (tick i of the wheel is at t0 + i s), so
// the number of ticks taken at every call is known.  By the statement the timer of an entry stored
// at tick count T with expiry e fires at tick T + floor(d / 1 s) for some d in [0.95 e, 1.05 e], and
// at no other tick; it is re-based by every later store of the key and cancelled by Del / eviction.
// Seen through the cache: the entry is there (with the latest value) at every observation before
// tick T + floor(0.95 e / 1 s), and gone at every observation from tick T + floor(1.05 e / 1 s) on;
// in between both are fine (and the observation is remembered).  Expiries are at least 2 s, so the
// delay is never below one interval.
//
// With a size limit the cache evicts the least recently used entry; to know exactly which one, the
// client looks up (Get) every entry that may or may not have expired before it stores something.

var cacheExpires = []time.Duration{10 * time.Second, 3 * time.Second, 60 * time.Second, 299 * time.Second, 300 * time.Second,
	301 * time.Second, 400 * time.Second, 1000 * time.Second, 2 * time.Second}

var entryExpires = []time.Duration{20 * time.Second, 2 * time.Second, 5 * time.Second, 299 * time.Second, 300 * time.Second,
	301 * time.Second, 320 * time.Second, 600 * time.Second, 900 * time.Second}

type cacheEnt struct {
	present bool
	val     int
	ts      int // ticks taken when it was stored last
	e       time.Duration
	gone    string
	seen    bool // observed present at least once
}

func cacheWindow(ts int, e time.Duration) (lo, hi int) {
	dLo := e/100*95 - time.Microsecond
	dHi := e/100*105 + time.Microsecond
	return ts + int(dLo/time.Second), ts + int(dHi/time.Second)
}

func cacheBody(r *simrt.Run, tier string) {
	t := r.Tape
	r.Probe("cache-mode")
	expire := cacheExpires[t.Intn(len(cacheExpires))]
	limit := []int{0, 0, 1, 2, 3}[t.Intn(5)]
	nKeys := t.Range(1, 4)
	maxOps := 12
	if tier == "thorough" {
		maxOps = 30
	}
	nOps := t.Range(1, maxOps)

	t0 := time.Now()
	var opts []collection.CacheOption
	if limit > 0 {
		opts = append(opts, collection.WithLimit(limit))
		r.Probe("cache-with-limit")
	}
	c, err := collection.NewCache(expire, opts...)
	if err != nil {
		r.Fail("op-error", "NewCache(%v) returned %v", expire, err)
		return
	}
	// Cache has no Stop: its wheel and its statistics loop live as long as the process
	r.MarkBackground(func(name string) bool { return strings.Contains(name, "collection/") })
	r.Sleep(500 * time.Millisecond)
	r.Quiesce()

	stop := false
	fail := func(class, format string, a ...any) {
		if !stop {
			r.Fail(class, format, a...)
		}
		stop = true
	}
	now := func() int { return int(time.Since(t0) / time.Second) }
	keyName := func(k int) string { return fmt.Sprintf("k%d", k) }
	ents := make([]*cacheEnt, nKeys)
	for i := range ents {
		ents[i] = &cacheEnt{gone: "never-set"}
	}
	var lru []int // keys whose data the cache holds, most recently used first (limit > 0 only)
	touch := func(k int) {
		for i, x := range lru {
			if x == k {
				lru = append(lru[:i], lru[i+1:]...)
				break
			}
		}
		lru = append([]int{k}, lru...)
	}
	drop := func(k int) {
		for i, x := range lru {
			if x == k {
				lru = append(lru[:i], lru[i+1:]...)
				return
			}
		}
	}
	verified := 0
	nextVal := 100
	var hist []string
	logf := func(format string, a ...any) {
		s := fmt.Sprintf("tick %d: ", now()) + fmt.Sprintf(format, a...)
		hist = append(hist, s)
		if r.Tracing() {
			r.Logf("%s", s)
		}
	}

	// observed: key k was looked up at this instant (hit with value v / miss)
	observed := func(k int, hit bool, v any, how string) {
		m := ents[k]
		T := now()
		r.Probe("oracle")
		if !m.present {
			if hit {
				fail("cache:hit-on-absent-entry:"+m.gone, "%s(%s) at tick %d returned %v although the entry is gone (%s)", how, keyName(k), T, v, m.gone)
			}
			return
		}
		lo, hi := cacheWindow(m.ts, m.e)
		if hit {
			if v != any(m.val) {
				fail("cache:wrong-value", "%s(%s) at tick %d returned %v, the latest value stored is %d", how, keyName(k), T, v, m.val)
				return
			}
			if T >= hi {
				cls := "cache:entry-not-expired-when-its-timer-is-due"
				if m.e > 300*time.Second {
					cls += "/expiry-longer-than-one-revolution"
				}
				fail(cls, "%s(%s) at tick %d still returned %d: stored at tick %d with expiry %v, its timer (delay in [0.95, 1.05] x expiry) is due at tick %d..%d", how, keyName(k), T, m.val, m.ts, m.e, lo, hi)
				return
			}
			if T >= lo {
				r.Probe("cache-entry-seen-inside-its-jitter-window")
			} else if T == lo-1 {
				r.Probe("cache-entry-seen-one-tick-before-its-earliest-due-tick")
			}
			m.seen = true
			if limit > 0 {
				touch(k)
			}
			return
		}
		if T < lo {
			cls := "cache:entry-expired-before-its-timer-is-due"
			if m.e > 300*time.Second {
				cls += "/expiry-longer-than-one-revolution"
			}
			fail(cls, "%s(%s) at tick %d missed: value %d stored at tick %d with expiry %v, its timer (delay in [0.95, 1.05] x expiry) is not due before tick %d", how, keyName(k), T, m.val, m.ts, m.e, lo)
			return
		}
		if T == hi {
			r.Probe("cache-entry-gone-at-its-latest-due-tick")
		}
		verified++
		r.Probe("cache-expiry-verified")
		m.present, m.gone = false, "expired"
		drop(k)
	}
	get := func(k int) {
		v, ok := c.Get(keyName(k))
		r.Ev("cache-get", int64(k))
		observed(k, ok, v, "Get")
	}
	// resolve: with a size limit, look at every entry that may or may not have expired
	resolve := func() {
		if limit == 0 {
			return
		}
		for k, m := range ents {
			if lo, _ := cacheWindow(m.ts, m.e); m.present && now() >= lo && !stop {
				r.Probe("cache-uncertain-entry-looked-up-before-store")
				get(k)
			}
		}
	}
	stored := func(k, v int, e time.Duration) {
		m := ents[k]
		if m.present {
			r.Probe("cache-store-on-existing-entry(MoveTimer)")
			if now() > m.ts {
				r.Probe("cache-refresh-after-ticks")
			}
		}
		*m = cacheEnt{present: true, val: v, ts: now(), e: e}
		if e > 300*time.Second {
			r.Probe("cache-expiry-longer-than-one-revolution")
		}
		if limit > 0 {
			isNew := true
			for _, x := range lru {
				if x == k {
					isNew = false
				}
			}
			touch(k)
			if isNew && len(lru) > limit {
				ev := lru[len(lru)-1]
				lru = lru[:len(lru)-1]
				ents[ev].present, ents[ev].gone = false, "evicted"
				r.Probe("cache-eviction(RemoveTimer)")
			}
		}
	}
	set := func(k int, e time.Duration) {
		resolve()
		if stop {
			return
		}
		v := nextVal
		nextVal++
		r.Ev("cache-set", int64(k), int64(v), int64(e))
		if e > 0 {
			logf("SetWithExpire(%s, %d, %v)", keyName(k), v, e)
			c.SetWithExpire(keyName(k), v, e)
		} else {
			e = expire
			logf("Set(%s, %d)", keyName(k), v)
			c.Set(keyName(k), v)
		}
		r.Quiesce()
		stored(k, v, e)
	}
	del := func(k int) {
		logf("Del(%s)", keyName(k))
		r.Ev("cache-del", int64(k))
		if ents[k].present {
			r.Probe("cache-del-of-live-entry(RemoveTimer)")
		}
		c.Del(keyName(k))
		r.Quiesce()
		ents[k].present, ents[k].gone = false, "deleted"
		drop(k)
	}
	take := func(k int, failLoad bool) {
		resolve()
		if stop {
			return
		}
		loaded := false
		v := nextVal
		nextVal++
		errLoad := errors.New("c12: loader fails")
		logf("Take(%s, loader fails: %v)", keyName(k), failLoad)
		r.Ev("cache-take", int64(k))
		got, err := c.Take(keyName(k), func() (any, error) {
			loaded = true
			if failLoad {
				return nil, errLoad
			}
			return v, nil
		})
		r.Quiesce()
		if loaded {
			observed(k, false, nil, "Take")
			if stop {
				return
			}
			switch {
			case failLoad && err != errLoad:
				fail("cache:take-result", "Take(%s) returned (%v, %v) although its loader failed", keyName(k), got, err)
			case failLoad:
			case err != nil || got != any(v):
				fail("cache:take-result", "Take(%s) returned (%v, %v) although its loader produced %d", keyName(k), got, err, v)
			default:
				stored(k, v, expire)
			}
			return
		}
		if err != nil {
			fail("cache:take-result", "Take(%s) returned error %v without running its loader", keyName(k), err)
			return
		}
		observed(k, true, got, "Take")
	}
	advance := func(d int) {
		if d < 1 {
			d = 1
		}
		logf("%d s pass", d)
		r.Ev("cache-advance", int64(d))
		r.Sleep(time.Duration(d) * time.Second)
		r.Quiesce()
	}

	for i := 0; i < nOps && !stop; i++ {
		k := t.Intn(nKeys)
		switch v := t.Intn(12); {
		case v < 3:
			set(k, 0)
		case v < 5:
			set(k, entryExpires[t.Intn(len(entryExpires))])
		case v < 6:
			del(k)
		case v < 8:
			logf("Get(%s)", keyName(k))
			get(k)
		case v < 9:
			take(k, t.Intn(4) == 3)
		default:
			var live []int
			for j, m := range ents {
				if m.present {
					live = append(live, j)
				}
			}
			d := t.Range(1, 3)
			if len(live) > 0 {
				p := live[t.Intn(len(live))]
				lo, hi := cacheWindow(ents[p].ts, ents[p].e)
				T := now()
				switch t.Intn(5) {
				case 1:
					d = lo - 1 - T // the last tick at which it has to be there
				case 2:
					d = hi - T // the first tick at which it has to be gone
				case 3:
					d = lo + t.Intn(hi-lo+1) - T
				case 4:
					d = 300 // one revolution
				}
			}
			advance(d)
			if !stop && t.Bool() {
				for j := range ents {
					if !stop {
						get(j)
					}
				}
			}
		}
	}
	// the end: everything expires
	if !stop {
		last := now()
		for _, m := range ents {
			if _, hi := cacheWindow(m.ts, m.e); m.present && hi > last {
				last = hi
			}
		}
		advance(last - now() + t.Intn(3))
		for j := range ents {
			if !stop {
				get(j)
			}
		}
	}
	r.Sample(map[string]any{"mode": modeNames[modeCache], "slots": 300, "interval": "1s", "expire": expire.String(), "limit": limit, "keys": nKeys, "history": hist})
	if !stop && verified > 0 {
		r.Probe("nontrivial")
	}
}
