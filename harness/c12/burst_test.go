package c12

// Tick bursts.
//
// In every other step the harness waits for quiescence after each tick, so the callbacks of tick T
// have always returned before tick T+1 is taken.  A burst hands n ticks to the (fake) ticker back to
// back and waits for quiescence only after the last one: the wheel takes tick T+1 while the
// callbacks of tick T may still be running or may not even have started.
//
// Oracle (sequential histories only, callbacks that do not call back into the wheel): at the
// quiescence after a burst that took ticks T0+1..T0+n, exactly the timers with a due tick in that
// range were executed, once, with their value; a timer due at tick D was not entered before the
// D-th tick was handed to the ticker (the only lower bound that is observable from outside).

func (w *world) burst(n int) {
	r := w.r
	r.Probe("tick-burst")
	r.Ev("burst", int64(n))
	T0 := w.T
	w.burstBase, w.burstSent, w.inBurst = T0, 0, true
	for i := 0; i < n; i++ {
		w.burstSent++
		w.fake.Tick()
	}
	r.Quiesce()
	w.inBurst = false
	if w.stop {
		return
	}
	if len(w.fake.Chan()) != 0 {
		w.fail("tick-not-taken", "tick %d (last of a burst of %d) was not consumed by the wheel at quiescence", T0+n, n)
		return
	}
	w.T = T0 + n
	r.Probe("oracle")
	got := map[int][]fire{}
	for _, f := range w.fires {
		got[f.key] = append(got[f.key], f)
	}
	w.fires = w.fires[:0]
	hadPanic := w.panicked
	w.panicked = false
	dueTicks := map[int]bool{}
	for k, ks := range w.keys {
		obs := got[k]
		delete(got, k)
		if len(obs) > 1 {
			w.fail("duplicate-fire", "burst of ticks %d..%d: key k%d executed %d times (%v)", T0+1, T0+n, k, len(obs), obs)
			return
		}
		inRange := func(c cand) bool { return c.pending && c.due > T0 && c.due <= T0+n }
		var next []cand
		for _, c := range ks.cands {
			switch {
			case len(obs) == 1 && inRange(c) && c.val == obs[0].val && obs[0].at >= c.due:
				next = addCand(next, cand{})
				dueTicks[c.due] = true
			case len(obs) == 0 && !inRange(c):
				next = addCand(next, c)
			}
		}
		if len(next) > 0 {
			if len(obs) == 1 {
				w.verified++
				ks.gone = "fired"
				r.Probe("fire-verified")
			}
			ks.cands = next
			if !ks.anyPending() {
				ks.resched = false
			}
			continue
		}
		if len(obs) == 1 {
			var dues []int
			wrongVal, tooEarly, later := false, false, false
			for _, c := range ks.cands {
				if c.pending {
					dues = append(dues, c.due)
				}
				switch {
				case inRange(c) && c.val != obs[0].val:
					wrongVal = true
				case inRange(c):
					tooEarly = true
				case c.pending && c.due > T0+n:
					later = true
				}
			}
			switch {
			case wrongVal:
				w.fail("wrong-value", "burst of ticks %d..%d: key k%d executed with value v%d, the most recently set value differs (model %v)", T0+1, T0+n, k, obs[0].val, ks.cands)
			case tooEarly:
				w.fail(ks.origin()+":early-in-burst", "burst of ticks %d..%d: key k%d (value v%d) is due at tick %v but its callback was entered when only %d ticks had been handed to the ticker", T0+1, T0+n, k, obs[0].val, dues, obs[0].at)
			case later:
				w.fail(ks.origin()+":early-other", "burst of ticks %d..%d: key k%d (value v%d) executed although it is due at tick %v (%d slots)", T0+1, T0+n, k, obs[0].val, dues, w.n)
			default:
				w.fail("fired-not-pending:"+ks.gone, "burst of ticks %d..%d: key k%d (value v%d) executed although no timer is pending for it (%s)", T0+1, T0+n, k, obs[0].val, ks.gone)
			}
			return
		}
		// due inside the burst and not executed: find out when (if ever) it fires
		var dues []int
		for _, c := range ks.cands {
			if c.pending {
				dues = append(dues, c.due)
			}
		}
		w.diagnoseMissed(k, ks, dues, hadPanic)
		return
	}
	if len(got) > 0 {
		w.fail("fired-unknown-key", "burst of ticks %d..%d: executed keys that were never used: %v", T0+1, T0+n, got)
		return
	}
	if len(dueTicks) > 1 {
		r.Probe("burst-executes-timers-of-several-ticks")
	}
}
