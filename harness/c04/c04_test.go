package c04

import (
	"context"
	"fmt"
	"testing"
	"time"

	"github.com/zeromicro/go-zero/core/logx"

	"verifsim/simharness"
	"verifsim/simrt"
)

// C04: timeout control.  One run drives one of the four timeout wrappers
// (rest/handler.TimeoutHandler, zrpc server UnaryTimeoutInterceptor, zrpc client
// TimeoutInterceptor (+WithCallTimeout), fx.DoWithTimeout) with 1..n concurrent
// calls that share the wrapper instance.  Every call has a tape-drawn caller
// context (none / later / earlier / equal deadline / cancel at an instant) and a
// tape-drawn work script whose completion lands before / exactly at / after the
// deadline.  The oracles are evaluated by the calling task at the instant the
// wrapper returns, and once more at the end of the run (late writes, leaks).

// stallOn tells body whether the scheduler may inject virtual-time stalls in
// this run.  Runs of one process are strictly sequential and Config is called
// right before the run it configures, from the same tape, so this is a pure
// function of the tape.
var stallOn bool

func config(t *simrt.Tape, tier string) simrt.Config {
	c := simharness.DefaultConfig(t, tier)
	stallOn = c.StallPerMille > 0
	return c
}

type world struct {
	r     *simrt.Run
	tier  string
	exact bool // no stalls are injected: virtual-time bounds are exact

	gate     chan struct{} // work that "never returns" parks here until main opens it
	gateOpen bool
	gateUsed bool
	nGated   int // works that are parked (at the gate or inside a copy from a stalled source) and still running

	hist int // calls of the history (made before the judged calls; their work is still running)

	cancels    []context.CancelFunc
	cancellers []*simrt.Task
	works      []*work
	seq        int
}

func (w *world) tick() int { w.seq++; return w.seq }

var timeoutTable = []time.Duration{
	100 * time.Millisecond, time.Millisecond, 5 * time.Millisecond, 30 * time.Millisecond,
	time.Second, 3 * time.Second, 10 * time.Second,
}

// The history: earlier calls on the same wrapper (fx: in the same process) whose work ignores
// its timeout and is STILL running - it is released only at the end of the run - when the
// calls of the run proper are made.  1 run in 8 has one; its length is one of the landmarks
// or anything in 1..40.  Orphaned work is legitimate: every call, of the history or later,
// has to return at its own deadline with the timeout result whatever number of earlier
// functions / handlers are still running.  lanes: the history calls are made one after the
// other (1) or by that many concurrent callers.
var histLandmarks = []int{15, 16, 17, 32, 33}

// histSampled: of the history only the first calls are written out in the evidence sample
const histSampled = 3

func drawHistory(t *simrt.Tape) (hist, lanes int) {
	v := t.Intn(48)
	switch {
	case v < 42:
		return 0, 1
	case v == 42:
		hist = t.Range(1, 40)
	default:
		hist = histLandmarks[v-43]
	}
	lanes = 1
	switch t.Intn(4) {
	case 2:
		lanes = min(4, hist)
	case 3:
		lanes = hist
	}
	return hist, lanes
}

func drawTimeout(t *simrt.Tape) time.Duration {
	if t.Chance(1, 4) {
		// anything in [1ms, 10s] at microsecond granularity
		return time.Duration(t.Range(1000, 10_000_000)) * time.Microsecond
	}
	return timeoutTable[t.Intn(len(timeoutTable))]
}

// caller describes the context the caller passes to the wrapper; durations are
// relative to the instant of the call (t0).
type caller struct {
	dl       time.Duration // 0: no deadline
	cancelAt time.Duration // <0: never cancelled, 0: already cancelled when the call is made
}

func genCaller(t *simrt.Tape, d time.Duration) caller {
	c := caller{cancelAt: -1}
	earlier := func() time.Duration {
		switch t.Intn(3) {
		case 0:
			return d / 2
		case 1:
			return d - 1
		default:
			return time.Duration(t.Range(1, 9)) * d / 10
		}
	}
	cancelAt := func() time.Duration {
		switch t.Intn(6) {
		case 0:
			return d / 2
		case 1:
			return 0
		case 2:
			return d - 1
		case 3:
			return d
		case 4:
			return d + 1
		default:
			return 2 * d
		}
	}
	switch t.Intn(8) {
	case 0:
	case 1: // later deadline
		c.dl = d + time.Duration(t.Range(1, 4))*d/2
	case 2: // earlier deadline
		c.dl = earlier()
	case 3: // same instant
		c.dl = d
	case 4: // cancelled at an instant
		c.cancelAt = cancelAt()
	case 5: // earlier deadline and a cancel
		c.dl = earlier()
		c.cancelAt = cancelAt()
	case 6: // one nanosecond later than the wrapper's own deadline
		c.dl = d + 1
	default: // later deadline and a cancel
		c.dl = 3 * d
		c.cancelAt = cancelAt()
	}
	return c
}

// effective is the planned instant (relative to t0) at which the work's context ends.
func (c caller) effective(d time.Duration) time.Duration {
	e := d
	if c.dl > 0 && c.dl < e {
		e = c.dl
	}
	if c.cancelAt > 0 && c.cancelAt < e {
		e = c.cancelAt
	}
	return e
}

func (c caller) String() string {
	s := "ctx{"
	if c.dl > 0 {
		s += "deadline=+" + c.dl.String()
	} else {
		s += "no-deadline"
	}
	if c.cancelAt >= 0 {
		s += " cancel@+" + c.cancelAt.String()
	}
	return s + "}"
}

// call is the caller side of one wrapped invocation (common to the four components).
type call struct {
	w   *world
	id  int
	cl  caller
	d   time.Duration // the timeout that applies to this call
	// noTimeout: no timeout is configured for this call at all (zrpc client without a client-wide timeout
	// and no WithCallTimeout): only the caller's deadline applies
	noTimeout bool
	wk  *work
	pre time.Duration // think time before the call
	// stuck: a call of the history (its work is still running when the run proper starts)
	stuck bool

	t0, tRet     time.Time
	callerDL     time.Time // zero: none
	cancelIssued bool      // the caller cancelled its context (set right before cancel())
	tCancel      time.Time
	returned     bool
	wpanicked    bool
	wpanic       any
}

// ctx builds the caller context; must be called at t0 with no scheduling point
// between it and the wrapped call.
func (c *call) ctx() context.Context {
	w := c.w
	c.t0 = time.Now()
	ctx := context.Background()
	if c.cl.dl > 0 {
		c.callerDL = c.t0.Add(c.cl.dl)
		var cf context.CancelFunc
		ctx, cf = context.WithDeadline(ctx, c.callerDL)
		w.cancels = append(w.cancels, cf)
	}
	if c.cl.cancelAt >= 0 {
		var cf context.CancelFunc
		ctx, cf = context.WithCancel(ctx)
		w.cancels = append(w.cancels, cf)
		if c.cl.cancelAt == 0 {
			c.cancelIssued, c.tCancel = true, c.t0
			cf()
			w.r.Probe("caller-already-cancelled")
		} else {
			at := c.cl.cancelAt
			w.cancellers = append(w.cancellers, w.r.Go(fmt.Sprintf("canceller%d", c.id), func() {
				w.r.Sleep(at)
				c.cancelIssued, c.tCancel = true, time.Now()
				w.r.Ev("cancel", int64(c.id))
				cf()
			}))
		}
	}
	return ctx
}

// lowerBound is the earliest instant at which a deadline-caused timeout result is legitimate:
// min(caller deadline, t0 + d) (the wrapper cannot create its context before it is called).
func (c *call) lowerBound() time.Time {
	lb := c.t0.Add(c.d)
	if !c.callerDL.IsZero() && c.callerDL.Before(lb) {
		lb = c.callerDL
	}
	return lb
}

// upperBound is the latest instant at which the wrapper may return when nothing stalls.
func (c *call) upperBound() time.Time {
	ub := c.lowerBound()
	if c.cl.cancelAt >= 0 {
		if x := c.t0.Add(c.cl.cancelAt); x.Before(ub) {
			ub = x
		}
	}
	if ub.Before(c.t0) {
		ub = c.t0 // a timeout that is not positive: the deadline has passed when the call is made
	}
	return ub
}

func (c *call) deadlineReached() bool { return !c.tRet.Before(c.lowerBound()) }

// checkDeadlineInside is clause (a): the deadline the work saw is no later than the
// caller's deadline and no later than (instant the work started) + timeout.
func (c *call) checkDeadlineInside(pfx string) {
	k, r := c.wk, c.w.r
	if !k.started || !k.hasCtx {
		return
	}
	r.Probe("deadline-inside-checked")
	if c.noTimeout {
		if !c.callerDL.IsZero() && (!k.dlOK || k.dlSeen.After(c.callerDL)) {
			r.Fail(pfx+"deadline-later-than-caller", "call %d (no timeout configured, %v): the work's deadline (present=%v, t0+%v) is later than the caller's deadline t0+%v",
				c.id, c.cl, k.dlOK, k.dlSeen.Sub(c.t0), c.callerDL.Sub(c.t0))
		}
		return
	}
	if !k.dlOK {
		r.Fail(pfx+"no-deadline-inside", "call %d (timeout %v, %v): the work's context has no deadline", c.id, c.d, c.cl)
		return
	}
	if !c.callerDL.IsZero() && k.dlSeen.After(c.callerDL) {
		r.Fail(pfx+"deadline-later-than-caller", "call %d (timeout %v, %v): the work's deadline is t0+%v, later than the caller's deadline t0+%v",
			c.id, c.d, c.cl, k.dlSeen.Sub(c.t0), c.callerDL.Sub(c.t0))
		return
	}
	if lim := k.tStart.Add(c.d); k.dlSeen.After(lim) {
		r.Fail(pfx+"deadline-later-than-timeout", "call %d (timeout %v, %v): the work started at t0+%v and sees deadline t0+%v, later than start+timeout",
			c.id, c.d, c.cl, k.tStart.Sub(c.t0), k.dlSeen.Sub(c.t0))
	}
}

// checkReturnTime is clause (b) with exact virtual time (only in runs without injected stalls).
func (c *call) checkReturnTime(pfx string) {
	r := c.w.r
	if !c.w.exact {
		return
	}
	r.Probe("return-time-checked")
	if ub := c.upperBound(); c.tRet.After(ub) {
		r.Fail(pfx+"late-return", "call %d (timeout %v, %v): wrapper returned at t0+%v, after the deadline/cancel instant t0+%v (work finished=%v)",
			c.id, c.d, c.cl, c.tRet.Sub(c.t0), ub.Sub(c.t0), c.wk.finished)
	}
	if c.wk.finished && c.wk.tFin.Equal(c.upperBound()) {
		r.Probe("work-finished-exactly-at-deadline")
	}
}

// noteReturn records, at the instant a wrapper call returned, how much orphaned work of
// earlier calls was still running.
func (c *call) noteReturn() {
	w, r := c.w, c.w.r
	own := 0
	if c.wk.atGate {
		own = 1
	}
	switch others := w.nGated - own; {
	case others >= 32:
		r.Probe("returned-while-32+-earlier-works-still-running")
		fallthrough
	case others >= 16:
		r.Probe("returned-while-16+-earlier-works-still-running")
		fallthrough
	case others >= 1:
		r.Probe("returned-while-earlier-work-still-running")
	}
	if c.stuck {
		r.Probe("history-call-judged")
	} else if w.hist > 0 {
		r.Probe("call-judged-after-history")
	}
}

func body(r *simrt.Run, tier string) {
	t := r.Tape
	w := &world{r: r, tier: tier, exact: !stallOn, gate: make(chan struct{})}
	if w.exact {
		r.Probe("run-exact-time")
	} else {
		r.Probe("run-with-stalls")
	}
	maxCalls := 3
	if tier == "thorough" {
		maxCalls = 5
	}
	comp := t.Intn(4)
	n := t.Range(1, maxCalls)
	hist, lanes := 0, 1
	if comp != 2 {
		// the zrpc client interceptor is synchronous: it leaves no work behind
		hist, lanes = drawHistory(t)
	}
	w.hist = hist
	// run(i): call i; 0..n-1 are the calls of the run proper, n..n+hist-1 the history
	var run func(i int)
	var finish func()
	var name string
	switch comp {
	case 0:
		name = "rest"
		run, finish = w.setupRest(n, hist)
	case 1:
		name = "rpcsrv"
		run, finish = w.setupRpcServer(n, hist)
	case 2:
		name = "rpccli"
		run, finish = w.setupRpcClient(n)
	default:
		name = "fx"
		run, finish = w.setupFx(n, hist)
	}
	ok := true
	var callers []*simrt.Task
	if hist > 0 {
		r.Probe("history-of-stuck-calls")
		if hist >= 16 {
			r.Probe("history-of-16+-stuck-calls")
		}
		if hist >= 32 {
			r.Probe("history-of-32+-stuck-calls")
		}
		if lanes > 1 {
			r.Probe("history-made-by-concurrent-callers")
		}
		var hs []*simrt.Task
		for l := 0; l < lanes; l++ {
			l := l
			hs = append(hs, r.Go(fmt.Sprintf("history%d", l), func() {
				for j := l; j < hist; j += lanes {
					run(n + j)
				}
			}))
		}
		callers = hs
		// every call of the history returns at its deadline although none of the works does
		if ok = r.JoinTimeout(12*time.Hour, hs...); !ok {
			r.Fail(name+"/no-return", "a history of %d calls whose work ignores the timeout (%d of them parked and still running): the calls did not all return within 12h of virtual time: %v", hist, w.nGated, r.AliveTasks())
		}
		if w.nGated >= 16 {
			r.Probe("16+-works-still-running-when-the-judged-calls-start")
		}
	}
	var clients []*simrt.Task
	if ok {
		for i := 0; i < n; i++ {
			i := i
			clients = append(clients, r.Go(fmt.Sprintf("client%d", i), func() { run(i) }))
		}
		callers = append(callers, clients...)
		// (b) liveness form: the wrappers return although gated work never does.
		ok = r.JoinTimeout(12*time.Hour, clients...)
		if !ok {
			r.Fail(name+"/no-return", "wrapper calls did not return within 12h of virtual time while the work was stalled (%d works parked and still running): %v", w.nGated, r.AliveTasks())
		}
	}
	if w.gateUsed {
		r.Probe("work-gated-until-wrapper-returned")
	}
	w.gateOpen = true
	simrt.Close("gate", w.gate)
	if !ok {
		r.JoinTimeout(time.Hour, callers...)
	}
	r.JoinTimeout(time.Hour, w.cancellers...)
	for _, cf := range w.cancels {
		cf()
	}
	// let orphaned work run to its end
	for i := 0; i < 20 && len(r.AliveTasks()) > 0; i++ {
		r.Sleep(30 * time.Minute)
	}
	if left := r.AliveTasks(); len(left) > 0 {
		r.Fail(name+"/task-leak", "tasks still alive long after all work was released: %v", left)
	}
	for _, k := range w.works {
		if k.started && !k.finished && !k.panicked && !k.aborted {
			r.Fail(name+"/work-never-finished", "work %d started but never finished", k.id)
		}
	}
	finish()
	r.Probe("oracle")
}

func TestSim(t *testing.T) {
	logx.Disable()
	simharness.Main(t, &simharness.Spec{ID: "C04", Body: body, Config: config, StuckIsViolation: true, CrashIsViolation: true})
}
