package c04

import (
	"bytes"
	"fmt"
	"hash/crc32"
	"net/http"
	"net/http/httptest"
	"sort"
	"strconv"
	"strings"
	"time"

	"github.com/zeromicro/go-zero/rest"
	"github.com/zeromicro/go-zero/rest/handler"
)

// recorder is the client side of the connection: it keeps what a client would
// see (status and header snapshot taken at the first WriteHeader/Write, like
// net/http does, and the body bytes in order) and counts every call.  Of the
// body it keeps the length, a running checksum, whether bytes written by a work
// are in it, and the first keepHead / last keepTail bytes; a body of at most
// keepHead bytes is therefore kept as a whole.
type recorder struct {
	w      *world
	id     int
	hdr    http.Header
	wrote  bool
	status int
	snap   http.Header
	calls  int
	sealed bool // the outermost ServeHTTP has returned: the response is final
	late   []string

	n         int    // body bytes received
	crc       uint32 // CRC-32C of the body
	head      []byte
	tail      []byte
	workBytes bool // the body contains workMark
}

const (
	keepHead = 512
	keepTail = 48
)

var crcTable = crc32.MakeTable(crc32.Castagnoli)

func (rc *recorder) absorb(p []byte) {
	if len(p) == 0 {
		return
	}
	if !rc.workBytes {
		straddle := rc.n > 0 && rc.tail[len(rc.tail)-1] == workMark[0] && p[0] == workMark[1]
		rc.workBytes = straddle || bytes.Contains(p, []byte(workMark))
	}
	rc.crc = crc32.Update(rc.crc, crcTable, p)
	if room := keepHead - len(rc.head); room > 0 {
		rc.head = append(rc.head, p[:min(room, len(p))]...)
	}
	if len(p) >= keepTail {
		rc.tail = append(rc.tail[:0], p[len(p)-keepTail:]...)
	} else {
		rc.tail = append(rc.tail, p...)
		if x := len(rc.tail) - keepTail; x > 0 {
			rc.tail = append(rc.tail[:0], rc.tail[x:]...)
		}
	}
	rc.n += len(p)
}

// whole says that head is the entire body.
func (rc *recorder) whole() bool { return rc.n <= keepHead }

func (rc *recorder) bodyDesc() string {
	if rc.whole() {
		return fmt.Sprintf("%q", rc.head)
	}
	return fmt.Sprintf("%d bytes %q...%q", rc.n, rc.head[:keepTail], rc.tail)
}

func descBytes(p []byte) string {
	if len(p) <= 2*keepTail {
		return fmt.Sprintf("%q", p)
	}
	return fmt.Sprintf("%d bytes %q...%q", len(p), p[:keepTail], p[len(p)-keepTail:])
}

func (rc *recorder) Header() http.Header { return rc.hdr }

func (rc *recorder) WriteHeader(code int) {
	if rc.sealed {
		rc.late = append(rc.late, fmt.Sprintf("WriteHeader(%d)", code))
		return
	}
	rc.calls++
	if rc.w.r.Tracing() {
		rc.w.r.Logf("#%d recorder %d WriteHeader(%d) headers=%v first=%v", rc.w.tick(), rc.id, code, rc.hdr, !rc.wrote)
	}
	if rc.wrote {
		return // superfluous, ignored as net/http does
	}
	rc.wrote, rc.status, rc.snap = true, code, rc.hdr.Clone()
}

func (rc *recorder) Write(p []byte) (int, error) {
	if rc.sealed {
		rc.late = append(rc.late, "Write("+descBytes(p)+")")
		return len(p), nil
	}
	if !rc.wrote {
		rc.WriteHeader(http.StatusOK)
		rc.calls--
	}
	rc.calls++
	if rc.w.r.Tracing() {
		rc.w.r.Logf("#%d recorder %d Write(%s)", rc.w.tick(), rc.id, descBytes(p))
	}
	rc.absorb(p)
	return len(p), nil
}

// seal finalises the response the way net/http does when the handler returns.
func (rc *recorder) seal() {
	if !rc.wrote {
		rc.wrote, rc.status, rc.snap = true, http.StatusOK, rc.hdr.Clone()
	}
	rc.sealed = true
}

type route struct {
	d    time.Duration
	path string
	h    http.Handler
}

type restCall struct {
	call
	rt     *route
	exempt int // 0: ordinary request, 1: websocket upgrade, 2: event stream
	near   int // 1: Upgrade header that is not websocket, 2: Accept header that is not event-stream
	rec    *recorder
}

func workHeaderKeys(h http.Header) []string {
	var ks []string
	for k := range h {
		if strings.HasPrefix(k, hdrPrefix) {
			ks = append(ks, k)
		}
	}
	sort.Strings(ks)
	return ks
}

func (w *world) setupRest(n, hist int) (func(int), func()) {
	t, r := w.r.Tape, w.r
	calls := make([]*restCall, n+hist)
	byID := map[string]*restCall{}
	dispatch := http.HandlerFunc(func(rw http.ResponseWriter, req *http.Request) {
		q := byID[req.Header.Get("X-Call")]
		q.wk.run(req.Context(), rw)
	})
	var routes []*route
	engineMode := t.Chance(1, 3)
	if engineMode {
		routes = w.engineRoutes(dispatch)
		if routes == nil {
			return func(int) {}, func() {}
		}
	} else {
		routes = make([]*route, t.Range(1, 2))
		for i := range routes {
			d := drawTimeout(t)
			routes[i] = &route{d: d, path: "/call", h: handler.TimeoutHandler(d)(dispatch)}
		}
	}
	var sample []string
	for i := 0; i < n+hist; i++ {
		q := &restCall{rt: routes[t.Intn(len(routes))]}
		q.w, q.id, q.d, q.stuck = w, i, q.rt.d, i >= n
		if !q.stuck {
			switch v := t.Intn(12); v {
			case 8:
				q.exempt = 1
			case 9:
				q.exempt = 2
			case 10:
				q.near = 1
			case 11:
				q.near = 2
			}
		}
		q.cl = genCaller(t, q.d)
		if !q.stuck && t.Chance(2, 3) {
			q.pre = time.Duration(t.Range(0, 1000)) * q.d / 1000
		}
		ctxEnds := q.exempt == 0 || q.cl.dl > 0 || q.cl.cancelAt >= 0
		q.wk = &work{w: w, id: i, script: genScript(t, i, scriptOpts{rest: true, stuck: q.stuck, gate: q.exempt == 0, observe: true,
			waitDone: ctxEnds, maxSteps: 8, effective: q.cl.effective(q.d)})}
		w.works = append(w.works, q.wk)
		q.rec = &recorder{w: w, id: i, hdr: http.Header{}}
		calls[i] = q
		byID[strconv.Itoa(i)] = q
		if i < n+histSampled {
			sample = append(sample, fmt.Sprintf("call%d history=%v timeout=%v exempt=%d %v think=%v script=[%s]", i, q.stuck, q.d, q.exempt, q.cl, q.pre, scriptString(q.wk.script)))
		}
	}
	if r.Tracing() {
		for _, s := range sample {
			r.Logf("%s", s)
		}
	}
	r.Sample(map[string]any{"component": "rest/handler.TimeoutHandler", "engine_wiring": engineMode, "routes": len(routes), "history_calls": hist, "calls": sample})
	run := func(i int) {
		q := calls[i]
		if q.pre > 0 {
			r.Sleep(q.pre)
		}
		req := httptest.NewRequest(http.MethodGet, q.rt.path, nil)
		req.Header.Set("X-Call", strconv.Itoa(q.id))
		switch {
		case q.exempt == 1:
			req.Header.Set("Upgrade", "websocket")
		case q.exempt == 2:
			req.Header.Set("Accept", "text/event-stream")
		case q.near == 1:
			req.Header.Set("Upgrade", "h2c")
		case q.near == 2:
			req.Header.Set("Accept", "text/html")
		}
		req = req.WithContext(q.ctx())
		r.Ev("call", int64(q.id))
		func() {
			defer func() {
				if p := recover(); p != nil {
					q.wpanicked, q.wpanic = true, p
				}
			}()
			q.rt.h.ServeHTTP(q.rec, req)
		}()
		q.tRet, q.returned = time.Now(), true
		q.rec.seal()
		r.Ev("return", int64(q.id), int64(q.rec.status), int64(q.rec.n))
		q.noteReturn()
		w.checkRest(q)
	}
	finish := func() {
		for _, q := range calls {
			if len(q.rec.late) > 0 {
				r.Fail("rest/write-after-return-reached-client", "call %d (timeout %v, %v): after the wrapper had returned status %d the client connection still received %v",
					q.id, q.d, q.cl, q.rec.status, q.rec.late)
			}
		}
	}
	return run, finish
}

// expected is the complete result of the work: what it wrote, as a whole.
type expected struct {
	status     int
	hdrBefore  map[string][]string // set before the response was started: must be there
	hdrAnytime map[string][]string // every header the work set (those set later may or may not be sent)
	chunks     []chunk             // the body: everything the work wrote, in order
	n          int
}

// body builds the body; only for short ones.
func (e expected) body() string {
	var b strings.Builder
	for _, c := range e.chunks {
		b.Write(c.bytes())
	}
	return b.String()
}

func (e expected) crc() uint32 {
	var v uint32
	for _, c := range e.chunks {
		v = crc32.Update(v, crcTable, c.bytes())
	}
	return v
}

func (e expected) bodyDesc() string {
	if e.n <= keepHead {
		return fmt.Sprintf("%q", e.body())
	}
	return fmt.Sprintf("%d bytes in %d chunks", e.n, len(e.chunks))
}

func (k *work) expected() expected {
	e := expected{status: http.StatusOK, hdrBefore: map[string][]string{}, hdrAnytime: map[string][]string{}}
	begun := false
	for _, a := range k.acts {
		switch a.kind {
		case sSetHdr:
			if !begun {
				e.hdrBefore[a.key] = a.vals
			}
			e.hdrAnytime[a.key] = a.vals
		case sWriteHeader:
			if !begun {
				begun, e.status = true, a.code
			}
		case sWrite:
			begun = true
			e.chunks = append(e.chunks, a.chunk)
			e.n += a.chunk.size()
		}
	}
	return e
}

func sameVals(a, b []string) bool {
	if len(a) != len(b) {
		return false
	}
	for i := range a {
		if a[i] != b[i] {
			return false
		}
	}
	return true
}

// matches says whether the client-visible response is exactly the work's complete result.
func (e expected) matches(rc *recorder) (bool, string) {
	if rc.status != e.status {
		return false, fmt.Sprintf("status %d, the work's status is %d", rc.status, e.status)
	}
	// the body: same length and same bytes (compared directly when the client's body is kept
	// as a whole, by checksum otherwise)
	if rc.n != e.n || (rc.whole() && string(rc.head) != e.body()) {
		return false, fmt.Sprintf("body %s, the work's body is %s", rc.bodyDesc(), e.bodyDesc())
	}
	if !rc.whole() {
		rc.w.r.Probe("rest-large-body-compared")
		if rc.crc != e.crc() {
			return false, fmt.Sprintf("body %s, which has the length of the work's body (%d chunks) but not its bytes", rc.bodyDesc(), len(e.chunks))
		}
	}
	for _, k := range workHeaderKeys(rc.snap) {
		if v, ok := e.hdrAnytime[k]; !ok || !sameVals(v, rc.snap[k]) {
			return false, fmt.Sprintf("header %s=%s which the work did not set like that", k, abbrevVals(rc.snap[k]))
		}
	}
	var ks []string
	for k := range e.hdrBefore {
		ks = append(ks, k)
	}
	sort.Strings(ks)
	for _, k := range ks {
		if !sameVals(e.hdrBefore[k], rc.snap[k]) {
			return false, fmt.Sprintf("header %s=%s, the work set %s", k, abbrevVals(rc.snap[k]), abbrevVals(e.hdrBefore[k]))
		}
	}
	return true, ""
}

func (w *world) checkRest(q *restCall) {
	r, k, rc := w.r, q.wk, q.rec
	desc := fmt.Sprintf("call %d (timeout %v, %v, returned at t0+%v)", q.id, q.d, q.cl, q.tRet.Sub(q.t0))
	if q.exempt != 0 {
		// exempt requests: the timeout does not apply; the work's own outcome is the outcome.
		r.Probe("rest-exempt-request")
		if k.panicked {
			if !q.wpanicked || !k.panicMatches(q.wpanic) {
				r.Fail("rest/exempt-panic-lost", "%s: exempt request, the work panicked but the wrapper returned normally", desc)
			}
			return
		}
		if q.wpanicked {
			r.Fail("rest/foreign-panic", "%s: wrapper panicked with %v although the work did not", desc, q.wpanic)
			return
		}
		if !k.finished {
			r.Fail("rest/exempt-cut-off", "%s: exempt (websocket/event-stream) request returned before its work finished, status %d", desc, rc.status)
			return
		}
		if ok, why := k.expected().matches(rc); !ok {
			r.Fail("rest/exempt-result-altered", "%s: exempt request: client sees %s", desc, why)
		}
		return
	}
	if q.near != 0 {
		r.Probe("rest-near-exempt-request")
	}
	q.checkDeadlineInside("rest/")
	q.checkReturnTime("rest/")
	if q.wpanicked {
		if !k.panicMatches(q.wpanic) {
			r.Fail("rest/foreign-panic", "%s: wrapper panicked with %v (work panicked=%v)", desc, q.wpanic, k.panicked)
			return
		}
		r.Probe("rest-panic-reraised")
		if rc.calls > 0 || len(workHeaderKeys(rc.hdr)) > 0 {
			r.Fail("rest/partial-response-with-panic", "%s: the work panicked, yet the client connection received status %d headers %v body %s", desc, rc.status, workHeaderKeys(rc.hdr), rc.bodyDesc())
		}
		return
	}
	exp := k.expected()
	complete, why := false, "the work had not finished"
	if k.finished {
		complete, why = exp.matches(rc)
	}
	if exp.n >= 64<<10 {
		r.Probe("rest-work-wrote-64KB+")
	}
	if len(exp.chunks) >= 32 {
		r.Probe("rest-work-wrote-32+chunks")
	}
	if len(exp.hdrAnytime) >= 16 {
		r.Probe("rest-work-set-16+headers")
	}
	if complete {
		r.Probe("rest-complete-result")
		if k.copied > 0 {
			r.Probe("rest-complete-result-with-copied-bytes")
		}
		if exp.n >= 1<<20 {
			r.Probe("rest-complete-result-1MB+")
		}
		return
	}
	// not the complete result: it has to be the pure timeout result
	leakedHdr := workHeaderKeys(rc.snap)
	leakedBody := rc.workBytes
	if (rc.status != http.StatusServiceUnavailable && rc.status != 499) || len(leakedHdr) > 0 || leakedBody {
		if k.finished {
			r.Fail("rest/incomplete-result", "%s: the work finished at t0+%v but the client sees %s (status %d headers %v body %s)", desc, k.tFin.Sub(q.t0), why, rc.status, leakedHdr, rc.bodyDesc())
		} else {
			r.Fail("rest/mixed-result", "%s: neither the work's complete result (%s) nor the timeout result: status %d, work headers %v, body %s", desc, why, rc.status, leakedHdr, rc.bodyDesc())
		}
		return
	}
	reached := q.deadlineReached()
	if !reached && !q.cancelIssued {
		r.Fail("rest/timeout-before-deadline", "%s: timeout result %d although neither the deadline t0+%v was reached nor the caller cancelled", desc, rc.status, q.lowerBound().Sub(q.t0))
		return
	}
	switch {
	case rc.status == 499 && !q.cancelIssued:
		r.Fail("rest/499-without-cancel", "%s: status 499 but the caller never cancelled; the deadline passed", desc)
	case rc.status == http.StatusServiceUnavailable && !reached:
		r.Fail("rest/503-for-cancel", "%s: status 503 but no deadline had passed; the caller cancelled at t0+%v", desc, q.tCancel.Sub(q.t0))
	case rc.status == 499:
		r.Probe("rest-timeout-result-499")
	default:
		r.Probe("rest-timeout-result-503")
	}
	if k.finished {
		r.Probe("timeout-result-although-work-finished")
	}
	if k.inCopy {
		r.Probe("timeout-result-while-work-inside-copy")
	}
	if len(k.acts) > 0 {
		r.Probe("timeout-result-discarded-partial-writes")
	}
	if exp.n >= 64<<10 {
		r.Probe("timeout-result-discarded-64KB+")
	}
	if exp.n >= 1<<20 {
		r.Probe("timeout-result-discarded-1MB+")
	}
}

// engineRoutes builds the routes through the REST engine's own wiring
// (newEngine, AddRoutes with/without rest.WithTimeout, bindRoutes onto a pat
// router): the timeout a route runs under is what the engine selects - the
// group's own timeout if it has one, else the server-wide RestConf.Timeout -
// whatever other groups are registered on the same server, before or after it.
// Only the timeout middleware (plus max-bytes and gunzip, which do not touch
// a body-less GET) is switched on, so the expected results are those of the
// directly constructed wrapper.
func (w *world) engineRoutes(dispatch http.Handler) []*route {
	t, r := w.r.Tape, w.r
	globalMs := int64(t.Range(1, 10_000))
	if t.Chance(1, 2) {
		globalMs = int64(timeoutTable[t.Intn(len(timeoutTable))] / time.Millisecond)
	}
	global := time.Duration(globalMs) * time.Millisecond
	var conf rest.RestConf
	conf.Name = fmt.Sprintf("c04-%d", w.tick())
	conf.Host, conf.Port = "localhost", 0
	conf.Timeout = globalMs
	conf.MaxBytes = 1 << 20
	conf.MaxConns = 10000
	conf.Middlewares.Timeout = true
	conf.Middlewares.MaxBytes = t.Bool()
	conf.Middlewares.Gunzip = t.Bool()
	ngroups := t.Range(1, 4)
	groups := make([]rest.VerifRouteGroup, ngroups)
	routes := make([]*route, ngroups)
	var desc []string
	for i := range groups {
		path := fmt.Sprintf("/g%d/call", i)
		groups[i].Routes = []rest.Route{{Method: http.MethodGet, Path: path, Handler: dispatch.ServeHTTP}}
		d := global
		if t.Chance(1, 2) {
			d = drawTimeout(t) // shorter or longer than the server-wide one
			groups[i].Opts = append(groups[i].Opts, rest.WithTimeout(d))
			if d > global {
				r.Probe("engine-route-timeout-above-global")
			}
			desc = append(desc, fmt.Sprintf("%s:WithTimeout(%v)", path, d))
		} else {
			r.Probe("engine-route-inherits-global")
			desc = append(desc, fmt.Sprintf("%s:global(%v)", path, d))
		}
		if t.Chance(1, 4) {
			groups[i].Opts = append(groups[i].Opts, rest.WithMaxBytes(1<<10))
		}
		routes[i] = &route{d: d, path: path}
	}
	h, err := rest.VerifNewRouterHandler(conf, groups)
	if err != nil {
		r.Fail("rest/engine-bind-error", "bindRoutes: %v", err)
		return nil
	}
	for _, rt := range routes {
		rt.h = h
	}
	if r.Tracing() {
		r.Logf("engine wiring: global %v; %s", global, strings.Join(desc, "; "))
	}
	r.Probe("rest-engine-wiring")
	return routes
}
