package c04

import (
	"context"
	"errors"
	"fmt"
	"time"

	"github.com/zeromicro/go-zero/core/fx"
	"github.com/zeromicro/go-zero/zrpc"
	"google.golang.org/grpc"
	"google.golang.org/grpc/codes"
	"google.golang.org/grpc/status"
)

type rpcResp struct{ id int }

type rpcCall struct {
	call
	method  string
	resp    *rpcResp // what the work returns (nil: no response)
	err     error    // what the work returns
	abort   error    // what the work returns when it aborts on a finished context
	opts    []grpc.CallOption
	optDesc string
	reply   *rpcResp
}

// outcome of the work function as seen by the wrapper
func (q *rpcCall) workResult() (*rpcResp, error) {
	if q.wk.aborted {
		return nil, q.abort
	}
	return q.resp, q.err
}

func genResult(q *rpcCall, v int) {
	switch v {
	case 0, 1, 2:
		q.resp = &rpcResp{id: q.id}
	case 3:
		q.err = fmt.Errorf("work-error-%d", q.id)
	case 4: // both
		q.resp = &rpcResp{id: q.id}
		q.err = fmt.Errorf("work-error-%d", q.id)
	default: // a work function that itself reports a gRPC deadline status
		q.err = status.Error(codes.DeadlineExceeded, fmt.Sprintf("work-status-%d", q.id))
	}
	q.abort = fmt.Errorf("work-aborted-%d", q.id)
}

func (w *world) setupRpcServer(n, hist int) (func(int), func()) {
	t, r := w.r.Tape, w.r
	def := drawTimeout(t)
	methods := []string{"/svc/default"}
	timeouts := map[string]time.Duration{"/svc/default": def}
	var confs []zrpc.VerifMethodTimeoutConf
	for i, nm := 0, t.Range(0, 2); i < nm; i++ {
		m := fmt.Sprintf("/svc/m%d", i)
		d := drawTimeout(t)
		methods = append(methods, m)
		timeouts[m] = d
		confs = append(confs, zrpc.VerifMethodTimeoutConf{FullMethod: m, Timeout: d})
	}
	icpt := zrpc.VerifUnaryTimeoutInterceptor(def, confs...)
	calls := make([]*rpcCall, n+hist)
	var sample []string
	for i := 0; i < n+hist; i++ {
		q := &rpcCall{method: methods[t.Intn(len(methods))]}
		q.w, q.id, q.d, q.stuck = w, i, timeouts[q.method], i >= n
		q.cl = genCaller(t, q.d)
		if !q.stuck && t.Chance(2, 3) {
			q.pre = time.Duration(t.Range(0, 1000)) * q.d / 1000
		}
		genResult(q, t.Intn(6))
		q.wk = &work{w: w, id: i, script: genScript(t, i, scriptOpts{stuck: q.stuck, gate: true, observe: true, waitDone: true, maxSteps: 6, effective: q.cl.effective(q.d)})}
		w.works = append(w.works, q.wk)
		calls[i] = q
		if i < n+histSampled {
			sample = append(sample, fmt.Sprintf("call%d history=%v method=%s timeout=%v %v think=%v script=[%s] returns(resp=%v err=%v)", i, q.stuck, q.method, q.d, q.cl, q.pre, scriptString(q.wk.script), q.resp != nil, q.err))
		}
	}
	if r.Tracing() {
		r.Logf("default timeout %v, method timeouts %v", def, confs)
		for _, s := range sample {
			r.Logf("%s", s)
		}
	}
	r.Sample(map[string]any{"component": "zrpc serverinterceptors.UnaryTimeoutInterceptor", "default_timeout": def.String(), "method_timeouts": len(confs), "history_calls": hist, "calls": sample})
	run := func(i int) {
		q := calls[i]
		if q.pre > 0 {
			r.Sleep(q.pre)
		}
		h := func(ctx context.Context, req any) (any, error) {
			rq := req.(*rpcCall)
			rq.wk.run(ctx, nil)
			resp, err := rq.workResult()
			if resp == nil {
				return nil, err
			}
			return resp, err
		}
		ctx := q.ctx()
		r.Ev("call", int64(q.id))
		var resp any
		var err error
		func() {
			defer func() {
				if p := recover(); p != nil {
					q.wpanicked, q.wpanic = true, p
				}
			}()
			resp, err = icpt(ctx, q, &grpc.UnaryServerInfo{FullMethod: q.method}, h)
		}()
		q.tRet, q.returned = time.Now(), true
		r.Ev("return", int64(q.id), int64(status.Code(err)))
		q.noteReturn()
		w.checkRpcServer(q, resp, err)
	}
	return run, func() {}
}

func (w *world) checkRpcServer(q *rpcCall, resp any, err error) {
	r, k := w.r, q.wk
	desc := fmt.Sprintf("call %d (%s, timeout %v, %v, returned at t0+%v)", q.id, q.method, q.d, q.cl, q.tRet.Sub(q.t0))
	q.checkDeadlineInside("rpcsrv/")
	q.checkReturnTime("rpcsrv/")
	if q.wpanicked {
		if !k.panicMatches(q.wpanic) {
			r.Fail("rpcsrv/foreign-panic", "%s: interceptor panicked with %v (work panicked=%v)", desc, q.wpanic, k.panicked)
			return
		}
		r.Probe("rpcsrv-panic-reraised")
		return
	}
	if k.finished {
		wr, we := q.workResult()
		var got *rpcResp
		if resp != nil {
			got, _ = resp.(*rpcResp)
		}
		if (resp == nil) == (wr == nil) && got == wr && err == we {
			r.Probe("rpcsrv-complete-result")
			return
		}
	}
	st, isStatus := status.FromError(err)
	if resp != nil || err == nil || !isStatus || (st.Code() != codes.DeadlineExceeded && st.Code() != codes.Canceled) || err == q.err {
		if k.finished {
			wr, we := q.workResult()
			r.Fail("rpcsrv/incomplete-result", "%s: the work returned (resp=%v, err=%v) but the caller got (resp=%v, err=%v)", desc, wr != nil, we, resp != nil, err)
		} else {
			r.Fail("rpcsrv/mixed-result", "%s: the work had not finished and the caller got (resp=%v, err=%v), which is not a DeadlineExceeded/Canceled status", desc, resp != nil, err)
		}
		return
	}
	reached := q.deadlineReached()
	if !reached && !q.cancelIssued {
		r.Fail("rpcsrv/timeout-before-deadline", "%s: %v although neither the deadline t0+%v was reached nor the caller cancelled", desc, err, q.lowerBound().Sub(q.t0))
		return
	}
	switch {
	case st.Code() == codes.Canceled && !q.cancelIssued:
		r.Fail("rpcsrv/canceled-without-cancel", "%s: status Canceled but the caller never cancelled; the deadline passed", desc)
	case st.Code() == codes.DeadlineExceeded && !reached:
		r.Fail("rpcsrv/deadline-status-for-cancel", "%s: status DeadlineExceeded but no deadline had passed; the caller cancelled at t0+%v", desc, q.tCancel.Sub(q.t0))
	case st.Code() == codes.Canceled:
		r.Probe("rpcsrv-timeout-result-canceled")
	default:
		r.Probe("rpcsrv-timeout-result-deadline")
	}
	if k.finished {
		r.Probe("timeout-result-although-work-finished")
	}
}

func (w *world) setupRpcClient(n int) (func(int), func()) {
	t, r := w.r.Tape, w.r
	def := drawTimeout(t)
	icpt := zrpc.VerifClientTimeoutInterceptor(def)
	// wiring mode: the interceptor chain a client gets from its configuration (zrpc/internal.client), incl.
	// a client without a client-wide timeout (0 = none), where only WithCallTimeout bounds a call
	wiring := t.Intn(3)
	if wiring > 0 {
		if t.Chance(1, 3) {
			def = 0
			r.Probe("rpccli-client-without-timeout")
		}
		chain := zrpc.VerifBuildClientUnaryInterceptors(zrpc.VerifClientMiddlewaresConf{Timeout: true}, def)
		r.Probe("rpccli-wired-by-client-config")
		icpt = func(ctx context.Context, method string, req, reply any, cc *grpc.ClientConn, invoker grpc.UnaryInvoker, opts ...grpc.CallOption) error {
			// what grpc's chainUnaryClientInterceptors does
			var next func(i int) grpc.UnaryInvoker
			next = func(i int) grpc.UnaryInvoker {
				if i == len(chain) {
					return invoker
				}
				return func(ctx context.Context, method string, req, reply any, cc *grpc.ClientConn, opts ...grpc.CallOption) error {
					return chain[i](ctx, method, req, reply, cc, next(i+1), opts...)
				}
			}
			return next(0)(ctx, method, req, reply, cc, opts...)
		}
	}
	calls := make([]*rpcCall, n)
	var sample []string
	for i := 0; i < n; i++ {
		q := &rpcCall{method: "/svc/call"}
		q.w, q.id, q.d = w, i, def
		// per-call timeout option, at a drawn position among other options
		nopt := t.Intn(4)
		pos := -1
		if t.Chance(1, 2) {
			pos = t.Intn(nopt + 1)
			q.d = drawTimeout(t)
		}
		for j := 0; j <= nopt; j++ {
			switch {
			case j == pos && t.Bool():
				q.opts = append(q.opts, zrpc.WithCallTimeout(q.d))
				q.optDesc += " WithCallTimeout(" + q.d.String() + ")"
			case j == pos:
				q.opts = append(q.opts, zrpc.VerifWithCallTimeout(q.d))
				q.optDesc += " WithCallTimeout(" + q.d.String() + ")"
			case j < nopt:
				if t.Bool() {
					q.opts = append(q.opts, grpc.WaitForReady(true))
				} else {
					q.opts = append(q.opts, grpc.EmptyCallOption{})
				}
				q.optDesc += " other"
			}
		}
		scale := q.d
		if q.d <= 0 {
			// neither a client-wide nor a per-call timeout: only the caller's own deadline bounds the call
			q.noTimeout, scale = true, time.Second
			r.Probe("rpccli-call-without-any-timeout")
		} else if def == 0 {
			r.Probe("rpccli-call-timeout-on-client-without-timeout")
		}
		q.cl = genCaller(t, scale)
		if t.Chance(2, 3) {
			q.pre = time.Duration(t.Range(0, 1000)) * scale / 1000
		}
		genResult(q, t.Intn(6))
		q.resp = nil
		q.reply = &rpcResp{id: -1}
		// a call that nothing bounds (no timeout, caller without deadline or cancel) must not wait for ctx.Done()
		unbounded := q.noTimeout && q.cl.dl <= 0 && q.cl.cancelAt < 0
		// the client interceptor is synchronous: it waits for the invoker, so no work that never returns
		q.wk = &work{w: w, id: i, script: genScript(t, i, scriptOpts{gate: false, observe: true, waitDone: !unbounded, maxSteps: 6, effective: q.cl.effective(scale)})}
		w.works = append(w.works, q.wk)
		calls[i] = q
		sample = append(sample, fmt.Sprintf("call%d default=%v opts=[%s] applies=%v %v think=%v script=[%s] returns(err=%v)", i, def, q.optDesc, q.d, q.cl, q.pre, scriptString(q.wk.script), q.err))
	}
	if r.Tracing() {
		for _, s := range sample {
			r.Logf("%s", s)
		}
	}
	r.Sample(map[string]any{"component": "zrpc clientinterceptors.TimeoutInterceptor", "default_timeout": def.String(), "calls": sample})
	run := func(i int) {
		q := calls[i]
		if q.pre > 0 {
			r.Sleep(q.pre)
		}
		invoker := func(ctx context.Context, method string, req, reply any, cc *grpc.ClientConn, opts ...grpc.CallOption) error {
			rq := req.(*rpcCall)
			rq.wk.run(ctx, nil)
			_, err := rq.workResult()
			if err == nil {
				reply.(*rpcResp).id = rq.id
			}
			return err
		}
		ctx := q.ctx()
		r.Ev("call", int64(q.id))
		var err error
		func() {
			defer func() {
				if p := recover(); p != nil {
					q.wpanicked, q.wpanic = true, p
				}
			}()
			err = icpt(ctx, q.method, q, q.reply, nil, invoker, q.opts...)
		}()
		q.tRet, q.returned = time.Now(), true
		r.Ev("return", int64(q.id))
		k := q.wk
		desc := fmt.Sprintf("call %d (default %v, options[%s], %v, returned at t0+%v)", q.id, def, q.optDesc, q.cl, q.tRet.Sub(q.t0))
		q.checkDeadlineInside("rpccli/")
		if !k.started {
			r.Fail("rpccli/invoker-not-called", "%s: the interceptor returned %v without calling the invoker", desc, err)
			return
		}
		if k.panicked {
			if !q.wpanicked || !k.panicMatches(q.wpanic) {
				r.Fail("rpccli/panic-lost", "%s: the invoker panicked, the interceptor returned %v", desc, err)
			}
			return
		}
		if q.wpanicked {
			r.Fail("rpccli/foreign-panic", "%s: interceptor panicked with %v", desc, q.wpanic)
			return
		}
		_, we := q.workResult()
		if err != we {
			r.Fail("rpccli/result-altered", "%s: the invoker returned %v, the caller got %v", desc, we, err)
			return
		}
		if we == nil && q.reply.id != q.id {
			r.Fail("rpccli/reply-lost", "%s: the reply written by the invoker did not reach the caller", desc)
			return
		}
		r.Probe("rpccli-complete-result")
	}
	return run, func() {}
}

type fxCall struct {
	call
	err     error
	withCtx bool
}

func (w *world) setupFx(n, hist int) (func(int), func()) {
	t, r := w.r.Tape, w.r
	calls := make([]*fxCall, n+hist)
	var sample []string
	for i := 0; i < n+hist; i++ {
		q := &fxCall{}
		q.w, q.id, q.d, q.stuck = w, i, drawTimeout(t), i >= n
		scale := q.d
		exhausted := !q.stuck && t.Chance(1, 8)
		if exhausted {
			// an exhausted budget (timeout computed as time.Until(deadline)): now+timeout is
			// not in the future, the call has to return at once whatever the work does
			q.d = []time.Duration{0, -time.Millisecond, -time.Hour}[t.Intn(3)]
			r.Probe("fx-timeout-not-positive")
		}
		q.cl = genCaller(t, scale)
		q.withCtx = q.cl.dl > 0 || q.cl.cancelAt >= 0 || t.Bool()
		if !q.stuck && t.Chance(2, 3) {
			q.pre = time.Duration(t.Range(0, 1000)) * scale / 1000
		}
		if t.Chance(1, 3) {
			q.err = fmt.Errorf("work-error-%d", i)
		}
		eff := q.cl.effective(scale)
		q.wk = &work{w: w, id: i, script: genScript(t, i, scriptOpts{stuck: q.stuck, gate: true, maxSteps: 6, effective: eff})}
		w.works = append(w.works, q.wk)
		calls[i] = q
		if i < n+histSampled {
			sample = append(sample, fmt.Sprintf("call%d history=%v timeout=%v %v think=%v script=[%s] returns(%v)", i, q.stuck, q.d, q.cl, q.pre, scriptString(q.wk.script), q.err))
		}
	}
	if r.Tracing() {
		for _, s := range sample {
			r.Logf("%s", s)
		}
	}
	r.Sample(map[string]any{"component": "core/fx.DoWithTimeout", "history_calls": hist, "calls": sample})
	run := func(i int) {
		q := calls[i]
		k := q.wk
		if q.pre > 0 {
			r.Sleep(q.pre)
		}
		fn := func() error {
			k.run(nil, nil)
			return q.err
		}
		var opts []fx.DoOption
		ctx := q.ctx()
		if q.withCtx {
			opts = append(opts, fx.WithContext(ctx))
		}
		r.Ev("call", int64(q.id))
		var err error
		func() {
			defer func() {
				if p := recover(); p != nil {
					q.wpanicked, q.wpanic = true, p
				}
			}()
			err = fx.DoWithTimeout(fn, q.d, opts...)
		}()
		q.tRet, q.returned = time.Now(), true
		r.Ev("return", int64(q.id))
		q.noteReturn()
		desc := fmt.Sprintf("call %d (timeout %v, %v, returned at t0+%v)", q.id, q.d, q.cl, q.tRet.Sub(q.t0))
		q.checkReturnTime("fx/")
		if q.wpanicked {
			if !k.panicMatches(q.wpanic) {
				r.Fail("fx/foreign-panic", "%s: DoWithTimeout panicked with %v (work panicked=%v)", desc, q.wpanic, k.panicked)
				return
			}
			r.Probe("fx-panic-reraised")
			return
		}
		if k.finished && err == q.err {
			r.Probe("fx-complete-result")
			return
		}
		isDL, isCancel := errors.Is(err, context.DeadlineExceeded), errors.Is(err, context.Canceled)
		if !isDL && !isCancel {
			if k.finished {
				r.Fail("fx/incomplete-result", "%s: fn returned %v but the caller got %v", desc, q.err, err)
			} else {
				r.Fail("fx/mixed-result", "%s: fn had not finished and the caller got %v, which is neither DeadlineExceeded nor Canceled", desc, err)
			}
			return
		}
		reached := q.deadlineReached()
		switch {
		case !reached && !q.cancelIssued:
			r.Fail("fx/timeout-before-deadline", "%s: %v although neither the deadline t0+%v was reached nor the caller cancelled", desc, err, q.lowerBound().Sub(q.t0))
		case isCancel && !q.cancelIssued:
			r.Fail("fx/canceled-without-cancel", "%s: Canceled but the caller never cancelled", desc)
		case isDL && !reached:
			r.Fail("fx/deadline-error-for-cancel", "%s: DeadlineExceeded but no deadline had passed; the caller cancelled at t0+%v", desc, q.tCancel.Sub(q.t0))
		case isCancel:
			r.Probe("fx-timeout-result-canceled")
		default:
			r.Probe("fx-timeout-result-deadline")
		}
		if k.finished {
			r.Probe("timeout-result-although-work-finished")
		}
	}
	return run, func() {}
}
