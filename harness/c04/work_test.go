package c04

import (
	"context"
	"fmt"
	"net/http"
	"strings"
	"time"

	"verifsim/simrt"
)

// step kinds of a work script
const (
	sWrite = iota
	sSetHdr
	sSleep
	sWriteHeader
	sAbortIfDone // observe the context: if it has ended, stop (return early)
	sWaitDone    // observe the context: block until it ends, then go on
	sGate        // ignore the context: block until the run's main task lets go (after the wrappers returned)
	sPanic
	sYield
)

var kindName = [...]string{"write", "sethdr", "sleep", "writeheader", "abort-if-done", "wait-done", "gate", "panic", "yield"}

type step struct {
	kind  int
	key   string
	vals  []string
	code  int
	chunk string
	d     time.Duration
}

func (s step) String() string {
	switch s.kind {
	case sWrite:
		return "write(" + s.chunk + ")"
	case sSetHdr:
		return fmt.Sprintf("sethdr(%s=%v)", s.key, s.vals)
	case sSleep:
		return "sleep(" + s.d.String() + ")"
	case sWriteHeader:
		return fmt.Sprintf("writeheader(%d)", s.code)
	}
	return kindName[s.kind]
}

// act is something the work actually did to its ResponseWriter.
type act struct {
	kind  int
	key   string
	vals  []string
	code  int
	chunk string
	err   error
}

// work is the wrapped handler / invoker / fn of one call.
type work struct {
	w      *world
	id     int
	script []step

	hasCtx   bool
	started  bool
	finished bool // the script ran to its end (or aborted on purpose) and the function returned normally
	aborted  bool
	panicked bool
	atGate   bool
	tStart   time.Time
	tFin     time.Time
	dlSeen   time.Time
	dlOK     bool
	acts     []act
	panicVal string
	wErrs    int
}

const hdrPrefix = "X-Work-"

func chunkMarker(id, i int) string { return fmt.Sprintf("<w%d.c%d>", id, i) }

type scriptOpts struct {
	rest      bool // may touch a ResponseWriter
	gate      bool // may ignore the context forever (only where the wrapper must not wait for the work)
	observe   bool // may look at the context (there is one)
	waitDone  bool // may block until the context ends (only if it is certain to end)
	maxSteps  int
	effective time.Duration
}

var statusCodes = []int{201, 200, 204, 400, 404, 500, 503, 499, 302}

func genScript(t *simrt.Tape, id int, o scriptOpts) []step {
	n := t.Range(0, o.maxSteps)
	var sc []step
	var cum time.Duration
	nchunk, nhdr := 0, 0
	E := o.effective
	sleep := func() step {
		var d time.Duration
		rem := E - cum
		switch t.Intn(7) {
		case 0:
			d = E / 10
		case 1:
			d = rem
		case 2:
			d = rem - 1
		case 3:
			d = rem + 1
		case 4:
			d = 2 * E
		case 5:
			d = time.Duration(t.Range(0, 2000)) * E / 1000
		default:
			d = E / 3
		}
		if d <= 0 {
			d = E / 10
		}
		cum += d
		return step{kind: sSleep, d: d}
	}
	for i := 0; i < n; i++ {
		var k int
		if o.rest {
			switch v := t.Intn(18); {
			case v < 4:
				k = sWrite
			case v < 6:
				k = sSetHdr
			case v < 11:
				k = sSleep
			case v < 13:
				k = sWriteHeader
			case v == 13:
				k = sAbortIfDone
			case v == 14:
				k = sWaitDone
			case v == 15:
				k = sGate
			case v == 16:
				k = sPanic
			default:
				k = sYield
			}
		} else {
			switch v := t.Intn(10); {
			case v < 5:
				k = sSleep
			case v == 5:
				k = sAbortIfDone
			case v == 6:
				k = sWaitDone
			case v == 7:
				k = sGate
			case v == 8:
				k = sPanic
			default:
				k = sYield
			}
		}
		if (k == sGate && !o.gate) || (k == sWaitDone && !(o.waitDone && o.observe)) || (k == sAbortIfDone && !o.observe) {
			k = sSleep
		}
		switch k {
		case sWrite:
			c := chunkMarker(id, nchunk)
			if t.Chance(1, 4) {
				c += strings.Repeat("x", t.Range(1, 40))
			}
			nchunk++
			sc = append(sc, step{kind: sWrite, chunk: c})
		case sSetHdr:
			vals := []string{fmt.Sprintf("v%d-%d", id, nhdr)}
			if t.Chance(1, 4) {
				vals = append(vals, fmt.Sprintf("v%d-%d-b", id, nhdr))
			}
			sc = append(sc, step{kind: sSetHdr, key: fmt.Sprintf("%sK%d-%d", hdrPrefix, id, nhdr), vals: vals})
			nhdr++
		case sSleep:
			sc = append(sc, sleep())
		case sWriteHeader:
			sc = append(sc, step{kind: sWriteHeader, code: statusCodes[t.Intn(len(statusCodes))]})
		case sWaitDone:
			sc = append(sc, step{kind: sWaitDone})
			if cum < E {
				cum = E
			}
		default:
			sc = append(sc, step{kind: k})
		}
		if k == sPanic {
			break
		}
	}
	return sc
}

func scriptString(sc []step) string {
	var parts []string
	for _, s := range sc {
		parts = append(parts, s.String())
	}
	return strings.Join(parts, " ")
}

// run executes the script.  ctx is nil for work that gets no context (fx), rw is
// nil for work without a ResponseWriter.
func (k *work) run(ctx context.Context, rw http.ResponseWriter) {
	w, r := k.w, k.w.r
	k.started, k.tStart = true, time.Now()
	if ctx != nil {
		k.hasCtx = true
		k.dlSeen, k.dlOK = ctx.Deadline()
	}
	r.Ev("work-start", int64(k.id))
	for _, s := range k.script {
		switch s.kind {
		case sWrite:
			_, err := rw.Write([]byte(s.chunk))
			k.acts = append(k.acts, act{kind: sWrite, chunk: s.chunk, err: err})
			if err != nil {
				k.wErrs++
				r.Probe("work-write-rejected")
			}
			if r.Tracing() {
				r.Logf("#%d work %d Write(%q) -> %v", w.tick(), k.id, s.chunk, err)
			}
		case sSetHdr:
			rw.Header()[s.key] = append([]string(nil), s.vals...)
			k.acts = append(k.acts, act{kind: sSetHdr, key: s.key, vals: s.vals})
			if r.Tracing() {
				r.Logf("#%d work %d Header[%s]=%v", w.tick(), k.id, s.key, s.vals)
			}
		case sWriteHeader:
			rw.WriteHeader(s.code)
			k.acts = append(k.acts, act{kind: sWriteHeader, code: s.code})
			if r.Tracing() {
				r.Logf("#%d work %d WriteHeader(%d)", w.tick(), k.id, s.code)
			}
		case sSleep:
			r.Sleep(s.d)
		case sAbortIfDone:
			if ctx.Err() != nil {
				r.Probe("work-observed-ctx-and-aborted")
				k.aborted = true
				k.finished, k.tFin = true, time.Now()
				r.Ev("work-abort", int64(k.id))
				return
			}
		case sWaitDone:
			simrt.Recv("work.ctx.Done", ctx.Done())
			r.Probe("work-waited-for-ctx-done")
		case sGate:
			k.atGate = true
			w.gateUsed = true
			simrt.Recv("work.gate", w.gate)
		case sPanic:
			k.panicked, k.tFin = true, time.Now()
			k.panicVal = fmt.Sprintf("boom-of-work-%d", k.id)
			r.Ev("work-panic", int64(k.id))
			panic(k.panicVal)
		case sYield:
			r.Yield()
		}
	}
	k.finished, k.tFin = true, time.Now()
	r.Ev("work-end", int64(k.id))
}

// panicMatches reports whether a value recovered from the wrapper is this work's panic
// (the wrappers either re-raise the value itself or a string that embeds it).
func (k *work) panicMatches(p any) bool {
	if !k.panicked {
		return false
	}
	if s, ok := p.(string); ok {
		return strings.Contains(s, k.panicVal)
	}
	return false
}
