package c04

import (
	"bytes"
	"context"
	"errors"
	"fmt"
	"io"
	"net/http"
	"strings"
	"time"

	"verifsim/simrt"
)

// step kinds of a work script
const (
	sWrite = iota
	sSetHdr
	sSleep
	sWriteHeader
	sAbortIfDone // observe the context: if it has ended, stop (return early)
	sWaitDone    // observe the context: block until it ends, then go on
	sGate        // ignore the context: block until the run's main task lets go (after the wrappers returned)
	sPanic
	sYield
	sCopy // write body bytes through io.Copy & co. from a scripted source reader
	sCtl  // a call on http.NewResponseController(rw)
)

var kindName = [...]string{"write", "sethdr", "sleep", "writeheader", "abort-if-done", "wait-done", "gate", "panic", "yield", "copy", "ctl"}

type step struct {
	kind  int
	key   string
	vals  []string
	code  int
	chunk chunk
	d     time.Duration
	via   int      // sWrite: 0 rw.Write(p), 1 io.WriteString(rw, s)
	src   *srcPlan // sCopy
	ctl   int      // sCtl: which ResponseController method
}

// ways of an sCopy step to move the source's bytes into the ResponseWriter
const (
	cpCopy     = iota // io.Copy(rw, src)
	cpCopyN           // io.CopyN(rw, src, limit)
	cpReadFrom        // rw.(io.ReaderFrom).ReadFrom(src) when the writer offers it, io.Copy otherwise
	cpBuffer          // io.CopyBuffer(rw, src, buf) with a buffer of bufSize bytes
	cpWriterTo        // io.Copy(rw, bytes.NewReader(...)): the source offers io.WriterTo, one Write of everything
	cpModes
)

var cpName = [...]string{"io.Copy", "io.CopyN", "ReadFrom", "io.CopyBuffer", "io.Copy<-bytes.Reader"}

var ctlName = [...]string{"Flush", "SetWriteDeadline", "SetReadDeadline", "EnableFullDuplex"}

// srcPiece is one delivery of a source reader: before its n bytes become readable the
// reader pauses (virtual time) or stalls until the run's main task releases the gate.
type srcPiece struct {
	n     int
	pause time.Duration
	stall bool
}

// srcPlan describes the source of one sCopy step: pattern[off:off+total] delivered in pieces,
// then io.EOF (or errSrc).  A piece of 0 bytes is a pause (or stall) before the end.
type srcPlan struct {
	mode    int
	off     int
	total   int
	pieces  []srcPiece
	endErr  bool  // the source ends with errSrc instead of io.EOF
	limit   int64 // cpCopyN
	bufSize int   // cpBuffer
}

var errSrc = errors.New("source-reader-broke")

func (p *srcPlan) String() string {
	var b strings.Builder
	fmt.Fprintf(&b, "%s(pattern[%d:+%d]", cpName[p.mode], p.off, p.total)
	switch p.mode {
	case cpCopyN:
		fmt.Fprintf(&b, " limit=%d", p.limit)
	case cpBuffer:
		fmt.Fprintf(&b, " buf=%d", p.bufSize)
	}
	if p.mode != cpWriterTo {
		b.WriteString(" pieces:")
		for _, pc := range p.pieces {
			switch {
			case pc.stall:
				fmt.Fprintf(&b, " stall>%d", pc.n)
			case pc.pause > 0:
				fmt.Fprintf(&b, " %v>%d", pc.pause, pc.n)
			default:
				fmt.Fprintf(&b, " %d", pc.n)
			}
		}
		if p.endErr {
			b.WriteString(" then-error")
		}
	}
	return b.String() + ")"
}

// srcReader is the running source of one sCopy step.  It only offers Read, so io.Copy takes
// the destination's io.ReaderFrom when there is one and its own 32 KB loop otherwise.  Read
// runs on the task of the work (inside the copy), pauses are virtual time.
type srcReader struct {
	k       *work
	pl      *srcPlan
	i       int  // current piece
	entered bool // the current piece's pause is over
	rem     int  // bytes left in the current piece
	pos     int  // bytes delivered in all
}

func (s *srcReader) Read(p []byte) (int, error) {
	k := s.k
	w, r := k.w, k.w.r
	if len(p) == 0 {
		return 0, nil
	}
	for {
		if s.i >= len(s.pl.pieces) {
			if s.pl.endErr {
				r.Probe("copy-source-ended-with-error")
				return 0, errSrc
			}
			return 0, io.EOF
		}
		pc := s.pl.pieces[s.i]
		if !s.entered {
			s.entered, s.rem = true, pc.n
			switch {
			case pc.stall:
				k.atGate = true
				w.gateUsed = true
				w.nGated++
				r.Probe("copy-source-stalled-until-end-of-run")
				simrt.Recv("work.src.gate", w.gate)
			case pc.pause > 0:
				if now := time.Now(); k.dlOK && now.Before(k.dlSeen) && !now.Add(pc.pause).Before(k.dlSeen) {
					r.Probe("copy-source-pause-straddles-deadline")
				}
				r.Sleep(pc.pause)
			}
		}
		if s.rem == 0 {
			s.i, s.entered = s.i+1, false
			continue
		}
		n := min(len(p), s.rem)
		copy(p, pattern[s.pl.off+s.pos:s.pl.off+s.pos+n])
		s.pos += n
		s.rem -= n
		if s.rem == 0 {
			s.i, s.entered = s.i+1, false
		}
		return n, nil
	}
}

func (s step) String() string {
	switch s.kind {
	case sWrite:
		if s.via == 1 {
			return "writestring(" + s.chunk.String() + ")"
		}
		return "write(" + s.chunk.String() + ")"
	case sCopy:
		return s.src.String()
	case sCtl:
		return "ctl." + ctlName[s.ctl]
	case sSetHdr:
		return fmt.Sprintf("sethdr(%s=%s)", s.key, abbrevVals(s.vals))
	case sSleep:
		return "sleep(" + s.d.String() + ")"
	case sWriteHeader:
		return fmt.Sprintf("writeheader(%d)", s.code)
	}
	return kindName[s.kind]
}

// act is something the work actually did to its ResponseWriter.
type act struct {
	kind  int
	key   string
	vals  []string
	code  int
	chunk chunk
	err   error
}

// work is the wrapped handler / invoker / fn of one call.
type work struct {
	w      *world
	id     int
	script []step

	hasCtx   bool
	started  bool
	finished bool // the script ran to its end (or aborted on purpose) and the function returned normally
	aborted  bool
	panicked bool
	atGate   bool
	inCopy   bool // the work is inside an sCopy step right now
	copied   int  // body bytes accepted through sCopy steps
	tStart   time.Time
	tFin     time.Time
	dlSeen   time.Time
	dlOK     bool
	acts     []act
	panicVal string
	wErrs    int
}

const hdrPrefix = "X-Work-"

// workMark is contained in every non-empty piece of at least patRecord+1 bytes that a work
// writes into a body: literal chunks start with it, the pattern repeats it every patRecord bytes.
const workMark = "<w"

func chunkMarker(id, i int) string { return fmt.Sprintf("<w%d.c%d>", id, i) }

// Large bodies are slices of one read-only array that is generated once per process: a
// sequence of 16-byte records "<wRRRRRR:HHHHH>|" (R: record number, H: a hash of it), so the
// content depends on the position, every window of 17 bytes contains workMark, and no big
// strings are ever built.  A work takes its pattern chunks from consecutive positions that
// start at an offset of its own (patBase), so chunks that are swapped, repeated, cut or that
// come from another call change the checksum of the body.
const (
	patRecord = 16
	patStride = 257 * patRecord
	maxBody   = 8 << 20 // pattern bytes per script
	maxChunks = 512     // Write calls per script
)

var pattern = makePattern(maxBody + 8*patStride)

func makePattern(n int) []byte {
	const hexd = "0123456789abcdef"
	b := make([]byte, 0, n+patRecord)
	for r := uint32(0); len(b) < n; r++ {
		h := (r * 2654435761) >> 12
		b = append(b, '<', 'w',
			hexd[r>>20&15], hexd[r>>16&15], hexd[r>>12&15], hexd[r>>8&15], hexd[r>>4&15], hexd[r&15], ':',
			hexd[h>>16&15], hexd[h>>12&15], hexd[h>>8&15], hexd[h>>4&15], hexd[h&15], '>', '|')
	}
	return b[:n:n]
}

func patBase(id int) int { return (id % 8) * patStride }

// chunk is the payload of one Write: a short literal or the slice pattern[off:off+n].
type chunk struct {
	lit    string
	pat    bool
	off, n int
}

func (c chunk) size() int {
	if c.pat {
		return c.n
	}
	return len(c.lit)
}

// bytes is what the work hands to Write; pattern chunks alias the shared array (with the
// capacity cut, so that an append of the callee cannot reach into it).
func (c chunk) bytes() []byte {
	if c.pat {
		return pattern[c.off : c.off+c.n : c.off+c.n]
	}
	return []byte(c.lit)
}

func (c chunk) String() string {
	if c.pat {
		return fmt.Sprintf("pattern[%d:+%d]", c.off, c.n)
	}
	return c.lit
}

func abbrev(s string) string {
	if len(s) <= 64 {
		return s
	}
	return fmt.Sprintf("%s...(%d bytes)", s[:24], len(s))
}

func abbrevVals(vals []string) string {
	parts := make([]string, len(vals))
	for i, v := range vals {
		parts[i] = abbrev(v)
	}
	return "[" + strings.Join(parts, " ") + "]"
}

// bodyPlan is the swarm-style choice of how one REST script writes its body.  The zero value
// is the plain one: a few short literal chunks, one header value per step.
type bodyPlan struct {
	kmax      int  // pattern chunks are at most 2^kmax+1 bytes; 0: no pattern chunks at all
	zero      bool // zero-length Write calls
	pow2      bool // chunk sizes 2^k-1, 2^k, 2^k+1 for k in [10, kmax]
	uniform   bool // chunk sizes anywhere in [1, 2^kmax]
	burst     int  // a write step is up to this many consecutive Write calls
	hdrBurst  int  // a header step sets up to this many keys
	longHdr   bool // header values of up to 8 KB
	moreSteps int
}

var kmaxTable = []int{12, 16, 20, 22}
var burstTable = []int{1, 4, 16, 400}

func genBodyPlan(t *simrt.Tape) bodyPlan {
	var p bodyPlan
	v := t.Intn(planDen)
	if v < planDen-len(kmaxTable) {
		return p
	}
	p.kmax = kmaxTable[v-(planDen-len(kmaxTable))]
	p.zero, p.pow2, p.uniform = t.Bool(), t.Bool(), t.Bool()
	p.burst = burstTable[t.Intn(len(burstTable))]
	if t.Bool() {
		p.hdrBurst, p.longHdr = t.Range(1, 64), t.Bool()
	}
	p.moreSteps = t.Range(0, 6)
	return p
}

// planDen: len(kmaxTable) of planDen REST scripts get a body plan other than the plain one.
const planDen = 16

type scriptOpts struct {
	rest      bool // may touch a ResponseWriter
	stuck     bool // a call of the history: a short prefix, then the work ignores the context until the end of the run
	gate      bool // may ignore the context forever (only where the wrapper must not wait for the work)
	observe   bool // may look at the context (there is one)
	waitDone  bool // may block until the context ends (only if it is certain to end)
	maxSteps  int
	effective time.Duration
}

var statusCodes = []int{201, 200, 204, 400, 404, 500, 503, 499, 302}

func genScript(t *simrt.Tape, id int, o scriptOpts) []step {
	var plan bodyPlan
	// fast: 0 the script only calls Write (as before), 1 steps that write through the optional
	// fast paths of the writer are mixed in, 2 they also replace half of the plain write steps
	fast := 0
	if o.rest && !o.stuck {
		plan = genBodyPlan(t)
		fast = t.Intn(3)
	}
	n := t.Range(0, o.maxSteps+plan.moreSteps)
	if o.stuck {
		n = t.Intn(4)
	}
	var sc []step
	var cum time.Duration
	nchunk, nhdr, patUsed := 0, 0, 0
	var cls []int // the size classes of the plan besides the short literal
	if plan.zero {
		cls = append(cls, 1)
	}
	if plan.pow2 {
		cls = append(cls, 2)
	}
	if plan.uniform {
		cls = append(cls, 3)
	}
	// the size of a pattern chunk drawn from the plan's classes; -1: none (a short literal)
	drawSize := func() int {
		size := -1
		if len(cls) > 0 {
			if v := t.Intn(1 + len(cls)); v > 0 {
				switch cls[v-1] {
				case 1:
					size = 0
				case 2:
					size = 1<<t.Range(10, plan.kmax) + [...]int{0, -1, 1}[t.Intn(3)]
				default:
					size = t.Range(1, 1<<plan.kmax)
				}
			}
		}
		if size > maxBody-patUsed {
			size = -1
		}
		return size
	}
	// one Write call of the script
	write := func() {
		if nchunk >= maxChunks {
			return
		}
		size := drawSize()
		via := 0
		if fast > 0 && t.Chance(1, 3) {
			via = 1
		}
		if size >= 0 {
			sc = append(sc, step{kind: sWrite, via: via, chunk: chunk{pat: true, off: patBase(id) + patUsed, n: size}})
			patUsed += size
		} else {
			c := chunkMarker(id, nchunk)
			if t.Chance(1, 4) {
				c += strings.Repeat("x", t.Range(1, 40))
			}
			sc = append(sc, step{kind: sWrite, via: via, chunk: chunk{lit: c}})
		}
		nchunk++
	}
	setHdr := func() {
		vals := []string{fmt.Sprintf("v%d-%d", id, nhdr)}
		if t.Chance(1, 4) {
			vals = append(vals, fmt.Sprintf("v%d-%d-b", id, nhdr))
		}
		if plan.longHdr && t.Chance(1, 4) {
			off := patBase(id) + t.Range(0, 1<<12)
			vals[0] += string(pattern[off : off+t.Range(1, 8<<10)])
		}
		sc = append(sc, step{kind: sSetHdr, key: fmt.Sprintf("%sK%d-%d", hdrPrefix, id, nhdr), vals: vals})
		nhdr++
	}
	E := o.effective
	sleep := func() step {
		var d time.Duration
		rem := E - cum
		switch t.Intn(7) {
		case 0:
			d = E / 10
		case 1:
			d = rem
		case 2:
			d = rem - 1
		case 3:
			d = rem + 1
		case 4:
			d = 2 * E
		case 5:
			d = time.Duration(t.Range(0, 2000)) * E / 1000
		default:
			d = E / 3
		}
		if d <= 0 {
			d = E / 10
		}
		cum += d
		return step{kind: sSleep, d: d}
	}
	// one sCopy step: a source of 1-4 pieces (sizes: 1-96 bytes or one of the plan's classes) with
	// pauses drawn like the sleeps (so that one of them can straddle the deadline), stalls until
	// the end of the run where the wrapper must not wait for the work, a pause before the end.
	// forceStall: the first piece stalls (the "never returns" part of a history call).
	copyStep := func(forceStall bool) {
		if nchunk >= maxChunks || maxBody-patUsed < 1<<10 {
			sc = append(sc, step{kind: sYield})
			return
		}
		pl := &srcPlan{mode: t.Intn(cpModes), off: patBase(id) + patUsed}
		if forceStall && pl.mode == cpWriterTo {
			pl.mode = cpCopy // a bytes.Reader cannot stall
		}
		for j, np := 0, t.Range(1, 4); j < np; j++ {
			size := drawSize()
			if size <= 0 {
				size = t.Range(1, 96)
			}
			if size > maxBody-patUsed-pl.total-64 {
				size = 1
			}
			pc := srcPiece{n: size}
			switch v := t.Intn(8); {
			case forceStall && j == 0:
				pc.stall = true
			case v < 4:
			case v < 7:
				pc.pause = sleep().d
			default:
				if o.gate {
					pc.stall = true
				}
			}
			pl.pieces = append(pl.pieces, pc)
			pl.total += size
		}
		if pl.total < 32 {
			// at least two pattern records, so that the bytes carry workMark
			pl.pieces[0].n += 32 - pl.total
			pl.total = 32
		}
		if t.Chance(1, 4) {
			pl.pieces = append(pl.pieces, srcPiece{pause: sleep().d})
		}
		pl.endErr = t.Chance(1, 8)
		switch pl.mode {
		case cpCopyN:
			pl.limit = int64([...]int{pl.total, pl.total - 1, pl.total + 1, pl.total / 2}[t.Intn(4)])
		case cpBuffer:
			pl.bufSize = [...]int{512, 16, 4096, 65536}[t.Intn(4)]
			for pl.total/pl.bufSize > 1024 {
				pl.bufSize *= 8
			}
		}
		patUsed += pl.total
		nchunk++
		sc = append(sc, step{kind: sCopy, src: pl})
	}
	for i := 0; i < n; i++ {
		var k int
		if o.rest {
			kinds := 18
			if fast > 0 {
				kinds = 22
			}
			switch v := t.Intn(kinds); {
			case v >= 21:
				k = sCtl
			case v >= 18:
				k = sCopy
			case v < 4 && fast == 2 && t.Bool():
				k = sCopy
			case v < 4:
				k = sWrite
			case v < 6:
				k = sSetHdr
			case v < 11:
				k = sSleep
			case v < 13:
				k = sWriteHeader
			case v == 13:
				k = sAbortIfDone
			case v == 14:
				k = sWaitDone
			case v == 15:
				k = sGate
			case v == 16:
				k = sPanic
			default:
				k = sYield
			}
		} else {
			switch v := t.Intn(10); {
			case v < 5:
				k = sSleep
			case v == 5:
				k = sAbortIfDone
			case v == 6:
				k = sWaitDone
			case v == 7:
				k = sGate
			case v == 8:
				k = sPanic
			default:
				k = sYield
			}
		}
		if (k == sGate && !o.gate) || (k == sWaitDone && !(o.waitDone && o.observe)) || (k == sAbortIfDone && !o.observe) {
			k = sSleep
		}
		if o.stuck && (k == sGate || k == sPanic || k == sAbortIfDone) {
			k = sYield // the prefix of a history call neither ends the work nor parks it: the gate comes last
		}
		switch k {
		case sWrite:
			write()
			if plan.burst > 1 {
				for m := t.Range(0, plan.burst-1); m > 0; m-- {
					write()
				}
			}
		case sSetHdr:
			setHdr()
			if plan.hdrBurst > 1 && nhdr < 256 {
				for m := t.Range(0, plan.hdrBurst-1); m > 0; m-- {
					setHdr()
				}
			}
		case sSleep:
			sc = append(sc, sleep())
		case sWriteHeader:
			sc = append(sc, step{kind: sWriteHeader, code: statusCodes[t.Intn(len(statusCodes))]})
		case sWaitDone:
			sc = append(sc, step{kind: sWaitDone})
			if cum < E {
				cum = E
			}
		case sCopy:
			copyStep(false)
		case sCtl:
			sc = append(sc, step{kind: sCtl, ctl: t.Intn(len(ctlName))})
		default:
			sc = append(sc, step{kind: k})
		}
		if k == sPanic {
			break
		}
	}
	if o.stuck {
		// the work ignores its context and is still running when the later calls are judged: it
		// parks at the gate (REST: or inside a copy whose source stalls) until the end of the run,
		// then REST work goes on writing to a writer whose response is long over
		if o.rest && t.Intn(3) == 2 {
			copyStep(true)
		} else {
			sc = append(sc, step{kind: sGate})
		}
		if o.rest && t.Bool() {
			write()
		}
	}
	return sc
}

func scriptString(sc []step) string {
	var parts []string
	for i, s := range sc {
		if i == 24 && len(sc) > 32 {
			writes, bytes := 0, 0
			for _, x := range sc[i:] {
				if x.kind == sWrite {
					writes++
					bytes += x.chunk.size()
				}
			}
			parts = append(parts, fmt.Sprintf("...+%d steps (%d writes of %d bytes in all) ...", len(sc)-i-4, writes, bytes))
			for _, x := range sc[len(sc)-4:] {
				parts = append(parts, x.String())
			}
			break
		}
		parts = append(parts, s.String())
	}
	return strings.Join(parts, " ")
}

// run executes the script.  ctx is nil for work that gets no context (fx), rw is
// nil for work without a ResponseWriter.
func (k *work) run(ctx context.Context, rw http.ResponseWriter) {
	w, r := k.w, k.w.r
	k.started, k.tStart = true, time.Now()
	if ctx != nil {
		k.hasCtx = true
		k.dlSeen, k.dlOK = ctx.Deadline()
	}
	r.Ev("work-start", int64(k.id))
	for _, s := range k.script {
		switch s.kind {
		case sWrite:
			var err error
			if s.via == 1 && s.chunk.size() <= 64<<10 {
				// io.WriteString takes the writer's io.StringWriter when it offers one
				if _, ok := rw.(io.StringWriter); ok {
					r.Probe("rest-writer-offers-io.StringWriter")
				}
				r.Probe("work-wrote-through-io.WriteString")
				_, err = io.WriteString(rw, string(s.chunk.bytes()))
			} else {
				_, err = rw.Write(s.chunk.bytes())
			}
			k.acts = append(k.acts, act{kind: sWrite, chunk: s.chunk, err: err})
			if err != nil {
				k.wErrs++
				r.Probe("work-write-rejected")
			}
			if r.Tracing() {
				r.Logf("#%d work %d Write(%s) -> %v", w.tick(), k.id, s.chunk, err)
			}
		case sCopy:
			k.copy(rw, s.src)
		case sCtl:
			rc := http.NewResponseController(rw)
			var err error
			switch s.ctl {
			case 0:
				err = rc.Flush() // the client connection of this harness is no http.Flusher: nothing can be streamed
			case 1:
				err = rc.SetWriteDeadline(time.Now().Add(time.Hour))
			case 2:
				err = rc.SetReadDeadline(time.Now().Add(time.Hour))
			default:
				err = rc.EnableFullDuplex()
			}
			r.Probe("work-called-response-controller")
			if r.Tracing() {
				r.Logf("#%d work %d ResponseController.%s -> %v", w.tick(), k.id, ctlName[s.ctl], err)
			}
		case sSetHdr:
			rw.Header()[s.key] = append([]string(nil), s.vals...)
			k.acts = append(k.acts, act{kind: sSetHdr, key: s.key, vals: s.vals})
			if r.Tracing() {
				r.Logf("#%d work %d Header[%s]=%s", w.tick(), k.id, s.key, abbrevVals(s.vals))
			}
		case sWriteHeader:
			rw.WriteHeader(s.code)
			k.acts = append(k.acts, act{kind: sWriteHeader, code: s.code})
			if r.Tracing() {
				r.Logf("#%d work %d WriteHeader(%d)", w.tick(), k.id, s.code)
			}
		case sSleep:
			r.Sleep(s.d)
		case sAbortIfDone:
			if ctx.Err() != nil {
				r.Probe("work-observed-ctx-and-aborted")
				k.aborted = true
				k.finished, k.tFin = true, time.Now()
				r.Ev("work-abort", int64(k.id))
				return
			}
		case sWaitDone:
			simrt.Recv("work.ctx.Done", ctx.Done())
			r.Probe("work-waited-for-ctx-done")
		case sGate:
			k.atGate = true
			w.gateUsed = true
			w.nGated++
			simrt.Recv("work.gate", w.gate)
		case sPanic:
			k.panicked, k.tFin = true, time.Now()
			k.panicVal = fmt.Sprintf("boom-of-work-%d", k.id)
			r.Ev("work-panic", int64(k.id))
			panic(k.panicVal)
		case sYield:
			r.Yield()
		}
	}
	k.finished, k.tFin = true, time.Now()
	r.Ev("work-end", int64(k.id))
}

// copy is one sCopy step: the bytes of a fresh source go into rw the way the plan says.  The
// bytes that count as written are those the copy function acknowledged; when the copy ended
// without a writer error (nil, or the source's own end: io.EOF for CopyN, errSrc) these are by
// the contract of io.Writer / io.ReaderFrom all the bytes the source delivered.
func (k *work) copy(rw http.ResponseWriter, pl *srcPlan) {
	w, r := k.w, k.w.r
	src := &srcReader{k: k, pl: pl}
	var nw int64
	var err error
	k.inCopy = true
	r.Probe("work-copied-from-source-reader")
	switch pl.mode {
	case cpCopy:
		nw, err = io.Copy(rw, src)
	case cpCopyN:
		nw, err = io.CopyN(rw, src, pl.limit)
	case cpReadFrom:
		if rf, ok := rw.(io.ReaderFrom); ok {
			r.Probe("rest-writer-offers-io.ReaderFrom")
			nw, err = rf.ReadFrom(src)
		} else {
			nw, err = io.Copy(rw, src)
		}
	case cpBuffer:
		nw, err = io.CopyBuffer(rw, src, make([]byte, pl.bufSize))
	default:
		nw, err = io.Copy(rw, bytes.NewReader(pattern[pl.off:pl.off+pl.total:pl.off+pl.total]))
		if err == nil {
			src.pos = pl.total
		}
	}
	k.inCopy = false
	n := int(nw)
	if err == nil || err == errSrc || (err == io.EOF && pl.mode == cpCopyN) {
		n, err = src.pos, nil
		k.copied += n
	} else {
		k.wErrs++
		r.Probe("work-write-rejected")
		r.Probe("work-copy-rejected")
	}
	k.acts = append(k.acts, act{kind: sWrite, chunk: chunk{pat: true, off: pl.off, n: n}, err: err})
	if r.Tracing() {
		r.Logf("#%d work %d %s -> written %d, source delivered %d, %v", w.tick(), k.id, pl, nw, src.pos, err)
	}
}

// panicMatches reports whether a value recovered from the wrapper is this work's panic
// (the wrappers either re-raise the value itself or a string that embeds it).
func (k *work) panicMatches(p any) bool {
	if !k.panicked {
		return false
	}
	if s, ok := p.(string); ok {
		return strings.Contains(s, k.panicVal)
	}
	return false
}
