package c16

import (
	"fmt"
	"sort"
	"strings"
	"time"
)

// Sequential reference model of collection.Cache, written from the property text:
//
//   - Get returns the latest value set for the key unless it was deleted, has
//     expired or was evicted;
//   - the cache never holds more than `limit` entries and evicts the least
//     recently used one (Get hit, Set and Take all count as use);
//   - Take calls the loader only on a miss.
//
// Expiry is the only nondeterministic part: the statement merely *permits* an
// entry to disappear once it "has expired".  The model therefore keeps an entry
// for sure while its age is below guaranteedLife(expire), lets it disappear (or
// stay) afterwards, and - where the instant is observable, see upperLife - requires
// it to be gone after upperLife(expire).  The tolerance (10 % + 3 s) is a harness choice
// that is deliberately looser than the documented jitter of the cache
// ("[0.95, 1.05] * seconds") plus the one second granularity of its timers.
func guaranteedLife(expire time.Duration) time.Duration {
	l := expire - expire/10 - 3*time.Second
	if l < 0 {
		l = 0
	}
	return l
}

// upperLife is the other side of "has expired": NewCache documents the expiry
// of an entry as its expire value with a jitter of [0.95, 1.05] and its timers
// tick once a second, so an entry whose age (since the return of the call that
// stored it last) exceeds 1.05 x expire + 3 s must be gone.  Only asserted where
// the instant is observable: in single-client histories at every operation, in
// concurrent ones after the clients are done and an idle period (cache_test.go).
func upperLife(expire time.Duration) time.Duration {
	return expire + expire/20 + 3*time.Second
}

const (
	cGet      = iota // Get / Take hit: output (val, ok)
	cSet             // Set / SetWithExpire / the store half of a Take that loaded
	cDel             // Del
	cLen             // number of entries held (seam accessor)
	cMaybeGet        // a Take that may have been a hit or may have shared another Take's result
)

var cKindName = [...]string{"Get", "Set", "Del", "Len", "TakeShared"}

type cIn struct {
	kind       int
	key, val   int
	expire     time.Duration // of a Set
	tCall      time.Duration // virtual instants of invocation and return
	tRet       time.Duration
	fromLoader bool   // cGet miss that stands for "Take called its loader"
	raceSet    bool   // cDel whose call interval overlaps a Set of the same key by another client
	raceKeys   uint32 // cSet: keys (bit key%32) of which another client's Set overlaps this call (it may evict them mid-Set)
	// cSet issued while the timer of an earlier store of the same key may have been firing
	// (markMayLoseTimer): the expiry task of that earlier entry may remove this store's timer
	mayLoseTimer bool
}

type cOut struct {
	val int
	ok  bool
	n   int
}

type cEntry struct {
	key, val int
	setAt    time.Duration // earliest instant the entry's timer can have started
	life     time.Duration // guaranteed life from setAt
	dead     time.Duration // latest instant the entry may still be there (return of the store + upperLife)
	racy     bool          // relaxed model only: an older timer of the same key may still delete it
}

// cState is immutable: entries, most recently used first.
type cState struct {
	ents []cEntry
	// relaxed model only: keys (bit set) whose entry was deleted by Del when its timer
	// may already have fired, so that the asynchronous expiry task of the deleted entry
	// may still be in flight and delete whatever is stored under the key next
	ghost uint32
}

func (s cState) String() string {
	var b strings.Builder
	b.WriteString("[")
	for i, e := range s.ents {
		if i > 0 {
			b.WriteString(" ")
		}
		fmt.Fprintf(&b, "k%d=%d@%v", e.key, e.val, e.setAt)
		if e.racy {
			b.WriteString("!")
		}
	}
	b.WriteString("]")
	return b.String()
}

func cEqual(a, b cState) bool {
	if len(a.ents) != len(b.ents) || a.ghost != b.ghost {
		return false
	}
	for i := range a.ents {
		if a.ents[i] != b.ents[i] {
			return false
		}
	}
	return true
}

func (s cState) find(key int) int {
	for i, e := range s.ents {
		if e.key == key {
			return i
		}
	}
	return -1
}

// cacheModel carries the configuration of the modelled cache.
type cacheModel struct {
	limit int // 0: unlimited
	// relaxed > 0 also accepts histories explained by the cache's asynchronous expiry task deleting
	// by key whatever is stored by then (known findings; each level names one history class):
	//  1: a Set over an entry whose timer was due is deleted by that timer
	//  2: + an entry deleted by Del (or evicted) when its timer was due leaves an expiry task in
	//       flight that deletes the next value stored under the key
	//  3: + a Del overlapping a Set of the same key (another client) leaves the Set's timer behind
	//       (orphan), which later deletes the next value stored under the key
	//  4: + an entry that was itself exposed to an older expiry task (racy, level 1) and has
	//       disappeared may leave a SECOND expiry task of the same key in flight (its own), which
	//       deletes the next value stored under the key: needs two expiry tasks in flight at once,
	//       e.g. two SetWithExpire on an existing key with (jittered) expiries below the wheel's
	//       1 s tick, each of which makes TimingWheel.moveTask run the expiry at once and
	//       asynchronously (delay < interval => GoSafe(execute))
	//  5: + an LRU eviction caused by a store that overlaps another client's Set of the evicted key
	//       (data stored under the lock, SetTimer sent afterwards) removes the data and sends
	//       RemoveTimer before that Set's SetTimer arrives: the same orphan timer as level 3
	relaxed int
	// upper: an operation invoked after an entry's latest possible expiry (cEntry.dead) must not
	// find it any more (single-client histories only; class cache-entry-outlives-expiry)
	upper bool
	// upperRelaxed (with upper): also accepts that an entry never expires when it was stored while the
	// timer of an earlier store of its key may have been firing (cIn.mayLoseTimer), or over such an
	// entry: the expiry task deletes the data and removes "the key's timer" in two steps, and a store
	// in between has its fresh timer removed (class neverExpiresAfterExpiry); only to NAME a history
	upperRelaxed bool
	// anyVictim / early (cacheRecency, only to NAME a history that the strict model refuses; never with
	// relaxed or upper): anyVictim: an insertion that exceeds the limit evicts SOME entry, not
	// necessarily the least recently used one; early: additionally every use that touches the recency
	// order (insertion, re-set, hit) may evict one more entry although the limit is not exceeded
	anyVictim bool
	early     bool
	steps     int // number of step evaluations (budget of the linearizability search)
}

const immortal = time.Duration(1<<63 - 1)

const (
	outlivesClass           = "cache-entry-outlives-expiry"
	neverExpiresAfterExpiry = "cache-entry-never-expires-timer-removed-by-expiry-of-previous-entry"
	neverExpiresAfterDel    = "cache-entry-never-expires-timer-removed-by-del-racing-set"
)

// markMayLoseTimer flags every store issued while an earlier store of the same key was in the
// window in which its timer may fire (from the end of its guaranteed life to its latest expiry).
func markMayLoseTimer(ops []cOp) {
	for i := range ops {
		s2 := &ops[i]
		if s2.in.kind != cSet {
			continue
		}
		for _, s1 := range ops {
			if s1.in.kind != cSet || s1.in.key != s2.in.key || s1.call >= s2.call {
				continue
			}
			if s2.in.tRet >= s1.in.tCall+guaranteedLife(s1.in.expire) && s2.in.tCall <= s1.in.tRet+upperLife(s1.in.expire) {
				s2.in.mayLoseTimer = true
			}
		}
	}
}

// useVariants: the states after a use that left the entries ents (most recently used first) behind.
// Strict model: ents cut to the limit.  Naming variants: see cacheModel.anyVictim / early.
func (m *cacheModel) useVariants(ents []cEntry, ghost uint32) []cState {
	var bases [][]cEntry
	switch {
	case m.limit <= 0 || len(ents) <= m.limit:
		bases = [][]cEntry{ents}
	case !m.anyVictim && !m.early:
		bases = [][]cEntry{ents[:m.limit]}
	default:
		for len(ents) > m.limit+1 {
			ents = ents[:len(ents)-1]
		}
		for j := range ents {
			bases = append(bases, without(ents, j))
		}
	}
	var res []cState
	for _, b := range bases {
		res = append(res, cState{ents: b, ghost: ghost})
		if m.early {
			for j := range b {
				res = append(res, cState{ents: without(b, j), ghost: ghost})
			}
		}
	}
	return res
}

func without(ents []cEntry, drop int) []cEntry {
	out := make([]cEntry, 0, len(ents))
	for i, e := range ents {
		if i != drop {
			out = append(out, e)
		}
	}
	return out
}

// step returns every state the cache may be in after the operation, given that
// it produced the observed output; empty when the output is impossible.
func (m *cacheModel) step(st cState, in cIn, out cOut) []cState {
	m.steps++
	if m.upper {
		// entries that must have expired before this operation was invoked
		var kept []cEntry
		for _, e := range st.ents {
			if in.tCall <= e.dead {
				kept = append(kept, e)
			}
		}
		if len(kept) != len(st.ents) {
			st = cState{ents: kept, ghost: st.ghost}
		}
	}
	// entries that may have expired by the time this operation took effect
	var elig []int
	for i, e := range st.ents {
		if in.tRet-e.setAt >= e.life || (m.relaxed >= 1 && e.racy) {
			elig = append(elig, i)
		}
	}
	var res []cState
	for mask := 0; mask < 1<<len(elig); mask++ {
		ents := st.ents
		st := st // the ghost set of this branch (level 4 adds the keys of dropped racy entries)
		if mask != 0 {
			ents = make([]cEntry, 0, len(st.ents))
			for i, e := range st.ents {
				dropped := false
				for b, idx := range elig {
					if idx == i && mask&(1<<b) != 0 {
						dropped = true
					}
				}
				if !dropped {
					ents = append(ents, e)
				} else if m.relaxed >= 4 && e.racy {
					st.ghost |= uint32(1) << uint(e.key%32)
				}
			}
		}
		cur := cState{ents: ents, ghost: st.ghost}
		idx := cur.find(in.key)
		gbit := uint32(1) << uint(in.key%32)
		switch in.kind {
		case cGet:
			if out.ok {
				if idx < 0 || ents[idx].val != out.val {
					continue
				}
				res = append(res, m.useVariants(append([]cEntry{ents[idx]}, without(ents, idx)...), st.ghost)...)
			} else {
				if idx >= 0 {
					continue
				}
				res = append(res, cur)
			}
		case cMaybeGet:
			res = append(res, cur) // shared another Take's result without touching the cache
			if idx >= 0 && ents[idx].val == out.val {
				res = append(res, m.useVariants(append([]cEntry{ents[idx]}, without(ents, idx)...), st.ghost)...)
			}
		case cSet:
			ne := cEntry{key: in.key, val: in.val, setAt: in.tCall, life: guaranteedLife(in.expire), dead: in.tRet + upperLife(in.expire)}
			if m.upperRelaxed && (in.mayLoseTimer || (idx >= 0 && ents[idx].dead == immortal)) {
				ne.dead = immortal
			}
			if idx >= 0 {
				old := ents[idx]
				if m.relaxed >= 1 && (old.racy || in.tRet-old.setAt >= old.life) {
					ne.racy = true
				}
				res = append(res, m.useVariants(append([]cEntry{ne}, without(ents, idx)...), st.ghost&^gbit)...)
			} else {
				if m.relaxed >= 2 && st.ghost&gbit != 0 {
					ne.racy = true
				}
				n := append([]cEntry{ne}, ents...)
				g := st.ghost &^ gbit
				if m.limit > 0 && len(n) > m.limit {
					for _, ev := range n[m.limit:] {
						// evicted when its timer may already have fired: same in-flight expiry task
						if m.relaxed >= 2 && (ev.racy || in.tRet-ev.setAt >= ev.life) {
							g |= uint32(1) << uint(ev.key%32)
						}
						if m.relaxed >= 5 && in.raceKeys&(uint32(1)<<uint(ev.key%32)) != 0 {
							g |= uint32(1) << uint(ev.key%32)
						}
					}
					if m.anyVictim || m.early {
						res = append(res, m.useVariants(n, g)...)
						continue
					}
					n = n[:m.limit]
				}
				res = append(res, m.useVariants(n, g)...)
			}
		case cDel:
			if idx >= 0 {
				g := st.ghost
				if old := ents[idx]; (m.relaxed >= 2 && (old.racy || in.tRet-old.setAt >= old.life)) || (m.relaxed >= 3 && in.raceSet) {
					g |= gbit
				}
				res = append(res, cState{ents: without(ents, idx), ghost: g})
			} else {
				res = append(res, cur)
			}
		case cLen:
			if len(ents) != out.n {
				continue
			}
			res = append(res, cur)
		}
	}
	return res
}

func dedupe(states []cState) []cState {
	var out []cState
	for _, s := range states {
		dup := false
		for _, o := range out {
			if cEqual(s, o) {
				dup = true
				break
			}
		}
		if !dup {
			out = append(out, s)
		}
	}
	return out
}

// cOp is one operation of a cache history.
type cOp struct {
	client    int
	in        cIn
	out       cOut
	call, ret int64 // logical clock
}

func (o cOp) String() string {
	switch o.in.kind {
	case cGet:
		if o.in.fromLoader {
			return fmt.Sprintf("Take(k%d) called its loader (lookup missed)", o.in.key)
		}
		if o.out.ok {
			return fmt.Sprintf("Get(k%d) = %d", o.in.key, o.out.val)
		}
		return fmt.Sprintf("Get(k%d) = miss", o.in.key)
	case cSet:
		return fmt.Sprintf("Set(k%d, %d, expire %v)", o.in.key, o.in.val, o.in.expire)
	case cDel:
		return fmt.Sprintf("Del(k%d)", o.in.key)
	case cLen:
		return fmt.Sprintf("Len() = %d", o.out.n)
	default:
		return fmt.Sprintf("Take(k%d) = %d without own load", o.in.key, o.out.val)
	}
}

// checkSequential replays a single-client history on the set of possible model
// states.  It returns -1 if every output is possible, else the index of the
// first operation whose output no state allows, plus the states before it.
func (m *cacheModel) checkSequential(ops []cOp) (int, []cState) {
	states := []cState{{}}
	for i, o := range ops {
		var next []cState
		for _, s := range states {
			next = append(next, m.step(s, o.in, o.out)...)
		}
		next = dedupe(next)
		if len(next) == 0 {
			return i, states
		}
		states = next
	}
	return -1, states
}

// classifySequential names the clause violated by ops[i] given the states before it.
func classifySequential(limit int, ops []cOp, i int, before []cState) (string, string) {
	o := ops[i]
	present, absent := 0, 0
	for _, s := range before {
		if s.find(o.in.key) >= 0 {
			present++
		} else {
			absent++
		}
	}
	// the latest operation on that key before i
	lastKind, lastIdx := -1, -1
	for j := i - 1; j >= 0; j-- {
		if ops[j].in.key == o.in.key && (ops[j].in.kind == cSet || ops[j].in.kind == cDel) {
			lastKind, lastIdx = ops[j].in.kind, j
			break
		}
	}
	desc := fmt.Sprintf("operation #%d %v at %v is impossible; model states before it: %v", i, o, o.in.tRet, before)
	switch o.in.kind {
	case cLen:
		if limit > 0 && o.out.n > limit {
			return "cache-over-limit", desc
		}
		return "cache-size-mismatch", desc
	case cGet:
		if !o.out.ok {
			cls := "cache-lost-value"
			if o.in.fromLoader {
				cls = "cache-take-loader-on-hit"
			}
			if lastKind == cSet {
				// was that Set a re-set of an entry that was still there?
				over := false
				for j := lastIdx - 1; j >= 0; j-- {
					if ops[j].in.key == o.in.key && ops[j].in.kind == cDel {
						break
					}
					if ops[j].in.key == o.in.key && ops[j].in.kind == cSet {
						over = true
						break
					}
				}
				if over && !o.in.fromLoader {
					cls = "cache-lost-value-after-reset"
				}
				desc += fmt.Sprintf("; the value was set by #%d %v at %v, guaranteed life %v, age now %v", lastIdx, ops[lastIdx], ops[lastIdx].in.tCall,
					guaranteedLife(ops[lastIdx].in.expire), o.in.tRet-ops[lastIdx].in.tCall)
			}
			return cls, desc
		}
		if present == 0 {
			if lastKind == cDel {
				return "cache-deleted-value-visible", desc
			}
			if lastKind == cSet {
				return "cache-lru-evicted-key-visible", desc
			}
			return "cache-value-from-nowhere", desc
		}
		return "cache-stale-value", desc
	}
	return "cache-model-mismatch", desc
}

func describeOps(ops []cOp) string {
	idx := make([]int, len(ops))
	for i := range idx {
		idx[i] = i
	}
	sort.Slice(idx, func(a, b int) bool { return ops[idx[a]].call < ops[idx[b]].call })
	var b strings.Builder
	for _, i := range idx {
		o := ops[i]
		fmt.Fprintf(&b, "\n  c%d [%d,%d] t=[%v,%v] %v", o.client, o.call, o.ret, o.in.tCall, o.in.tRet, o)
	}
	return b.String()
}
