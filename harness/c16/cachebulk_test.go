package c16

import (
	"time"

	"verifsim/simrt"
)

// cacheBulk: one client, MANY keys and limits well beyond the handful of the other cache
// workloads (the limit clause is quantified over every limit), expiries so long that nothing can
// expire while the operations run (the model is then deterministic: exactly one state), then -
// when the timers are observable - an idle period past the latest possible expiry of everything,
// after which the cache must be empty (hundreds of timers spread over the wheel's slots and
// circles).
var bulkLimits = []int{0, 5, 8, 16, 33, 50, 100}

func cacheBulk(r *simrt.Run, tier string) {
	t := r.Tape
	limit := bulkLimits[t.Intn(len(bulkLimits))]
	var nKeys int
	if limit > 0 {
		nKeys = limit + t.Range(1, limit)
	} else {
		nKeys = t.Range(6, 80)
	}
	expire := []time.Duration{300 * time.Second, 400 * time.Second, 1000 * time.Second}[t.Intn(3)]
	maxOps := 150
	if tier == "thorough" {
		maxOps = 400
	}
	nOps := t.Range(nKeys, 3*nKeys)
	if nOps > maxOps {
		nOps = maxOps
	}
	sh := newCacheShared(t)
	w := newCacheWorld(r, sh, limit, expire)
	if w == nil {
		return
	}
	w.nKeys = nKeys
	start := r.Elapsed()
	fill := 0 // keys 0..fill-1 were stored at least once
	for i := 0; i < nOps; i++ {
		if r.Elapsed()-start > guaranteedLife(expire)/2 {
			break // stalls carried the clock towards the expiry window: stop before anything may expire
		}
		if t.Chance(1, 8) {
			r.Sleep(time.Duration(t.Range(1, 20)) * time.Millisecond)
		}
		pick := func() int {
			if fill == 0 {
				return 0
			}
			// recent keys more often than old ones: hits near the eviction frontier
			if t.Bool() {
				lo := fill - limit - 2
				if limit == 0 || lo < 0 {
					lo = 0
				}
				return t.Range(lo, fill-1)
			}
			return t.Intn(fill)
		}
		switch v := t.Intn(20); {
		case v < 8:
			k := fill
			if k >= nKeys {
				k = t.Intn(nKeys)
			} else {
				fill++
			}
			w.set(0, k, 0)
		case v < 12:
			w.get(0, pick())
		case v < 14:
			w.set(0, pick(), 0)
		case v < 16:
			w.del(0, pick())
		case v < 19:
			k := pick()
			if t.Bool() && fill < nKeys {
				k = fill
				fill++
			}
			w.take(0, k, loadSpec{})
		default:
			w.length(0)
		}
	}
	w.length(0)
	// which of the keys answer (most recent first would disturb nothing: a hit counts as use and the
	// model follows it)
	sweep := t.Intn(3) // 0 every key ascending, 1 every key descending, 2 a sample
	for i := 0; i < fill; i++ {
		k := i
		if sweep == 1 {
			k = fill - 1 - i
		}
		if sweep == 2 && i%3 != 0 {
			continue
		}
		w.get(0, k)
	}
	w.length(0)
	if limit > 0 && fill > limit {
		r.Probe("cache-bulk-more-keys-than-limit")
	}
	if limit >= 16 || (limit == 0 && fill >= 16) {
		r.Probe("cache-bulk-16-or-more-entries")
	}
	idle := t.Bool() && timingObservable(r) && r.Elapsed()-start <= guaranteedLife(expire)/2
	idleAt := r.Elapsed()
	if idle {
		r.Sleep(upperLife(expire) + time.Second + time.Duration(t.Range(0, 3000))*time.Millisecond)
		r.Quiesce()
		w.length(0)
		for i := 0; i < fill; i += 1 + fill/8 {
			w.get(0, i)
		}
		r.Probe("cache-bulk-idle-past-expiry")
	}
	r.Sample(map[string]any{"component": "Cache(single client, many keys)", "limit": limit, "keys": nKeys, "stored_keys": fill, "expire": expire.String(), "ops": nOps,
		"idle_past_expiry": idle, "key_spelling": sh.keyMode, "payload_types": sh.payload, "no_limit_spelling": sh.zeroLimit})
	ops, ok := w.history(false)
	if !ok {
		return
	}
	r.Probe("oracle")
	r.Probe("nontrivial")
	m := &cacheModel{limit: limit, upper: idle}
	i, before := m.checkSequential(ops)
	if i < 0 {
		return
	}
	o := ops[i]
	if idle && o.in.tCall > idleAt && (o.out.ok || o.out.n > 0) {
		r.Fail(outlivesClass, "single client, limit=%d expire=%v, %d keys: the cache was left alone for more than 1.05 x expire + 3 s after the last store and operation #%d %v (at %v) still finds entries; last operations:%s",
			limit, expire, fill, i, o, o.in.tCall, describeOps(ops[max(0, i-12):i+1]))
		return
	}
	cls, desc := classifySequential(limit, ops, i, trimStates(before))
	r.Fail(cls, "single client, limit=%d expire=%v, %d keys: %s\nlast operations:%s", limit, expire, fill, desc, describeOps(ops[max(0, i-30):i+1]))
}

func trimStates(s []cState) []cState {
	if len(s) > 3 {
		s = s[:3]
	}
	return s
}
