package c16

import (
	"fmt"
	"math"
	"sort"
	"strconv"
	"strings"
	"testing"
	"time"

	"github.com/zeromicro/go-zero/core/collection"
	"github.com/zeromicro/go-zero/core/logx"

	"verifsim/simharness"
	"verifsim/simrt"
)

// C16: in-memory collections behave as their sequential reference models.
//
//   rollingWindow      RollingWindow vs WindowModel (rwmodel.go), single client, boundary instants
//   cacheSequential    Cache (+ its timing wheel on the virtual clock) vs the nondeterministic cache model
//   cacheConcurrent    2-4 clients on one Cache, history decided by porcupine
//   cacheRecency       limited Cache, far from any expiry: pre-fill, concurrent phase, sequential re-fill and sweep; exact LRU
//   cacheMulti         2-3 Caches in one process, same keys, clients across them; one history and model per cache
//   safeMapConcurrent  / queueConcurrent / ringConcurrent: porcupine
//   safeMapLong        >10000 deletions across SafeMap's generation switch, direct map model
//   queueSequential / ringSequential / setSequential: direct slice models

func init() { logx.Disable() }

func body(r *simrt.Run, tier string) {
	switch r.Tape.Intn(18) {
	case 16, 17:
		cacheRecency(r, tier)
	case 0, 8:
		rollingWindow(r, tier)
	case 14:
		cacheMulti(r, tier)
	case 1, 9, 13:
		cacheSequential(r, tier)
	case 2, 10:
		cacheConcurrent(r, tier)
	case 3, 15:
		safeMapConcurrent(r, tier)
	case 4:
		queueConcurrent(r, tier)
	case 5:
		ringConcurrent(r, tier)
	case 6:
		setSequential(r, tier)
	case 7:
		queueSequential(r, tier)
	case 11:
		ringSequential(r, tier)
	default:
		safeMapLong(r, tier)
	}
}

// ---------------------------------------------------------------- RollingWindow

type recBucket struct{ vals []int64 }

func (b *recBucket) Add(v int64) { b.vals = append(b.vals, v) }
func (b *recBucket) Reset()      { b.vals = nil }

// newWindowUnderTest builds the RollingWindow of a run: with go-zero's own Bucket (sum and count
// are compared) or with a recording bucket (the multiset of visited values is compared).
func newWindowUnderTest(size int, interval time.Duration, ignore, realBucket bool) (add func(v float64), reduce func() (vals []float64, sum float64, count int64)) {
	if realBucket {
		var o []collection.RollingWindowOption[float64, *collection.Bucket[float64]]
		if ignore {
			o = append(o, collection.IgnoreCurrentBucket[float64, *collection.Bucket[float64]]())
		}
		w := collection.NewRollingWindow[float64, *collection.Bucket[float64]](func() *collection.Bucket[float64] {
			return new(collection.Bucket[float64])
		}, size, interval, o...)
		add = w.Add
		reduce = func() (vals []float64, sum float64, count int64) {
			w.Reduce(func(b *collection.Bucket[float64]) {
				sum += b.Sum
				count += b.Count
			})
			return
		}
		return
	}
	var o []collection.RollingWindowOption[int64, *recBucket]
	if ignore {
		o = append(o, collection.IgnoreCurrentBucket[int64, *recBucket]())
	}
	w := collection.NewRollingWindow[int64, *recBucket](func() *recBucket { return new(recBucket) }, size, interval, o...)
	add = func(v float64) { w.Add(int64(v)) }
	reduce = func() (vals []float64, sum float64, count int64) {
		w.Reduce(func(b *recBucket) {
			for _, v := range b.vals {
				vals = append(vals, float64(v))
				sum += float64(v)
				count++
			}
		})
		return
	}
	return
}

// window sizes beyond the small ones: what go-zero itself configures (breaker 40, shedder 50) and powers of two
var rwLargeSizes = []int{10, 16, 40, 50, 64}

func rollingWindow(r *simrt.Run, tier string) {
	t := r.Tape
	if t.Intn(4) == 3 {
		rollingWindowConcurrent(r, tier)
		return
	}
	size := t.Range(1, 8)
	if t.Chance(1, 6) {
		size = rwLargeSizes[t.Intn(len(rwLargeSizes))]
		r.Probe("rw-large-size")
	}
	unit := []time.Duration{time.Second, 50 * time.Millisecond, time.Millisecond, 3}[t.Intn(4)]
	interval := unit * time.Duration(t.Range(1, 3))
	ignore := t.Bool()
	realBucket := t.Bool()
	maxOps := 40
	if tier == "thorough" {
		maxOps = 120
	}
	nOps := t.Range(1, maxOps)
	if t.Bool() {
		r.Sleep(time.Duration(t.Range(1, int(3*interval))))
	}

	t0 := time.Now()
	model := NewWindowModel(size, interval, ignore, t0)
	add, reduce := newWindowUnderTest(size, interval, ignore, realBucket)

	var script []string
	nAdds := 0
	lastV := 0.0
	for i := 0; i < nOps; i++ {
		adv := t.Intn(11)
		d := time.Since(t0)
		toNext := interval - d%interval
		var sl time.Duration
		switch adv {
		case 1:
			sl = toNext
		case 2:
			sl = toNext - 1
		case 3:
			sl = toNext + 1
		case 4:
			sl = time.Duration(size-1) * interval
		case 5:
			sl = time.Duration(size) * interval
		case 6:
			sl = time.Duration(size+1) * interval
		case 7:
			sl = time.Duration(size*t.Range(2, 6)+t.Range(0, size))*interval + time.Duration(t.Range(0, int(interval)-1))
		case 8:
			sl = time.Duration(t.Range(1, int(interval)-1))
		case 9:
			sl = interval
		case 10:
			// a gap of some (not all) buckets of the window, with or without a remainder
			hi := size - 1
			if hi < 2 {
				hi = 2
			}
			sl = time.Duration(t.Range(2, hi)) * interval
			if t.Bool() {
				sl += time.Duration(t.Range(0, int(interval)-1))
			}
			r.Probe("rw-op-after-partial-gap")
		}
		if sl > 0 {
			r.Sleep(sl)
		}
		switch {
		case adv >= 1 && adv <= 3:
			r.Probe("rw-op-at-bucket-boundary")
		case adv >= 4 && adv <= 7:
			r.Probe("rw-op-after-gap")
		}
		isAdd := t.Intn(3) < 2
		tb := time.Now()
		if isAdd {
			var v float64
			if realBucket {
				v = float64(int64(1) << (nAdds % 40))
			} else {
				v = float64(nAdds + 1)
			}
			if t.Chance(1, 4) {
				// values a sum does not show (0), that lower it, that are not whole, huge, repeated
				switch t.Intn(5) {
				case 0:
					v = 0
				case 1:
					v = -v
				case 2:
					if realBucket {
						v += 0.5
					} else {
						v += float64(int64(1) << 52)
					}
				case 3:
					v = lastV
				default:
					v = -1
				}
				r.Probe("rw-value-zero-negative-fraction-huge-or-repeated")
			}
			lastV = v
			nAdds++
			add(v)
			ta := time.Now()
			if model.BucketOf(tb) != model.BucketOf(ta) {
				// an injected stall carried the call across a bucket boundary: the
				// instant of the effect is not observable, stop judging this run
				r.Probe("rw-ambiguous-instant")
				return
			}
			model.Add(ta, v)
			r.Ev("rw-add", int64(v), int64(ta.Sub(t0)))
			if r.Tracing() {
				script = append(script, fmt.Sprintf("+%v Add(%v)@%v(b%d)", sl, v, ta.Sub(t0), model.BucketOf(ta)))
			}
			continue
		}
		vals, sum, count := reduce()
		ta := time.Now()
		if model.BucketOf(tb) != model.BucketOf(ta) {
			r.Probe("rw-ambiguous-instant")
			return
		}
		want := model.Visible(ta)
		wsum, wcount := model.Totals(ta)
		r.Probe("oracle")
		r.Probe("nontrivial")
		r.Ev("rw-reduce", count, int64(ta.Sub(t0)))
		if r.Tracing() {
			script = append(script, fmt.Sprintf("+%v Reduce@%v(b%d)=%v/%v", sl, ta.Sub(t0), model.BucketOf(ta), sum, count))
		}
		if len(want) > 0 {
			r.Probe("rw-reduce-nonempty")
		}
		if len(want) < nAdds {
			r.Probe("rw-some-values-out-of-window")
		}
		where := fmt.Sprintf("window size=%d interval=%v ignoreCurrent=%v, Reduce at T0+%v (interval #%d)", size, interval, ignore, ta.Sub(t0), model.BucketOf(ta))
		if realBucket {
			if sum != wsum || count != wcount {
				cls := "rw-totals-too-small"
				if count > wcount || (count == wcount && sum > wsum) {
					cls = "rw-totals-too-large"
				}
				r.Fail(cls, "%s: visited sum=%v count=%d, the values added during the window are %v (sum=%v count=%d)", where, sum, count, want, wsum, wcount)
				return
			}
			continue
		}
		got := append([]float64{}, vals...)
		sort.Float64s(got)
		exp := append([]float64{}, want...)
		sort.Float64s(exp)
		gi, ei := 0, 0
		for gi < len(got) || ei < len(exp) {
			switch {
			case ei >= len(exp) || (gi < len(got) && got[gi] < exp[ei]):
				r.Fail("rw-visited-value-outside-window", "%s: visited value #%v which was not added during the window; visited %v, expected %v", where, got[gi], got, exp)
				return
			case gi >= len(got) || exp[ei] < got[gi]:
				r.Fail("rw-missed-value-inside-window", "%s: value #%v was added during the window but not visited; visited %v, expected %v", where, exp[ei], got, exp)
				return
			}
			gi++
			ei++
		}
	}
	if r.Tracing() {
		r.Logf("rolling window size=%d interval=%v ignore=%v realBucket=%v: %v", size, interval, ignore, realBucket, script)
	}
	r.Sample(map[string]any{"component": "RollingWindow", "size": size, "interval": interval.String(), "ignore_current": ignore, "go_zero_bucket": realBucket, "ops": nOps, "adds": nAdds})
}

// ---------------------------------------------------------------- Set

func setSequential(r *simrt.Run, tier string) {
	t := r.Tape
	variant := t.Intn(7) // 0 int, 1 string, 2 int64, 3 uint, 4 uint64, 5 unmanaged mixed, 6 managed through Add(any)
	var s *collection.Set
	if variant == 5 {
		s = collection.NewUnmanagedSet()
	} else {
		s = collection.NewSet()
	}
	maxOps := 40
	if tier == "thorough" {
		maxOps = 150
	}
	nOps := t.Range(1, maxOps)
	dom := t.Range(1, 8)
	var model []any // distinct elements, insertion order
	has := func(v any) int {
		for i, e := range model {
			if e == v {
				return i
			}
		}
		return -1
	}
	// extreme: element values are not the small numbers 0..7 but the ends of each type's range
	// (and the empty / a long string)
	extreme := t.Chance(1, 3)
	if extreme {
		r.Probe("set-extreme-element-values")
	}
	ints := []int{0, -1, 1, math.MaxInt, math.MinInt, math.MaxInt32, math.MinInt32 - 1, 1 << 53}
	strs := []string{"", " ", "0", strings.Repeat("s", 300), "s0", "S0", "\x00", "é"}
	mkRaw := func(i int) (int, int64, uint, uint64, string) {
		if !extreme {
			return i, int64(i), uint(i), uint64(i), "s" + strconv.Itoa(i)
		}
		v := ints[i%len(ints)]
		return v, int64(v), uint(v), uint64(v), strs[i%len(strs)]
	}
	mk := func(i int) any {
		vi, vi64, vu, vu64, vs := mkRaw(i)
		switch variant {
		case 0, 6:
			return vi
		case 1:
			return vs
		case 2:
			return vi64
		case 3:
			return vu
		case 4:
			return vu64
		}
		switch t.Intn(5) {
		case 0:
			return vi
		case 1:
			return vi64
		case 2:
			return vu
		case 3:
			return vu64
		}
		return vs
	}
	addOne := func(v any) {
		switch x := v.(type) {
		case int:
			if variant == 6 || t.Bool() {
				s.Add(x)
			} else {
				s.AddInt(x)
			}
		case string:
			if t.Bool() {
				s.Add(x)
			} else {
				s.AddStr(x)
			}
		case int64:
			s.AddInt64(x)
		case uint:
			s.AddUint(x)
		case uint64:
			s.AddUint64(x)
		}
		if has(v) < 0 {
			model = append(model, v)
		}
	}
	sameSet := func(got []any) bool {
		if len(got) != len(model) {
			return false
		}
		for i, g := range got {
			if has(g) < 0 {
				return false
			}
			for j := 0; j < i; j++ {
				if got[j] == g {
					return false
				}
			}
		}
		return true
	}
	// addMany: the typed adders with none, two or three arguments (possibly repeated)
	addMany := func() {
		n := []int{2, 0, 3}[t.Intn(3)]
		vs := make([]any, n)
		for j := range vs {
			vs[j] = mk(t.Intn(dom))
		}
		switch variant {
		case 0, 6:
			var a []int
			for _, v := range vs {
				a = append(a, v.(int))
			}
			s.AddInt(a...)
		case 1:
			var a []string
			for _, v := range vs {
				a = append(a, v.(string))
			}
			s.AddStr(a...)
		case 2:
			var a []int64
			for _, v := range vs {
				a = append(a, v.(int64))
			}
			s.AddInt64(a...)
		case 3:
			var a []uint
			for _, v := range vs {
				a = append(a, v.(uint))
			}
			s.AddUint(a...)
		case 4:
			var a []uint64
			for _, v := range vs {
				a = append(a, v.(uint64))
			}
			s.AddUint64(a...)
		default:
			// mixed types: only the untyped adder takes them in one call
			s.Add(vs...)
		}
		for _, v := range vs {
			if has(v) < 0 {
				model = append(model, v)
			}
		}
		r.Probe("set-typed-adder-with-0-2-or-3-arguments")
	}
	for i := 0; i < nOps; i++ {
		switch t.Intn(9) {
		case 8:
			addMany()
		case 0, 1, 2:
			addOne(mk(t.Intn(dom)))
			if t.Chance(1, 4) {
				// variadic add of several (possibly repeated) elements
				a, b := mk(t.Intn(dom)), mk(t.Intn(dom))
				s.Add(a, b)
				for _, v := range []any{a, b} {
					if has(v) < 0 {
						model = append(model, v)
					}
				}
			}
		case 3:
			v := mk(t.Intn(dom))
			s.Remove(v)
			if j := has(v); j >= 0 {
				model = append(model[:j:j], model[j+1:]...)
				r.Probe("set-removed-present")
			}
		case 4, 5:
			v := mk(t.Intn(dom))
			if got, want := s.Contains(v), has(v) >= 0; got != want {
				r.Fail("set-contains", "Set(variant %d).Contains(%T %v) = %v, model (elements %v) says %v", variant, v, v, got, model, want)
				return
			}
		case 6:
			if got := s.Count(); got != len(model) {
				r.Fail("set-count", "Set(variant %d).Count() = %d, model has %d elements %v", variant, got, len(model), model)
				return
			}
		default:
			got := s.Keys()
			if !sameSet(got) {
				r.Fail("set-keys", "Set(variant %d).Keys() = %v, model elements %v", variant, got, model)
				return
			}
			// the caller owns the returned slice: writing to it must not reach the set
			for j := range got {
				got[j] = "scribbled"
			}
			var typed []any
			switch variant {
			case 0, 6:
				for _, k := range s.KeysInt() {
					typed = append(typed, k)
				}
			case 1:
				for _, k := range s.KeysStr() {
					typed = append(typed, k)
				}
			case 2:
				for _, k := range s.KeysInt64() {
					typed = append(typed, k)
				}
			case 3:
				for _, k := range s.KeysUint() {
					typed = append(typed, k)
				}
			case 4:
				for _, k := range s.KeysUint64() {
					typed = append(typed, k)
				}
			default:
				for _, k := range s.KeysInt() {
					typed = append(typed, k)
				}
				for _, k := range s.KeysStr() {
					typed = append(typed, k)
				}
				for _, k := range s.KeysInt64() {
					typed = append(typed, k)
				}
				for _, k := range s.KeysUint() {
					typed = append(typed, k)
				}
				for _, k := range s.KeysUint64() {
					typed = append(typed, k)
				}
			}
			if !sameSet(typed) {
				r.Fail("set-typed-keys", "Set(variant %d) typed key accessors returned %v, model elements %v", variant, typed, model)
				return
			}
		}
	}
	if got := s.Count(); got != len(model) {
		r.Fail("set-count", "Set(variant %d).Count() = %d at the end, model has %d elements %v", variant, got, len(model), model)
		return
	}
	r.Probe("oracle")
	r.Probe("nontrivial")
	r.Sample(map[string]any{"component": "Set", "variant": variant, "ops": nOps, "domain": dom, "final_elements": len(model)})
}

// ---------------------------------------------------------------- Queue / Ring, single client

func queueSequential(r *simrt.Run, tier string) {
	t := r.Tape
	size := t.Range(1, 5)
	if t.Chance(1, 6) {
		size = []int{8, 16, 31, 64}[t.Intn(4)]
		r.Probe("queue-large-initial-size")
	}
	maxOps := 120
	if tier == "thorough" {
		maxOps = 500
	}
	nOps := t.Range(1, maxOps)
	// mixed: elements are not only ints: strings, nil, slices (not comparable), structs
	mixed := t.Chance(1, 3)
	if mixed {
		r.Probe("queue-elements-of-varied-type-and-nil")
	}
	elem := func(n int) any {
		if !mixed {
			return n
		}
		switch n % 5 {
		case 1:
			return "e" + strconv.Itoa(n)
		case 2:
			return nil
		case 3:
			return []int{n}
		case 4:
			return struct{ a, b int }{n, -n}
		}
		return n
	}
	same := func(got any, n int) bool {
		if sl, ok := got.([]int); ok {
			return mixed && n%5 == 3 && len(sl) == 1 && sl[0] == n
		}
		if mixed && n%5 == 3 {
			return false
		}
		return got == elem(n)
	}
	q := collection.NewQueue(size)
	var model []int
	next := 0
	putBias := 5
	grown, wrapped := false, false
	for i := 0; i < nOps; i++ {
		if i%8 == 0 {
			putBias = []int{5, 8, 2}[t.Intn(3)]
		}
		switch v := t.Intn(11); {
		case v < putBias:
			next++
			q.Put(elem(next))
			model = append(model, next)
			if len(model) > size && !grown {
				grown = true
				r.Probe("queue-grew-beyond-initial-size")
			}
			if next > size && !wrapped {
				wrapped = true
				r.Probe("queue-indices-wrapped")
			}
		case v < 10:
			got, ok := q.Take()
			if len(model) == 0 {
				if ok {
					r.Fail("queue-take-from-empty", "Queue(size %d).Take() = (%v, true) but every element put so far was already taken (op %d)", size, got, i)
					return
				}
				continue
			}
			want := model[0]
			model = model[1:]
			if !ok {
				r.Fail("queue-take-lost-element", "Queue(size %d).Take() reported empty, the model still holds %d elements starting with %d (op %d)", size, len(model)+1, want, i)
				return
			}
			if !same(got, want) {
				r.Fail("queue-fifo-order", "Queue(size %d).Take() = %v, the oldest element is #%d (then %v) (op %d)", size, got, want, model, i)
				return
			}
		default:
			if got := q.Empty(); got != (len(model) == 0) {
				r.Fail("queue-empty-flag", "Queue(size %d).Empty() = %v, model holds %d elements (op %d)", size, got, len(model), i)
				return
			}
		}
	}
	// drain
	for len(model) > 0 {
		got, ok := q.Take()
		if !ok || !same(got, model[0]) {
			r.Fail("queue-fifo-order", "Queue(size %d) drain: Take() = (%v,%v), expected %d (remaining %v)", size, got, ok, model[0], model)
			return
		}
		model = model[1:]
	}
	if !q.Empty() {
		r.Fail("queue-empty-flag", "Queue(size %d) not empty after draining every element", size)
		return
	}
	r.Probe("oracle")
	r.Probe("nontrivial")
	r.Sample(map[string]any{"component": "Queue(single client)", "size": size, "ops": nOps, "puts": next})
}

func ringSequential(r *simrt.Run, tier string) {
	t := r.Tape
	n := t.Range(1, 6)
	maxOps := 60
	if tier == "thorough" {
		maxOps = 200
	}
	if t.Chance(1, 6) {
		n = []int{8, 16, 33, 64}[t.Intn(4)]
		maxOps = 5 * n
		r.Probe("ring-large-n")
	}
	nOps := t.Range(1, maxOps)
	mixed := t.Chance(1, 3) // elements of varied dynamic type, nil among them
	elem := func(v int) any {
		if !mixed {
			return v
		}
		switch v % 4 {
		case 1:
			return "e" + strconv.Itoa(v)
		case 2:
			return nil
		case 3:
			return [2]int{v, -v}
		}
		return v
	}
	// scribble: the caller owns the slice Take returned and overwrites it
	scribble := t.Bool()
	ring := collection.NewRing(n)
	var model []int
	adds := 0
	check := func(i int) bool {
		got := ring.Take()
		ok := len(got) == len(model)
		for j := 0; ok && j < len(got); j++ {
			ok = got[j] == elem(model[j])
		}
		if !ok {
			r.Fail("ring-content", "Ring(%d).Take() = %v after %d adds, the last %d added elements (numbers) in order are %v (op %d)", n, got, adds, n, model, i)
		}
		if scribble && len(got) > 0 {
			for j := range got {
				got[j] = "scribbled"
			}
			got = append(got, "appended")
			_ = got
			r.Probe("ring-taken-slice-overwritten-by-caller")
		}
		return ok
	}
	for i := 0; i < nOps; i++ {
		if t.Intn(4) < 3 {
			adds++
			ring.Add(elem(adds))
			model = append(model, adds)
			if len(model) > n {
				model = model[1:]
			}
			if adds == n+1 {
				r.Probe("ring-wrapped")
			}
			if adds == 2*n {
				r.Probe("ring-index-folded")
			}
		} else if !check(i) {
			return
		}
	}
	if !check(nOps) {
		return
	}
	r.Probe("oracle")
	r.Probe("nontrivial")
	r.Sample(map[string]any{"component": "Ring(single client)", "n": n, "ops": nOps, "adds": adds})
}

// ---------------------------------------------------------------- SafeMap across its generation switch

func safeMapLong(r *simrt.Run, tier string) {
	t := r.Tape
	m := collection.NewSafeMap()
	model := map[int]int{}
	nextVal := 0
	nOps := 0
	failed := false
	// keyMode: 0 key number n is the int n; 1 a string; 2 the dynamic type varies and equal numbers of
	// different types are different keys (int 5, int64 5, "5", [2]int{5}); nilVals: some values are nil
	keyMode, nilVals := 0, false
	if t.Chance(1, 3) {
		keyMode = t.Range(1, 2)
		r.Probe("safemap-keys-not-ints")
	}
	if t.Chance(1, 3) {
		nilVals = true
		r.Probe("safemap-nil-values")
	}
	mk := func(k int) any {
		switch keyMode {
		case 1:
			return strconv.Itoa(k)
		case 2:
			switch k % 4 {
			case 1:
				return int64(k / 4)
			case 2:
				return strconv.Itoa(k / 4)
			case 3:
				return [2]int{k / 4, 0}
			}
			return k / 4
		}
		return k
	}
	unmk := func(x any) int {
		switch p := x.(type) {
		case int:
			if keyMode == 2 {
				return 4 * p
			}
			return p
		case int64:
			return 4*int(p) + 1
		case string:
			n, _ := strconv.Atoi(p)
			if keyMode == 2 {
				return 4*n + 2
			}
			return n
		case [2]int:
			return 4*p[0] + 3
		}
		return -1
	}
	val := func(n int) any {
		if nilVals && n%7 == 0 {
			return nil
		}
		return n
	}
	verifyKey := func(k int, when string) {
		if failed {
			return
		}
		v, ok := m.Get(mk(k))
		mv, mok := model[k]
		if ok != mok || (ok && v != val(mv)) {
			failed = true
			r.Fail("safemap-get-mismatch", "SafeMap.Get(%#v) = (%v,%v) %s after %d operations, a map holds (%v,%v)", mk(k), v, ok, when, nOps, val(mv), mok)
		}
	}
	verifySize := func(when string) {
		if failed {
			return
		}
		if got := m.Size(); got != len(model) {
			failed = true
			r.Fail("safemap-size-mismatch", "SafeMap.Size() = %d %s after %d operations, a map holds %d keys", got, when, nOps, len(model))
		}
	}
	set := func(k int) {
		nextVal++
		m.Set(mk(k), val(nextVal))
		model[k] = nextVal
		nOps++
		if nOps%11 == 0 {
			verifyKey(k, "right after Set")
		}
	}
	del := func(k int) {
		m.Del(mk(k))
		delete(model, k)
		nOps++
		if nOps%11 == 0 {
			verifyKey(k, "right after Del")
		}
		if nOps%97 == 0 {
			verifySize("")
		}
	}
	fullCheck := func(when string) {
		if failed {
			return
		}
		seen := map[int]any{}
		dup := -1
		m.Range(func(k, v any) bool {
			if _, ok := seen[unmk(k)]; ok {
				dup = unmk(k)
			}
			seen[unmk(k)] = v
			return true
		})
		if dup >= 0 {
			failed = true
			r.Fail("safemap-range-duplicate", "SafeMap.Range visited key %d twice %s after %d operations", dup, when, nOps)
			return
		}
		if len(seen) != len(model) {
			failed = true
			r.Fail("safemap-range-mismatch", "SafeMap.Range visited %d keys %s after %d operations, a map holds %d", len(seen), when, nOps, len(model))
			return
		}
		keys := make([]int, 0, len(model))
		for k := range model {
			keys = append(keys, k)
		}
		sort.Ints(keys)
		for _, k := range keys {
			if sv, ok := seen[k]; !ok || sv != val(model[k]) {
				failed = true
				r.Fail("safemap-range-mismatch", "SafeMap.Range gave (%v,%v) for key %#v %s after %d operations, a map holds %v", sv, ok, mk(k), when, nOps, val(model[k]))
				return
			}
			verifyKey(k, when)
		}
		verifySize(when)
		// a Range whose function says "stop" (returns false) at its n-th call: it is called exactly n
		// times (n <= number of keys), every time with a different key of the map and that key's value
		if len(model) > 0 && t.Bool() {
			stopAt := t.Range(1, len(model))
			calls, bad := 0, ""
			visited := map[int]bool{}
			m.Range(func(k, v any) bool {
				calls++
				kn := unmk(k)
				if mv, ok := model[kn]; !ok || v != val(mv) || visited[kn] {
					bad = fmt.Sprintf("call %d got (%#v, %v), a map holds (%v,%v) for that key, visited before: %v", calls, k, v, val(mv), ok, visited[kn])
				}
				visited[kn] = true
				return calls < stopAt
			})
			r.Probe("safemap-range-stopped-by-callback")
			if calls != stopAt {
				failed = true
				r.Fail("safemap-range-ignores-stop", "SafeMap.Range called the function %d times %s after %d operations although it returned false at call %d (map of %d keys)", calls, when, nOps, stopAt, len(model))
				return
			}
			if bad != "" {
				failed = true
				r.Fail("safemap-range-mismatch", "SafeMap.Range (stopped at call %d) %s after %d operations: %s", stopAt, when, nOps, bad)
			}
		}
	}

	base := t.Range(900, 1300)
	for k := 0; k < base; k++ {
		set(k)
	}
	fullCheck("after the initial fill")
	fresh := 1_000_000
	churn := func(n int) {
		for i := 0; i < n && !failed; i++ {
			set(fresh)
			del(fresh)
			verifyKeyEvery := 503
			if i%verifyKeyEvery == 0 {
				verifyKey(t.Intn(base), "during churn")
				verifyKey(fresh, "during churn (deleted key)")
			}
			fresh++
		}
	}
	churn1 := t.Range(9900, 10100)
	churn(churn1)
	fullCheck("after the first deletion churn")
	extra := t.Range(0, 600)
	for i := 0; i < extra && !failed; i++ {
		set(base + i)
	}
	overwrite := t.Range(0, 300)
	for i := 0; i < overwrite && !failed; i++ {
		set(t.Intn(base + extra))
	}
	fullCheck("after writing into the next generation")
	mode := t.Intn(3)
	churn2, shrinkTo := 0, -1
	if mode >= 1 {
		churn2 = t.Range(9900, 10100)
		churn(churn2)
		fullCheck("after the second deletion churn")
	}
	if mode != 1 {
		shrinkTo = t.Range(0, 1100)
		for k := 0; len(model) > shrinkTo && k < base+extra && !failed; k++ {
			del(k)
			if k%5 == 0 {
				verifyKey(t.Intn(base+extra), "while shrinking")
			}
		}
		fullCheck("after shrinking")
	}
	tail := t.Range(0, 300)
	for i := 0; i < tail && !failed; i++ {
		k := t.Intn(base + extra + 10)
		switch t.Intn(3) {
		case 0:
			set(k)
		case 1:
			del(k)
		}
		verifyKey(k, "in the random tail")
	}
	fullCheck("at the end")
	r.Probe("oracle")
	r.Probe("nontrivial")
	r.Probe("safemap-10000-deletions-crossed")
	r.Sample(map[string]any{"component": "SafeMap(single client, generation switch)", "live_keys": base, "churn1_deletions": churn1, "next_generation_sets": extra + overwrite,
		"mode": mode, "churn2_deletions": churn2, "shrink_to": shrinkTo, "tail_ops": tail, "operations": nOps})
}

// ---------------------------------------------------------------- concurrent SafeMap / Queue / Ring

func clientCounts(t *simrt.Tape, tier string) (clients, perClient int) {
	maxC, maxP := 3, 8
	if tier == "thorough" {
		maxC, maxP = 4, 10
	}
	clients = t.Range(2, maxC)
	perClient = t.Range(1, maxP)
	for clients*perClient > 36 {
		perClient--
	}
	return
}

func yields(r *simrt.Run, n int) {
	for ; n > 0; n-- {
		r.Yield()
	}
}

func safeMapConcurrent(r *simrt.Run, tier string) {
	t := r.Tape
	clients, perClient := clientCounts(t, tier)
	nKeys := t.Range(1, 3)
	type op struct{ kind, key, val, think int }
	nextVal := 0
	plans := make([][]op, clients)
	for c := range plans {
		for j := 0; j < perClient; j++ {
			o := op{key: t.Intn(nKeys), think: t.Intn(3)}
			switch v := t.Intn(10); {
			case v < 3:
				o.kind = smGet
			case v < 6:
				o.kind = smSet
				nextVal++
				o.val = nextVal
			case v < 8:
				o.kind = smDel
			case v < 9:
				o.kind = smSize
			default:
				o.kind = smRange
			}
			plans[c] = append(plans[c], o)
		}
	}
	if r.Tracing() {
		r.Logf("safemap clients=%d keys=%d plans=%+v", clients, nKeys, plans)
	}
	r.Sample(map[string]any{"component": "SafeMap(concurrent)", "clients": clients, "keys": nKeys, "ops_per_client": perClient, "first_client_plan": fmt.Sprintf("%+v", plans[0])})
	m := collection.NewSafeMap()
	h := &hist{}
	var tasks []*simrt.Task
	for c := 0; c < clients; c++ {
		c := c
		tasks = append(tasks, r.Go(fmt.Sprintf("client%d", c), func() {
			for _, o := range plans[c] {
				yields(r, o.think)
				in := smIn{kind: o.kind, key: o.key, val: o.val}
				var out smOut
				call := h.tick()
				r.Ev("invoke", int64(c), int64(o.kind), int64(o.key))
				switch o.kind {
				case smGet:
					v, ok := m.Get(o.key)
					out.ok = ok
					if ok {
						out.val = v.(int)
					}
				case smSet:
					m.Set(o.key, o.val)
				case smDel:
					m.Del(o.key)
				case smSize:
					out.n = m.Size()
				default:
					m.Range(func(k, v any) bool {
						out.snap[k.(int)] = v.(int)
						return true
					})
				}
				ret := h.tick()
				r.Ev("return", int64(c), int64(out.val), int64(out.n))
				h.add(c, in, call, out, ret)
			}
		}))
	}
	if !r.JoinTimeout(time.Hour, tasks...) {
		r.Fail("safemap-stuck", "SafeMap clients did not all return: %v", r.AliveTasks())
		return
	}
	b := &budget{}
	switch runPorcupine(safeMapModel(b), h.ops, b) {
	case linIllegal:
		r.Fail("safemap-nonlinearizable", "SafeMap history of %d clients on %d keys has no linearization as a map:%s", clients, nKeys, h.describe(describeSafeMapOp))
	case linUnknown:
		r.Probe("porcupine-unknown")
	}
	r.Probe("oracle")
}

func queueConcurrent(r *simrt.Run, tier string) {
	t := r.Tape
	clients, perClient := clientCounts(t, tier)
	size := t.Range(1, 3)
	type op struct{ kind, val, think int }
	nextVal := 0
	plans := make([][]op, clients)
	for c := range plans {
		for j := 0; j < perClient; j++ {
			o := op{think: t.Intn(3)}
			switch v := t.Intn(10); {
			case v < 5:
				o.kind = qPut
				nextVal++
				o.val = nextVal
			case v < 9:
				o.kind = qTake
			default:
				o.kind = qEmpty
			}
			plans[c] = append(plans[c], o)
		}
	}
	if r.Tracing() {
		r.Logf("queue clients=%d size=%d plans=%+v", clients, size, plans)
	}
	r.Sample(map[string]any{"component": "Queue(concurrent)", "clients": clients, "initial_size": size, "ops_per_client": perClient, "first_client_plan": fmt.Sprintf("%+v", plans[0])})
	q := collection.NewQueue(size)
	h := &hist{}
	var tasks []*simrt.Task
	for c := 0; c < clients; c++ {
		c := c
		tasks = append(tasks, r.Go(fmt.Sprintf("client%d", c), func() {
			for _, o := range plans[c] {
				yields(r, o.think)
				in := qIn{kind: o.kind, val: o.val}
				var out qOut
				call := h.tick()
				r.Ev("invoke", int64(c), int64(o.kind), int64(o.val))
				switch o.kind {
				case qPut:
					q.Put(o.val)
				case qTake:
					v, ok := q.Take()
					out.ok = ok
					if ok {
						out.val = v.(int)
					}
				default:
					out.empty = q.Empty()
				}
				ret := h.tick()
				r.Ev("return", int64(c), int64(out.val))
				h.add(c, in, call, out, ret)
			}
		}))
	}
	if !r.JoinTimeout(time.Hour, tasks...) {
		r.Fail("queue-stuck", "Queue clients did not all return: %v", r.AliveTasks())
		return
	}
	b := &budget{}
	switch runPorcupine(queueModel(b), h.ops, b) {
	case linIllegal:
		r.Fail("queue-nonlinearizable", "Queue(size %d) history of %d clients has no linearization as a FIFO:%s", size, clients, h.describe(describeQueueOp))
	case linUnknown:
		r.Probe("porcupine-unknown")
	}
	r.Probe("oracle")
}

func ringConcurrent(r *simrt.Run, tier string) {
	t := r.Tape
	clients, perClient := clientCounts(t, tier)
	n := t.Range(1, 4)
	type op struct {
		add        bool
		val, think int
	}
	nextVal := 0
	plans := make([][]op, clients)
	for c := range plans {
		for j := 0; j < perClient; j++ {
			o := op{think: t.Intn(3)}
			if t.Intn(3) < 2 {
				o.add = true
				nextVal++
				o.val = nextVal
			}
			plans[c] = append(plans[c], o)
		}
	}
	if r.Tracing() {
		r.Logf("ring clients=%d n=%d plans=%+v", clients, n, plans)
	}
	r.Sample(map[string]any{"component": "Ring(concurrent)", "clients": clients, "n": n, "ops_per_client": perClient, "first_client_plan": fmt.Sprintf("%+v", plans[0])})
	ring := collection.NewRing(n)
	h := &hist{}
	var tasks []*simrt.Task
	for c := 0; c < clients; c++ {
		c := c
		tasks = append(tasks, r.Go(fmt.Sprintf("client%d", c), func() {
			for _, o := range plans[c] {
				yields(r, o.think)
				in := ringIn{add: o.add, val: o.val}
				var out ringOut
				call := h.tick()
				r.Ev("invoke", int64(c), int64(o.val))
				if o.add {
					ring.Add(o.val)
				} else {
					var bs []byte
					taken := ring.Take()
					for _, v := range taken {
						bs = append(bs, byte(v.(int)))
					}
					out.content = string(bs)
					for j := range taken {
						taken[j] = -1 // the caller owns what Take returned
					}
				}
				ret := h.tick()
				r.Ev("return", int64(c), int64(len(out.content)))
				h.add(c, in, call, out, ret)
			}
		}))
	}
	if !r.JoinTimeout(time.Hour, tasks...) {
		r.Fail("ring-stuck", "Ring clients did not all return: %v", r.AliveTasks())
		return
	}
	b := &budget{}
	switch runPorcupine(ringModel(n, b), h.ops, b) {
	case linIllegal:
		r.Fail("ring-nonlinearizable", "Ring(%d) history of %d clients has no linearization as \"the last %d elements in order\":%s", n, clients, n, h.describe(describeRingOp))
	case linUnknown:
		r.Probe("porcupine-unknown")
	}
	r.Probe("oracle")
}

func config(t *simrt.Tape, tier string) simrt.Config {
	c := simharness.DefaultConfig(t, tier)
	c.MaxSteps = 400000
	return c
}

func TestSim(t *testing.T) {
	simharness.Main(t, &simharness.Spec{ID: "C16", Body: body, Config: config, StuckIsViolation: true, CrashIsViolation: true})
}
