package c16

import (
	"errors"
	"fmt"
	"sort"
	"strings"
	"time"

	"github.com/zeromicro/go-zero/core/collection"

	"verifsim/simrt"
)

// Cache workloads.  The cache's timing wheel and statistics loop run on the
// bubble's virtual clock; there is no Stop on Cache, so their goroutines are
// declared background.

type loadRec struct {
	key        int
	start, end int64
	tStart     time.Duration
	tEnd       time.Duration
	val        int
	err        error
}

type takeRec struct {
	client, key int
	call, ret   int64
	tCall, tRet time.Duration
	val         int
	err         error
	loads       []*loadRec
}

type cacheWorld struct {
	r       *simrt.Run
	c       *collection.Cache
	limit   int
	expire  time.Duration
	created time.Duration
	clk     int64
	nextVal int
	ops     []cOp
	takes   []*takeRec
}

func (w *cacheWorld) tick() int64 { w.clk++; return w.clk }

func key(k int) string { return fmt.Sprintf("k%d", k) }

func newCacheWorld(r *simrt.Run, limit int, expire time.Duration) *cacheWorld {
	var opts []collection.CacheOption
	if limit > 0 {
		opts = append(opts, collection.WithLimit(limit))
	}
	c, err := collection.NewCache(expire, opts...)
	if err != nil {
		r.Fail("cache-new", "NewCache(%v): %v", expire, err)
		return nil
	}
	r.MarkBackground(func(name string) bool { return strings.Contains(name, "collection/") })
	return &cacheWorld{r: r, c: c, limit: limit, expire: expire, created: r.Elapsed()}
}

func (w *cacheWorld) record(client int, in cIn, out cOut, call, ret int64) {
	w.ops = append(w.ops, cOp{client: client, in: in, out: out, call: call, ret: ret})
}

func (w *cacheWorld) get(client, k int) {
	in := cIn{kind: cGet, key: k, tCall: w.r.Elapsed()}
	call := w.tick()
	w.r.Ev("get", int64(client), int64(k))
	v, ok := w.c.Get(key(k))
	ret := w.tick()
	in.tRet = w.r.Elapsed()
	out := cOut{ok: ok}
	if ok {
		out.val = v.(int)
	}
	w.r.Ev("got", int64(out.val))
	w.record(client, in, out, call, ret)
}

func (w *cacheWorld) set(client, k int, expire time.Duration) {
	w.nextVal++
	v := w.nextVal
	in := cIn{kind: cSet, key: k, val: v, tCall: w.r.Elapsed()}
	call := w.tick()
	w.r.Ev("set", int64(client), int64(k), int64(v), int64(expire))
	if expire > 0 {
		in.expire = expire
		w.c.SetWithExpire(key(k), v, expire)
	} else {
		in.expire = w.expire
		w.c.Set(key(k), v)
	}
	ret := w.tick()
	in.tRet = w.r.Elapsed()
	w.record(client, in, cOut{}, call, ret)
}

func (w *cacheWorld) del(client, k int) {
	in := cIn{kind: cDel, key: k, tCall: w.r.Elapsed()}
	call := w.tick()
	w.r.Ev("del", int64(client), int64(k))
	w.c.Del(key(k))
	ret := w.tick()
	in.tRet = w.r.Elapsed()
	w.record(client, in, cOut{}, call, ret)
}

func (w *cacheWorld) length(client int) {
	in := cIn{kind: cLen, key: -1, tCall: w.r.Elapsed()}
	call := w.tick()
	n := collection.VerifCacheLen(w.c)
	ret := w.tick()
	in.tRet = w.r.Elapsed()
	w.r.Ev("len", int64(n))
	w.record(client, in, cOut{n: n}, call, ret)
}

func (w *cacheWorld) take(client, k int, fail bool, loadYields int, loadSleep time.Duration) {
	tr := &takeRec{client: client, key: k, tCall: w.r.Elapsed()}
	w.takes = append(w.takes, tr)
	tr.call = w.tick()
	w.r.Ev("take", int64(client), int64(k))
	v, err := w.c.Take(key(k), func() (any, error) {
		l := &loadRec{key: k, start: w.tick(), tStart: w.r.Elapsed()}
		tr.loads = append(tr.loads, l)
		w.r.Ev("load", int64(client), int64(k))
		yields(w.r, loadYields)
		if loadSleep > 0 {
			w.r.Sleep(loadSleep)
		}
		if fail {
			l.err = fmt.Errorf("load-error-%d", l.start)
		} else {
			w.nextVal++
			l.val = w.nextVal
		}
		l.tEnd = w.r.Elapsed()
		l.end = w.tick()
		if l.err != nil {
			return nil, l.err
		}
		return l.val, nil
	})
	tr.ret = w.tick()
	tr.tRet = w.r.Elapsed()
	tr.err = err
	if err == nil {
		if iv, ok := v.(int); ok {
			tr.val = iv
		} else {
			tr.val = -1
		}
	}
	w.r.Ev("taken", int64(tr.val))
}

// history turns the recorded calls into model operations.  A Take that ran its
// loader is a lookup miss (between its invocation and the start of the loader)
// followed, when the loader succeeded, by a Set (between the end of the loader
// and the return).  A Take that did not run its loader is a hit, unless another
// overlapping Take of the same key returned the same result, in which case it
// may also have shared that call's result (SingleFlight) without touching the cache.
func (w *cacheWorld) history() ([]cOp, bool) {
	r := w.r
	ops := append([]cOp{}, w.ops...)
	overlap := func(a, b *takeRec) bool { return a.call < b.ret && b.call < a.ret }
	for _, tr := range w.takes {
		if len(tr.loads) > 1 {
			r.Fail("cache-take-loader-repeated", "one Take(k%d) ran its loader %d times", tr.key, len(tr.loads))
			return nil, false
		}
		if len(tr.loads) == 1 {
			l := tr.loads[0]
			ops = append(ops, cOp{client: tr.client, call: tr.call, ret: l.start, out: cOut{ok: false},
				in: cIn{kind: cGet, key: tr.key, tCall: tr.tCall, tRet: l.tStart, fromLoader: true}})
			if l.err != nil {
				if !errors.Is(tr.err, l.err) {
					r.Fail("cache-take-result", "Take(k%d) returned (%v, %v) although its own loader failed with %v", tr.key, tr.val, tr.err, l.err)
					return nil, false
				}
				continue
			}
			if tr.err != nil || tr.val != l.val {
				r.Fail("cache-take-result", "Take(k%d) returned (%v, %v) although its own loader produced %d", tr.key, tr.val, tr.err, l.val)
				return nil, false
			}
			ops = append(ops, cOp{client: tr.client, call: l.end, ret: tr.ret,
				in: cIn{kind: cSet, key: tr.key, val: l.val, expire: w.expire, tCall: l.tEnd, tRet: tr.tRet}})
			continue
		}
		shared := false
		for _, o := range w.takes {
			if o == tr || o.key != tr.key || !overlap(o, tr) {
				continue
			}
			if tr.err != nil {
				if o.err != nil && errors.Is(tr.err, o.err) {
					shared = true
				}
			} else if o.err == nil && o.val == tr.val {
				shared = true
			}
		}
		if tr.err != nil {
			if !shared {
				r.Fail("cache-take-result", "Take(k%d) returned error %v without running its loader and no overlapping Take produced that error", tr.key, tr.err)
				return nil, false
			}
			continue
		}
		kind := cGet
		if shared {
			kind = cMaybeGet
			r.Probe("cache-take-possibly-shared")
		}
		ops = append(ops, cOp{client: tr.client, call: tr.call, ret: tr.ret, out: cOut{val: tr.val, ok: true},
			in: cIn{kind: kind, key: tr.key, tCall: tr.tCall, tRet: tr.tRet}})
	}
	sort.SliceStable(ops, func(i, j int) bool { return ops[i].call < ops[j].call })
	return ops, true
}

var cacheExpires = []time.Duration{10 * time.Second, 5 * time.Second, 30 * time.Second, 60 * time.Second, 100 * time.Second,
	299 * time.Second, 300 * time.Second, 301 * time.Second, 400 * time.Second, 1000 * time.Second}

var entryExpires = []time.Duration{20 * time.Second, time.Second, 3 * time.Second, 50 * time.Second, 200 * time.Second,
	350 * time.Second, 500 * time.Second, 900 * time.Second, 500 * time.Millisecond}

const maxCacheVirtual = 3000 * time.Second

func cacheSequential(r *simrt.Run, tier string) {
	t := r.Tape
	limit := t.Intn(5)
	nKeys := t.Range(1, 5)
	expire := cacheExpires[t.Intn(len(cacheExpires))]
	maxOps := 30
	if tier == "thorough" {
		maxOps = 60
	}
	nOps := t.Range(1, maxOps)
	if t.Bool() {
		r.Sleep(time.Duration(t.Range(1, 1999)) * time.Millisecond)
	}
	w := newCacheWorld(r, limit, expire)
	if w == nil {
		return
	}
	type last struct {
		at     time.Duration
		expire time.Duration
		set    bool
	}
	lastSet := make([]last, nKeys)
	var script []string
	for i := 0; i < nOps; i++ {
		// time advance
		var sl time.Duration
		adv := t.Intn(10)
		if r.Elapsed() > maxCacheVirtual {
			adv = 0
		}
		switch adv {
		case 3:
			sl = time.Duration(t.Range(1, 999)) * time.Millisecond
		case 4:
			sl = time.Duration(t.Range(1, 5)) * time.Second
		case 5:
			// onto (or 1 ns next to) an instant at which the cache's timers tick
			d := r.Elapsed() - w.created
			sl = time.Second - d%time.Second + time.Duration(t.Intn(3)-1)
			r.Probe("cache-op-at-tick-instant")
		case 6, 7:
			// relative to the life of an entry: just inside the guaranteed life, or around its expiry
			k := t.Intn(nKeys)
			if lastSet[k].set {
				age := r.Elapsed() - lastSet[k].at
				var target time.Duration
				if adv == 6 {
					target = guaranteedLife(lastSet[k].expire) - 1
					r.Probe("cache-op-at-end-of-guaranteed-life")
				} else {
					target = lastSet[k].expire * time.Duration(t.Range(90, 110)) / 100
					if t.Bool() {
						// on the tick grid
						abs := lastSet[k].at + target - w.created
						target += time.Second - abs%time.Second
					}
					r.Probe("cache-op-around-expiry")
				}
				if target > age {
					sl = target - age
				}
			}
		case 8:
			sl = expire + time.Duration(t.Range(0, int(expire/time.Second)))*time.Second
		}
		if sl > 0 {
			r.Sleep(sl)
		}
		k := t.Intn(nKeys)
		var what string
		switch v := t.Intn(20); {
		case v < 7:
			w.get(0, k)
			what = "Get"
		case v < 12:
			lastSet[k] = last{at: r.Elapsed(), expire: expire, set: true}
			w.set(0, k, 0)
			what = "Set"
		case v < 14:
			e := entryExpires[t.Intn(len(entryExpires))]
			lastSet[k] = last{at: r.Elapsed(), expire: e, set: true}
			w.set(0, k, e)
			what = fmt.Sprintf("SetWithExpire(%v)", e)
		case v < 16:
			w.del(0, k)
			lastSet[k].set = false
			what = "Del"
		case v < 19:
			fail := t.Chance(1, 5)
			n := len(w.takes)
			w.take(0, k, fail, 0, 0)
			if len(w.takes[n].loads) > 0 && !fail {
				lastSet[k] = last{at: r.Elapsed(), expire: expire, set: true}
			}
			what = fmt.Sprintf("Take(fail=%v)", fail)
		default:
			w.length(0)
			what = "Len"
		}
		if r.Tracing() {
			script = append(script, fmt.Sprintf("+%v %s k%d @%v", sl, what, k, r.Elapsed()))
		}
	}
	// final observation of everything
	w.length(0)
	for k := 0; k < nKeys; k++ {
		w.get(0, k)
	}
	w.length(0)
	if r.Tracing() {
		r.Logf("cache(sequential) limit=%d expire=%v keys=%d: %v", limit, expire, nKeys, script)
	}
	r.Sample(map[string]any{"component": "Cache(single client)", "limit": limit, "expire": expire.String(), "keys": nKeys, "ops": nOps, "virtual": r.Elapsed().String()})
	ops, ok := w.history()
	if !ok {
		return
	}
	r.Probe("oracle")
	r.Probe("nontrivial")
	for _, o := range ops {
		if o.in.kind == cGet && !o.out.ok && !o.in.fromLoader {
			r.Probe("cache-miss-observed")
		}
	}
	strict := &cacheModel{limit: limit}
	i, before := strict.checkSequential(ops)
	if i < 0 {
		return
	}
	for _, lvl := range []int{1, 2, 4} { // level 3 needs a second client
		relaxed := &cacheModel{limit: limit, relaxed: lvl}
		if j, _ := relaxed.checkSequential(ops); j < 0 {
			r.Fail(relaxedClass[lvl], "single client, limit=%d expire=%v: %s: %s", limit, expire, relaxedWhat[lvl], describeFailure(limit, ops, i, before))
			return
		}
	}
	cls, desc := classifySequential(limit, ops, i, before)
	r.Fail(cls, "single client, limit=%d expire=%v: %s\nhistory:%s", limit, expire, desc, describeOps(ops[:i+1]))
}

func describeFailure(limit int, ops []cOp, i int, before []cState) string {
	_, desc := classifySequential(limit, ops, i, before)
	return desc + "\nhistory:" + describeOps(ops[:i+1])
}

func cacheConcurrent(r *simrt.Run, tier string) {
	t := r.Tape
	maxC, maxP := 3, 6
	if tier == "thorough" {
		maxC, maxP = 4, 7
	}
	clients := t.Range(2, maxC)
	perClient := t.Range(1, maxP)
	for clients*perClient > 20 {
		perClient--
	}
	nKeys := t.Range(1, 3)
	limit := t.Intn(4)
	expire := []time.Duration{10 * time.Second, 5 * time.Second, 30 * time.Second, 60 * time.Second}[t.Intn(4)]
	type op struct {
		kind      int // 0 get 1 set 2 del 3 take 4 len
		key       int
		think     time.Duration
		fail      bool
		loadYield int
		loadSleep time.Duration
	}
	plans := make([][]op, clients)
	for c := range plans {
		for j := 0; j < perClient; j++ {
			o := op{key: t.Intn(nKeys)}
			switch t.Intn(8) {
			case 5:
				o.think = time.Duration(t.Range(1, 50)) * time.Millisecond
			case 6:
				o.think = time.Duration(t.Range(1, 4)) * time.Second
			case 7:
				o.think = time.Duration(int(expire/time.Second)*t.Range(80, 120)/100) * time.Second
			}
			switch v := t.Intn(20); {
			case v < 6:
				o.kind = 0
			case v < 11:
				o.kind = 1
			case v < 13:
				o.kind = 2
			case v < 18:
				o.kind = 3
				o.fail = t.Chance(1, 5)
				o.loadYield = t.Intn(3)
				if t.Chance(1, 3) {
					o.loadSleep = time.Duration(t.Range(1, 1500)) * time.Millisecond
				}
			default:
				o.kind = 4
			}
			plans[c] = append(plans[c], o)
		}
	}
	if r.Tracing() {
		r.Logf("cache(concurrent) clients=%d keys=%d limit=%d expire=%v plans=%+v", clients, nKeys, limit, expire, plans)
	}
	r.Sample(map[string]any{"component": "Cache(concurrent)", "clients": clients, "keys": nKeys, "limit": limit, "expire": expire.String(), "ops_per_client": perClient,
		"first_client_plan": fmt.Sprintf("%+v", plans[0])})
	w := newCacheWorld(r, limit, expire)
	if w == nil {
		return
	}
	var tasks []*simrt.Task
	for c := 0; c < clients; c++ {
		c := c
		tasks = append(tasks, r.Go(fmt.Sprintf("client%d", c), func() {
			for _, o := range plans[c] {
				if o.think > 0 {
					r.Sleep(o.think)
				}
				switch o.kind {
				case 0:
					w.get(c, o.key)
				case 1:
					w.set(c, o.key, 0)
				case 2:
					w.del(c, o.key)
				case 3:
					w.take(c, o.key, o.fail, o.loadYield, o.loadSleep)
				default:
					w.length(c)
				}
			}
		}))
	}
	if !r.JoinTimeout(6*time.Hour, tasks...) {
		r.Fail("cache-stuck", "Cache clients did not all return: %v", r.AliveTasks())
		return
	}
	ops, ok := w.history()
	if !ok {
		return
	}
	r.Probe("oracle")
	switch checkCacheHistory(limit, 0, ops) {
	case linUnknown:
		r.Probe("porcupine-unknown")
	case linIllegal:
		for lvl := 1; lvl <= 4; lvl++ {
			switch checkCacheHistory(limit, lvl, ops) {
			case linOK:
				r.Fail(relaxedClass[lvl], "%d clients, limit=%d expire=%v: the history is only explained if %s:%s", clients, limit, expire, relaxedWhat[lvl], describeOps(ops))
				return
			case linUnknown:
				r.Probe("porcupine-unknown")
				return
			}
		}
		r.Fail("cache-nonlinearizable", "%d clients, limit=%d expire=%v: no linearization of the history is a behaviour of an LRU cache with expiry:%s", clients, limit, expire, describeOps(ops))
	}
}

// classes of the known-finding family "the expiry task deletes by key" (cachemodel_test.go, cacheModel.relaxed)
var relaxedClass = [...]string{"", "cache-fresh-set-deleted-by-expiry-of-previous-entry", "cache-fresh-set-deleted-by-expiry-of-deleted-or-evicted-entry",
	"cache-fresh-set-deleted-by-orphan-timer-of-set-racing-del", "cache-fresh-set-deleted-by-second-expiry-task-in-flight"}

var relaxedWhat = [...]string{"", "a value set over an entry whose timer was due disappeared although it was neither deleted, evicted nor old enough to expire",
	"a value set after the key's previous entry was deleted (Del) or evicted while that entry's timer was due disappeared although it was neither deleted, evicted nor old enough to expire",
	"a Del overlapping a Set of the same key left that Set's timer behind and the timer later deleted a newer value that was neither deleted, evicted nor old enough to expire",
	"two expiry tasks of one key were in flight at once (Sets over entries whose timers were due, e.g. SetWithExpire below the 1 s timer tick, which runs the expiry at once and asynchronously): the first removed the entry, the second deleted a value stored afterwards that was neither deleted, evicted nor old enough to expire"}
