package c16

import (
	"errors"
	"fmt"
	"sort"
	"strings"
	"time"

	"github.com/zeromicro/go-zero/core/collection"
	"github.com/zeromicro/go-zero/core/syncx"

	"verifsim/simrt"
)

// Cache workloads.  The cache's timing wheel and statistics loop run on the
// bubble's virtual clock; there is no Stop on Cache, so their goroutines are
// declared background.

type loadRec struct {
	key        int
	start, end int64
	tStart     time.Duration
	tEnd       time.Duration
	val        int
	err        error
}

type takeRec struct {
	client, key int
	call, ret   int64
	tCall, tRet time.Duration
	// flight: the instant this Take entered the cache's SingleFlight barrier (0: it never did:
	// first lookup hit); observed by flightSpy, stamped before the call is delegated
	flight  int64
	tFlight time.Duration
	flights int
	val     int
	err     error
	loads   []*loadRec
}

// cacheShared is what the caches of one run have in common: one logical clock
// and one source of values, so that every value is unique across all caches.
type cacheShared struct {
	clk     int64
	nextVal int
}

type cacheWorld struct {
	r       *simrt.Run
	sh      *cacheShared
	id      int
	c       *collection.Cache
	limit   int
	expire  time.Duration
	created time.Duration
	ops     []cOp
	takes   []*takeRec
	// inTake: the Take each task is currently inside (key: task id), for flightSpy
	inTake map[int]*takeRec
	// mine: every value handed to THIS cache (Set, SetWithExpire, results of loaders of its Takes)
	mine map[int]bool
	// longest expiry of any store issued on this cache
	maxExpire time.Duration
}

func (w *cacheWorld) tick() int64 { w.sh.clk++; return w.sh.clk }

func (w *cacheWorld) newVal() int {
	w.sh.nextVal++
	w.mine[w.sh.nextVal] = true
	return w.sh.nextVal
}

func key(k int) string { return fmt.Sprintf("k%d", k) }

// flightSpy is a pass-through around the cache's barrier that records the
// instant at which a Take enters it.  The yield stands for a preemption between
// Take's first lookup and the barrier (there is no synchronisation operation in
// between); recording happens after it and before the call is delegated.
type flightSpy struct {
	w     *cacheWorld
	inner syncx.SingleFlight
}

func (f *flightSpy) enter() {
	w := f.w
	w.r.Yield()
	tr := w.inTake[w.r.CurrentID()]
	if tr == nil {
		return
	}
	tr.flights++
	if tr.flights == 1 {
		tr.flight = w.tick()
		tr.tFlight = w.r.Elapsed()
		w.r.Ev("flight", int64(tr.client), int64(tr.key))
	}
}

func (f *flightSpy) Do(key string, fn func() (any, error)) (any, error) {
	f.enter()
	return f.inner.Do(key, fn)
}

func (f *flightSpy) DoEx(key string, fn func() (any, error)) (any, bool, error) {
	f.enter()
	return f.inner.DoEx(key, fn)
}

func newCacheWorld(r *simrt.Run, limit int, expire time.Duration) *cacheWorld {
	return newCacheWorldIn(r, &cacheShared{}, 0, limit, expire, "")
}

func newCacheWorldIn(r *simrt.Run, sh *cacheShared, id, limit int, expire time.Duration, name string) *cacheWorld {
	var opts []collection.CacheOption
	if limit > 0 {
		opts = append(opts, collection.WithLimit(limit))
	}
	if name != "" {
		opts = append(opts, collection.WithName(name))
	}
	c, err := collection.NewCache(expire, opts...)
	if err != nil {
		r.Fail("cache-new", "NewCache(%v): %v", expire, err)
		return nil
	}
	r.MarkBackground(func(name string) bool { return strings.Contains(name, "collection/") })
	w := &cacheWorld{r: r, sh: sh, id: id, c: c, limit: limit, expire: expire, created: r.Elapsed(),
		inTake: map[int]*takeRec{}, mine: map[int]bool{}, maxExpire: expire}
	collection.VerifWrapCacheBarrier(c, func(inner syncx.SingleFlight) syncx.SingleFlight {
		return &flightSpy{w: w, inner: inner}
	})
	return w
}

// timingObservable: the upper bound on an entry's life (upperLife) assumes that the cache's
// timer goroutines get to run; it is not asserted in runs whose fault mix parks tasks inside
// real code for up to 2 s of virtual time (each such stall of the wheel goroutine loses ticks).
func timingObservable(r *simrt.Run) bool {
	c := r.Cfg()
	return c.StallPerMille == 0 || c.StallMax <= 50*time.Millisecond
}

func (w *cacheWorld) record(client int, in cIn, out cOut, call, ret int64) {
	w.ops = append(w.ops, cOp{client: client, in: in, out: out, call: call, ret: ret})
}

func (w *cacheWorld) get(client, k int) {
	in := cIn{kind: cGet, key: k, tCall: w.r.Elapsed()}
	call := w.tick()
	w.r.Ev("get", int64(client), int64(k))
	v, ok := w.c.Get(key(k))
	ret := w.tick()
	in.tRet = w.r.Elapsed()
	out := cOut{ok: ok}
	if ok {
		out.val = v.(int)
	}
	w.r.Ev("got", int64(out.val))
	w.record(client, in, out, call, ret)
}

func (w *cacheWorld) set(client, k int, expire time.Duration) {
	v := w.newVal()
	if expire > w.maxExpire {
		w.maxExpire = expire
	}
	in := cIn{kind: cSet, key: k, val: v, tCall: w.r.Elapsed()}
	call := w.tick()
	w.r.Ev("set", int64(client), int64(k), int64(v), int64(expire))
	if expire > 0 {
		in.expire = expire
		w.c.SetWithExpire(key(k), v, expire)
	} else {
		in.expire = w.expire
		w.c.Set(key(k), v)
	}
	ret := w.tick()
	in.tRet = w.r.Elapsed()
	w.record(client, in, cOut{}, call, ret)
}

func (w *cacheWorld) del(client, k int) {
	in := cIn{kind: cDel, key: k, tCall: w.r.Elapsed()}
	call := w.tick()
	w.r.Ev("del", int64(client), int64(k))
	w.c.Del(key(k))
	ret := w.tick()
	in.tRet = w.r.Elapsed()
	w.record(client, in, cOut{}, call, ret)
}

func (w *cacheWorld) length(client int) {
	in := cIn{kind: cLen, key: -1, tCall: w.r.Elapsed()}
	call := w.tick()
	n := collection.VerifCacheLen(w.c)
	ret := w.tick()
	in.tRet = w.r.Elapsed()
	w.r.Ev("len", int64(n))
	w.record(client, in, cOut{n: n}, call, ret)
}

func (w *cacheWorld) take(client, k int, fail bool, loadYields int, loadSleep time.Duration) {
	tr := &takeRec{client: client, key: k, tCall: w.r.Elapsed()}
	w.takes = append(w.takes, tr)
	tr.call = w.tick()
	w.r.Ev("take", int64(client), int64(k))
	tid := w.r.CurrentID()
	w.inTake[tid] = tr
	defer delete(w.inTake, tid)
	v, err := w.c.Take(key(k), func() (any, error) {
		l := &loadRec{key: k, start: w.tick(), tStart: w.r.Elapsed()}
		tr.loads = append(tr.loads, l)
		w.r.Ev("load", int64(client), int64(k))
		yields(w.r, loadYields)
		if loadSleep > 0 {
			w.r.Sleep(loadSleep)
		}
		if fail {
			l.err = fmt.Errorf("load-error-%d", l.start)
		} else {
			l.val = w.newVal()
		}
		l.tEnd = w.r.Elapsed()
		l.end = w.tick()
		if l.err != nil {
			return nil, l.err
		}
		return l.val, nil
	})
	tr.ret = w.tick()
	tr.tRet = w.r.Elapsed()
	tr.err = err
	if err == nil {
		if iv, ok := v.(int); ok {
			tr.val = iv
		} else {
			tr.val = -1
		}
	}
	w.r.Ev("taken", int64(tr.val))
}

// history turns the recorded calls into model operations.  A Take that ran its
// loader is a lookup miss followed, when the loader succeeded, by a Set (between
// the end of the loader and the return).  The miss that justifies the loader run
// lies between the Take's ENTRY INTO THE FLIGHT (the barrier exists to collapse
// concurrent misses: whoever leads a flight looks again before loading) and the
// start of the loader; with loose=true it may lie anywhere between the invocation
// and the start of the loader (only used to name a failing history).  A Take
// that did not run its loader is a hit, unless another overlapping Take of the
// same key ON THE SAME cache returned the same result, in which case it may also
// have shared that call's result (SingleFlight) without touching the cache.
func (w *cacheWorld) history(loose bool) ([]cOp, bool) {
	r := w.r
	ops := append([]cOp{}, w.ops...)
	overlap := func(a, b *takeRec) bool { return a.call < b.ret && b.call < a.ret }
	for _, tr := range w.takes {
		if len(tr.loads) > 1 {
			r.Fail("cache-take-loader-repeated", "one Take(k%d) ran its loader %d times", tr.key, len(tr.loads))
			return nil, false
		}
		if len(tr.loads) == 1 {
			l := tr.loads[0]
			from, tFrom := tr.call, tr.tCall
			if !loose && tr.flight > 0 && tr.flight < l.start {
				from, tFrom = tr.flight, tr.tFlight
			}
			ops = append(ops, cOp{client: tr.client, call: from, ret: l.start, out: cOut{ok: false},
				in: cIn{kind: cGet, key: tr.key, tCall: tFrom, tRet: l.tStart, fromLoader: true}})
			if l.err != nil {
				if !errors.Is(tr.err, l.err) {
					r.Fail("cache-take-result", "Take(k%d) returned (%v, %v) although its own loader failed with %v", tr.key, tr.val, tr.err, l.err)
					return nil, false
				}
				continue
			}
			if tr.err != nil || tr.val != l.val {
				r.Fail("cache-take-result", "Take(k%d) returned (%v, %v) although its own loader produced %d", tr.key, tr.val, tr.err, l.val)
				return nil, false
			}
			ops = append(ops, cOp{client: tr.client, call: l.end, ret: tr.ret,
				in: cIn{kind: cSet, key: tr.key, val: l.val, expire: w.expire, tCall: l.tEnd, tRet: tr.tRet}})
			continue
		}
		shared := false
		for _, o := range w.takes {
			if o == tr || o.key != tr.key || !overlap(o, tr) {
				continue
			}
			if tr.err != nil {
				if o.err != nil && errors.Is(tr.err, o.err) {
					shared = true
				}
			} else if o.err == nil && o.val == tr.val {
				shared = true
			}
		}
		if tr.err != nil {
			if !shared {
				r.Fail("cache-take-result", "cache #%d: Take(k%d) returned error %v without running its loader and no overlapping Take of that key on this cache produced that error", w.id, tr.key, tr.err)
				return nil, false
			}
			continue
		}
		if !w.mine[tr.val] {
			r.Fail("cache-take-value-never-stored-in-this-cache", "cache #%d: Take(k%d) returned %d without running its loader; that value was never set into this cache nor produced by a loader of one of its Takes",
				w.id, tr.key, tr.val)
			return nil, false
		}
		kind := cGet
		if shared {
			kind = cMaybeGet
			if !loose {
				r.Probe("cache-take-possibly-shared")
			}
		}
		ops = append(ops, cOp{client: tr.client, call: tr.call, ret: tr.ret, out: cOut{val: tr.val, ok: true},
			in: cIn{kind: kind, key: tr.key, tCall: tr.tCall, tRet: tr.tRet}})
	}
	sort.SliceStable(ops, func(i, j int) bool { return ops[i].call < ops[j].call })
	return ops, true
}

var cacheExpires = []time.Duration{10 * time.Second, 5 * time.Second, 30 * time.Second, 60 * time.Second, 100 * time.Second,
	299 * time.Second, 300 * time.Second, 301 * time.Second, 400 * time.Second, 1000 * time.Second}

var entryExpires = []time.Duration{20 * time.Second, time.Second, 3 * time.Second, 50 * time.Second, 200 * time.Second,
	350 * time.Second, 500 * time.Second, 900 * time.Second, 500 * time.Millisecond}

const maxCacheVirtual = 3000 * time.Second

func cacheSequential(r *simrt.Run, tier string) {
	t := r.Tape
	limit := t.Intn(5)
	nKeys := t.Range(1, 5)
	expire := cacheExpires[t.Intn(len(cacheExpires))]
	maxOps := 30
	if tier == "thorough" {
		maxOps = 60
	}
	nOps := t.Range(1, maxOps)
	if t.Bool() {
		r.Sleep(time.Duration(t.Range(1, 1999)) * time.Millisecond)
	}
	w := newCacheWorld(r, limit, expire)
	if w == nil {
		return
	}
	type last struct {
		at     time.Duration
		expire time.Duration
		set    bool
	}
	lastSet := make([]last, nKeys)
	var script []string
	note := func(sl time.Duration, what string, k int) {
		if r.Tracing() {
			script = append(script, fmt.Sprintf("+%v %s k%d @%v", sl, what, k, r.Elapsed()))
		}
	}
	for i := 0; i < nOps; i++ {
		// time advance
		var sl time.Duration
		adv := t.Intn(10)
		if r.Elapsed() > maxCacheVirtual {
			adv = 0
		}
		switch adv {
		case 3:
			sl = time.Duration(t.Range(1, 999)) * time.Millisecond
		case 4:
			sl = time.Duration(t.Range(1, 5)) * time.Second
		case 5:
			// onto (or 1 ns next to) an instant at which the cache's timers tick
			d := r.Elapsed() - w.created
			sl = time.Second - d%time.Second + time.Duration(t.Intn(3)-1)
			r.Probe("cache-op-at-tick-instant")
		case 6, 7, 9:
			// relative to the life of an entry: just inside the guaranteed life, around its expiry,
			// or just past the latest instant at which it may still be there
			k := t.Intn(nKeys)
			if lastSet[k].set {
				age := r.Elapsed() - lastSet[k].at
				var target time.Duration
				switch adv {
				case 6:
					target = guaranteedLife(lastSet[k].expire) - 1
					r.Probe("cache-op-at-end-of-guaranteed-life")
				case 7:
					target = lastSet[k].expire * time.Duration(t.Range(90, 110)) / 100
					if t.Bool() {
						// on the tick grid
						abs := lastSet[k].at + target - w.created
						target += time.Second - abs%time.Second
					}
					r.Probe("cache-op-around-expiry")
				default:
					target = upperLife(lastSet[k].expire) + 1 + time.Duration(t.Range(0, 2000))*time.Millisecond
					r.Probe("cache-op-past-latest-expiry")
				}
				if target > age {
					sl = target - age
				}
			}
		case 8:
			sl = expire + time.Duration(t.Range(0, int(expire/time.Second)))*time.Second
		}
		if sl > 0 {
			r.Sleep(sl)
		}
		k := t.Intn(nKeys)
		var what string
		switch v := t.Intn(23); {
		case v < 7:
			w.get(0, k)
			what = "Get"
		case v < 12:
			lastSet[k] = last{at: r.Elapsed(), expire: expire, set: true}
			w.set(0, k, 0)
			what = "Set"
		case v < 14:
			e := entryExpires[t.Intn(len(entryExpires))]
			lastSet[k] = last{at: r.Elapsed(), expire: e, set: true}
			w.set(0, k, e)
			what = fmt.Sprintf("SetWithExpire(%v)", e)
		case v < 16:
			w.del(0, k)
			lastSet[k].set = false
			what = "Del"
		case v < 19:
			fail := t.Chance(1, 5)
			n := len(w.takes)
			w.take(0, k, fail, 0, 0)
			if len(w.takes[n].loads) > 0 && !fail {
				lastSet[k] = last{at: r.Elapsed(), expire: expire, set: true}
			}
			what = fmt.Sprintf("Take(fail=%v)", fail)
		case v < 20:
			w.length(0)
			what = "Len"
		default:
			// an entry overwritten while it is live (other value, other expiry), then the clock
			// moves past the latest instant the refreshed entry may still be there: it must be gone
			if r.Elapsed() > maxCacheVirtual {
				w.get(0, k)
				what = "Get"
				break
			}
			pick := func() time.Duration { // 0: Set with the cache's default expiry
				if t.Bool() {
					return entryExpires[t.Intn(len(entryExpires))]
				}
				return 0
			}
			eff := func(e time.Duration) time.Duration {
				if e == 0 {
					return expire
				}
				return e
			}
			e1 := pick()
			w.set(0, k, e1)
			note(sl, fmt.Sprintf("scenario: set(%v)", eff(e1)), k)
			gap := time.Duration(t.Range(0, 2000)) * time.Millisecond
			if g := guaranteedLife(eff(e1)) / 2; gap > g {
				gap = g
			}
			if gap > 0 {
				r.Sleep(gap)
			}
			e2 := pick()
			if eff(e2) == eff(e1) {
				e2 = entryExpires[(t.Intn(len(entryExpires)-1)+1)%len(entryExpires)]
			}
			w.set(0, k, e2)
			note(gap, fmt.Sprintf("scenario: overwrite(%v)", eff(e2)), k)
			if t.Chance(1, 4) {
				// used in between: a hit must not prolong the entry's life
				r.Sleep(time.Duration(t.Range(0, 900)) * time.Millisecond)
				w.get(0, k)
			}
			sl = upperLife(eff(e2)) + 1 + time.Duration(t.Range(0, 3000))*time.Millisecond
			r.Sleep(sl)
			w.get(0, k)
			lastSet[k] = last{at: r.Elapsed() - sl, expire: eff(e2), set: true}
			r.Probe("cache-overwrite-then-expire")
			what = "scenario: Get past the refreshed deadline"
		}
		note(sl, what, k)
	}
	// final observation of everything
	w.length(0)
	for k := 0; k < nKeys; k++ {
		w.get(0, k)
	}
	w.length(0)
	if r.Tracing() {
		r.Logf("cache(sequential) limit=%d expire=%v keys=%d: %v", limit, expire, nKeys, script)
	}
	r.Sample(map[string]any{"component": "Cache(single client)", "limit": limit, "expire": expire.String(), "keys": nKeys, "ops": nOps, "virtual": r.Elapsed().String()})
	ops, ok := w.history(false)
	if !ok {
		return
	}
	r.Probe("oracle")
	r.Probe("nontrivial")
	for _, o := range ops {
		if o.in.kind == cGet && !o.out.ok && !o.in.fromLoader {
			r.Probe("cache-miss-observed")
		}
	}
	strict := &cacheModel{limit: limit}
	i, before := strict.checkSequential(ops)
	if i < 0 {
		// nothing went away early or came from nowhere; did everything go away in time?
		if !timingObservable(r) {
			r.Probe("cache-upper-bound-not-asserted-stalls")
			return
		}
		r.Probe("cache-upper-bound-asserted")
		up := &cacheModel{limit: limit, upper: true}
		if j, bef := up.checkSequential(ops); j >= 0 {
			cls, why := outlivesClass, ""
			marked := append([]cOp{}, ops...)
			markMayLoseTimer(marked)
			rel := &cacheModel{limit: limit, upper: true, upperRelaxed: true}
			if jj, _ := rel.checkSequential(marked); jj < 0 {
				cls = neverExpiresAfterExpiry
				why = "; the entry (or the entry it overwrote) was stored at an instant at which the timer of the key's previous entry may have been firing: that entry's expiry task deletes the data and removes the key's timer in two steps, a store in between loses its fresh timer"
			}
			r.Fail(cls, "single client, limit=%d expire=%v: operation #%d %v (invoked at %v) still finds an entry whose age since the return of its last store exceeds 1.05 x expire + 3 s%s; model states before it (entries past that age already removed): %v\nhistory:%s",
				limit, expire, j, ops[j], ops[j].in.tCall, why, bef, describeOps(ops[:j+1]))
		}
		return
	}
	for _, lvl := range []int{1, 2, 4} { // level 3 needs a second client
		relaxed := &cacheModel{limit: limit, relaxed: lvl}
		if j, _ := relaxed.checkSequential(ops); j < 0 {
			r.Fail(relaxedClass[lvl], "single client, limit=%d expire=%v: %s: %s", limit, expire, relaxedWhat[lvl], describeFailure(limit, ops, i, before))
			return
		}
	}
	cls, desc := classifySequential(limit, ops, i, before)
	r.Fail(cls, "single client, limit=%d expire=%v: %s\nhistory:%s", limit, expire, desc, describeOps(ops[:i+1]))
}

func describeFailure(limit int, ops []cOp, i int, before []cState) string {
	_, desc := classifySequential(limit, ops, i, before)
	return desc + "\nhistory:" + describeOps(ops[:i+1])
}

// cachePlanOp is one step of a client of a concurrent cache workload.
type cachePlanOp struct {
	cache     int
	kind      int // 0 get 1 set 2 del 3 take 4 len
	key       int
	think     time.Duration
	expire    time.Duration // kind 1: > 0 = SetWithExpire
	fail      bool
	loadYield int
	loadSleep time.Duration
}

func runCacheClients(r *simrt.Run, worlds []*cacheWorld, plans [][]cachePlanOp) bool {
	var tasks []*simrt.Task
	for c := range plans {
		c := c
		tasks = append(tasks, r.Go(fmt.Sprintf("client%d", c), func() {
			for _, o := range plans[c] {
				if o.think > 0 {
					r.Sleep(o.think)
				}
				w := worlds[o.cache]
				switch o.kind {
				case 0:
					w.get(c, o.key)
				case 1:
					w.set(c, o.key, o.expire)
				case 2:
					w.del(c, o.key)
				case 3:
					w.take(c, o.key, o.fail, o.loadYield, o.loadSleep)
				default:
					w.length(c)
				}
			}
		}))
	}
	if !r.JoinTimeout(6*time.Hour, tasks...) {
		r.Fail("cache-stuck", "Cache clients did not all return: %v", r.AliveTasks())
		return false
	}
	return true
}

// allGoneAfterIdle: after every client returned, a quiescence and an idle period longer than the
// latest possible expiry of anything ever stored, every cache must be empty.
func allGoneAfterIdle(r *simrt.Run, worlds []*cacheWorld, nKeys int) bool {
	if !timingObservable(r) {
		r.Probe("cache-upper-bound-not-asserted-stalls")
		return true
	}
	var idle time.Duration
	for _, w := range worlds {
		if u := upperLife(w.maxExpire); u > idle {
			idle = u
		}
	}
	idle += time.Second
	r.Quiesce()
	done := r.Elapsed()
	r.Sleep(idle)
	r.Quiesce()
	r.Probe("cache-upper-bound-asserted")
	for _, w := range worlds {
		n := collection.VerifCacheLen(w.c)
		var left []string
		cls := ""
		for k := 0; k < nKeys; k++ {
			if v, ok := w.c.Get(key(k)); ok {
				left = append(left, fmt.Sprintf("k%d=%v", k, v))
				if c := w.outlivesClass(k); cls == "" || c == outlivesClass {
					cls = c
				}
			}
		}
		if len(left) == 0 && n == 0 {
			continue
		}
		if cls == "" {
			cls = outlivesClass
		}
		ops, _ := w.history(true)
		r.Fail(cls, "cache #%d (limit=%d expire=%v, longest expiry of any store %v): all clients had returned at %v, the cache was then left alone for %v (longer than 1.05 x the longest expiry + 3 s) and still holds %d entries, Get finds %v:%s",
			w.id, w.limit, w.expire, w.maxExpire, done, idle, n, left, describeOps(ops))
		return false
	}
	return true
}

// outlivesClass names a history in which key k was still there after the final idle period.
// Two ways in which the unchanged cache loses the TIMER of a live entry are recognised by
// features of the history (both are the two-step "delete data, then remove the key's timer" of
// Cache.Del meeting a store in between); any other history gets the generic class.
func (w *cacheWorld) outlivesClass(k int) string {
	ops, ok := w.history(true)
	if !ok {
		return outlivesClass
	}
	for _, d := range ops {
		if d.in.kind != cDel || d.in.key != k {
			continue
		}
		for _, s := range ops {
			if s.in.kind == cSet && s.in.key == k && s.client != d.client && s.call < d.ret && d.call < s.ret {
				return neverExpiresAfterDel
			}
		}
	}
	markMayLoseTimer(ops)
	for _, s := range ops {
		if s.in.kind == cSet && s.in.key == k && s.in.mayLoseTimer {
			return neverExpiresAfterExpiry
		}
	}
	return outlivesClass
}

const racingStoresClass = "cache-value-expires-with-timer-of-overlapping-set-of-same-key"

func shorterExpiryOfRacingStores(ops []cOp) ([]cOp, bool) {
	alt := append([]cOp{}, ops...)
	changed := false
	for i := range alt {
		s := &alt[i]
		if s.in.kind != cSet {
			continue
		}
		for _, o := range ops {
			if o.in.kind == cSet && o.in.key == s.in.key && o.client != s.client && o.call < s.ret && s.call < o.ret && o.in.expire < s.in.expire {
				s.in.expire = o.in.expire
				changed = true
			}
		}
	}
	return alt, changed
}

// judgeConcurrent decides the concurrent history of one cache.
func judgeConcurrent(r *simrt.Run, w *cacheWorld, who string) bool {
	limit, expire := w.limit, w.expire
	ops, ok := w.history(false)
	if !ok {
		return false
	}
	r.Probe("oracle")
	switch checkCacheHistory(limit, 0, ops) {
	case linUnknown:
		r.Probe("porcupine-unknown")
	case linIllegal:
		for lvl := 1; lvl <= maxRelaxed; lvl++ {
			switch checkCacheHistory(limit, lvl, ops) {
			case linOK:
				r.Fail(relaxedClass[lvl], "%s, limit=%d expire=%v: the history is only explained if %s:%s", who, limit, expire, relaxedWhat[lvl], describeOps(ops))
				return false
			case linUnknown:
				r.Probe("porcupine-unknown")
				return true
			}
		}
		// two stores of one key by different clients overlap and carry different expiries: Set stores the
		// value under the lock and arms/moves the key's timer afterwards, so the value of one call can end
		// up with the timer of the other.  Recognised by giving each such store the shorter of the expiries.
		if alt, changed := shorterExpiryOfRacingStores(ops); changed {
			for lvl := 0; lvl <= maxRelaxed; lvl++ {
				res := checkCacheHistory(limit, lvl, alt)
				if res == linUnknown {
					break
				}
				if res == linOK {
					r.Fail(racingStoresClass, "%s, limit=%d expire=%v: a value disappeared before the expiry it was stored with; the history is only explained if a store that overlapped another client's store of the same key with a shorter expiry got that other store's timer (value of one call, expiry of the other):%s",
						who, limit, expire, describeOps(ops))
					return false
				}
			}
		}
		// is the only thing wrong the instant of a lookup miss that justifies a loader run?
		if loose, ok := w.history(true); ok {
			for lvl := 0; lvl <= maxRelaxed; lvl++ {
				res := checkCacheHistory(limit, lvl, loose)
				if res == linUnknown {
					break
				}
				if res == linOK {
					r.Fail("cache-take-loader-after-completed-store", "%s, limit=%d expire=%v: a Take ran its loader although, when it entered the cache's single-flight barrier, the key had been stored by a call that completed after the Take was invoked and nothing can have removed it since (no Del, no possible eviction, far from expiry): the lookup miss that justifies a loader run must lie between the entry into the flight and the loader start:%s",
						who, limit, expire, describeOps(ops))
					return false
				}
			}
		}
		r.Fail("cache-nonlinearizable", "%s, limit=%d expire=%v: no linearization of the history is a behaviour of an LRU cache with expiry:%s", who, limit, expire, describeOps(ops))
		return false
	}
	return true
}

func cacheConcurrent(r *simrt.Run, tier string) {
	t := r.Tape
	maxC, maxP := 3, 6
	if tier == "thorough" {
		maxC, maxP = 4, 7
	}
	clients := t.Range(2, maxC)
	perClient := t.Range(1, maxP)
	for clients*perClient > 20 {
		perClient--
	}
	nKeys := t.Range(1, 3)
	limit := t.Intn(4)
	expire := []time.Duration{10 * time.Second, 5 * time.Second, 30 * time.Second, 60 * time.Second}[t.Intn(4)]
	plans := make([][]cachePlanOp, clients)
	for c := range plans {
		for j := 0; j < perClient; j++ {
			o := cachePlanOp{key: t.Intn(nKeys)}
			switch t.Intn(8) {
			case 5:
				o.think = time.Duration(t.Range(1, 50)) * time.Millisecond
			case 6:
				o.think = time.Duration(t.Range(1, 4)) * time.Second
			case 7:
				o.think = time.Duration(int(expire/time.Second)*t.Range(80, 120)/100) * time.Second
			}
			switch v := t.Intn(20); {
			case v < 6:
				o.kind = 0
			case v < 11:
				o.kind = 1
			case v < 13:
				o.kind = 2
			case v < 18:
				o.kind = 3
				o.fail = t.Chance(1, 5)
				o.loadYield = t.Intn(3)
				if t.Chance(1, 3) {
					o.loadSleep = time.Duration(t.Range(1, 1500)) * time.Millisecond
				}
			default:
				o.kind = 4
			}
			plans[c] = append(plans[c], o)
		}
	}
	if r.Tracing() {
		r.Logf("cache(concurrent) clients=%d keys=%d limit=%d expire=%v plans=%+v", clients, nKeys, limit, expire, plans)
	}
	r.Sample(map[string]any{"component": "Cache(concurrent)", "clients": clients, "keys": nKeys, "limit": limit, "expire": expire.String(), "ops_per_client": perClient,
		"first_client_plan": fmt.Sprintf("%+v", plans[0])})
	w := newCacheWorld(r, limit, expire)
	if w == nil {
		return
	}
	if !runCacheClients(r, []*cacheWorld{w}, plans) {
		return
	}
	if !allGoneAfterIdle(r, []*cacheWorld{w}, nKeys) {
		return
	}
	judgeConcurrent(r, w, fmt.Sprintf("%d clients", clients))
}

// cacheMulti: two (sometimes three) caches built the default way (sometimes with distinct
// names) in one process, the same small key set on all of them, values unique across caches,
// clients whose Takes on different caches overlap.  Every cache is judged on its own history by
// its own model: what happens on one cache must not show on another.
func cacheMulti(r *simrt.Run, tier string) {
	t := r.Tape
	nCaches := 2
	if t.Chance(1, 4) {
		nCaches = 3
	}
	named := t.Chance(1, 3)
	maxC, maxP := 3, 6
	if tier == "thorough" {
		maxC, maxP = 4, 8
	}
	clients := t.Range(2, maxC)
	perClient := t.Range(1, maxP)
	for clients*perClient > 24 {
		perClient--
	}
	nKeys := t.Range(1, 2)
	limit := t.Intn(3)
	expire := []time.Duration{10 * time.Second, 5 * time.Second, 30 * time.Second, 60 * time.Second}[t.Intn(4)]
	// storm: every client starts with a Take of the same key at the same instant (on one cache, or
	// spread over the caches), so that flights have followers while the other operations go on
	storm, stormAcross := t.Chance(1, 3), false
	if storm {
		stormAcross = t.Bool()
	}
	plans := make([][]cachePlanOp, clients)
	for c := range plans {
		for j := 0; j < perClient; j++ {
			o := cachePlanOp{key: t.Intn(nKeys), cache: t.Intn(nCaches)}
			if storm && j == 0 {
				o = cachePlanOp{kind: 3, loadYield: t.Intn(4)}
				if stormAcross {
					o.cache = c % nCaches
				}
				if t.Bool() {
					o.loadSleep = time.Duration(t.Range(1, 1500)) * time.Millisecond
				}
				plans[c] = append(plans[c], o)
				continue
			}
			switch t.Intn(10) {
			case 6:
				o.think = time.Duration(t.Range(1, 50)) * time.Millisecond
			case 7:
				o.think = time.Duration(t.Range(1, 1500)) * time.Millisecond
			case 8:
				o.think = time.Duration(t.Range(1, 4)) * time.Second
			case 9:
				o.think = time.Duration(int(expire/time.Second)*t.Range(80, 120)/100) * time.Second
			}
			switch v := t.Intn(20); {
			case v < 10:
				o.kind = 3
				o.fail = t.Chance(1, 5)
				o.loadYield = t.Intn(4)
				if t.Chance(1, 2) {
					o.loadSleep = time.Duration(t.Range(1, 1500)) * time.Millisecond
				}
			case v < 13:
				o.kind = 0
			case v < 16:
				o.kind = 1
				if t.Chance(1, 4) {
					o.expire = []time.Duration{20 * time.Second, 2 * time.Second, 90 * time.Second}[t.Intn(3)]
				}
			case v < 18:
				o.kind = 2
			default:
				o.kind = 4
			}
			plans[c] = append(plans[c], o)
		}
	}
	if r.Tracing() {
		r.Logf("cache(multi) caches=%d named=%v storm=%v clients=%d keys=%d limit=%d expire=%v plans=%+v", nCaches, named, storm, clients, nKeys, limit, expire, plans)
	}
	r.Sample(map[string]any{"component": "Cache(several caches, concurrent)", "caches": nCaches, "distinct_names": named, "clients": clients, "keys": nKeys, "limit": limit,
		"expire": expire.String(), "ops_per_client": perClient, "first_client_plan": fmt.Sprintf("%+v", plans[0])})
	sh := &cacheShared{}
	var worlds []*cacheWorld
	for i := 0; i < nCaches; i++ {
		name := ""
		if named {
			name = fmt.Sprintf("cache-%d", i)
		}
		w := newCacheWorldIn(r, sh, i, limit, expire, name)
		if w == nil {
			return
		}
		worlds = append(worlds, w)
	}
	if !runCacheClients(r, worlds, plans) {
		return
	}
	// did Takes of one key on two different caches overlap?
	for i, a := range worlds {
		for _, b := range worlds[i+1:] {
			for _, x := range a.takes {
				for _, y := range b.takes {
					if x.key == y.key && x.call < y.ret && y.call < x.ret && len(x.loads)+len(y.loads) > 0 {
						r.Probe("cache-multi-takes-overlap-across-caches")
					}
				}
			}
		}
	}
	if !allGoneAfterIdle(r, worlds, nKeys) {
		return
	}
	for _, w := range worlds {
		if !judgeConcurrent(r, w, fmt.Sprintf("cache #%d of %d (distinct names: %v), %d clients", w.id, nCaches, named, clients)) {
			return
		}
	}
}

// classes of the known-finding family "the expiry task deletes by key" (cachemodel_test.go, cacheModel.relaxed)
var relaxedClass = [...]string{"", "cache-fresh-set-deleted-by-expiry-of-previous-entry", "cache-fresh-set-deleted-by-expiry-of-deleted-or-evicted-entry",
	"cache-fresh-set-deleted-by-orphan-timer-of-set-racing-del", "cache-fresh-set-deleted-by-second-expiry-task-in-flight",
	"cache-fresh-set-deleted-by-orphan-timer-of-set-racing-eviction"}

const maxRelaxed = 5

var relaxedWhat = [...]string{"", "a value set over an entry whose timer was due disappeared although it was neither deleted, evicted nor old enough to expire",
	"a value set after the key's previous entry was deleted (Del) or evicted while that entry's timer was due disappeared although it was neither deleted, evicted nor old enough to expire",
	"a Del overlapping a Set of the same key left that Set's timer behind and the timer later deleted a newer value that was neither deleted, evicted nor old enough to expire",
	"two expiry tasks of one key were in flight at once (Sets over entries whose timers were due, e.g. SetWithExpire below the 1 s timer tick, which runs the expiry at once and asynchronously): the first removed the entry, the second deleted a value stored afterwards that was neither deleted, evicted nor old enough to expire",
	"an LRU eviction caused by another client's store overlapped a Set of the evicted key and left that Set's timer behind; the timer later deleted a newer value that was neither deleted, evicted nor old enough to expire"}
