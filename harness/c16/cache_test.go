package c16

import (
	"context"
	"errors"
	"fmt"
	"runtime"
	"sort"
	"strings"
	"time"

	"github.com/zeromicro/go-zero/core/collection"
	"github.com/zeromicro/go-zero/core/syncx"

	"verifsim/simrt"
)

// Cache workloads.  The cache's timing wheel and statistics loop run on the
// bubble's virtual clock; there is no Stop on Cache, so their goroutines are
// declared background.

type loadRec struct {
	key        int
	start, end int64
	tStart     time.Duration
	tEnd       time.Duration
	val        int
	err        error
	panicked   bool // the loader ended by panicking (nothing loaded)
}

// loadSpec is what the loader of one Take does.
type loadSpec struct {
	// errKind: 0 succeeds; 1 a fresh error; 2 a bare sentinel (context.DeadlineExceeded); 3 a wrapped sentinel (context.Canceled);
	// 4 an error of a struct type; 5 the package's own collection.ErrArgument; 6 bare context.Canceled; 7 context.DeadlineExceeded
	// wrapped with %w; 8 errors.Join(context.Canceled, a fresh error); 9 errors.Join(a fresh error, context.DeadlineExceeded
	// wrapped with %w); 10 an error of a struct type whose Unwrap gives context.Canceled
	errKind   int
	panicKind int // 0 none; 1 a string; 2 an error value; 3 a runtime error (write to a nil map); 4 a struct value
	yields    int
	sleep     time.Duration
	nest      *nestSpec // an operation the loader itself issues on a cache while it runs (dependent lookups, layered caches)
	// gap: the calling goroutine is preempted for this long (virtual time) between Take's first lookup and
	// its entry into the cache's barrier (flightSpy.enter; 0: only the yield)
	gap time.Duration
}

// ctxErrKinds: the loader error identities that are (or wrap, or join) a context error: what a loader
// reports whose own caller gave up or ran out of time.
var ctxErrKinds = []int{2, 3, 6, 7, 8, 9, 10}

func isCtxErrKind(k int) bool {
	for _, x := range ctxErrKinds {
		if x == k {
			return true
		}
	}
	return false
}

// loadCtxFailure is an error of a struct type that unwraps to a context error.
type loadCtxFailure struct {
	n     int64
	cause error
}

func (e loadCtxFailure) Error() string { return fmt.Sprintf("load-gave-up-%d: %v", e.n, e.cause) }
func (e loadCtxFailure) Unwrap() error { return e.cause }

// loaderError builds the error a failing loader returns (n: the logical instant of the loader start).
func loaderError(kind, k int, n int64) error {
	switch kind {
	case 2:
		return context.DeadlineExceeded
	case 3:
		return fmt.Errorf("load k%d #%d: %w", k, n, context.Canceled)
	case 4:
		return loadFailure{n}
	case 5:
		return collection.ErrArgument
	case 6:
		return context.Canceled
	case 7:
		return fmt.Errorf("load k%d #%d: %w", k, n, context.DeadlineExceeded)
	case 8:
		return errors.Join(context.Canceled, fmt.Errorf("load-error-%d", n))
	case 9:
		return errors.Join(fmt.Errorf("load-error-%d", n), fmt.Errorf("load k%d: %w", k, context.DeadlineExceeded))
	case 10:
		return loadCtxFailure{n, context.Canceled}
	}
	return fmt.Errorf("load-error-%d", n)
}

type nestSpec struct {
	cache int // index of the cache (several caches) the nested operation goes to
	kind  int // 0 get 1 set 2 del 3 take (plain loader)
	key   int
}

type loadFailure struct{ n int64 }

func (e loadFailure) Error() string { return fmt.Sprintf("load-failure-%d", e.n) }

type loadPanic struct{ n int64 }

var errLoadPanic = errors.New("load-panic-error")

func (sp loadSpec) String() string {
	s := fmt.Sprintf("{err:%d panic:%d yields:%d sleep:%v", sp.errKind, sp.panicKind, sp.yields, sp.sleep)
	if sp.gap > 0 {
		s += fmt.Sprintf(" preempted-before-barrier:%v", sp.gap)
	}
	if sp.nest != nil {
		s += fmt.Sprintf(" nested:%+v", *sp.nest)
	}
	return s + "}"
}

// drawLoad draws the behaviour of a loader; the zero draws give a loader that returns a value at once.
func drawLoad(t *simrt.Tape, nKeys, nCaches int) loadSpec {
	var sp loadSpec
	if t.Chance(1, 5) {
		switch x := t.Intn(14); {
		case x < 5:
			sp.errKind = x + 1
		case x < 9:
			sp.panicKind = x - 4
		default:
			sp.errKind = x - 3 // 6..10: further context error identities
		}
	}
	if t.Chance(1, 6) {
		sp.nest = &nestSpec{kind: t.Intn(4), key: t.Intn(nKeys), cache: t.Intn(nCaches)}
	}
	return sp
}

type takeRec struct {
	client, key int
	call, ret   int64
	tCall, tRet time.Duration
	// flight: the instant this Take entered the cache's SingleFlight barrier (0: it never did:
	// first lookup hit); observed by flightSpy, stamped before the call is delegated
	flight  int64
	tFlight time.Duration
	flights int
	gap     time.Duration // loadSpec.gap
	val     int
	err     error
	loads   []*loadRec
	// the call ended by a panic that one of the harness' loaders raised (its own loader: the
	// panic came through; another Take's loader: the shared call passed it on)
	panicked bool
}

// cacheShared is what the caches of one run have in common: one logical clock
// and one source of values, so that every value is unique across all caches.
type cacheShared struct {
	clk     int64
	nextVal int
	// keyMode: how key numbers are spelt (0 "k<n>"; 1 the empty string and near-collisions; 2 long / non-ASCII)
	keyMode int
	// payload: 0 every value is an int; 1 the dynamic type of a value varies (int, string, slice and map
	// - not comparable -, pointer)
	payload int
	// zeroLimit: how "no limit" is spelt (0 no option; 1 WithLimit(0); 2 WithLimit(negative))
	zeroLimit int
	// runtimePanics: number of loaders that ended with a runtime error so far
	runtimePanics int
}

func newCacheShared(t *simrt.Tape) *cacheShared {
	sh := &cacheShared{}
	if t.Chance(1, 3) {
		sh.keyMode = t.Range(1, 2)
	}
	if t.Chance(1, 3) {
		sh.payload = 1
	}
	if t.Chance(1, 3) {
		sh.zeroLimit = t.Range(1, 2)
	}
	return sh
}

var cacheKeyNames = [3][]string{nil,
	{"", "k", "k0", "k00", "K0"},
	{strings.Repeat("p", 300) + "0", strings.Repeat("p", 300) + "1", "κλειδί-2", "k\x003", "a b\tc\n4"}}

func (sh *cacheShared) key(k int) string {
	if n := cacheKeyNames[sh.keyMode]; k < len(n) {
		return n[k]
	}
	return fmt.Sprintf("k%d", k)
}

type cachePayload struct{ v int }

func (sh *cacheShared) enc(v int) any {
	if sh.payload == 0 {
		return v
	}
	switch v % 5 {
	case 1:
		return fmt.Sprintf("v%d", v)
	case 2:
		return []int{v}
	case 3:
		return map[string]int{"v": v}
	case 4:
		return &cachePayload{v}
	}
	return v
}

func (sh *cacheShared) dec(x any) int {
	switch p := x.(type) {
	case int:
		return p
	case string:
		var v int
		if _, err := fmt.Sscanf(p, "v%d", &v); err == nil {
			return v
		}
	case []int:
		if len(p) == 1 {
			return p[0]
		}
	case map[string]int:
		if v, ok := p["v"]; ok && len(p) == 1 {
			return v
		}
	case *cachePayload:
		if p != nil {
			return p.v
		}
	}
	return -1
}

type cacheWorld struct {
	r       *simrt.Run
	sh      *cacheShared
	id      int
	c       *collection.Cache
	limit   int
	expire  time.Duration
	created time.Duration
	ops     []cOp
	takes   []*takeRec
	// inTake: the Take each task is currently inside (key: task id), for flightSpy
	inTake map[int]*takeRec
	// mine: every value handed to THIS cache (Set, SetWithExpire, results of loaders of its Takes)
	mine map[int]bool
	// longest expiry of any store issued on this cache
	maxExpire time.Duration
	// peers: all caches of the run (index = id), for loaders that go to another cache
	peers []*cacheWorld
	nKeys int
}

func (w *cacheWorld) key(k int) string { return w.sh.key(k) }

func (w *cacheWorld) tick() int64 { w.sh.clk++; return w.sh.clk }

func (w *cacheWorld) newVal() int {
	w.sh.nextVal++
	w.mine[w.sh.nextVal] = true
	return w.sh.nextVal
}

// flightSpy is a pass-through around the cache's barrier that records the
// instant at which a Take enters it.  The yield stands for a preemption between
// Take's first lookup and the barrier (there is no synchronisation operation in
// between); recording happens after it and before the call is delegated.
type flightSpy struct {
	w     *cacheWorld
	inner syncx.SingleFlight
}

func (f *flightSpy) enter() {
	w := f.w
	w.r.Yield()
	tr := w.inTake[w.r.CurrentID()]
	if tr == nil {
		return
	}
	if tr.flights == 0 && tr.gap > 0 {
		w.r.Probe("cache-take-preempted-between-lookup-and-barrier")
		w.r.Sleep(tr.gap)
	}
	tr.flights++
	if tr.flights == 1 {
		tr.flight = w.tick()
		tr.tFlight = w.r.Elapsed()
		w.r.Ev("flight", int64(tr.client), int64(tr.key))
	}
}

func (f *flightSpy) Do(key string, fn func() (any, error)) (any, error) {
	f.enter()
	return f.inner.Do(key, fn)
}

func (f *flightSpy) DoEx(key string, fn func() (any, error)) (any, bool, error) {
	f.enter()
	return f.inner.DoEx(key, fn)
}

func newCacheWorld(r *simrt.Run, sh *cacheShared, limit int, expire time.Duration) *cacheWorld {
	return newCacheWorldIn(r, sh, 0, limit, expire, "")
}

func newCacheWorldIn(r *simrt.Run, sh *cacheShared, id, limit int, expire time.Duration, name string) *cacheWorld {
	var opts []collection.CacheOption
	switch {
	case limit > 0:
		opts = append(opts, collection.WithLimit(limit))
	case sh.zeroLimit == 1:
		opts = append(opts, collection.WithLimit(0))
		r.Probe("cache-unlimited-spelt-as-limit-zero-or-negative")
	case sh.zeroLimit == 2:
		opts = append(opts, collection.WithLimit(-3))
		r.Probe("cache-unlimited-spelt-as-limit-zero-or-negative")
	}
	if name != "" {
		opts = append(opts, collection.WithName(name))
	}
	c, err := collection.NewCache(expire, opts...)
	if err != nil {
		r.Fail("cache-new", "NewCache(%v): %v", expire, err)
		return nil
	}
	r.MarkBackground(func(name string) bool { return strings.Contains(name, "collection/") })
	w := &cacheWorld{r: r, sh: sh, id: id, c: c, limit: limit, expire: expire, created: r.Elapsed(),
		inTake: map[int]*takeRec{}, mine: map[int]bool{}, maxExpire: expire}
	collection.VerifWrapCacheBarrier(c, func(inner syncx.SingleFlight) syncx.SingleFlight {
		return &flightSpy{w: w, inner: inner}
	})
	return w
}

// timingObservable: the upper bound on an entry's life (upperLife) assumes that the cache's
// timer goroutines get to run; it is not asserted in runs whose fault mix parks tasks inside
// real code for up to 2 s of virtual time (each such stall of the wheel goroutine loses ticks).
func timingObservable(r *simrt.Run) bool {
	c := r.Cfg()
	return c.StallPerMille == 0 || c.StallMax <= 50*time.Millisecond
}

func (w *cacheWorld) record(client int, in cIn, out cOut, call, ret int64) {
	w.ops = append(w.ops, cOp{client: client, in: in, out: out, call: call, ret: ret})
}

func (w *cacheWorld) get(client, k int) {
	in := cIn{kind: cGet, key: k, tCall: w.r.Elapsed()}
	call := w.tick()
	w.r.Ev("get", int64(client), int64(k))
	v, ok := w.c.Get(w.key(k))
	ret := w.tick()
	in.tRet = w.r.Elapsed()
	out := cOut{ok: ok}
	if ok {
		out.val = w.sh.dec(v)
	}
	w.r.Ev("got", int64(out.val))
	w.record(client, in, out, call, ret)
}

func (w *cacheWorld) set(client, k int, expire time.Duration) int {
	v := w.newVal()
	w.setVal(client, k, expire, v)
	return v
}

// setVal stores a given value (set: a value never used before).
func (w *cacheWorld) setVal(client, k int, expire time.Duration, v int) {
	if expire > w.maxExpire {
		w.maxExpire = expire
	}
	in := cIn{kind: cSet, key: k, val: v, tCall: w.r.Elapsed()}
	call := w.tick()
	w.r.Ev("set", int64(client), int64(k), int64(v), int64(expire))
	if expire > 0 {
		in.expire = expire
		w.c.SetWithExpire(w.key(k), w.sh.enc(v), expire)
	} else {
		in.expire = w.expire
		w.c.Set(w.key(k), w.sh.enc(v))
	}
	ret := w.tick()
	in.tRet = w.r.Elapsed()
	w.record(client, in, cOut{}, call, ret)
}

func (w *cacheWorld) del(client, k int) {
	in := cIn{kind: cDel, key: k, tCall: w.r.Elapsed()}
	call := w.tick()
	w.r.Ev("del", int64(client), int64(k))
	w.c.Del(w.key(k))
	ret := w.tick()
	in.tRet = w.r.Elapsed()
	w.record(client, in, cOut{}, call, ret)
}

func (w *cacheWorld) length(client int) {
	in := cIn{kind: cLen, key: -1, tCall: w.r.Elapsed()}
	call := w.tick()
	n := collection.VerifCacheLen(w.c)
	ret := w.tick()
	in.tRet = w.r.Elapsed()
	w.r.Ev("len", int64(n))
	w.record(client, in, cOut{n: n}, call, ret)
}

func (w *cacheWorld) take(client, k int, sp loadSpec) {
	tr := &takeRec{client: client, key: k, tCall: w.r.Elapsed(), gap: sp.gap}
	w.takes = append(w.takes, tr)
	tr.call = w.tick()
	w.r.Ev("take", int64(client), int64(k), int64(sp.errKind), int64(sp.panicKind))
	tid := w.r.CurrentID()
	prev := w.inTake[tid] // a Take issued by the loader of another Take of this task
	w.inTake[tid] = tr
	defer func() {
		if prev != nil {
			w.inTake[tid] = prev
		} else {
			delete(w.inTake, tid)
		}
	}()
	var v any
	var err error
	func() {
		defer func() {
			if p := recover(); p != nil {
				if !w.sh.ourPanic(p) {
					panic(p)
				}
				tr.panicked = true
			}
		}()
		v, err = w.c.Take(w.key(k), func() (any, error) {
			l := &loadRec{key: k, start: w.tick(), tStart: w.r.Elapsed()}
			tr.loads = append(tr.loads, l)
			w.r.Ev("load", int64(client), int64(k))
			yields(w.r, sp.yields)
			if sp.sleep > 0 {
				w.r.Sleep(sp.sleep)
			}
			if sp.nest != nil {
				w.nested(client, k, *sp.nest)
			}
			switch {
			case sp.panicKind > 0:
				l.panicked = true
			case sp.errKind > 0:
				l.err = loaderError(sp.errKind, k, l.start)
			default:
				l.val = w.newVal()
			}
			l.tEnd = w.r.Elapsed()
			l.end = w.tick()
			switch sp.panicKind {
			case 1:
				w.r.Probe("cache-loader-panicked")
				panic(fmt.Sprintf("load-panic-%d", l.start))
			case 2:
				w.r.Probe("cache-loader-panicked")
				panic(fmt.Errorf("%w #%d", errLoadPanic, l.start))
			case 3:
				w.r.Probe("cache-loader-panicked")
				w.sh.runtimePanics++
				var m map[int]int
				m[k] = 1
			case 4:
				w.r.Probe("cache-loader-panicked")
				panic(loadPanic{l.start})
			}
			if l.err != nil {
				if sp.errKind > 1 {
					w.r.Probe("cache-loader-error-sentinel-wrapped-or-typed")
				}
				if isCtxErrKind(sp.errKind) {
					w.r.Probe("cache-loader-error-context-identity")
					if sp.errKind >= 8 {
						w.r.Probe("cache-loader-error-context-joined-or-typed")
					}
				}
				return nil, l.err
			}
			return w.sh.enc(l.val), nil
		})
	}()
	tr.ret = w.tick()
	tr.tRet = w.r.Elapsed()
	tr.err = err
	if err == nil && !tr.panicked {
		tr.val = w.sh.dec(v)
	}
	w.r.Ev("taken", int64(tr.val))
}

// ourPanic: is p a value one of the harness' loaders panicked with?
func (sh *cacheShared) ourPanic(p any) bool {
	switch x := p.(type) {
	case loadPanic:
		return true
	case string:
		return strings.HasPrefix(x, "load-panic-")
	case runtime.Error:
		return sh.runtimePanics > 0
	case error:
		return errors.Is(x, errLoadPanic)
	}
	return false
}

// nested runs the operation a loader issues itself while loading key k on cache w.  A nested
// Take only goes "downwards" - to a cache with a larger index, or on the same cache to a larger
// key - so that loaders never wait for each other in a cycle (that would be a deadlock of the
// caller's own making); otherwise it is turned into a Get.
func (w *cacheWorld) nested(client, k int, n nestSpec) {
	tgt := w
	if n.cache < len(w.peers) && w.peers[n.cache] != nil {
		tgt = w.peers[n.cache]
	}
	key := n.key
	if tgt.nKeys > 0 {
		key %= tgt.nKeys
	}
	kind := n.kind
	if kind == 3 && !(tgt.id > w.id || (tgt.id == w.id && key > k)) {
		kind = 0
	}
	w.r.Probe("cache-loader-issues-cache-operation")
	if tgt != w {
		w.r.Probe("cache-loader-goes-to-another-cache")
	}
	switch kind {
	case 0:
		tgt.get(client, key)
	case 1:
		tgt.set(client, key, 0)
	case 2:
		tgt.del(client, key)
	default:
		w.r.Probe("cache-loader-issues-nested-take")
		tgt.take(client, key, loadSpec{})
	}
}

// history turns the recorded calls into model operations.  A Take that ran its
// loader is a lookup miss followed, when the loader succeeded, by a Set (between
// the end of the loader and the return).  The miss that justifies the loader run
// lies between the Take's ENTRY INTO THE FLIGHT (the barrier exists to collapse
// concurrent misses: whoever leads a flight looks again before loading) and the
// start of the loader; with loose=true it may lie anywhere between the invocation
// and the start of the loader (only used to name a failing history).  A Take
// that did not run its loader is a hit, unless another overlapping Take of the
// same key ON THE SAME cache returned the same result, in which case it may also
// have shared that call's result (SingleFlight) without touching the cache.
func (w *cacheWorld) history(loose bool) ([]cOp, bool) {
	r := w.r
	ops := append([]cOp{}, w.ops...)
	overlap := func(a, b *takeRec) bool { return a.call < b.ret && b.call < a.ret }
	for _, tr := range w.takes {
		if len(tr.loads) > 1 {
			r.Fail("cache-take-loader-repeated", "one Take(k%d) ran its loader %d times", tr.key, len(tr.loads))
			return nil, false
		}
		if len(tr.loads) == 1 {
			l := tr.loads[0]
			from, tFrom := tr.call, tr.tCall
			if !loose && tr.flight > 0 && tr.flight < l.start {
				from, tFrom = tr.flight, tr.tFlight
			}
			ops = append(ops, cOp{client: tr.client, call: from, ret: l.start, out: cOut{ok: false},
				in: cIn{kind: cGet, key: tr.key, tCall: tFrom, tRet: l.tStart, fromLoader: true}})
			if l.panicked {
				// nothing was loaded: the call may pass the panic on or report an error, it cannot succeed
				if !tr.panicked && tr.err == nil {
					r.Fail("cache-take-result", "cache #%d: Take(k%d) returned (%v, nil) although its own loader panicked", w.id, tr.key, tr.val)
					return nil, false
				}
				continue
			}
			if tr.panicked {
				r.Fail("cache-take-result", "cache #%d: Take(k%d) panicked although its own loader returned normally", w.id, tr.key)
				return nil, false
			}
			if l.err != nil {
				if !errors.Is(tr.err, l.err) {
					r.Fail("cache-take-result", "Take(k%d) returned (%v, %v) although its own loader failed with %v", tr.key, tr.val, tr.err, l.err)
					return nil, false
				}
				continue
			}
			if tr.err != nil || tr.val != l.val {
				r.Fail("cache-take-result", "Take(k%d) returned (%v, %v) although its own loader produced %d", tr.key, tr.val, tr.err, l.val)
				return nil, false
			}
			ops = append(ops, cOp{client: tr.client, call: l.end, ret: tr.ret,
				in: cIn{kind: cSet, key: tr.key, val: l.val, expire: w.expire, tCall: l.tEnd, tRet: tr.tRet}})
			continue
		}
		shared := false
		for _, o := range w.takes {
			if o == tr || o.key != tr.key || !overlap(o, tr) {
				continue
			}
			if len(o.loads) == 1 && o.loads[0].panicked {
				// the shared call panicked: its followers get an error (or the panic)
				if tr.err != nil || tr.panicked {
					shared = true
					if !loose {
						r.Probe("cache-take-shared-a-panicked-call")
					}
				}
			} else if tr.err != nil {
				if o.err != nil && errors.Is(tr.err, o.err) {
					shared = true
				}
			} else if !tr.panicked && o.err == nil && !o.panicked && o.val == tr.val {
				shared = true
			}
		}
		if tr.panicked {
			if !shared {
				r.Fail("cache-take-result", "cache #%d: Take(k%d) panicked without running its loader and no overlapping Take of that key on this cache had a panicking loader", w.id, tr.key)
				return nil, false
			}
			continue
		}
		if tr.err != nil {
			if !shared {
				r.Fail("cache-take-result", "cache #%d: Take(k%d) returned error %v without running its loader and no overlapping Take of that key on this cache produced that error", w.id, tr.key, tr.err)
				return nil, false
			}
			continue
		}
		if !w.mine[tr.val] {
			r.Fail("cache-take-value-never-stored-in-this-cache", "cache #%d: Take(k%d) returned %d without running its loader; that value was never set into this cache nor produced by a loader of one of its Takes",
				w.id, tr.key, tr.val)
			return nil, false
		}
		kind := cGet
		if shared {
			kind = cMaybeGet
			if !loose {
				r.Probe("cache-take-possibly-shared")
			}
		}
		ops = append(ops, cOp{client: tr.client, call: tr.call, ret: tr.ret, out: cOut{val: tr.val, ok: true},
			in: cIn{kind: kind, key: tr.key, tCall: tr.tCall, tRet: tr.tRet}})
	}
	sort.SliceStable(ops, func(i, j int) bool { return ops[i].call < ops[j].call })
	return ops, true
}

var cacheExpires = []time.Duration{10 * time.Second, 5 * time.Second, 30 * time.Second, 60 * time.Second, 100 * time.Second,
	299 * time.Second, 300 * time.Second, 301 * time.Second, 400 * time.Second, 1000 * time.Second}

var entryExpires = []time.Duration{20 * time.Second, time.Second, 3 * time.Second, 50 * time.Second, 200 * time.Second,
	350 * time.Second, 500 * time.Second, 900 * time.Second, 500 * time.Millisecond}

const maxCacheVirtual = 3000 * time.Second

func cacheSequential(r *simrt.Run, tier string) {
	t := r.Tape
	if t.Intn(6) == 5 {
		cacheBulk(r, tier)
		return
	}
	limit := t.Intn(5)
	nKeys := t.Range(1, 5)
	expire := cacheExpires[t.Intn(len(cacheExpires))]
	maxOps := 30
	if tier == "thorough" {
		maxOps = 60
	}
	nOps := t.Range(1, maxOps)
	sh := newCacheShared(t)
	if t.Bool() {
		r.Sleep(time.Duration(t.Range(1, 1999)) * time.Millisecond)
	}
	w := newCacheWorld(r, sh, limit, expire)
	if w == nil {
		return
	}
	w.nKeys = nKeys
	lastVal := make([]int, nKeys) // the value of the latest Set / SetWithExpire of each key (0: none yet)
	type last struct {
		at     time.Duration
		expire time.Duration
		set    bool
	}
	lastSet := make([]last, nKeys)
	var script []string
	note := func(sl time.Duration, what string, k int) {
		if r.Tracing() {
			script = append(script, fmt.Sprintf("+%v %s k%d @%v", sl, what, k, r.Elapsed()))
		}
	}
	for i := 0; i < nOps; i++ {
		// time advance
		var sl time.Duration
		adv := t.Intn(10)
		if r.Elapsed() > maxCacheVirtual {
			adv = 0
		}
		switch adv {
		case 3:
			sl = time.Duration(t.Range(1, 999)) * time.Millisecond
		case 4:
			sl = time.Duration(t.Range(1, 5)) * time.Second
		case 5:
			// onto (or 1 ns next to) an instant at which the cache's timers tick
			d := r.Elapsed() - w.created
			sl = time.Second - d%time.Second + time.Duration(t.Intn(3)-1)
			r.Probe("cache-op-at-tick-instant")
		case 6, 7, 9:
			// relative to the life of an entry: just inside the guaranteed life, around its expiry,
			// or just past the latest instant at which it may still be there
			k := t.Intn(nKeys)
			if lastSet[k].set {
				age := r.Elapsed() - lastSet[k].at
				var target time.Duration
				switch adv {
				case 6:
					target = guaranteedLife(lastSet[k].expire) - 1
					r.Probe("cache-op-at-end-of-guaranteed-life")
				case 7:
					target = lastSet[k].expire * time.Duration(t.Range(90, 110)) / 100
					if t.Bool() {
						// on the tick grid
						abs := lastSet[k].at + target - w.created
						target += time.Second - abs%time.Second
					}
					r.Probe("cache-op-around-expiry")
				default:
					target = upperLife(lastSet[k].expire) + 1 + time.Duration(t.Range(0, 2000))*time.Millisecond
					r.Probe("cache-op-past-latest-expiry")
				}
				if target > age {
					sl = target - age
				}
			}
		case 8:
			sl = expire + time.Duration(t.Range(0, int(expire/time.Second)))*time.Second
		}
		if sl > 0 {
			r.Sleep(sl)
		}
		k := t.Intn(nKeys)
		var what string
		switch v := t.Intn(25); {
		case v < 7:
			w.get(0, k)
			what = "Get"
		case v < 12:
			lastSet[k] = last{at: r.Elapsed(), expire: expire, set: true}
			lastVal[k] = w.set(0, k, 0)
			what = "Set"
		case v >= 23:
			// the value this key was set to last is set again (a refresh: same value, new life)
			lastSet[k] = last{at: r.Elapsed(), expire: expire, set: true}
			if lastVal[k] == 0 {
				lastVal[k] = w.set(0, k, 0)
				what = "Set"
				break
			}
			e := time.Duration(0)
			if v == 24 {
				e = entryExpires[t.Intn(len(entryExpires))]
				lastSet[k].expire = e
			}
			w.setVal(0, k, e, lastVal[k])
			r.Probe("cache-same-value-set-again")
			what = fmt.Sprintf("Set(same value %d again, expire %v)", lastVal[k], e)
		case v < 14:
			e := entryExpires[t.Intn(len(entryExpires))]
			lastSet[k] = last{at: r.Elapsed(), expire: e, set: true}
			lastVal[k] = w.set(0, k, e)
			what = fmt.Sprintf("SetWithExpire(%v)", e)
		case v < 16:
			w.del(0, k)
			lastSet[k].set = false
			what = "Del"
		case v < 19:
			sp := drawLoad(t, nKeys, 1)
			n := len(w.takes)
			w.take(0, k, sp)
			if len(w.takes[n].loads) > 0 && sp.errKind == 0 && sp.panicKind == 0 {
				lastSet[k] = last{at: r.Elapsed(), expire: expire, set: true}
			}
			what = fmt.Sprintf("Take(loader %v)", sp)
		case v < 20:
			w.length(0)
			what = "Len"
		default:
			// an entry overwritten while it is live (other value, other expiry), then the clock
			// moves past the latest instant the refreshed entry may still be there: it must be gone
			if r.Elapsed() > maxCacheVirtual {
				w.get(0, k)
				what = "Get"
				break
			}
			pick := func() time.Duration { // 0: Set with the cache's default expiry
				if t.Bool() {
					return entryExpires[t.Intn(len(entryExpires))]
				}
				return 0
			}
			eff := func(e time.Duration) time.Duration {
				if e == 0 {
					return expire
				}
				return e
			}
			e1 := pick()
			w.set(0, k, e1)
			note(sl, fmt.Sprintf("scenario: set(%v)", eff(e1)), k)
			gap := time.Duration(t.Range(0, 2000)) * time.Millisecond
			if g := guaranteedLife(eff(e1)) / 2; gap > g {
				gap = g
			}
			if gap > 0 {
				r.Sleep(gap)
			}
			e2 := pick()
			if eff(e2) == eff(e1) {
				e2 = entryExpires[(t.Intn(len(entryExpires)-1)+1)%len(entryExpires)]
			}
			w.set(0, k, e2)
			note(gap, fmt.Sprintf("scenario: overwrite(%v)", eff(e2)), k)
			if t.Chance(1, 4) {
				// used in between: a hit must not prolong the entry's life
				r.Sleep(time.Duration(t.Range(0, 900)) * time.Millisecond)
				w.get(0, k)
			}
			sl = upperLife(eff(e2)) + 1 + time.Duration(t.Range(0, 3000))*time.Millisecond
			r.Sleep(sl)
			w.get(0, k)
			lastSet[k] = last{at: r.Elapsed() - sl, expire: eff(e2), set: true}
			r.Probe("cache-overwrite-then-expire")
			what = "scenario: Get past the refreshed deadline"
		}
		note(sl, what, k)
	}
	// final observation of everything
	w.length(0)
	for k := 0; k < nKeys; k++ {
		w.get(0, k)
	}
	w.length(0)
	if r.Tracing() {
		r.Logf("cache(sequential) limit=%d expire=%v keys=%d: %v", limit, expire, nKeys, script)
	}
	r.Sample(map[string]any{"component": "Cache(single client)", "limit": limit, "expire": expire.String(), "keys": nKeys, "ops": nOps, "virtual": r.Elapsed().String(),
		"key_spelling": sh.keyMode, "payload_types": sh.payload, "no_limit_spelling": sh.zeroLimit})
	ops, ok := w.history(false)
	if !ok {
		return
	}
	r.Probe("oracle")
	r.Probe("nontrivial")
	for _, o := range ops {
		if o.in.kind == cGet && !o.out.ok && !o.in.fromLoader {
			r.Probe("cache-miss-observed")
		}
	}
	strict := &cacheModel{limit: limit}
	i, before := strict.checkSequential(ops)
	if i < 0 {
		// nothing went away early or came from nowhere; did everything go away in time?
		if !timingObservable(r) {
			r.Probe("cache-upper-bound-not-asserted-stalls")
			return
		}
		r.Probe("cache-upper-bound-asserted")
		up := &cacheModel{limit: limit, upper: true}
		if j, bef := up.checkSequential(ops); j >= 0 {
			cls, why := outlivesClass, ""
			marked := append([]cOp{}, ops...)
			markMayLoseTimer(marked)
			rel := &cacheModel{limit: limit, upper: true, upperRelaxed: true}
			if jj, _ := rel.checkSequential(marked); jj < 0 {
				cls = neverExpiresAfterExpiry
				why = "; the entry (or the entry it overwrote) was stored at an instant at which the timer of the key's previous entry may have been firing: that entry's expiry task deletes the data and removes the key's timer in two steps, a store in between loses its fresh timer"
			}
			r.Fail(cls, "single client, limit=%d expire=%v: operation #%d %v (invoked at %v) still finds an entry whose age since the return of its last store exceeds 1.05 x expire + 3 s%s; model states before it (entries past that age already removed): %v\nhistory:%s",
				limit, expire, j, ops[j], ops[j].in.tCall, why, bef, describeOps(ops[:j+1]))
		}
		return
	}
	for _, lvl := range []int{1, 2, 4} { // level 3 needs a second client
		relaxed := &cacheModel{limit: limit, relaxed: lvl}
		if j, _ := relaxed.checkSequential(ops); j < 0 {
			r.Fail(relaxedClass[lvl], "single client, limit=%d expire=%v: %s: %s", limit, expire, relaxedWhat[lvl], describeFailure(limit, ops, i, before))
			return
		}
	}
	cls, desc := classifySequential(limit, ops, i, before)
	r.Fail(cls, "single client, limit=%d expire=%v: %s\nhistory:%s", limit, expire, desc, describeOps(ops[:i+1]))
}

func describeFailure(limit int, ops []cOp, i int, before []cState) string {
	_, desc := classifySequential(limit, ops, i, before)
	return desc + "\nhistory:" + describeOps(ops[:i+1])
}

// cachePlanOp is one step of a client of a concurrent cache workload.
type cachePlanOp struct {
	cache     int
	kind      int // 0 get 1 set 2 del 3 take 4 len
	key       int
	think     time.Duration
	expire    time.Duration // kind 1: > 0 = SetWithExpire
	load      loadSpec      // kind 3
}

// flightScene is a scripted opening of a concurrent cache workload: the first operation of client 0
// is a Take of the scene key whose loader is slow (sleeps) and, mostly, FAILS - with a plain error or
// with one of the context error identities (what a loader reports whose own caller gave up) -, and
// the first operation of every other client goes to the same key while that call is (probably) still
// in flight: another Take (which then waits behind it in the cache's barrier, sometimes after having
// been preempted between its first lookup and the barrier), a Set, a Del or a Get, issued at once or
// after a fraction of the loader's duration.  Everything after the first operations is the ordinary plan.
type flightScene struct {
	key, cache int
	sleep      time.Duration // how long the leading loader takes
}

func drawFlightScene(t *simrt.Tape, maxSleepMs, key, cache int) *flightScene {
	return &flightScene{key: key, cache: cache, sleep: time.Duration(t.Range(1, maxSleepMs)) * time.Millisecond}
}

// first draws the first operation of client c.
func (fs *flightScene) first(t *simrt.Tape, c, nKeys, nCaches int) cachePlanOp {
	o := cachePlanOp{key: fs.key, cache: fs.cache}
	if c == 0 {
		o.kind = 3
		o.load = loadSpec{yields: t.Intn(4), sleep: fs.sleep}
		switch x := t.Intn(10); {
		case x == 0:
		case x == 1:
			o.load.errKind = 1
		case x == 2:
			o.load.errKind = 4
		default:
			o.load.errKind = ctxErrKinds[x-3]
		}
		return o
	}
	switch t.Intn(3) {
	case 1:
		o.think = fs.sleep * time.Duration(t.Range(1, 100)) / 100
	case 2:
		o.think = time.Duration(t.Range(1, 5)) * time.Millisecond
	}
	switch v := t.Intn(10); {
	case v < 5:
		o.kind = 3
		o.load = drawLoad(t, nKeys, nCaches)
		o.load.yields = t.Intn(3)
		switch t.Intn(3) {
		case 1:
			o.load.gap = fs.sleep * time.Duration(t.Range(1, 100)) / 100
		case 2:
			o.load.gap = time.Duration(t.Range(1, 5)) * time.Millisecond
		}
	case v < 8:
		o.kind = 1
	case v < 9:
		o.kind = 2
	default:
		o.kind = 0
	}
	return o
}

// flightProbes reports (coverage only) which flight situations the finished run contained.
func (w *cacheWorld) flightProbes() {
	r := w.r
	for _, a := range w.takes {
		if len(a.loads) != 1 {
			continue
		}
		l := a.loads[0]
		for _, b := range w.takes {
			if b == a || b.key != a.key || b.flight == 0 || !(l.start < b.flight && b.flight < l.end) {
				continue
			}
			// b entered the barrier while a's loader was running
			r.Probe("cache-take-entered-barrier-while-loader-of-same-key-running")
			stored, storedBefore, removed := false, false, false
			for _, o := range w.ops {
				if o.in.key != a.key || o.client == b.client {
					continue
				}
				switch o.in.kind {
				case cSet:
					if o.call > l.start && o.ret < l.end {
						stored = true
					}
					if o.call > b.call && o.ret < b.flight {
						storedBefore = true
					}
				case cDel:
					if o.call > l.start && o.ret < l.end {
						removed = true
					}
				}
			}
			if stored {
				r.Probe("cache-flight-with-waiter-key-set-meanwhile")
			}
			if removed {
				r.Probe("cache-flight-with-waiter-key-deleted-meanwhile")
			}
			if l.err == nil {
				continue
			}
			r.Probe("cache-flight-with-waiter-loader-failed")
			ctx := errors.Is(l.err, context.Canceled) || errors.Is(l.err, context.DeadlineExceeded)
			if !ctx {
				continue
			}
			r.Probe("cache-flight-with-waiter-loader-failed-with-context-error")
			if len(b.loads) == 0 && b.err != nil && errors.Is(b.err, l.err) {
				r.Probe("cache-waiter-got-the-shared-context-error")
			}
			if stored {
				r.Probe("cache-flight-failed-with-context-error-key-set-meanwhile")
			}
			if storedBefore {
				r.Probe("cache-waiter-behind-failing-flight-key-set-between-its-lookup-and-barrier-entry")
			}
		}
	}
}

func runCacheClients(r *simrt.Run, worlds []*cacheWorld, plans [][]cachePlanOp) bool {
	var tasks []*simrt.Task
	for c := range plans {
		c := c
		tasks = append(tasks, r.Go(fmt.Sprintf("client%d", c), func() {
			for _, o := range plans[c] {
				if o.think > 0 {
					r.Sleep(o.think)
				}
				w := worlds[o.cache]
				switch o.kind {
				case 0:
					w.get(c, o.key)
				case 1:
					w.set(c, o.key, o.expire)
				case 2:
					w.del(c, o.key)
				case 3:
					w.take(c, o.key, o.load)
				default:
					w.length(c)
				}
			}
		}))
	}
	if !r.JoinTimeout(6*time.Hour, tasks...) {
		r.Fail("cache-stuck", "Cache clients did not all return: %v", r.AliveTasks())
		return false
	}
	return true
}

// allGoneAfterIdle: after every client returned, a quiescence and an idle period longer than the
// latest possible expiry of anything ever stored, every cache must be empty.
func allGoneAfterIdle(r *simrt.Run, worlds []*cacheWorld, nKeys int) bool {
	if !timingObservable(r) {
		r.Probe("cache-upper-bound-not-asserted-stalls")
		return true
	}
	var idle time.Duration
	for _, w := range worlds {
		if u := upperLife(w.maxExpire); u > idle {
			idle = u
		}
	}
	idle += time.Second
	r.Quiesce()
	done := r.Elapsed()
	r.Sleep(idle)
	r.Quiesce()
	r.Probe("cache-upper-bound-asserted")
	for _, w := range worlds {
		n := collection.VerifCacheLen(w.c)
		var left []string
		cls := ""
		for k := 0; k < nKeys; k++ {
			if v, ok := w.c.Get(w.key(k)); ok {
				left = append(left, fmt.Sprintf("k%d=%v", k, w.sh.dec(v)))
				if c := w.outlivesClass(k); cls == "" || c == outlivesClass {
					cls = c
				}
			}
		}
		if len(left) == 0 && n == 0 {
			continue
		}
		if cls == "" {
			cls = outlivesClass
		}
		ops, _ := w.history(true)
		r.Fail(cls, "cache #%d (limit=%d expire=%v, longest expiry of any store %v): all clients had returned at %v, the cache was then left alone for %v (longer than 1.05 x the longest expiry + 3 s) and still holds %d entries, Get finds %v:%s",
			w.id, w.limit, w.expire, w.maxExpire, done, idle, n, left, describeOps(ops))
		return false
	}
	return true
}

// outlivesClass names a history in which key k was still there after the final idle period.
// Two ways in which the unchanged cache loses the TIMER of a live entry are recognised by
// features of the history (both are the two-step "delete data, then remove the key's timer" of
// Cache.Del meeting a store in between); any other history gets the generic class.
func (w *cacheWorld) outlivesClass(k int) string {
	ops, ok := w.history(true)
	if !ok {
		return outlivesClass
	}
	for _, d := range ops {
		if d.in.kind != cDel || d.in.key != k {
			continue
		}
		for _, s := range ops {
			if s.in.kind == cSet && s.in.key == k && s.client != d.client && s.call < d.ret && d.call < s.ret {
				return neverExpiresAfterDel
			}
		}
	}
	markMayLoseTimer(ops)
	for _, s := range ops {
		if s.in.kind == cSet && s.in.key == k && s.in.mayLoseTimer {
			return neverExpiresAfterExpiry
		}
	}
	return outlivesClass
}

const racingStoresClass = "cache-value-expires-with-timer-of-overlapping-set-of-same-key"

func shorterExpiryOfRacingStores(ops []cOp) ([]cOp, bool) {
	alt := append([]cOp{}, ops...)
	changed := false
	for i := range alt {
		s := &alt[i]
		if s.in.kind != cSet {
			continue
		}
		for _, o := range ops {
			if o.in.kind == cSet && o.in.key == s.in.key && o.client != s.client && o.call < s.ret && s.call < o.ret && o.in.expire < s.in.expire {
				s.in.expire = o.in.expire
				changed = true
			}
		}
	}
	return alt, changed
}

// judgeConcurrent decides the concurrent history of one cache.
func judgeConcurrent(r *simrt.Run, w *cacheWorld, who string) bool {
	limit, expire := w.limit, w.expire
	ops, ok := w.history(false)
	if !ok {
		return false
	}
	r.Probe("oracle")
	w.flightProbes()
	switch checkCacheHistory(limit, 0, ops) {
	case linUnknown:
		r.Probe("porcupine-unknown")
	case linIllegal:
		for lvl := 1; lvl <= maxRelaxed; lvl++ {
			switch checkCacheHistory(limit, lvl, ops) {
			case linOK:
				r.Fail(relaxedClass[lvl], "%s, limit=%d expire=%v: the history is only explained if %s:%s", who, limit, expire, relaxedWhat[lvl], describeOps(ops))
				return false
			case linUnknown:
				r.Probe("porcupine-unknown")
				return true
			}
		}
		// two stores of one key by different clients overlap and carry different expiries: Set stores the
		// value under the lock and arms/moves the key's timer afterwards, so the value of one call can end
		// up with the timer of the other.  Recognised by giving each such store the shorter of the expiries.
		if alt, changed := shorterExpiryOfRacingStores(ops); changed {
			for lvl := 0; lvl <= maxRelaxed; lvl++ {
				res := checkCacheHistory(limit, lvl, alt)
				if res == linUnknown {
					break
				}
				if res == linOK {
					r.Fail(racingStoresClass, "%s, limit=%d expire=%v: a value disappeared before the expiry it was stored with; the history is only explained if a store that overlapped another client's store of the same key with a shorter expiry got that other store's timer (value of one call, expiry of the other):%s",
						who, limit, expire, describeOps(ops))
					return false
				}
			}
		}
		// is the only thing wrong the instant of a lookup miss that justifies a loader run?
		if loose, ok := w.history(true); ok {
			for lvl := 0; lvl <= maxRelaxed; lvl++ {
				res := checkCacheHistory(limit, lvl, loose)
				if res == linUnknown {
					break
				}
				if res == linOK {
					r.Fail("cache-take-loader-after-completed-store", "%s, limit=%d expire=%v: a Take ran its loader although, when it entered the cache's single-flight barrier, the key had been stored by a call that completed after the Take was invoked and nothing can have removed it since (no Del, no possible eviction, far from expiry): the lookup miss that justifies a loader run must lie between the entry into the flight and the loader start:%s",
						who, limit, expire, describeOps(ops))
					return false
				}
			}
		}
		r.Fail("cache-nonlinearizable", "%s, limit=%d expire=%v: no linearization of the history is a behaviour of an LRU cache with expiry:%s", who, limit, expire, describeOps(ops))
		return false
	}
	return true
}

func cacheConcurrent(r *simrt.Run, tier string) {
	t := r.Tape
	maxC, maxP := 3, 6
	if tier == "thorough" {
		maxC, maxP = 4, 7
	}
	clients := t.Range(2, maxC)
	perClient := t.Range(1, maxP)
	for clients*perClient > 20 {
		perClient--
	}
	nKeys := t.Range(1, 3)
	limit := t.Intn(4)
	expire := []time.Duration{10 * time.Second, 5 * time.Second, 30 * time.Second, 60 * time.Second}[t.Intn(4)]
	var scene *flightScene
	if t.Chance(1, 3) {
		scene = drawFlightScene(t, 1500, 0, 0)
		r.Probe("cache-flight-scene")
	}
	plans := make([][]cachePlanOp, clients)
	for c := range plans {
		for j := 0; j < perClient; j++ {
			if scene != nil && j == 0 {
				plans[c] = append(plans[c], scene.first(t, c, nKeys, 1))
				continue
			}
			o := cachePlanOp{key: t.Intn(nKeys)}
			switch t.Intn(8) {
			case 5:
				o.think = time.Duration(t.Range(1, 50)) * time.Millisecond
			case 6:
				o.think = time.Duration(t.Range(1, 4)) * time.Second
			case 7:
				o.think = time.Duration(int(expire/time.Second)*t.Range(80, 120)/100) * time.Second
			}
			switch v := t.Intn(20); {
			case v < 6:
				o.kind = 0
			case v < 11:
				o.kind = 1
			case v < 13:
				o.kind = 2
			case v < 18:
				o.kind = 3
				o.load = drawLoad(t, nKeys, 1)
				o.load.yields = t.Intn(3)
				if t.Chance(1, 3) {
					o.load.sleep = time.Duration(t.Range(1, 1500)) * time.Millisecond
				}
				if t.Chance(1, 6) {
					o.load.gap = time.Duration(t.Range(1, 50)) * time.Millisecond
				}
			default:
				o.kind = 4
			}
			plans[c] = append(plans[c], o)
		}
	}
	sh := newCacheShared(t)
	if r.Tracing() {
		r.Logf("cache(concurrent) clients=%d keys=%d limit=%d expire=%v plans=%+v", clients, nKeys, limit, expire, plans)
	}
	r.Sample(map[string]any{"component": "Cache(concurrent)", "clients": clients, "keys": nKeys, "limit": limit, "expire": expire.String(), "ops_per_client": perClient,
		"first_client_plan": fmt.Sprintf("%+v", plans[0])})
	w := newCacheWorld(r, sh, limit, expire)
	if w == nil {
		return
	}
	w.nKeys = nKeys
	if !runCacheClients(r, []*cacheWorld{w}, plans) {
		return
	}
	if !allGoneAfterIdle(r, []*cacheWorld{w}, nKeys) {
		return
	}
	judgeConcurrent(r, w, fmt.Sprintf("%d clients", clients))
}

// cacheMulti: two (sometimes three) caches built the default way (sometimes with distinct
// names) in one process, the same small key set on all of them, values unique across caches,
// clients whose Takes on different caches overlap.  Every cache is judged on its own history by
// its own model: what happens on one cache must not show on another.
func cacheMulti(r *simrt.Run, tier string) {
	t := r.Tape
	nCaches := 2
	if t.Chance(1, 4) {
		nCaches = 3
	}
	named := t.Chance(1, 3)
	maxC, maxP := 3, 6
	if tier == "thorough" {
		maxC, maxP = 4, 8
	}
	clients := t.Range(2, maxC)
	perClient := t.Range(1, maxP)
	for clients*perClient > 24 {
		perClient--
	}
	nKeys := t.Range(1, 2)
	limit := t.Intn(3)
	expire := []time.Duration{10 * time.Second, 5 * time.Second, 30 * time.Second, 60 * time.Second}[t.Intn(4)]
	// storm: every client starts with a Take of the same key at the same instant (on one cache, or
	// spread over the caches), so that flights have followers while the other operations go on
	storm, stormAcross := t.Chance(1, 3), false
	if storm {
		stormAcross = t.Bool()
	}
	var scene *flightScene
	if !storm && t.Chance(1, 3) {
		scene = drawFlightScene(t, 1500, 0, t.Intn(nCaches))
		r.Probe("cache-flight-scene")
	}
	plans := make([][]cachePlanOp, clients)
	for c := range plans {
		for j := 0; j < perClient; j++ {
			if scene != nil && j == 0 {
				plans[c] = append(plans[c], scene.first(t, c, nKeys, nCaches))
				continue
			}
			o := cachePlanOp{key: t.Intn(nKeys), cache: t.Intn(nCaches)}
			if storm && j == 0 {
				o = cachePlanOp{kind: 3, load: loadSpec{yields: t.Intn(4)}}
				if stormAcross {
					o.cache = c % nCaches
				}
				if t.Bool() {
					o.load.sleep = time.Duration(t.Range(1, 1500)) * time.Millisecond
				}
				plans[c] = append(plans[c], o)
				continue
			}
			switch t.Intn(10) {
			case 6:
				o.think = time.Duration(t.Range(1, 50)) * time.Millisecond
			case 7:
				o.think = time.Duration(t.Range(1, 1500)) * time.Millisecond
			case 8:
				o.think = time.Duration(t.Range(1, 4)) * time.Second
			case 9:
				o.think = time.Duration(int(expire/time.Second)*t.Range(80, 120)/100) * time.Second
			}
			switch v := t.Intn(20); {
			case v < 10:
				o.kind = 3
				o.load = drawLoad(t, nKeys, nCaches)
				o.load.yields = t.Intn(4)
				if t.Chance(1, 2) {
					o.load.sleep = time.Duration(t.Range(1, 1500)) * time.Millisecond
				}
				if t.Chance(1, 6) {
					o.load.gap = time.Duration(t.Range(1, 50)) * time.Millisecond
				}
			case v < 13:
				o.kind = 0
			case v < 16:
				o.kind = 1
				if t.Chance(1, 4) {
					o.expire = []time.Duration{20 * time.Second, 2 * time.Second, 90 * time.Second}[t.Intn(3)]
				}
			case v < 18:
				o.kind = 2
			default:
				o.kind = 4
			}
			plans[c] = append(plans[c], o)
		}
	}
	if r.Tracing() {
		r.Logf("cache(multi) caches=%d named=%v storm=%v flight-scene=%v clients=%d keys=%d limit=%d expire=%v plans=%+v", nCaches, named, storm, scene != nil, clients, nKeys, limit, expire, plans)
	}
	r.Sample(map[string]any{"component": "Cache(several caches, concurrent)", "caches": nCaches, "distinct_names": named, "clients": clients, "keys": nKeys, "limit": limit,
		"expire": expire.String(), "ops_per_client": perClient, "first_client_plan": fmt.Sprintf("%+v", plans[0])})
	sh := newCacheShared(t)
	var worlds []*cacheWorld
	for i := 0; i < nCaches; i++ {
		name := ""
		if named {
			name = fmt.Sprintf("cache-%d", i)
		}
		w := newCacheWorldIn(r, sh, i, limit, expire, name)
		if w == nil {
			return
		}
		w.nKeys = nKeys
		worlds = append(worlds, w)
	}
	for _, w := range worlds {
		w.peers = worlds
	}
	if !runCacheClients(r, worlds, plans) {
		return
	}
	// did Takes of one key on two different caches overlap?
	for i, a := range worlds {
		for _, b := range worlds[i+1:] {
			for _, x := range a.takes {
				for _, y := range b.takes {
					if x.key == y.key && x.call < y.ret && y.call < x.ret && len(x.loads)+len(y.loads) > 0 {
						r.Probe("cache-multi-takes-overlap-across-caches")
					}
				}
			}
		}
	}
	if !allGoneAfterIdle(r, worlds, nKeys) {
		return
	}
	for _, w := range worlds {
		if !judgeConcurrent(r, w, fmt.Sprintf("cache #%d of %d (distinct names: %v), %d clients", w.id, nCaches, named, clients)) {
			return
		}
	}
}

// classes of the known-finding family "the expiry task deletes by key" (cachemodel_test.go, cacheModel.relaxed)
var relaxedClass = [...]string{"", "cache-fresh-set-deleted-by-expiry-of-previous-entry", "cache-fresh-set-deleted-by-expiry-of-deleted-or-evicted-entry",
	"cache-fresh-set-deleted-by-orphan-timer-of-set-racing-del", "cache-fresh-set-deleted-by-second-expiry-task-in-flight",
	"cache-fresh-set-deleted-by-orphan-timer-of-set-racing-eviction"}

const maxRelaxed = 5

var relaxedWhat = [...]string{"", "a value set over an entry whose timer was due disappeared although it was neither deleted, evicted nor old enough to expire",
	"a value set after the key's previous entry was deleted (Del) or evicted while that entry's timer was due disappeared although it was neither deleted, evicted nor old enough to expire",
	"a Del overlapping a Set of the same key left that Set's timer behind and the timer later deleted a newer value that was neither deleted, evicted nor old enough to expire",
	"two expiry tasks of one key were in flight at once (Sets over entries whose timers were due, e.g. SetWithExpire below the 1 s timer tick, which runs the expiry at once and asynchronously): the first removed the entry, the second deleted a value stored afterwards that was neither deleted, evicted nor old enough to expire",
	"an LRU eviction caused by another client's store overlapped a Set of the evicted key and left that Set's timer behind; the timer later deleted a newer value that was neither deleted, evicted nor old enough to expire"}
