// Package c16 holds the harness of property C16 (in-memory collections) and the
// sequential reference models it compares go-zero's collections with.
//
// WindowModel (this file) is self-contained (it imports only "time") and is the
// shared reference model of collection.RollingWindow also used by the breaker
// (C01) and shedder (C02) harnesses: copy the file or import the package.
package c16

import "time"

// WindowModel is the obviously-correct model of a rolling window: it remembers
// every addition with its instant and decides visibility from the bucket index
// of that instant.  Time is divided into intervals aligned to the creation
// instant T0; interval number k covers [T0+k*Interval, T0+(k+1)*Interval).
// At an instant in interval c the window consists of the intervals
// c-Size+1 .. c ("the last Size intervals"), minus interval c itself when
// IgnoreCurrent is set.
type WindowModel struct {
	Size          int
	Interval      time.Duration
	IgnoreCurrent bool
	T0            time.Time
	adds          []windowAdd
}

type windowAdd struct {
	bucket int64
	v      float64
}

// NewWindowModel returns a model of a window created at instant t0.
func NewWindowModel(size int, interval time.Duration, ignoreCurrent bool, t0 time.Time) *WindowModel {
	return &WindowModel{Size: size, Interval: interval, IgnoreCurrent: ignoreCurrent, T0: t0}
}

// BucketOf is the number of the interval that contains instant t.
func (m *WindowModel) BucketOf(t time.Time) int64 {
	d := t.Sub(m.T0)
	if d < 0 {
		// floor division (does not happen with a monotonic clock)
		return -int64((-d + m.Interval - 1) / m.Interval)
	}
	return int64(d / m.Interval)
}

// Add records that v was added at instant now.
func (m *WindowModel) Add(now time.Time, v float64) {
	b := m.BucketOf(now)
	m.adds = append(m.adds, windowAdd{bucket: b, v: v})
	// forget what can never be visible again
	if len(m.adds) > 4096 {
		keep := m.adds[:0]
		for _, a := range m.adds {
			if a.bucket > b-int64(m.Size) {
				keep = append(keep, a)
			}
		}
		m.adds = keep
	}
}

// Visible returns, in order of addition, the values a Reduce at instant now must visit.
func (m *WindowModel) Visible(now time.Time) []float64 {
	c := m.BucketOf(now)
	var out []float64
	for _, a := range m.adds {
		if a.bucket <= c-int64(m.Size) || a.bucket > c {
			continue
		}
		if m.IgnoreCurrent && a.bucket == c {
			continue
		}
		out = append(out, a.v)
	}
	return out
}

// Totals returns the sum and the number of the visible values.
func (m *WindowModel) Totals(now time.Time) (sum float64, count int64) {
	for _, v := range m.Visible(now) {
		sum += v
		count++
	}
	return
}
