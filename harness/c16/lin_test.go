package c16

import (
	"fmt"
	"os"
	"sort"
	"strconv"
	"strings"

	"github.com/anishathalye/porcupine"
)

// Linearizability checking of concurrent histories with porcupine.  Call and
// Return are stamped with the harness' own logical clock (one task runs at a
// time, every stamp is distinct).  The search is bounded by a deterministic
// budget of model steps (wall-clock timeouts do not exist inside the bubble);
// an exhausted budget is "unknown": inconclusive, never a violation.

type linResult int

const (
	linOK linResult = iota
	linIllegal
	linUnknown
)

// linBudget bounds the model steps of one linearizability search (beyond it the verdict is
// "unknown", never reported).  VERIF_C16_LINBUDGET overrides it (development aid).
var linBudget = func() int {
	if v, err := strconv.Atoi(os.Getenv("VERIF_C16_LINBUDGET")); err == nil && v > 0 {
		return v
	}
	// porcupine keeps the visited (linearized set, state) pairs in buckets keyed by the set alone and
	// scans a bucket linearly; with a nondeterministic model (sets of states) the cost of a search
	// grows much faster than the number of model steps: 20 k steps 0.1 s, 50 k 1 s, 100 k 6 s,
	// 400 k more than 100 s (thorough tier, seed 26: the wall-clock watchdog ended the check, exit 2)
	return 60000
}()

type budget struct {
	steps int
}

func (b *budget) spent() bool { return b.steps > linBudget }

func runPorcupine(model porcupine.Model, ops []porcupine.Operation, b *budget) linResult {
	ok := porcupine.CheckOperations(model, ops)
	if b.spent() {
		return linUnknown
	}
	if ok {
		return linOK
	}
	return linIllegal
}

// hist collects the operations of a concurrent history.
type hist struct {
	clk int64
	ops []porcupine.Operation
}

func (h *hist) tick() int64 { h.clk++; return h.clk }

func (h *hist) add(client int, in any, call int64, out any, ret int64) {
	h.ops = append(h.ops, porcupine.Operation{ClientId: client, Input: in, Call: call, Output: out, Return: ret})
}

func (h *hist) describe(f func(in, out any) string) string {
	idx := make([]int, len(h.ops))
	for i := range idx {
		idx[i] = i
	}
	sort.Slice(idx, func(a, b int) bool { return h.ops[idx[a]].Call < h.ops[idx[b]].Call })
	var b strings.Builder
	for _, i := range idx {
		o := h.ops[i]
		fmt.Fprintf(&b, "\n  c%d [%d,%d] %s", o.ClientId, o.Call, o.Return, f(o.Input, o.Output))
	}
	return b.String()
}

// ---- cache -------------------------------------------------------------

func cachePorcupineModel(m *cacheModel) porcupine.Model {
	nm := porcupine.NondeterministicModel{
		Init: func() []interface{} { return []interface{}{cState{}} },
		Step: func(state, input, output interface{}) []interface{} {
			if m.steps > linBudget {
				return nil
			}
			next := m.step(state.(cState), input.(cIn), output.(cOut))
			out := make([]interface{}, len(next))
			for i, s := range next {
				out[i] = s
			}
			return out
		},
		Equal: func(a, b interface{}) bool { return cEqual(a.(cState), b.(cState)) },
	}
	return nm.ToModel()
}

// checkCacheHistory decides a (possibly concurrent) cache history.
func checkCacheHistory(limit int, relaxed int, ops []cOp) linResult {
	return checkCacheHistoryWith(&cacheModel{limit: limit, relaxed: relaxed}, ops)
}

// checkCacheHistoryWith decides a history against a given variant of the model.
func checkCacheHistoryWith(m *cacheModel, ops []cOp) linResult {
	pops := make([]porcupine.Operation, len(ops))
	for i, o := range ops {
		if o.in.kind == cDel {
			for _, p := range ops {
				if p.in.kind == cSet && p.in.key == o.in.key && p.client != o.client && p.call < o.ret && o.call < p.ret {
					o.in.raceSet = true
				}
			}
		}
		if o.in.kind == cSet {
			for _, p := range ops {
				if p.in.kind == cSet && p.in.key != o.in.key && p.client != o.client && p.call < o.ret && o.call < p.ret {
					o.in.raceKeys |= uint32(1) << uint(p.in.key%32)
				}
			}
		}
		pops[i] = porcupine.Operation{ClientId: o.client, Input: o.in, Call: o.call, Output: o.out, Return: o.ret}
	}
	ok := porcupine.CheckOperations(cachePorcupineModel(m), pops)
	if m.steps > linBudget {
		return linUnknown
	}
	if ok {
		return linOK
	}
	return linIllegal
}

// ---- SafeMap -----------------------------------------------------------

const smKeys = 4

type smState [smKeys]int // 0: absent (values are >= 1)

const (
	smGet = iota
	smSet
	smDel
	smSize
	smRange
)

type smIn struct {
	kind, key, val int
}

type smOut struct {
	val  int
	ok   bool
	n    int
	snap smState
}

func safeMapModel(b *budget) porcupine.Model {
	return porcupine.Model{
		Init: func() interface{} { return smState{} },
		Step: func(state, input, output interface{}) (bool, interface{}) {
			b.steps++
			if b.spent() {
				return false, state
			}
			s := state.(smState)
			in := input.(smIn)
			out := output.(smOut)
			switch in.kind {
			case smGet:
				if s[in.key] == 0 {
					return !out.ok, s
				}
				return out.ok && out.val == s[in.key], s
			case smSet:
				s[in.key] = in.val
				return true, s
			case smDel:
				s[in.key] = 0
				return true, s
			case smSize:
				n := 0
				for _, v := range s {
					if v != 0 {
						n++
					}
				}
				return n == out.n, s
			default:
				return out.snap == s, s
			}
		},
	}
}

func describeSafeMapOp(input, output any) string {
	in := input.(smIn)
	out := output.(smOut)
	switch in.kind {
	case smGet:
		if out.ok {
			return fmt.Sprintf("Get(k%d) = %d", in.key, out.val)
		}
		return fmt.Sprintf("Get(k%d) = absent", in.key)
	case smSet:
		return fmt.Sprintf("Set(k%d, %d)", in.key, in.val)
	case smDel:
		return fmt.Sprintf("Del(k%d)", in.key)
	case smSize:
		return fmt.Sprintf("Size() = %d", out.n)
	default:
		return fmt.Sprintf("Range() = %v", out.snap)
	}
}

// ---- Queue -------------------------------------------------------------

const (
	qPut = iota
	qTake
	qEmpty
)

type qIn struct {
	kind, val int
}

type qOut struct {
	val   int
	ok    bool
	empty bool
}

// state: the queued values as bytes of a string (values are 1..255)
func queueModel(b *budget) porcupine.Model {
	return porcupine.Model{
		Init: func() interface{} { return "" },
		Step: func(state, input, output interface{}) (bool, interface{}) {
			b.steps++
			if b.spent() {
				return false, state
			}
			s := state.(string)
			in := input.(qIn)
			out := output.(qOut)
			switch in.kind {
			case qPut:
				return true, s + string([]byte{byte(in.val)})
			case qTake:
				if len(s) == 0 {
					return !out.ok, s
				}
				return out.ok && out.val == int(s[0]), s[1:]
			default:
				return out.empty == (len(s) == 0), s
			}
		},
	}
}

func describeQueueOp(input, output any) string {
	in := input.(qIn)
	out := output.(qOut)
	switch in.kind {
	case qPut:
		return fmt.Sprintf("Put(%d)", in.val)
	case qTake:
		if out.ok {
			return fmt.Sprintf("Take() = %d", out.val)
		}
		return "Take() = empty"
	default:
		return fmt.Sprintf("Empty() = %v", out.empty)
	}
}

// ---- Ring --------------------------------------------------------------

type ringIn struct {
	add bool
	val int
}

type ringOut struct {
	content string // taken values as bytes
}

func ringModel(n int, b *budget) porcupine.Model {
	return porcupine.Model{
		Init: func() interface{} { return "" },
		Step: func(state, input, output interface{}) (bool, interface{}) {
			b.steps++
			if b.spent() {
				return false, state
			}
			s := state.(string)
			in := input.(ringIn)
			if in.add {
				s += string([]byte{byte(in.val)})
				if len(s) > n {
					s = s[len(s)-n:]
				}
				return true, s
			}
			return output.(ringOut).content == s, s
		},
	}
}

func describeRingOp(input, output any) string {
	in := input.(ringIn)
	if in.add {
		return fmt.Sprintf("Add(%d)", in.val)
	}
	return fmt.Sprintf("Take() = %v", []byte(output.(ringOut).content))
}
