package c16

import (
	"fmt"
	"time"

	"verifsim/simrt"
)

// cacheRecency: the "evicted" escape of the Cache statement is only open when the limit is
// exceeded, and then for the least recently used key: "returns the latest value set for a key
// unless it was deleted, has expired, or was evicted, never holds more than its limit, evicts in
// least-recently-used order".  A key that was set, not deleted since, far from its expiry and
// among the `limit` most recently used live keys MUST answer.
//
// The workload keeps every expiry so long (>= 300 s, the run is abandoned when the clock gets
// anywhere near) that no timer of the cache can come due: nothing expires, and none of the open
// findings of the Cache (all of which need a timer to fire) is possible, so the model is exact:
//
//	A  pre-fill by one client: the recency order is fully known;
//	B  2-3 (thorough 4) clients issue a handful of Get / Set / Del / Take / Len on the keys at the
//	   same instant (hits racing deletions and evicting stores of the same / of other keys);
//	C  after all of them returned (quiescence) one client reads the entry count, stores 0..limit+2
//	   FRESH keys (fewer than the limit: every live key of phase B that is recent enough must
//	   survive; at least the limit: exactly the last `limit` of them answer), reads the count,
//	   looks every key up, reads the count.
//
// "Most recently used" after a concurrent phase is an interval notion: the whole invoke/return
// history A+B+C is decided by porcupine against the strict LRU model (every order of the
// overlapping operations consistent with the stamps is tried).  Phase C is sequential, so a live
// key that is missing, or a count below min(limit, live keys), refutes every candidate order.
const (
	belowLimitClass = "cache-live-key-evicted-below-limit"
	notLruClass     = "cache-evicted-not-least-recently-used"
)

var recencyExpires = []time.Duration{300 * time.Second, 400 * time.Second, 1000 * time.Second}

var recencyEntryExpires = []time.Duration{350 * time.Second, 500 * time.Second, 900 * time.Second}

func cacheRecency(r *simrt.Run, tier string) {
	t := r.Tape
	r.Probe("cache-recency-workload")
	limit := t.Range(1, 4)
	nKeys := limit + t.Range(1, 3)
	expire := recencyExpires[t.Intn(len(recencyExpires))]
	maxC, maxP := 3, 3
	if tier == "thorough" {
		maxC, maxP = 4, 4
	}
	clients := t.Range(2, maxC)
	perClient := t.Range(1, maxP)
	// phase A
	pre := t.Intn(nKeys + 1) // keys 0..pre-1 are stored, in a drawn order
	order := make([]int, pre)
	for i := range order {
		order[i] = i
	}
	if pre > 1 && t.Bool() {
		for i, j := range t.Perm(pre) {
			order[i] = j
		}
	}
	preGets := t.Intn(3)
	var preGetKeys []int
	for i := 0; i < preGets; i++ {
		preGetKeys = append(preGetKeys, t.Intn(nKeys))
	}
	// phase B
	hot := t.Intn(nKeys)
	// flight scene (cache_test.go): the concurrent phase opens with a slow, mostly failing Take of the hot key
	// by client 0 and operations of the other clients on that key while it is in flight (loader <= 20 ms:
	// no timer comes into reach)
	var scene *flightScene
	if t.Chance(1, 3) {
		scene = drawFlightScene(t, 20, hot, 0)
		r.Probe("cache-flight-scene")
	}
	plans := make([][]cachePlanOp, clients)
	for c := range plans {
		for j := 0; j < perClient; j++ {
			if scene != nil && j == 0 {
				plans[c] = append(plans[c], scene.first(t, c, nKeys, 1))
				continue
			}
			o := cachePlanOp{key: hot}
			if t.Bool() {
				o.key = t.Intn(nKeys)
			}
			if t.Chance(1, 6) {
				o.think = time.Duration(t.Range(1, 20)) * time.Millisecond
			}
			switch v := t.Intn(20); {
			case v < 8:
				o.kind = 0
			case v < 13:
				o.kind = 1
				if t.Chance(1, 4) {
					o.expire = recencyEntryExpires[t.Intn(len(recencyEntryExpires))]
				}
			case v < 17:
				o.kind = 2
			case v < 19:
				o.kind = 3
				o.load = drawLoad(t, nKeys, 1)
				o.load.yields = t.Intn(3)
			default:
				o.kind = 4
			}
			plans[c] = append(plans[c], o)
		}
	}
	// phase C
	fresh := t.Intn(limit + 3)
	descending := t.Bool()
	sh := newCacheShared(t)
	if r.Tracing() {
		r.Logf("cache(recency) limit=%d keys=%d expire=%v pre-fill=%v pre-gets=%v clients=%d plans=%+v fresh=%d descending=%v", limit, nKeys, expire, order, preGetKeys, clients, plans, fresh, descending)
	}
	r.Sample(map[string]any{"component": "Cache(limited, far from expiry: pre-fill, concurrent phase, sequential re-fill and sweep)", "limit": limit, "keys": nKeys,
		"expire": expire.String(), "pre_fill_order": fmt.Sprint(order), "pre_gets": fmt.Sprint(preGetKeys), "clients": clients, "ops_per_client": perClient,
		"first_client_plan": fmt.Sprintf("%+v", plans[0]), "fresh_keys_stored_afterwards": fresh, "sweep_descending": descending,
		"key_spelling": sh.keyMode, "payload_types": sh.payload})
	w := newCacheWorld(r, sh, limit, expire)
	if w == nil {
		return
	}
	w.nKeys = nKeys
	start := r.Elapsed()
	me := clients // the client id of the sequential phases
	for _, k := range order {
		w.set(me, k, 0)
	}
	for _, k := range preGetKeys {
		w.get(me, k)
	}
	endA := w.sh.clk
	if !runCacheClients(r, []*cacheWorld{w}, plans) {
		return
	}
	r.Quiesce()
	endB := w.sh.clk
	w.length(me)
	for i := 0; i < fresh; i++ {
		w.set(me, nKeys+i, 0)
	}
	w.length(me)
	hits := 0
	for i := 0; i < nKeys+fresh; i++ {
		k := i
		if descending {
			k = nKeys + fresh - 1 - i
		}
		n := len(w.ops)
		w.get(me, k)
		if w.ops[n].out.ok && k < nKeys {
			hits++
		}
	}
	w.length(me)
	if r.Elapsed()-start > guaranteedLife(recencyExpires[0])/2 {
		// stalls carried the clock towards the expiry window of the shortest expiry: no verdict
		r.Probe("cache-recency-abandoned-clock-near-expiry")
		return
	}
	if fresh < limit {
		r.Probe("cache-recency-refill-below-limit")
	} else {
		r.Probe("cache-recency-refill-at-or-beyond-limit")
	}
	if hits > 0 {
		r.Probe("cache-recency-key-of-concurrent-phase-answers-in-sweep")
	}
	// what the concurrent phase contained
	for _, g := range w.ops {
		if g.in.kind != cGet || !g.out.ok || g.call <= endA || g.call > endB {
			continue
		}
		for _, o := range w.ops {
			if o.client == g.client || !(o.call < g.ret && g.call < o.ret) {
				continue
			}
			switch {
			case o.in.kind == cDel && o.in.key == g.in.key:
				r.Probe("cache-recency-hit-overlaps-del-of-same-key")
			case o.in.kind == cSet && o.in.key != g.in.key:
				r.Probe("cache-recency-hit-overlaps-store-of-another-key")
			}
		}
	}
	judgeRecency(r, w, fmt.Sprintf("pre-fill %v + gets %v by c%d, then %d clients (operations stamped %d..%d), then c%d alone: %d fresh keys and a sweep", order, preGetKeys, me, clients, endA+1, endB, me, fresh))
}

// judgeRecency decides a history in which nothing can have expired and no timer can have fired:
// strict LRU model only (the relaxed levels of judgeConcurrent explain values lost to a timer of
// the key's earlier life; they must not be offered here, they would rename a premature eviction).
func judgeRecency(r *simrt.Run, w *cacheWorld, who string) {
	limit := w.limit
	ops, ok := w.history(false)
	if !ok {
		return
	}
	r.Probe("oracle")
	w.flightProbes()
	switch checkCacheHistoryWith(&cacheModel{limit: limit}, ops) {
	case linOK:
		return
	case linUnknown:
		r.Probe("porcupine-unknown")
		return
	}
	for _, o := range ops {
		if o.in.kind == cLen && o.out.n > limit {
			r.Fail("cache-over-limit", "limit=%d expire=%v, %s: %v: the cache holds more entries than its limit:%s", limit, w.expire, who, o, describeOps(ops))
			return
		}
	}
	if loose, ok := w.history(true); ok && checkCacheHistoryWith(&cacheModel{limit: limit}, loose) == linOK {
		r.Fail("cache-take-loader-after-completed-store", "limit=%d expire=%v, %s: a Take ran its loader although, when it entered the cache's single-flight barrier, the key had been stored by a call that completed after the Take was invoked and nothing can have removed it since (no Del, no possible eviction, far from expiry):%s",
			limit, w.expire, who, describeOps(ops))
		return
	}
	if checkCacheHistoryWith(&cacheModel{limit: limit, anyVictim: true}, ops) == linOK {
		r.Fail(notLruClass, "limit=%d expire=%v (no entry older than %v: nothing can have expired, no timer can have fired), %s: no order of the overlapping operations makes this the history of an LRU cache; it is one if a store that exceeds the limit may evict a key OTHER than the least recently used one (Get hit, Set and Take count as use):%s",
			limit, w.expire, w.r.Elapsed()-w.created, who, describeOps(ops))
		return
	}
	if checkCacheHistoryWith(&cacheModel{limit: limit, early: true}, ops) == linOK {
		r.Fail(belowLimitClass, "limit=%d expire=%v (no entry older than %v: nothing can have expired, no timer can have fired), %s: no order of the overlapping operations makes this the history of an LRU cache: a key that was set, not deleted since and among the %d most recently used live keys does not answer / the cache holds fewer entries than min(limit, live keys); the history is only explained if a use (store or hit) evicts a live key although the limit is not exceeded:%s",
			limit, w.expire, w.r.Elapsed()-w.created, who, limit, describeOps(ops))
		return
	}
	r.Fail("cache-nonlinearizable", "limit=%d expire=%v (nothing can have expired), %s: no linearization of the history is a behaviour of an LRU cache:%s", limit, w.expire, who, describeOps(ops))
}
