package c16

import (
	"fmt"
	"math"
	"math/bits"
	"time"

	"verifsim/simrt"
)

// RollingWindow driven by several clients.  The window is documented by its use (breaker,
// shedder: Add and Reduce from many goroutines) and carries its own lock.  Every client sleeps
// to instants on / next to bucket boundaries (so that several operations meet at one virtual
// instant) and issues Add / Reduce.  Oracle (interval reasoning): a Reduce must visit every
// value whose Add RETURNED before the Reduce was invoked and whose interval lies in the window
// at the Reduce's instant, and nothing but values whose Add was INVOKED before the Reduce
// returned and whose interval lies in the window; a final Reduce at quiescence is exact.  The
// interval of an operation is known only if the clock did not cross a bucket boundary during the
// call (an injected stall may do that): such a run is abandoned (probe rw-ambiguous-instant).

type rwcPlan struct {
	adv   int // 0 none, 1 boundary, 2 boundary-1ns, 3 boundary+1ns, 4 part of an interval, 5 one interval, 6 k intervals, 7 yields
	k     int
	frac  int // per mille of an interval (adv 4)
	isAdd bool
}

type rwcOp struct {
	client    int
	isAdd     bool
	idx       int // number of the Add (value identity)
	call, ret int64
	tb, ta    time.Time
	vals      []float64
	sum       float64
	count     int64
}

func rollingWindowConcurrent(r *simrt.Run, tier string) {
	t := r.Tape
	size := t.Range(1, 8)
	if t.Chance(1, 6) {
		size = rwLargeSizes[t.Intn(len(rwLargeSizes))]
		r.Probe("rw-large-size")
	}
	unit := []time.Duration{time.Second, 50 * time.Millisecond, time.Millisecond}[t.Intn(3)]
	interval := unit * time.Duration(t.Range(1, 3))
	ignore := t.Bool()
	realBucket := t.Bool()
	maxC, maxP := 3, 6
	if tier == "thorough" {
		maxC, maxP = 4, 8
	}
	clients := t.Range(2, maxC)
	perClient := t.Range(1, maxP)
	plans := make([][]rwcPlan, clients)
	for c := range plans {
		for j := 0; j < perClient; j++ {
			p := rwcPlan{adv: t.Intn(8), isAdd: t.Intn(3) < 2}
			switch p.adv {
			case 4:
				p.frac = t.Range(1, 999)
			case 6:
				p.k = t.Range(2, size+1)
			case 7:
				p.k = t.Range(1, 3)
			}
			plans[c] = append(plans[c], p)
		}
	}
	if t.Bool() {
		r.Sleep(time.Duration(t.Range(1, int(3*interval))))
	}
	tc := time.Now()
	add, reduce := newWindowUnderTest(size, interval, ignore, realBucket)
	t0 := time.Now()
	if !tc.Equal(t0) {
		r.Probe("rw-ambiguous-instant")
		return
	}
	model := NewWindowModel(size, interval, ignore, t0)
	var clk int64
	var ops []*rwcOp
	nAdds := 0
	valueOf := func(idx int) float64 {
		if realBucket {
			return float64(uint64(1) << uint(idx)) // distinct bits: the sum names the visited set
		}
		return float64(idx + 1)
	}
	doOp := func(c int, isAdd bool) {
		o := &rwcOp{client: c, isAdd: isAdd}
		ops = append(ops, o)
		clk++
		o.call = clk
		o.tb = time.Now()
		if isAdd {
			o.idx = nAdds
			nAdds++
			r.Ev("rw-add", int64(c), int64(o.idx))
			add(valueOf(o.idx))
		} else {
			r.Ev("rw-reduce", int64(c))
			o.vals, o.sum, o.count = reduce()
		}
		o.ta = time.Now()
		clk++
		o.ret = clk
	}
	var tasks []*simrt.Task
	for c := 0; c < clients; c++ {
		c := c
		tasks = append(tasks, r.Go(fmt.Sprintf("client%d", c), func() {
			for _, p := range plans[c] {
				toNext := interval - time.Since(t0)%interval
				var sl time.Duration
				switch p.adv {
				case 1:
					sl = toNext
				case 2:
					sl = toNext - 1
				case 3:
					sl = toNext + 1
				case 4:
					sl = interval * time.Duration(p.frac) / 1000
				case 5:
					sl = interval
				case 6:
					sl = time.Duration(p.k) * interval
				case 7:
					yields(r, p.k)
				}
				if sl > 0 {
					r.Sleep(sl)
				}
				doOp(c, p.isAdd)
			}
		}))
	}
	if !r.JoinTimeout(time.Hour, tasks...) {
		r.Fail("rw-stuck", "RollingWindow clients did not all return: %v", r.AliveTasks())
		return
	}
	r.Quiesce()
	doOp(-1, false) // exact: every Add has returned
	r.Sample(map[string]any{"component": "RollingWindow(concurrent)", "size": size, "interval": interval.String(), "ignore_current": ignore, "go_zero_bucket": realBucket,
		"clients": clients, "ops_per_client": perClient, "adds": nAdds, "first_client_plan": fmt.Sprintf("%+v", plans[0])})
	for _, o := range ops {
		if model.BucketOf(o.tb) != model.BucketOf(o.ta) {
			r.Probe("rw-ambiguous-instant")
			return
		}
	}
	describe := func() string {
		s := ""
		for _, o := range ops {
			what := fmt.Sprintf("Add(#%d)", o.idx)
			if !o.isAdd {
				what = fmt.Sprintf("Reduce = values %v sum %v count %d", o.vals, o.sum, o.count)
			}
			s += fmt.Sprintf("\n  c%d [%d,%d] T0+%v (interval #%d) %s", o.client, o.call, o.ret, o.ta.Sub(t0), model.BucketOf(o.ta), what)
		}
		return s
	}
	sameInstant := 0
	for _, red := range ops {
		if red.isAdd {
			continue
		}
		r.Probe("oracle")
		cur := model.BucketOf(red.ta)
		var must, may uint64 // sets of Add numbers
		for _, a := range ops {
			if !a.isAdd {
				continue
			}
			b := model.BucketOf(a.ta)
			if b <= cur-int64(size) || b > cur || (ignore && b == cur) {
				continue
			}
			if a.ret < red.call {
				must |= 1 << uint(a.idx)
			}
			if a.call < red.ret {
				may |= 1 << uint(a.idx)
			}
			if a.ta.Equal(red.ta) && a.client != red.client {
				sameInstant++
			}
		}
		var got uint64
		where := fmt.Sprintf("window size=%d interval=%v ignoreCurrent=%v, %d clients, Reduce by c%d [%d,%d] at T0+%v (interval #%d)", size, interval, ignore, clients, red.client, red.call, red.ret,
			red.ta.Sub(t0), cur)
		if realBucket {
			if red.sum < 0 || red.sum != math.Trunc(red.sum) || red.sum >= float64(uint64(1)<<uint(nAdds)) && nAdds < 63 {
				r.Fail("rw-totals-not-a-sum-of-added-values", "%s: sum %v is not a sum of distinct added values (2^n, n < %d)%s", where, red.sum, nAdds, describe())
				return
			}
			got = uint64(red.sum)
			if int64(bits.OnesCount64(got)) != red.count {
				r.Fail("rw-totals-count-mismatch", "%s: sum %v is made of %d added values, count is %d%s", where, red.sum, bits.OnesCount64(got), red.count, describe())
				return
			}
		} else {
			for _, v := range red.vals {
				i := int(v) - 1
				if i < 0 || i >= nAdds || float64(i+1) != v {
					r.Fail("rw-visited-value-outside-window", "%s: visited value %v which was never added%s", where, v, describe())
					return
				}
				if got&(1<<uint(i)) != 0 {
					r.Fail("rw-visited-value-twice", "%s: value of Add #%d visited twice%s", where, i, describe())
					return
				}
				got |= 1 << uint(i)
			}
		}
		if miss := must &^ got; miss != 0 {
			r.Fail("rw-missed-value-inside-window", "%s: Add #%d returned before this Reduce was invoked and lies in the window, but its value was not visited (visited set %b, required %b, allowed %b)%s",
				where, bits.TrailingZeros64(miss), got, must, may, describe())
			return
		}
		if extra := got &^ may; extra != 0 {
			r.Fail("rw-visited-value-outside-window", "%s: the value of Add #%d was visited although it does not lie in the window at that instant (or was not yet added) (visited set %b, required %b, allowed %b)%s",
				where, bits.TrailingZeros64(extra), got, must, may, describe())
			return
		}
		if must != may {
			r.Probe("rw-concurrent-reduce-overlaps-add")
		}
	}
	if sameInstant > 0 {
		r.Probe("rw-concurrent-add-and-reduce-at-one-instant")
	}
	r.Probe("rw-concurrent")
	if r.Tracing() {
		r.Logf("rolling window (concurrent) size=%d interval=%v ignore=%v realBucket=%v:%s", size, interval, ignore, realBucket, describe())
	}
}
