package c03

import (
	"os"
	"time"

	"verifsim/simredis"
	"verifsim/simrt"
)

// ---- slow but healthy store --------------------------------------------------
//
// A store can be slow without being broken: a loaded server, a long way to it, a
// noisy neighbour.  Every command is executed exactly once and answered correctly,
// only late - but within go-redis' 3 s read / write timeouts, so no client ever sees
// an error, a retry or a lost reply.  For the property that is "a reachable store":
// nothing failed, so nobody is excused, no instance may answer from its private
// bucket, no Take may return an error, and the exact oracles (joint token bucket,
// period codes in server execution order) keep applying.  This is therefore a
// dimension of the FAULT-FREE members (in the fault members latency is one of the
// injected faults); drawn once per run, draw 0 = the store answers at once.
//
//   every command            the store is slow for the whole run
//   runs of commands         0-30 timely commands, then 6-40 consecutive slow ones, ...
//   whole instants           all commands that leave their clients at one virtual
//                            instant (a herd) are slow together, by the same amount
//
// The latency of a slow command is 1 ms .. 2.9 s (landmarks 1, 99, 100, 100 + 1 ns,
// 101, 499, 500, 501, 999, 1000, 1001, 2900 ms), one value for the run or drawn per
// command, spent before the server sees the command (request side: the server
// executes it later than the second / the window the caller computed), after it
// (reply side: the caller learns the decision late) or half and half.
//
// TokenLimiter requests carry the caller's second.  A request-side delay can carry it
// across a second boundary (handled by the model: such a request may be accounted at
// any second between the one it carries and the one it is executed in).  What the
// latency must not do is manufacture the open known finding `stale-now-after-ttl-expiry`
// (a late request that arrives after the bucket keys expired): shape (token_test.go) moves
// as much of the request-side delay to the reply side as is needed for the request to
// arrive either while the keys are alive or within the second it carries; and when the
// server may have lost its script cache, an EVALSHA (whose NOSCRIPT reply is followed by an
// EVAL carrying the same second) gets its whole latency cut to that second in the same case.

const (
	slowOff = iota
	slowEvery
	slowRuns
	slowInstants
)

var slowModeNames = [...]string{"off", "every-command", "runs-of-commands", "whole-instants"}

const (
	sideReply = iota
	sideRequest
	sideBoth
	sidePerCommand
)

var slowSideNames = [...]string{"reply", "request", "both", "drawn-per-command"}

const slowMs = time.Millisecond

var slowMarks = []time.Duration{slowMs, 99 * slowMs, 100 * slowMs, 100*slowMs + 1, 101 * slowMs, 499 * slowMs, 500 * slowMs, 501 * slowMs,
	999 * slowMs, 1000 * slowMs, 1001 * slowMs, 2900 * slowMs}

type slowStore struct {
	r     *simrt.Run
	mode  int
	side  int
	fixed time.Duration // 0: drawn per command (per instant in slowInstants)

	left, skip int // slowRuns: slow commands left in the current run / timely commands before the next run

	instAt   time.Time // slowInstants: the instant the last command left, and what was drawn for it
	instSet  bool
	instSlow bool
	instLat  time.Duration
	instCmds int

	delayed int           // commands delayed so far
	over    int           // ... by more than 100 ms
	streak  int           // consecutive commands (server-wide) delayed by more than 100 ms
	longest int           // longest such streak
	sum     time.Duration // total latency added
	moved   int           // request-side delays (partly) moved to the reply side by reqCap

	cut     int           // latencies shortened by shape

	// shape (optional) may move delay from the request to the reply side of a command, or
	// shorten it (TokenLimiter, see above).
	shape func(c *simredis.Cmd, req, rep time.Duration) (time.Duration, time.Duration)
	// onSlow (optional) is told about every delayed command.
	onSlow func(c *simredis.Cmd, total time.Duration)
}

// drawSlow draws the dimension for one run; fault members draw nothing.
func drawSlow(r *simrt.Run, faulty bool) *slowStore {
	s := &slowStore{r: r}
	if faulty {
		return s
	}
	t := r.Tape
	switch t.Intn(5) {
	case 0, 1: // the store answers at once
		return s
	case 2:
		s.mode = slowEvery
	case 3:
		s.mode = slowRuns
		s.skip = t.Intn(20)
	default:
		s.mode = slowInstants
	}
	s.side = t.Intn(4)
	if t.Bool() {
		s.fixed = s.drawLatency()
	}
	if noSlow {
		// development switch (VERIF_C03_NOSLOW=1): same draws, dimension off - to show that a
		// mutant is only found with it
		s.mode = slowOff
	}
	return s
}

var noSlow = os.Getenv("VERIF_C03_NOSLOW") != ""

func (s *slowStore) drawLatency() time.Duration {
	t := s.r.Tape
	switch t.Intn(4) {
	case 0:
		return slowMarks[t.Intn(len(slowMarks))]
	case 1:
		return time.Duration(t.Range(1, 99)) * slowMs
	case 2:
		return time.Duration(t.Range(100, 600)) * slowMs
	}
	return time.Duration(t.Range(600, 2900)) * slowMs
}

func (s *slowStore) on() bool { return s.mode != slowOff }

// policy is the per-command decision (nil when the dimension is off).  It runs on the
// sending task at the instant the command leaves the client, like every fault policy.
func (s *slowStore) policy() func(*simredis.Cmd) simredis.Fault {
	if !s.on() {
		return nil
	}
	r := s.r
	r.Probe("slow-store-" + slowModeNames[s.mode])
	if s.fixed > 0 {
		r.Probe("slow-store-one-latency-for-the-run")
	}
	return func(c *simredis.Cmd) simredis.Fault {
		if c.Handshake() {
			return simredis.Fault{}
		}
		t := r.Tape
		slow := false
		var lat time.Duration
		switch s.mode {
		case slowEvery:
			slow = true
		case slowRuns:
			switch {
			case s.left > 0:
				s.left--
				slow = true
			case s.skip > 0:
				s.skip--
			default:
				s.left = t.Range(6, 40) - 1
				slow = true
				r.Probe("slow-store-run-of-commands-started")
			}
			if slow && s.left == 0 {
				s.skip = t.Intn(31)
				r.Probe("slow-store-run-of-commands-completed")
			}
		case slowInstants:
			now := time.Now()
			if !s.instSet || !now.Equal(s.instAt) {
				s.instAt, s.instSet, s.instCmds = now, true, 0
				s.instSlow = t.Chance(1, 2)
				if s.instSlow {
					s.instLat = s.fixed
					if s.instLat == 0 {
						s.instLat = s.drawLatency()
					}
				}
			}
			slow, lat = s.instSlow, s.instLat
			if slow {
				s.instCmds++
				if s.instCmds == 2 {
					r.Probe("slow-store-several-commands-of-one-instant")
				}
			}
		}
		if !slow {
			s.streak = 0
			return simredis.Fault{}
		}
		if lat == 0 {
			lat = s.fixed
		}
		if lat == 0 {
			lat = s.drawLatency()
		}
		side := s.side
		if side == sidePerCommand {
			side = t.Intn(3)
		}
		var req, rep time.Duration
		switch side {
		case sideReply:
			rep = lat
		case sideRequest:
			req = lat
		default:
			req = lat / 2
			rep = lat - req
		}
		if s.shape != nil {
			q, p := s.shape(c, req, rep)
			if q < 0 {
				q = 0
			}
			if p < 0 {
				p = 0
			}
			if q < req {
				s.moved++
				r.Probe("slow-store-request-delay-moved-to-reply-side")
			}
			if q+p < req+rep {
				s.cut++
				r.Probe("slow-store-latency-cut-to-the-carried-second")
			}
			req, rep = q, p
			if lat = req + rep; lat == 0 {
				s.streak = 0
				return simredis.Fault{}
			}
		}
		switch {
		case req > 0 && rep > 0:
			r.Probe("slow-store-delay-on-both-sides")
		case req > 0:
			r.Probe("slow-store-delay-on-request-side")
		default:
			r.Probe("slow-store-delay-on-reply-side")
		}
		s.delayed++
		s.sum += lat
		switch {
		case lat > 100*slowMs:
			s.over++
			s.streak++
			if s.streak > s.longest {
				s.longest = s.streak
			}
			if s.streak == 6 {
				r.Probe("slow-store-6-consecutive-commands-over-100ms")
			}
			if lat >= time.Second {
				r.Probe("slow-store-latency-1s-or-more")
			} else {
				r.Probe("slow-store-latency-over-100ms")
			}
		default:
			s.streak = 0
			if lat == 100*slowMs {
				r.Probe("slow-store-latency-exactly-100ms")
			} else {
				r.Probe("slow-store-latency-below-100ms")
			}
		}
		if s.onSlow != nil {
			s.onSlow(c, lat)
		}
		if r.Tracing() {
			r.Logf("store: SLOW (healthy) %s of task %d leaves at %v: request +%v, reply +%v", c.Name(), c.Task, r.Elapsed(), req, rep)
		}
		r.Ev("slow", int64(req), int64(rep))
		return simredis.Fault{Kind: simredis.Latency, ReqDelay: req, RepDelay: rep}
	}
}

func (s *slowStore) sample() map[string]any {
	if !s.on() {
		return map[string]any{"mode": "off"}
	}
	lat := "drawn per command"
	if s.fixed > 0 {
		lat = s.fixed.String()
	}
	return map[string]any{"mode": slowModeNames[s.mode], "side": slowSideNames[s.side], "latency": lat, "commands_delayed": s.delayed,
		"delayed_over_100ms": s.over, "longest_streak_over_100ms": s.longest, "latency_added": s.sum.String(), "request_delays_moved_to_reply_side": s.moved, "latencies_cut": s.cut}
}
