package c03

import (
	"context"
	"fmt"
	"io"
	"net"
	"os"
	"sort"
	"strconv"
	"strings"
	"syscall"
	"testing"
	"time"

	red "github.com/redis/go-redis/v9"
	"github.com/zeromicro/go-zero/core/logx"

	"verifsim/simharness"
	"verifsim/simredis"
	"verifsim/simrt"
)

// C03: rate limiters never grant more than the configured quota.
//
// Four swarm members, drawn once per run:
//   0 PeriodLimit, fault-free      1 TokenLimiter, fault-free
//   2 PeriodLimit, faults          3 TokenLimiter, faults / outages
// Relaxations that are only valid under faults (errors, rescue mode, results that
// differ from the server's decision) are never active in members 0 and 1.
// Members 0 and 1 may meet a store that is slow but healthy (slow_test.go): correct
// replies within go-redis' timeouts, no fault, nothing relaxed.
//
// Both oracles work from what the SERVER executed (simredis OnExec: every command in
// server order with its virtual instant) and from what each CLIENT call returned.

// findings masked while developing (VERIF_C03_MASK=class,class): the scenario is
// still generated and evaluated, but only counted.
var masked = map[string]bool{}

func init() {
	logx.Disable()
	for _, c := range strings.Split(os.Getenv("VERIF_C03_MASK"), ",") {
		if c = strings.TrimSpace(c); c != "" {
			masked[c] = true
		}
	}
}

// excuseWindow is the virtual time after the last fault that touched an instance (or
// after the end of an outage) during which the instance may still be answering from
// its in-process limiter.  The ping monitor ticks every 100 ms and go-redis backs off
// up to 512 ms between attempts, but the pings also have to get through go-zero's
// redis breaker, which after an outage lets a request pass only with a probability of
// a few percent per attempt until one succeeded (rejected pings keep its 10 s window
// full): 60 s make "still cut off" a < 1e-15 event per run instead of a 1e-3 one.
const excuseWindow = 60 * time.Second

type finding struct {
	prio  int
	class string
	msg   string
}

// base collects findings during a run; they are reported at the end in priority
// order (the engine keeps the first), so that the most telling class names the run.
type base struct {
	r     *simrt.Run
	finds []finding
}

func (b *base) note(prio int, class, format string, a ...any) {
	for _, f := range b.finds {
		if f.class == class {
			return
		}
	}
	msg := fmt.Sprintf(format, a...)
	b.finds = append(b.finds, finding{prio, class, msg})
	if b.r.Tracing() {
		b.r.Logf("FINDING[%d] %s: %s", prio, class, msg)
	}
}

func (b *base) flush() {
	sort.SliceStable(b.finds, func(i, j int) bool { return b.finds[i].prio < b.finds[j].prio })
	for _, f := range b.finds {
		if masked[f.class] {
			b.r.Probe("masked-finding-" + f.class)
			continue
		}
		b.r.Fail(f.class, "%s", f.msg)
	}
}

// scriptCall splits an EVAL / EVALSHA command into KEYS and ARGV.
func scriptCall(c *simredis.Cmd) (keys, argv []string, ok bool) {
	name := c.Name()
	if (name != "EVALSHA" && name != "EVAL") || len(c.Args) < 3 {
		return nil, nil, false
	}
	nk, err := strconv.Atoi(c.Args[2])
	if err != nil || nk < 0 || 3+nk > len(c.Args) {
		return nil, nil, false
	}
	return c.Args[3 : 3+nk], c.Args[3+nk:], true
}

// reply classifies a raw RESP reply: 'i' integer, 'n' null, 'e' error, '?' other.
func reply(b []byte) (kind byte, n int64, msg string) {
	s := strings.TrimSuffix(string(b), "\r\n")
	switch {
	case len(s) == 0:
		return '?', 0, ""
	case s[0] == ':':
		v, err := strconv.ParseInt(s[1:], 10, 64)
		if err != nil {
			return '?', 0, s
		}
		return 'i', v, ""
	case s == "_" || s == "$-1" || s == "*-1":
		return 'n', 0, ""
	case s[0] == '-':
		return 'e', 0, s[1:]
	}
	return '?', 0, s
}

func lostReply(k simredis.Kind) bool {
	return k == simredis.DropReply || k == simredis.ResetAfter || k == simredis.Truncate
}

// faultRates draws the transport fault mix of a fault-injecting run.
func faultRates(t *simrt.Tape, enabled *bool) simredis.Rates {
	scale := []int{1, 2, 4}[t.Intn(3)]
	rt := simredis.Rates{Latency: 20 * scale, DropRequest: 5 * scale, DropReply: 10 * scale, ResetBefore: 5 * scale,
		ResetAfter: 8 * scale, ErrReply: 6 * scale, Truncate: 5 * scale, Enabled: enabled,
		ErrMsgs: []string{"LOADING Redis is loading the dataset in memory", "ERR injected server error"}}
	// swarm: switch whole kinds off
	if t.Chance(1, 4) {
		rt.DropRequest, rt.DropReply = 0, 0
	}
	if t.Chance(1, 4) {
		rt.ResetBefore, rt.ResetAfter, rt.Truncate = 0, 0, 0
	}
	if t.Chance(1, 4) {
		rt.ErrReply = 0
	}
	return rt
}

// dialBudget: go-redis counts the failed dials of a client over its whole life and,
// once they reach its PoolSize (10 x GOMAXPROCS - so at least 10), starts a private
// re-dial goroutine of its own (pool.tryDial) that the simulator does not own.  To
// stay clear of it for every GOMAXPROCS, each client sees at most dialBudget refused
// dials per run; after that an outage shows as connections that are accepted and
// reset at the first byte (the other common face of an unreachable store).
const dialBudget = 8

// guardHook routes the dials of one go-redis client to the simulated server and
// enforces dialBudget.
type guardHook struct {
	r     *simrt.Run
	srv   *simredis.Server
	fails int
}

func (h *guardHook) DialHook(next red.DialHook) red.DialHook {
	dial := h.srv.Hook().DialHook(next)
	return func(ctx context.Context, network, addr string) (net.Conn, error) {
		c, err := dial(ctx, network, addr)
		if err != nil && ctx.Err() == nil {
			if h.fails >= dialBudget {
				h.r.Probe("outage-as-reset-connection")
				return deadConn{}, nil
			}
			h.fails++
		}
		return c, err
	}
}

func (h *guardHook) ProcessHook(next red.ProcessHook) red.ProcessHook { return next }

func (h *guardHook) ProcessPipelineHook(next red.ProcessPipelineHook) red.ProcessPipelineHook {
	return next
}

// deadConn is a connection to a dead peer: accepted, reset at the first byte.
type deadConn struct{}

type deadAddr struct{}

func (deadAddr) Network() string { return "simredis" }
func (deadAddr) String() string  { return "dead" }

func (deadConn) Read([]byte) (int, error) { return 0, io.EOF }
func (deadConn) Write([]byte) (int, error) {
	return 0, &net.OpError{Op: "write", Net: "tcp", Err: syscall.ECONNRESET}
}
func (deadConn) Close() error                     { return nil }
func (deadConn) LocalAddr() net.Addr              { return deadAddr{} }
func (deadConn) RemoteAddr() net.Addr             { return deadAddr{} }
func (deadConn) SetDeadline(time.Time) error      { return nil }
func (deadConn) SetReadDeadline(time.Time) error  { return nil }
func (deadConn) SetWriteDeadline(time.Time) error { return nil }

// ---- script cache lost / server restarted with its data ---------------------
//
// A Redis server can lose its SCRIPT CACHE while it keeps its data and stays reachable:
// SCRIPT FLUSH by an operator, a failover to a replica, a restart with persistence behind
// a proxy that keeps the clients' connections.  That is no outage and no store error: the
// store answers every command; a client that sends EVALSHA is told NOSCRIPT and has to send
// the script itself (go-redis' Script.Run does).  So in every member - also the fault-free
// ones - the oracles stay as they are: exact period codes, exact joint bucket, no error and
// no local answer while nothing failed.  cacheLoss draws when it happens: never (draw 0), at
// instants drawn on the clock (a controller task), and/or at the instant a command leaves a
// client, i.e. just before that command reaches the server (between the handshake and the
// EVALSHA, between the NOSCRIPT reply and the EVAL that follows, before a ping) - since the
// server executes a command at one instant these are all the instants a client can tell apart.
// Fault members also draw restarts with persisted data (simredis.Restart): every established
// connection is reset, commands in flight fail, the script cache is empty, the data stays.
type cacheLoss struct {
	r         *simrt.Run
	srv       *simredis.Server
	perMille  int             // per command leaving a client: the cache is lost just before the command reaches the server
	gaps      []time.Duration // losses at instants on the clock: idle time before each
	restarts  []time.Duration // (fault members) restarts with persisted data: idle time before each
	lost      int             // times the cache was lost so far (restarts included)
	onRestart func()
}

func drawCacheLoss(r *simrt.Run, srv *simredis.Server, faulty bool) *cacheLoss {
	t := r.Tape
	l := &cacheLoss{r: r, srv: srv}
	gap := func() time.Duration {
		switch t.Intn(3) {
		case 0:
			return time.Duration(t.Intn(50)) * time.Millisecond
		case 1:
			return time.Duration(t.Intn(3000)) * time.Millisecond
		}
		return time.Duration(t.Intn(20000)) * time.Millisecond
	}
	timed := func() {
		for n := t.Range(1, 3); n > 0; n-- {
			l.gaps = append(l.gaps, gap())
		}
	}
	switch t.Intn(7) {
	case 0, 1, 2: // never
	case 3:
		timed()
	case 4:
		l.perMille = 30
	case 5:
		l.perMille = 250
		timed()
	default:
		l.perMille = 1000 // (nearly) every EVALSHA meets an empty cache
	}
	if faulty && t.Chance(1, 4) {
		for n := t.Range(1, 2); n > 0; n-- {
			l.restarts = append(l.restarts, gap())
		}
	}
	return l
}

func (l *cacheLoss) flush(when string) {
	l.lost++
	l.srv.FlushScripts()
	l.r.Ev("scripts-lost")
	l.r.Probe("script-cache-lost-" + when)
	if l.r.Tracing() {
		l.r.Logf("server: SCRIPT CACHE LOST (%s) at %v; data kept, store reachable", when, l.r.Elapsed())
	}
}

// wrap puts the per-command draw in front of a fault policy.
func (l *cacheLoss) wrap(inner func(*simredis.Cmd) simredis.Fault) func(*simredis.Cmd) simredis.Fault {
	if l.perMille == 0 {
		return inner
	}
	return func(c *simredis.Cmd) simredis.Fault {
		if !c.Handshake() {
			if v := l.r.Tape.Intn(1000); v > 0 && v <= l.perMille {
				l.flush("as-command-left")
			}
		}
		return inner(c)
	}
}

// start launches the controller tasks (to be joined before the final phase of a run).
func (l *cacheLoss) start() []*simrt.Task {
	var ts []*simrt.Task
	r := l.r
	if len(l.gaps) > 0 {
		ts = append(ts, r.Go("script-cache", func() {
			for _, g := range l.gaps {
				r.Sleep(g)
				l.flush("at-drawn-instant")
			}
		}))
	}
	if len(l.restarts) > 0 {
		ts = append(ts, r.Go("restarts", func() {
			for _, g := range l.restarts {
				r.Sleep(g)
				l.lost++
				l.srv.Restart()
				r.Ev("restart")
				r.Probe("server-restarted-with-data")
				if r.Tracing() {
					r.Logf("server: RESTART with persisted data at %v (connections reset, script cache empty)", r.Elapsed())
				}
				if l.onRestart != nil {
					l.onRestart()
				}
			}
		}))
	}
	return ts
}

func (l *cacheLoss) sample() map[string]any {
	return map[string]any{"per_mille_of_commands": l.perMille, "at_drawn_instants": len(l.gaps), "restarts_with_data": len(l.restarts), "happened": l.lost}
}

func maxTime(a, b time.Time) time.Time {
	if b.After(a) {
		return b
	}
	return a
}

func body(r *simrt.Run, tier string) {
	switch r.Tape.Intn(4) {
	case 0:
		periodRun(r, tier, false)
	case 1:
		tokenRun(r, tier, false)
	case 2:
		periodRun(r, tier, true)
	default:
		tokenRun(r, tier, true)
	}
}

func TestSim(t *testing.T) {
	simharness.Main(t, &simharness.Spec{ID: "C03", Body: body, Config: config})
}

// config widens the step budget: a TokenLimiter whose recovery monitor never gets a
// successful ping keeps pinging every 100 ms for the whole quiet period (90 s x up to
// 4 instances); the run must reach the final "served by the store again" assertion
// instead of ending as a budget (engine) error.
func config(t *simrt.Tape, tier string) simrt.Config {
	c := simharness.DefaultConfig(t, tier)
	c.MaxSteps = 600000
	return c
}
