package c03

import (
	"context"
	"errors"
	"fmt"
	"math"
	"net"
	"sort"
	"strconv"
	"strings"
	"time"

	red "github.com/redis/go-redis/v9"
	"github.com/zeromicro/go-zero/core/limit"
	"github.com/zeromicro/go-zero/core/stores/redis"

	"verifsim/simredis"
	"verifsim/simrt"
)

// ---- TokenLimiter ---------------------------------------------------------
//
// Reference model (property text): all instances sharing the key and a reachable
// store are ONE bucket of `burst` tokens refilled with `rate` tokens per whole second;
// a request for n is granted iff the bucket holds n.  The bucket's clock is the `now`
// the callers pass (whole seconds), never running backwards.  A request that reaches
// the server later than the second it carries (stall, latency, go-redis retry) may
// be accounted at any second between the one it carries and the one it is executed
// in, so the model keeps the SET of bucket states consistent with everything the
// server answered so far; with timely requests that set has one element and the check
// is exact.  Grants that did not come from the server are charged to the instance's
// own in-process bucket: over any interval at most burst + rate x elapsed (+1).
// Independently of both: over every interval all instances together are granted at
// most burst + rate x (whole seconds elapsed), plus the local allowance of exactly
// those instances that had a reason (fault, outage) to be cut off from the store.
// The context a caller passes (ctx_test.go) is no such reason: a request whose context
// ended may be answered false, everything else stays as it is.

type bstate struct {
	tokens int
	last   int64 // second of the last refill; math.MinInt64: never used (bucket full)
}

type tExec struct {
	dec   byte // 'g' granted, 'd' denied, 'e' script error
	fault simredis.Kind
}

type tInst struct {
	id          int
	lim         *limit.TokenLimiter
	excuseUntil time.Time // bypassing the store is excused for calls starting before this
	maxNow      time.Time // largest `now` of the calls of this instance that returned
	bypassed    bool      // some call was answered without the store
	cxSuspect   bool      // served by the store, then a call with an ended context returned, no store decision since
	noscrOpen   bool      // the server answered NOSCRIPT to a call of this instance and has made no decision for the instance since
	slowed      int       // commands of this instance that the slow-but-healthy store delayed so far
	slowedOver  int       // ... by more than 100 ms
	calls       []*tCall
	ping        func() bool // a PING through this instance's own go-zero client
	unreachable bool        // final phase: the harness' own pings through that client all failed
}

type tCall struct {
	in         *tInst
	now        time.Time
	n          int
	start, end time.Time
	execs      []tExec
	cx         *cxPlan // the caller's context; cx.ended: it was over when the call returned
	res        bool
	store      bool          // result is a grant the server issued to this call
	rescue     bool          // granted, but not by the server: charged to the local bucket
	excused    bool          // (rescue) the instance had a reason to be cut off
	stale      time.Duration // how far `now` lies before an earlier call of the instance
	trouble    string        // tWorld.trouble when the call returned
	noscr      int           // NOSCRIPT replies the server gave to this call
}

type tWorld struct {
	base
	srv         *simredis.Server
	faulty      bool
	rate, burst int
	insts       []*tInst
	short       bool // n == 1 goes through Allow() / AllowCtx()
	shortCtx    bool
	cur         map[int]*tCall
	instOfTask  map[int]*tInst
	states      []bstate
	maxArg      int64
	regress     bool   // a request carried a `now` older than one executed before it, bucket keys alive
	staleSeen   bool   // a request was executed in a later second than the `now` it carried
	lateOnExp   bool   // a late / older-`now` request met expired bucket keys
	trouble     string // the latest of the two events above, as a class suffix
	diverged    bool   // the server already made a decision no consistent bucket state explains
	ttlErr      bool   // a script failed with "invalid expire time"
	scriptErr   bool
	expiry      time.Time // when the bucket keys expire (from the TTL the server set)
	expired     bool      // the bucket expired at least once before an execution
	final       bool
	calls       []*tCall
	cancellers  []*simrt.Task
	nExec       int
	sGrants     int
	rGrants     int
	loss        *cacheLoss
	lossBypass  bool // an instance answered beside the store after the server had told it NOSCRIPT
	slow        *slowStore
	slowBypass  bool // an instance answered beside the store after nothing but slow, correct replies
}

// bypassCause names why instances answer without the store, from what was observed.
func (w *tWorld) bypassCause(def string) string {
	switch {
	case w.ttlErr:
		return "ttl-zero"
	case w.scriptErr:
		return "script-error"
	case w.lossBypass:
		return "script-cache-lost"
	case w.slowBypass:
		return "store-slow-but-healthy"
	}
	return def
}

// cause names the scenario class of an over-grant from what was observed in this history.
func (w *tWorld) cause(trouble, def string) string {
	switch {
	case w.ttlErr:
		return "ttl-zero"
	case w.scriptErr:
		return "script-error"
	case trouble != "":
		return trouble // the latest of: `now` ran backwards on live keys / late request met expired keys
	}
	return def
}

func (w *tWorld) excuse(in *tInst, until time.Time) {
	in.excuseUntil = maxTime(in.excuseUntil, until)
}

// step advances one candidate state to second e and applies the decision.
func (w *tWorld) refill(s bstate, e int64) bstate {
	if s.last == math.MinInt64 {
		return bstate{w.burst, e}
	}
	if e <= s.last {
		return s
	}
	d := e - s.last
	tok := w.burst
	if d < int64(w.burst) && int64(s.tokens)+d*int64(w.rate) < int64(w.burst) {
		tok = s.tokens + int(d)*w.rate
	}
	return bstate{tok, e}
}

func (w *tWorld) onExec(e *simredis.Exec) {
	r := w.r
	keys, argv, ok := scriptCall(&e.Cmd)
	if !ok {
		return
	}
	kind, v, msg := reply(e.Reply)
	r.Ev("texec", int64(e.Cmd.Task), int64(kind), v)
	c := w.cur[e.Cmd.Task]
	if c != nil {
		// (a context that is cancelled now ends while the reply - also a NOSCRIPT reply, which
		// is followed by a second command - is on its way back)
		c.cx.onExec(r)
	}
	if kind == 'e' {
		if strings.HasPrefix(msg, "NOSCRIPT") {
			// a healthy server that does not have the script (cold start, script cache lost): no
			// decision, no failure - the script itself has to follow
			if c != nil {
				c.noscr++
				c.in.noscrOpen = true
			}
			if w.loss.lost > 0 {
				r.Probe("token-noscript-after-cache-loss")
			}
			return
		}
		w.scriptErr = true
		if strings.Contains(msg, "invalid expire") {
			w.ttlErr = true
		}
		if c != nil {
			c.execs = append(c.execs, tExec{dec: 'e', fault: e.Fault})
		}
		r.Probe("token-script-error")
		if r.Tracing() {
			r.Logf("server: token script FAILED at %v task=%d argv=%v: %s", e.At, e.Cmd.Task, argv, msg)
		}
		w.note(4, "token-store-bypassed-store-reachable/"+w.bypassCause("script-error"),
			"rate %d burst %d: the reachable store failed the token script (argv %v): %s", w.rate, w.burst, argv, msg)
		return
	}
	if len(keys) != 2 || len(argv) != 4 || (kind != 'i' && kind != 'n') || (kind == 'i' && v != 1) {
		w.note(2, "token-script-reply", "unexpected token script execution keys=%v argv=%v reply=%q", keys, argv, e.Reply)
		return
	}
	granted := kind == 'i'
	ra, _ := strconv.Atoi(argv[0])
	ba, _ := strconv.Atoi(argv[1])
	a, _ := strconv.ParseInt(argv[2], 10, 64)
	n, _ := strconv.Atoi(argv[3])
	if ra != w.rate || ba != w.burst || (c != nil && (a != c.now.Unix() || n != c.n)) {
		w.note(3, "token-script-args", "token script executed with argv %v; limiter has rate %d burst %d, call was (now=%d, n=%v)", argv, w.rate, w.burst, a, c)
	}
	now := time.Now()
	s := now.Unix()
	if a > s {
		s = a
	}
	w.nExec++
	expiredNow := false
	if !w.expiry.IsZero() && !now.Before(w.expiry) {
		expiredNow, w.expired = true, true
		r.Probe("token-ttl-expired-bucket")
	}
	if a < w.maxArg {
		r.Probe("token-now-regressed-at-server")
		if expiredNow {
			w.lateOnExp, w.trouble = true, "stale-now-after-ttl-expiry"
		} else if !w.lateOnExp {
			// (once a stale request has met an expired bucket the history stays in that scenario
			// class: its old second is what later requests are measured against)
			w.regress, w.trouble = true, "now-regressed"
		}
	}
	if a > w.maxArg {
		w.maxArg = a
	}
	if s > a {
		w.staleSeen = true
		r.Probe("token-stale-now-at-server")
		if expiredNow {
			w.lateOnExp, w.trouble = true, "stale-now-after-ttl-expiry"
			r.Probe("token-stale-now-met-expired-bucket")
		}
	}
	// all states consistent with this decision
	lo, hi := a, s
	var next, all []bstate
	seen := map[bstate]bool{}
	add := func(dst *[]bstate, b bstate) {
		*dst = append(*dst, b)
	}
	for _, st := range w.states {
		for sec := lo; sec <= hi; sec++ {
			if hi-lo > 400 && sec > lo+200 && sec < hi-200 {
				continue
			}
			b := w.refill(st, sec)
			if b.tokens >= n {
				nb := bstate{b.tokens - n, b.last}
				if granted && !seen[nb] {
					seen[nb] = true
					add(&next, nb)
				}
				if !granted {
					add(&all, b)
				}
			} else {
				if !granted && !seen[b] {
					seen[b] = true
					add(&next, b)
				}
				if granted {
					add(&all, bstate{0, b.last})
				}
			}
		}
	}
	if r.Tracing() {
		r.Logf("server: token exec at %v (second %d) task=%d now=%d n=%d -> granted=%v fault=%v expired=%v states %v -> %v", e.At, s, e.Cmd.Task, a, n, granted, e.Fault, expiredNow, w.states, next)
	}
	if len(next) == 0 {
		// name the scenario class from what was observed so far in this history
		sub := "exact-bucket"
		switch {
		case w.trouble != "":
			sub = w.trouble // the latest of: `now` ran backwards on live keys / late request met expired keys
		case w.expired:
			sub = "ttl-expired"
		case w.staleSeen:
			sub = "stale-now"
		}
		// only the first disagreement of a run is judged: afterwards the model merely
		// follows the server and is no authority any more
		first := !w.diverged
		w.diverged = true
		if !first {
			r.Probe("token-model-followed-server")
		} else if granted {
			w.note(1, "token-overgrant-store-reachable/"+sub, "rate %d burst %d: the server granted n=%d (now=%d, executed in second %d) although the joint bucket holds less in every consistent history; bucket states (tokens,last) before: %v",
				w.rate, w.burst, n, a, s, w.states)
		} else if !w.regress && !w.lateOnExp {
			// (after the bucket clock was seen running backwards, or a late request met an
			// expired bucket, the server's later grants are judged, but the model no longer
			// claims to know that tokens MUST be there)
			w.note(2, "token-undergrant/"+sub, "rate %d burst %d: the server denied n=%d (now=%d, executed in second %d) although the joint bucket holds at least n in every consistent history; bucket states (tokens,last) before: %v",
				w.rate, w.burst, n, a, s, w.states)
		}
		// follow the server
		seen = map[bstate]bool{}
		for _, b := range all {
			if !seen[b] {
				seen[b] = true
				next = append(next, b)
			}
		}
	}
	w.states = next
	if len(next) > 1 {
		r.Probe("token-model-ambiguous")
	}
	if granted {
		w.sGrants++
	}
	if c != nil {
		d := byte('d')
		if granted {
			d = 'g'
		}
		c.execs = append(c.execs, tExec{dec: d, fault: e.Fault})
		c.in.noscrOpen = false
	}
	if granted && lostReply(e.Fault) {
		r.Probe("token-reply-lost-after-grant")
	}
	// when do the bucket keys expire?  (observed, not derived from the script's constants)
	if ttl := w.srv.MR().TTL(keys[0]); ttl > 0 {
		w.expiry = now.Add(ttl)
	} else {
		w.expiry = time.Time{}
	}
}

// instHook sits innermost in the hook chain of one instance's client: it routes the
// dial to the simulated server, tells which instance a command-sending task works
// for (the ping monitor is a go-zero goroutine), and sees the monitor's pings.
type instHook struct {
	w     *tWorld
	in    *tInst
	inner red.Hook
}

func (h instHook) DialHook(next red.DialHook) red.DialHook { return h.inner.DialHook(next) }

func (h instHook) ProcessHook(next red.ProcessHook) red.ProcessHook {
	return func(ctx context.Context, cmd red.Cmder) error {
		w := h.w
		tid := w.r.CurrentID()
		prev := w.instOfTask[tid]
		w.instOfTask[tid] = h.in
		err := next(ctx, cmd)
		if prev == nil {
			delete(w.instOfTask, tid)
		}
		name := strings.ToLower(cmd.Name())
		switch {
		case name == "ping" && err == nil:
			w.r.Probe("token-rescue-left")
			w.r.Ev("pong", int64(h.in.id))
		case name == "ping":
			w.r.Probe("token-ping-failed")
		case isCtxErr(err):
			w.r.Probe("token-store-call-ended-by-context")
		case err != nil && !errors.Is(err, red.Nil) && !strings.HasPrefix(err.Error(), "NOSCRIPT"):
			var ne net.Error
			if errors.As(err, &ne) || strings.Contains(err.Error(), "EOF") || strings.Contains(err.Error(), "refused") || strings.Contains(err.Error(), "reset") {
				w.r.Probe("token-rescue-entered-transport")
			} else {
				w.r.Probe("token-rescue-entered-reply-error")
			}
		}
		return err
	}
}

func (h instHook) ProcessPipelineHook(next red.ProcessPipelineHook) red.ProcessPipelineHook {
	return next
}

// finish classifies one returned call.
func (w *tWorld) finish(c *tCall) {
	r := w.r
	in := c.in
	c.end = time.Now()
	c.trouble = w.trouble
	w.calls = append(w.calls, c)
	in.calls = append(in.calls, c)
	if c.now.Before(in.maxNow) {
		c.stale = in.maxNow.Sub(c.now)
	}
	in.maxNow = maxTime(in.maxNow, c.now)
	decisive, sGrant, sDeny := 0, false, false
	for _, x := range c.execs {
		switch x.dec {
		case 'g':
			decisive++
			sGrant = true
		case 'd':
			decisive++
			sDeny = true
		}
	}
	if decisive > 1 {
		r.Probe("token-call-retried")
	}
	if c.cx.ended {
		// the caller's context was over when the call returned (before the call or while it
		// ran).  That is the caller's affair, not an outage: `false` is an acceptable answer
		// whatever the server did (tokens it handed out are lost, not over-granted); a `true`
		// is judged like any other answer - an instance that is legitimately answering
		// locally does not look at the context, anybody else needs the store's grant
		r.Probe("token-call-context-ended")
		if c.cx.kind == cxCancelled {
			r.Probe("token-cancelled-context")
		}
		if decisive > 0 {
			r.Probe("token-context-ended-request-executed-anyway")
		}
		if !in.bypassed {
			in.cxSuspect = true
		}
		if !c.res {
			return
		}
	}
	excused := !w.final && w.faulty && !in.excuseUntil.Before(c.start)
	if decisive == 0 {
		// answered without the store
		if excused {
			r.Probe("token-call-answered-locally")
			if !in.bypassed {
				r.Probe("token-rescue-entered")
			}
			in.bypassed = true
			in.noscrOpen = false // (a fault, not the NOSCRIPT reply, cut the instance off)
			w.excuse(in, c.end.Add(excuseWindow))
		} else {
			def := "rescue-not-left"
			if !in.bypassed && !w.faulty {
				def = "no-store-decision"
			}
			how := ""
			if in.slowed > 0 && !w.faulty {
				// nothing happened to this instance except that the store took its time: every
				// command was executed once and answered correctly within go-redis' timeouts
				def = "store-slow-but-healthy"
				how = fmt.Sprintf(" (the store was slow but healthy: %d commands of this instance were delayed by 1 ms - 2.9 s, %d of them by more than 100 ms, each executed once and answered correctly within go-redis' 3 s timeouts - that is no store failure)", in.slowed, in.slowedOver)
			}
			if c.cx.ended || in.cxSuspect {
				// the only thing that happened to this instance is a caller whose context ended
				def = "caller-context-ended"
				how = fmt.Sprintf(" (context of this call: %v, ended: %v; an earlier call of the instance returned with an ended context: %v - a caller's context is no store outage)", c.cx.kind, c.cx.ended, in.cxSuspect)
			}
			if (c.noscr > 0 || in.noscrOpen) && !c.cx.ended && !(def == "store-slow-but-healthy" && w.loss.lost == 0) {
				// (on a slow store whose script cache was never lost the only NOSCRIPT replies are the
				// ordinary ones of the cold start; the slowness is what is new for the instance)
				// the reachable store told the instance that it does not have the script (any more)
				// and the instance went on without the store instead of sending the script
				def = "script-cache-lost"
				w.lossBypass = true
				how = fmt.Sprintf(" (the server answered NOSCRIPT %d time(s) to this call and has executed no token script for this instance since a NOSCRIPT reply; script cache lost %d time(s) so far in this run, data kept, store reachable - that is no store failure)", c.noscr, w.loss.lost)
			}
			if def == "store-slow-but-healthy" {
				w.slowBypass = true
			}
			w.note(4, "token-store-bypassed-store-reachable/"+w.bypassCause(def),
				"rate %d burst %d: instance %d answered AllowN(now=%s, n=%d)=%v at %s without a decision of the store although the store is reachable and nothing failed for this instance in the last %v (final phase: %v; server answers to this call: %d)%s",
				w.rate, w.burst, in.id, c.now.Format("15:04:05.000"), c.n, c.res, c.start.Format("15:04:05.000"), excuseWindow, w.final, len(c.execs), how)
		}
	} else {
		in.cxSuspect = false
		if in.bypassed {
			in.bypassed = false
			r.Probe("token-store-mode-resumed")
		}
	}
	switch {
	case c.res && sGrant:
		c.store = true
	case c.res:
		c.rescue, c.excused = true, excused
		w.rGrants++
		r.Probe("token-local-grant")
		if decisive > 0 && !excused {
			w.note(2, "token-result-differs-from-store", "instance %d: AllowN(n=%d) returned true, the store answered this call only with a denial, and nothing failed for this instance", in.id, c.n)
		}
	case !c.res && sGrant && !sDeny && !excused:
		w.note(2, "token-result-differs-from-store", "instance %d: AllowN(n=%d) returned false although the store granted it and nothing failed for this instance", in.id, c.n)
	}
	if !w.faulty && decisive > 1 {
		w.note(4, "token-exec-count", "fault-free AllowN was executed %d times", decisive)
	}
}

// checkLocal: what an instance granted from its own bucket, over any stretch of its
// history.  The in-process bucket runs on the `now` of the calls; a call carrying an
// older `now` than an earlier one of the same instance (a stalled task) may make it
// credit that stretch of time twice, so each such call widens the bound by
// rate x (how far it lies back).
func (w *tWorld) checkLocal() {
	for _, in := range w.insts {
		cs := in.calls // in the order in which they returned
		for i := range cs {
			if !cs[i].rescue {
				continue
			}
			sum, allow := 0, 0.0
			lo, hi := cs[i].now, cs[i].now
			for j := i; j < len(cs); j++ {
				if j > i {
					allow += float64(w.rate) * cs[j].stale.Seconds()
				}
				if !cs[j].rescue {
					continue
				}
				sum += cs[j].n
				if cs[j].now.Before(lo) {
					lo = cs[j].now
				}
				hi = maxTime(hi, cs[j].now)
				el := hi.Sub(lo).Seconds()
				bound := float64(w.burst) + float64(w.rate)*el + 1 + allow
				if float64(sum) > bound+1e-6 {
					w.note(3, "token-overgrant-local-bucket", "rate %d burst %d: instance %d granted %d tokens from its in-process bucket within %.3f s (calls with now %s .. %s), bound burst + rate x elapsed + 1 = %.2f",
						w.rate, w.burst, in.id, sum, el, lo.Format("15:04:05.000"), hi.Format("15:04:05.000"), bound)
					return
				}
			}
		}
	}
}

// checkGlobal: all instances together, over every interval.
func (w *tWorld) checkGlobal() {
	var gs []*tCall
	for _, c := range w.calls {
		if c.res {
			gs = append(gs, c)
		}
	}
	sort.SliceStable(gs, func(i, j int) bool { return gs[i].start.Before(gs[j].start) })
	for i := range gs {
		if i > 0 && gs[i].start.Equal(gs[i-1].start) {
			continue
		}
		t1 := gs[i].start
		cand := append([]*tCall(nil), gs[i:]...)
		sort.SliceStable(cand, func(a, b int) bool { return cand[a].end.Before(cand[b].end) })
		sum := 0
		exc := map[int]*tInst{} // instances with an excused local grant in the interval
		for j, c := range cand {
			sum += c.n
			if c.rescue && c.excused {
				exc[c.in.id] = c.in
			}
			if j+1 < len(cand) && cand[j+1].end.Equal(c.end) {
				continue
			}
			t2 := c.end
			bound := float64(w.burst) + float64(w.rate)*float64(t2.Unix()-t1.Unix())
			for _, in := range w.insts {
				if exc[in.id] == nil {
					continue
				}
				bound += float64(w.burst) + float64(w.rate)*t2.Sub(t1).Seconds() + 1
				for _, k := range in.calls {
					// a call that falls back to the in-process bucket hands it the `now` it read when it
					// began: the bucket's clock moves back by `stale` and the next call is refilled for that
					// stretch again.  What matters is when the call ENDS (that is when the bucket is touched);
					// the first version required the whole call inside the interval and fired on the unchanged
					// tree (quick tier, seed 7) for a call that had begun 2.7 s before the interval.
					if !k.end.Before(t1) && !k.end.After(t2) {
						bound += float64(w.rate) * k.stale.Seconds()
					}
				}
			}
			if float64(sum) > bound+1e-6 {
				var hist []string
				perInst := map[int]int{}
				unexcused := 0 // tokens granted without the store by instances that had no reason to
				for _, g := range cand[:j+1] {
					perInst[g.in.id] += g.n
					if g.rescue && !g.excused {
						unexcused += g.n
					}
					src := "store"
					if g.rescue {
						src = "local"
					}
					if len(hist) < 24 {
						hist = append(hist, fmt.Sprintf("i%d n=%d@%s(%s)", g.in.id, g.n, g.start.Format("05.000"), src))
					}
				}
				sub := w.cause(c.trouble, "joint-bound")
				if float64(sum-unexcused) <= bound+1e-6 {
					// what the store granted is within the bound: the excess was granted beside it
					sub = w.bypassCause("answered-without-store")
				}
				w.note(1, "token-overgrant-store-reachable/"+sub,
					"rate %d burst %d, %d instances on one key: %d tokens granted between %s and %s (%d whole seconds apart), the joint bound is burst + rate x elapsed = %.0f (%d instances excused by faults); per instance %v; grants: %s",
					w.rate, w.burst, len(w.insts), sum, t1.Format("15:04:05.000"), t2.Format("15:04:05.000"), t2.Unix()-t1.Unix(), bound, len(exc), perInst, strings.Join(hist, " "))
				return
			}
		}
	}
}

func tokenRun(r *simrt.Run, tier string, faulty bool) {
	t := r.Tape
	w := &tWorld{base: base{r: r}, faulty: faulty, cur: map[int]*tCall{}, instOfTask: map[int]*tInst{}, maxArg: math.MinInt64}
	w.states = []bstate{{0, math.MinInt64}}
	// (rate, burst): uniform, burst much smaller than rate, rate much smaller than burst, equal
	switch t.Intn(5) {
	case 0, 1:
		w.rate, w.burst = t.Range(1, 50), t.Range(1, 100)
	case 2:
		w.rate = t.Range(4, 50)
		w.burst = t.Range(1, w.rate/3)
	case 3:
		w.rate = t.Range(1, 5)
		w.burst = t.Range(10, 100)
	default:
		w.rate = t.Range(1, 50)
		w.burst = w.rate
	}
	nInst := t.Range(1, 4)
	// single-token requests through the shorthands Allow() / AllowCtx(ctx) in a third of the runs
	if t.Chance(1, 3) {
		w.short, w.shortCtx = true, t.Bool()
	}
	maxSteps := 6
	if tier == "thorough" {
		maxSteps = 14
	}
	nSteps := t.Range(1, maxSteps)
	offset := time.Duration(t.Intn(1000)) * time.Millisecond

	srv := simredis.New(r)
	w.srv = srv
	srv.OnExec = w.onExec
	faultsOn := true
	transport, outages := false, 0
	if faulty {
		switch t.Intn(3) {
		case 0:
			outages = t.Range(1, 3)
		case 1:
			transport = true
		default:
			transport = true
			outages = t.Range(1, 2)
		}
	}
	var pol func(*simredis.Cmd) simredis.Fault
	if transport {
		inner := simredis.Policy(r, faultRates(t, &faultsOn))
		pol = func(c *simredis.Cmd) simredis.Fault {
			f := inner(c)
			if f.Kind != simredis.None && f.Kind != simredis.Latency {
				if in := w.instOfTask[c.Task]; in != nil {
					w.excuse(in, time.Now().Add(excuseWindow))
				}
			}
			return f
		}
	}
	// (all members: calls whose context is due to end are stretched across that instant)
	w.loss = drawCacheLoss(r, srv, faulty)
	w.loss.onRestart = func() {
		// a restart resets every connection: any instance may see a command fail
		for _, in := range w.insts {
			w.excuse(in, time.Now().Add(excuseWindow))
		}
	}
	// (fault-free member: the store may be slow but healthy, see slow_test.go)
	w.slow = drawSlow(r, faulty)
	if w.slow.on() {
		r.Probe("token-slow-store")
		w.slow.onSlow = func(c *simredis.Cmd, d time.Duration) {
			if in := w.instOfTask[c.Task]; in != nil {
				in.slowed++
				if d > 100*time.Millisecond {
					in.slowedOver++
				}
			}
		}
		// a request that arrives after the bucket keys expired must arrive in the second it
		// carries: a LATE request meeting expired keys is the open known finding
		// stale-now-after-ttl-expiry, which a slow store shall not manufacture
		w.slow.shape = func(c *simredis.Cmd, req, rep time.Duration) (time.Duration, time.Duration) {
			call := w.cur[c.Task]
			if call == nil || w.expiry.IsZero() {
				return req, rep
			}
			const margin = 10 * time.Millisecond
			now := time.Now()
			alive := func(d time.Duration) bool { return now.Add(d).Before(w.expiry.Add(-margin)) }
			// what is left of the second the request carries
			room := call.now.Truncate(time.Second).Add(time.Second).Sub(now) - margin
			if room < 0 {
				room = 0
			}
			if req > room && !alive(req) {
				rep += req - room
				req = room
			}
			// the reply may be NOSCRIPT when the server can lose its script cache in this run: the
			// EVAL that follows carries the same second and leaves when the reply has arrived
			if c.Name() == "EVALSHA" && (w.loss.perMille > 0 || len(w.loss.gaps) > 0) && req+rep > room && !alive(req+rep) {
				rep = room - req
			}
			return req, rep
		}
		pol = w.slow.policy()
	}
	srv.Fault = w.loss.wrap(cxFault(r, pol, func(task int) *cxPlan {
		if c := w.cur[task]; c != nil {
			return c.cx
		}
		return nil
	}))
	often := cxOften(t)
	key := "tl"
	type client struct {
		in   *tInst
		name string
	}
	var clients []client
	for i := 0; i < nInst; i++ {
		in := &tInst{id: i}
		var rds *redis.Redis
		in.ping = func() bool { return rds.Ping() }
		rds = redis.New(fmt.Sprintf("t%d.%s", i, srv.Addr), redis.WithHook(instHook{w: w, in: in, inner: &guardHook{r: r, srv: srv}}))
		in.lim = limit.NewTokenLimiter(w.rate, w.burst, rds, key)
		w.insts = append(w.insts, in)
		nc := 1
		if t.Chance(1, 3) {
			nc = 2
		}
		for k := 0; k < nc; k++ {
			clients = append(clients, client{in, fmt.Sprintf("inst%d.client%d", i, k)})
		}
	}
	if r.Tracing() {
		r.Logf("token: rate=%d burst=%d instances=%d clients=%d steps=%d faulty=%v transport=%v outages=%d offset=%v", w.rate, w.burst, nInst, len(clients), nSteps, faulty, transport, outages, offset)
		r.Logf("token: script-cache-loss=%v slow-healthy-store=%v", w.loss.sample(), w.slow.sample())
	}
	if offset > 0 {
		r.Sleep(offset)
	}
	lossTasks := w.loss.start()
	call := func(tid int, in *tInst, n int, cx *cxPlan) *tCall {
		c := &tCall{in: in, now: time.Now(), n: n, cx: cx}
		c.start = c.now
		w.cur[tid] = c
		w.instOfTask[tid] = in
		ctx := cx.open(r, &w.cancellers)
		switch {
		case ctx != nil:
			if n == 1 && w.short {
				c.res = in.lim.AllowCtx(ctx)
			} else {
				c.res = in.lim.AllowNCtx(ctx, c.now, n)
			}
		case n == 1 && w.short:
			// the shorthands read the clock themselves: time.Now() at the call, i.e. c.now
			// (no scheduling point lies between the harness' reading and theirs)
			w.r.Probe("token-allow-shorthand")
			if w.shortCtx {
				c.res = in.lim.AllowCtx(context.Background())
			} else {
				c.res = in.lim.Allow()
			}
		default:
			c.res = in.lim.AllowN(c.now, n)
		}
		cx.close(r)
		delete(w.cur, tid)
		g := int64(0)
		if c.res {
			g = 1
		}
		r.Ev("allow", int64(in.id), int64(n), g, int64(cx.kind))
		w.finish(c)
		if r.Tracing() {
			r.Logf("inst%d: AllowN(now=%s, n=%d, ctx %v d=%v trig=%d ended=%v) -> %v execs=%v store=%v local=%v excused=%v stale=%v", in.id, c.now.Format("15:04:05.000000000"), n, cx.kind, cx.d, cx.trig, cx.ended, c.res, c.execs, c.store, c.rescue, c.excused, c.stale)
		}
		return c
	}
	deltas := []time.Duration{-1, 0, 1, -time.Millisecond, time.Millisecond}
	var tasks []*simrt.Task
	for _, cl := range clients {
		tasks = append(tasks, r.Go(cl.name, func() {
			tid := r.CurrentID()
			for j := 0; j < nSteps; j++ {
				switch t.Intn(8) {
				case 0, 1, 2:
				case 3:
					r.Sleep(time.Duration(t.Range(1, 50)) * time.Millisecond)
				case 4:
					// next second boundary -1ns / exactly / +1ns / -+1ms
					now := time.Now()
					next := now.Truncate(time.Second).Add(time.Second)
					if d := next.Sub(now) + deltas[t.Intn(len(deltas))]; d > 0 {
						r.Sleep(d)
					}
				case 5:
					r.Sleep(time.Duration(t.Range(100, 3000)) * time.Millisecond)
				case 6:
					// idle until the bucket keys expire (-1ms / exactly / +1ms / later)
					if !w.expiry.IsZero() {
						d := time.Until(w.expiry) + []time.Duration{0, -time.Millisecond, time.Millisecond, time.Second}[t.Intn(4)]
						if d > 0 {
							r.Sleep(d)
						}
					}
				default:
					r.Sleep(time.Duration(t.Range(1, 2*w.burst/w.rate+3)) * time.Second)
				}
				n := 1
				switch t.Intn(6) {
				case 0:
				case 1, 2:
					n = t.Range(1, w.burst)
				case 3:
					n = w.burst
				case 4:
					n = w.burst + 1
				default:
					n = t.Range(1, (w.burst+3)/4)
				}
				call(tid, cl.in, n, drawCx(t, often))
			}
		}))
	}
	var ctl *simrt.Task
	if outages > 0 {
		type win struct{ gap, dur time.Duration }
		var wins []win
		for i := 0; i < outages; i++ {
			var d time.Duration
			switch t.Intn(4) {
			case 0:
				d = time.Duration(t.Range(1, 99)) * time.Millisecond
			case 1:
				d = time.Duration(t.Range(100, 999)) * time.Millisecond
			case 2:
				d = time.Duration(t.Range(1000, 5000)) * time.Millisecond
			default:
				d = time.Second
			}
			wins = append(wins, win{time.Duration(t.Intn(2500)) * time.Millisecond, d})
		}
		ctl = r.Go("outages", func() {
			for _, x := range wins {
				r.Sleep(x.gap)
				srv.SetDown(true)
				r.Ev("down")
				r.Probe("token-outage-opened")
				for _, in := range w.insts {
					w.excuse(in, time.Now().Add(1000*time.Hour))
				}
				r.Sleep(x.dur)
				srv.SetDown(false)
				r.Ev("up")
				for _, in := range w.insts {
					in.excuseUntil = time.Now().Add(excuseWindow)
				}
			}
		})
	}
	if !r.JoinTimeout(24*time.Hour, tasks...) {
		r.Fail("stuck", "token clients did not return: %v", r.AliveTasks())
		return
	}
	if ctl != nil && !r.JoinTimeout(time.Hour, ctl) {
		r.Fail("stuck", "outage controller did not return")
		return
	}
	if !r.JoinTimeout(time.Hour, w.cancellers...) {
		r.Fail("stuck", "context cancellers did not return")
		return
	}
	if !r.JoinTimeout(time.Hour, lossTasks...) {
		r.Fail("stuck", "script-cache / restart controllers did not return")
		return
	}
	// final phase: faults stopped, store reachable; after the recovery budget every
	// instance must be served by the store again
	faultsOn = false
	srv.SetDown(false)
	r.Sleep(excuseWindow + 30*time.Second)
	w.final = true
	mainID := r.CurrentID()
	for _, in := range w.insts {
		// "a reachable store" is judged through the instance's own client (its connection pool and its
		// go-zero breaker included): if the harness' own pings through it all fail, nothing is claimed for
		// this instance (quick tier seed 7 met an instance whose monitor pings were turned away without
		// reaching the network for 90 s; whether that is go-zero's breaker or the harness is not settled -
		// DESIGN 11.3, open question).
		ok := false
		for a := 0; a < 5 && !ok; a++ {
			if a > 0 {
				r.Sleep(1100 * time.Millisecond)
			}
			ok = in.ping()
		}
		if !ok {
			in.unreachable = true
			r.Probe("token-final-store-not-reachable-through-the-instance-client")
			continue
		}
		call(mainID, in, 1, &cxPlan{})
	}
	delete(w.instOfTask, mainID)
	r.Sleep(2 * time.Second)
	r.MarkBackground(func(name string) bool { return strings.Contains(name, "tokenlimit.go") })

	w.checkGlobal()
	w.checkLocal()
	if w.nExec > 0 || len(w.calls) > 0 {
		r.Probe("oracle")
		r.Probe("nontrivial")
	}
	if w.sGrants > 0 {
		r.Probe("token-store-grant")
	}
	if 2*w.burst < w.rate {
		r.Probe("token-config-burst-below-half-rate")
	}
	if w.burst >= 4*w.rate {
		r.Probe("token-config-rate-much-smaller-than-burst")
	}
	grants := 0
	for _, c := range w.calls {
		if c.res {
			grants += c.n
		}
	}
	r.Sample(map[string]any{"component": "TokenLimiter", "faulty": faulty, "rate": w.rate, "burst": w.burst, "instances": nInst, "client_tasks": len(clients),
		"calls_per_task": nSteps, "transport_faults": transport, "outage_windows": outages, "initial_offset": offset.String(), "calls_with_own_context_per_24": often,
		"calls": len(w.calls), "tokens_granted": grants, "script_executions": w.nExec, "local_grants": w.rGrants, "script_cache_lost": w.loss.sample(), "slow_healthy_store": w.slow.sample(), "faults_fired": srv.FiredMap()})
	w.flush()
}
