package c03

import (
	"context"
	"errors"
	"fmt"
	"strconv"
	"time"

	"github.com/zeromicro/go-zero/core/breaker"
	"github.com/zeromicro/go-zero/core/limit"
	"github.com/zeromicro/go-zero/core/stores/redis"

	"verifsim/simredis"
	"verifsim/simrt"
)

// ---- PeriodLimit ----------------------------------------------------------
//
// Reference model (from the property text): per key a counter with an expiry.  The
// first executed take of a period starts the period; the i-th executed take of the
// period must answer Allowed (i < quota), HitQuota (i = quota), OverQuota (i > quota);
// the period ends `period` seconds after its first take (Align: at the next multiple
// of `period` on the local clock of the caller).  The server order and instants come
// from OnExec, so the model is exact also under faults; what a CLIENT gets must be
// the code of one of its own executions or, under faults only, (Unknown, err); a call
// whose own context ended (ctx_test.go) may also get (Unknown, context error), nothing else.

type pKey struct {
	full    string
	count   int       // executed takes in the current period
	expiry  time.Time // end of the current period (valid while count > 0)
	period  int       // index of the current period
	cgrants map[int]int
}

type pExec struct {
	code   int64
	period int
	fault  simredis.Kind
}

type pCall struct {
	key   *pKey
	start time.Time
	execs []pExec
	cx    *cxPlan
	noscr int // NOSCRIPT replies the server gave to this call
}

type pWorld struct {
	base
	srv           *simredis.Server
	faulty        bool
	period, quota int
	align         bool
	keys          map[string]*pKey
	cur           map[int]*pCall
	takes, grants int
	noscript      int // NOSCRIPT replies (EVALSHA before the script was loaded)
	execs         int
	cancellers    []*simrt.Task
	cxErrs        int // calls that ended with the error of their own context
	loss          *cacheLoss
	slow          *slowStore
}

func (w *pWorld) wantCode(i int) int64 {
	switch {
	case i < w.quota:
		return 1
	case i == w.quota:
		return 2
	}
	return 0
}

func codeName(c int64) string {
	switch c {
	case 1:
		return "Allowed"
	case 2:
		return "HitQuota"
	case 0:
		return "OverQuota"
	}
	return fmt.Sprintf("code(%d)", c)
}

func (w *pWorld) onExec(e *simredis.Exec) {
	r := w.r
	keys, argv, ok := scriptCall(&e.Cmd)
	if !ok || len(keys) != 1 {
		return
	}
	kind, v, msg := reply(e.Reply)
	r.Ev("pexec", int64(e.Cmd.Task), int64(kind), v)
	if pc := w.cur[e.Cmd.Task]; pc != nil {
		pc.cx.onExec(r)
	}
	if kind == 'e' {
		if len(msg) >= 8 && msg[:8] == "NOSCRIPT" {
			w.noscript++
			if pc := w.cur[e.Cmd.Task]; pc != nil {
				pc.noscr++
			}
			if w.loss.lost > 0 {
				r.Probe("period-noscript-after-cache-loss")
			}
			return
		}
		w.note(2, "period-script-error", "the server failed the period script on %s: %s", keys[0], msg)
		return
	}
	now := time.Now()
	ks := w.keys[keys[0]]
	if ks == nil {
		w.note(5, "period-unknown-key", "take executed on key %q that no client asked for", keys[0])
		return
	}
	c := w.cur[e.Cmd.Task]
	if kind != 'i' || len(argv) != 2 {
		w.note(2, "period-script-reply", "unexpected reply %q / argv %v of the period script", e.Reply, argv)
		return
	}
	w.execs++
	qa, _ := strconv.Atoi(argv[0])
	win, _ := strconv.Atoi(argv[1])
	if qa != w.quota {
		w.note(3, "period-quota-arg", "take executed with quota %d, configured %d", qa, w.quota)
	}
	// the window the caller may have asked for (property text: period seconds, or up to
	// the next multiple of period on the caller's clock between call and execution)
	if c != nil {
		okWin := false
		if !w.align {
			okWin = win == w.period
		} else {
			_, off := now.Zone()
			for u := c.start.Unix(); u <= now.Unix(); u++ {
				if win == w.period-int((u+int64(off))%int64(w.period)) {
					okWin = true
				}
			}
		}
		if !okWin {
			w.note(3, "period-window-arg", "take of %s called at %s executed at %s asks for a window of %d s (period %d, align %v)",
				ks.full, c.start.Format("15:04:05.000000000"), now.Format("15:04:05.000000000"), win, w.period, w.align)
		}
	}
	// does this execution start a new period?
	if ks.count > 0 {
		switch {
		case now.After(ks.expiry):
			if now.Sub(ks.expiry) <= time.Millisecond {
				r.Probe("period-boundary-just-after")
			}
			ks.count = 0
		case now.Equal(ks.expiry):
			// exactly at the end: "until the period expires" leaves both readings open;
			// the store tells which one the server took
			r.Probe("period-boundary-exact")
			if cv, err := w.srv.MR().Get(keys[0]); err == nil && cv == "1" {
				ks.count = 0
			}
		case ks.expiry.Sub(now) <= time.Millisecond:
			r.Probe("period-boundary-just-before")
		}
		if ks.count == 0 {
			ks.period++
			r.Probe("period-rollover")
		}
	}
	ks.count++
	if ks.count == 1 {
		// the key's TTL is set by the first take of a period, with the window it carried
		ks.expiry = now.Add(time.Duration(win) * time.Second)
	}
	want := w.wantCode(ks.count)
	if c != nil {
		c.execs = append(c.execs, pExec{code: v, period: ks.period, fault: e.Fault})
	}
	if r.Tracing() {
		r.Logf("server: take #%d of period %d on %s at %v -> %s (want %s) window=%d fault=%v task=%d", ks.count, ks.period, ks.full, e.At, codeName(v), codeName(want), win, e.Fault, e.Cmd.Task)
	}
	if v != want {
		switch {
		case v != 0 && want == 0:
			w.note(1, "period-overgrant", "key %s period %d (quota %d, period %d s, align %v): executed take #%d answered %s, must be OverQuota", ks.full, ks.period, w.quota, w.period, w.align, ks.count, codeName(v))
		case v == 0:
			w.note(2, "period-undergrant", "key %s period %d (quota %d): executed take #%d answered OverQuota, must be %s", ks.full, ks.period, w.quota, ks.count, codeName(want))
		default:
			w.note(2, "period-hitquota-flag", "key %s period %d (quota %d): executed take #%d answered %s, must be %s", ks.full, ks.period, w.quota, ks.count, codeName(v), codeName(want))
		}
	}
	if lostReply(e.Fault) && v != 0 {
		r.Probe("period-reply-lost-after-grant")
	}
}

// checkCall validates what one client call returned against its executions.
func (w *pWorld) checkCall(c *pCall, code int, err error) {
	r := w.r
	w.takes++
	if len(c.execs) > 1 {
		r.Probe("period-take-retried")
	}
	if c.cx.preEnded() {
		// the context was over before the call: nothing may be taken on its behalf
		if c.cx.kind == cxCancelled {
			r.Probe("period-cancelled-context")
			if err == nil || code != limit.Unknown {
				w.note(3, "period-cancelled-context", "TakeCtx with a cancelled context returned (%d, %v)", code, err)
			}
		} else {
			r.Probe("period-expired-context")
			if err == nil || code != limit.Unknown {
				w.note(3, "period-expired-context", "TakeCtx with a context whose deadline had passed %v before the call returned (%d, %v)", c.cx.d, code, err)
			}
		}
		return
	}
	if c.cx.ended {
		r.Probe("period-call-context-ended-during-call")
		if len(c.execs) > 0 {
			r.Probe("period-context-ended-request-executed-anyway")
		}
	}
	if err != nil {
		r.Probe("period-take-error")
		if code != limit.Unknown {
			w.note(1, "period-error-with-code", "Take returned code %d together with error %v", code, err)
		}
		if c.cx.ended && isCtxErr(err) {
			// the caller's context ended while the call ran and the call says so: no store
			// error, no grant - acceptable in every member, whatever the server did meanwhile
			r.Probe("period-take-ended-by-own-context")
			w.cxErrs++
			return
		}
		if !w.faulty {
			if w.slow.delayed > w.noscript && w.cxErrs == 0 {
				// nothing happened in this run except that the store took its time: every command was
				// executed once and answered correctly within go-redis' timeouts
				w.note(4, "period-error-store-healthy/store-slow-but-healthy", "Take on %s failed (%v) on a healthy, reachable store without any injected fault: the store was merely slow - %d commands so far were delayed by 1 ms - 2.9 s (%d of them by more than 100 ms, longest streak of those %d), each executed once and answered correctly within go-redis' 3 s timeouts; the server executed %d take(s) for this call", c.key.full, err, w.slow.delayed, w.slow.over, w.slow.longest, len(c.execs))
			} else if c.noscr > 0 && len(c.execs) == 0 && !errors.Is(err, breaker.ErrServiceUnavailable) {
				// the store is reachable and healthy; it told this call that it does not have the
				// script (any more) and the call gave up instead of sending it
				w.note(4, "period-error-store-healthy/script-cache-lost", "Take on %s failed (%v) on a healthy, reachable store without any injected fault: the server answered NOSCRIPT %d time(s) to this call and the script was never executed for it (script cache lost %d time(s) so far in this run, data kept)", c.key.full, err, c.noscr, w.loss.lost)
			} else if errors.Is(err, breaker.ErrServiceUnavailable) && w.noscript > 5 {
				// observed: concurrent first takes on a cold script cache each get NOSCRIPT, the
				// redis breaker counts those replies as failures and starts rejecting
				w.note(4, "period-error-store-healthy/breaker-open-after-noscript", "Take on %s was rejected (%v) on a healthy store without any injected fault, after %d NOSCRIPT replies to concurrent first takes were counted as failures by the redis breaker", c.key.full, err, w.noscript)
			} else if errors.Is(err, breaker.ErrServiceUnavailable) && w.cxErrs > 0 {
				w.note(4, "period-error-store-healthy/breaker-open-after-caller-context-ended", "Take on %s was rejected (%v) on a healthy store without any injected fault, after %d calls had ended with the error of their own context (deadline / cancellation while the call ran)", c.key.full, err, w.cxErrs)
			} else {
				w.note(4, "period-error-without-fault", "Take on %s failed without any injected fault: %v", c.key.full, err)
			}
		}
		return
	}
	var want int64
	switch code {
	case limit.Allowed:
		want = 1
	case limit.HitQuota:
		want = 2
	case limit.OverQuota:
		want = 0
	default:
		w.note(2, "period-bad-code", "Take returned code %d without error", code)
		return
	}
	var src *pExec
	for i := range c.execs {
		if c.execs[i].code == want {
			src = &c.execs[i]
		}
	}
	granted := code == limit.Allowed || code == limit.HitQuota
	if src == nil {
		if granted {
			w.note(1, "period-grant-not-issued-by-server", "Take on %s returned %s but the server answered %v to this call", c.key.full, codeName(want), c.execs)
		} else {
			w.note(2, "period-code-mismatch", "Take on %s returned OverQuota but the server answered %v to this call", c.key.full, c.execs)
		}
		return
	}
	if !w.faulty && len(c.execs) != 1 {
		w.note(4, "period-exec-count", "fault-free Take on %s was executed %d times", c.key.full, len(c.execs))
	}
	if granted {
		w.grants++
		c.key.cgrants[src.period]++
		if c.key.cgrants[src.period] > w.quota {
			w.note(1, "period-overgrant-client", "key %s period %d: clients were granted %d takes, quota %d", c.key.full, src.period, c.key.cgrants[src.period], w.quota)
		}
	}
}

func periodRun(r *simrt.Run, tier string, faulty bool) {
	t := r.Tape
	w := &pWorld{base: base{r: r}, faulty: faulty, keys: map[string]*pKey{}, cur: map[int]*pCall{}}
	switch t.Intn(4) {
	case 0:
		w.period = t.Range(1, 3)
	case 1:
		w.period = t.Range(1, 10)
	case 2:
		w.period = t.Range(1, 60)
	default:
		w.period = 60
	}
	switch t.Intn(3) {
	case 0:
		w.quota = t.Range(1, 3)
	case 1:
		w.quota = t.Range(1, 8)
	default:
		w.quota = t.Range(1, 20)
	}
	w.align = t.Bool()
	nKeys := t.Range(1, 4)
	maxT, maxOps := 5, 5
	if tier == "thorough" {
		maxT, maxOps = 8, 10
	}
	nTasks := t.Range(2, maxT)
	if tier != "thorough" && t.Chance(1, 8) {
		nTasks = t.Range(6, 8) // the quick tier also visits large client groups, less often
	}
	nOps := t.Range(1, maxOps)
	nLim := t.Range(1, 2)
	// cold start: in a quarter of the runs every client sends its first take right away (the
	// whole group meets the fresh server - empty script cache, no connections - at once)
	herd := t.Chance(1, 4)
	offset := time.Duration(t.Intn(w.period*1000+1000)) * time.Millisecond

	srv := simredis.New(r)
	w.srv = srv
	srv.OnExec = w.onExec
	faultsOn := true
	var rates simredis.Rates
	outage := false
	var pol func(*simredis.Cmd) simredis.Fault
	if faulty {
		rates = faultRates(t, &faultsOn)
		pol = simredis.Policy(r, rates)
		outage = t.Chance(1, 3)
	}
	// (all members: calls whose context is due to end are stretched across that instant)
	w.loss = drawCacheLoss(r, srv, faulty)
	// (fault-free member: the store may be slow but healthy, see slow_test.go)
	w.slow = drawSlow(r, faulty)
	if w.slow.on() {
		r.Probe("period-slow-store")
		pol = w.slow.policy()
	}
	srv.Fault = w.loss.wrap(cxFault(r, pol, func(task int) *cxPlan {
		if c := w.cur[task]; c != nil {
			return c.cx
		}
		return nil
	}))
	often := cxOften(t)
	prefix := "pl:"
	var opts []limit.PeriodOption
	if w.align {
		opts = append(opts, limit.Align())
	}
	var lims []*limit.PeriodLimit
	for i := 0; i < nLim; i++ {
		rds := redis.New(fmt.Sprintf("p%d.%s", i, srv.Addr), redis.WithHook(&guardHook{r: r, srv: srv}))
		lims = append(lims, limit.NewPeriodLimit(w.period, w.quota, rds, prefix, opts...))
	}
	var keyNames []string
	for i := 0; i < nKeys; i++ {
		k := fmt.Sprintf("k%d", i)
		keyNames = append(keyNames, k)
		w.keys[prefix+k] = &pKey{full: prefix + k, cgrants: map[int]int{}}
	}
	if r.Tracing() {
		r.Logf("period: period=%d quota=%d align=%v keys=%d tasks=%d ops=%d limiters=%d faulty=%v outage=%v offset=%v script-cache-loss=%v slow-healthy-store=%v", w.period, w.quota, w.align, nKeys, nTasks, nOps, nLim, faulty, outage, offset, w.loss.sample(), w.slow.sample())
	}
	if offset > 0 {
		r.Sleep(offset)
	}
	lossTasks := w.loss.start()
	deltas := []time.Duration{-time.Millisecond, -1, 0, 1, time.Millisecond}
	var tasks []*simrt.Task
	for i := 0; i < nTasks; i++ {
		l := lims[i%nLim]
		tasks = append(tasks, r.Go(fmt.Sprintf("client%d", i), func() {
			tid := r.CurrentID()
			for j := 0; j < nOps; j++ {
				kn := keyNames[0]
				if nKeys > 1 && t.Chance(1, 3) {
					kn = keyNames[t.Intn(nKeys)]
				}
				ks := w.keys[prefix+kn]
				think := t.Intn(8)
				if herd && j == 0 {
					think = 0
				}
				switch think {
				case 0, 1, 2:
				case 3:
					r.Sleep(time.Duration(t.Range(1, 20)) * time.Millisecond)
				case 4, 5:
					// land just before / at / after the end of the key's current period
					d := deltas[t.Intn(len(deltas))]
					if ks.count > 0 {
						if wait := time.Until(ks.expiry) + d; wait > 0 {
							r.Sleep(wait)
						}
					}
				case 6:
					r.Sleep(time.Duration(t.Range(1, w.period*1000)) * time.Millisecond)
				default:
					r.Sleep(time.Duration(w.period)*time.Second + time.Duration(t.Intn(1000))*time.Millisecond)
				}
				c := &pCall{key: ks, start: time.Now(), cx: drawCx(t, often)}
				w.cur[tid] = c
				r.Ev("take", int64(i), int64(j), int64(c.cx.kind))
				var code int
				var err error
				if ctx := c.cx.open(r, &w.cancellers); ctx != nil {
					code, err = l.TakeCtx(ctx, kn)
				} else if t.Bool() {
					code, err = l.TakeCtx(context.Background(), kn)
				} else {
					code, err = l.Take(kn)
				}
				c.cx.close(r)
				delete(w.cur, tid)
				ec := int64(0)
				if err != nil {
					ec = 1
				}
				r.Ev("taken", int64(i), int64(code), ec)
				if r.Tracing() {
					r.Logf("client%d: Take(%s, ctx %v d=%v trig=%d ended=%v) -> (%d, %v) execs=%v", i, kn, c.cx.kind, c.cx.d, c.cx.trig, c.cx.ended, code, err, c.execs)
				}
				w.checkCall(c, code, err)
			}
		}))
	}
	var ctl *simrt.Task
	if outage {
		gap := time.Duration(t.Intn(3000)) * time.Millisecond
		dur := time.Duration(t.Range(1, 4000)) * time.Millisecond
		ctl = r.Go("outage", func() {
			r.Sleep(gap)
			srv.SetDown(true)
			r.Probe("period-outage")
			r.Sleep(dur)
			srv.SetDown(false)
		})
	}
	if !r.JoinTimeout(12*time.Hour, tasks...) {
		r.Fail("stuck", "period clients did not return: %v", r.AliveTasks())
		return
	}
	if !r.JoinTimeout(time.Hour, w.cancellers...) {
		r.Fail("stuck", "context cancellers did not return")
		return
	}
	faultsOn = false
	if ctl != nil {
		r.JoinTimeout(time.Hour, ctl)
		srv.SetDown(false)
	}
	if !r.JoinTimeout(time.Hour, lossTasks...) {
		r.Fail("stuck", "script-cache / restart controllers did not return")
		return
	}
	if w.execs > 0 {
		r.Probe("oracle")
		r.Probe("nontrivial")
	}
	if w.grants > 0 {
		r.Probe("period-granted")
	}
	r.Sample(map[string]any{"component": "PeriodLimit", "faulty": faulty, "period_s": w.period, "quota": w.quota, "align": w.align, "keys": nKeys,
		"client_tasks": nTasks, "takes_per_task": nOps, "limiter_instances": nLim, "cold_start_herd": herd, "initial_offset": offset.String(), "outage": outage, "calls_with_own_context_per_24": often,
		"takes": w.takes, "client_grants": w.grants, "executed_takes": w.execs, "script_cache_lost": w.loss.sample(), "slow_healthy_store": w.slow.sample(), "faults_fired": srv.FiredMap()})
	w.flush()
}
