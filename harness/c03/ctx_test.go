package c03

import (
	"context"
	"errors"
	"time"

	"verifsim/simredis"
	"verifsim/simrt"
)

// ---- request contexts -------------------------------------------------------
//
// The property speaks of a store that is reachable or not; the context a caller
// passes to AllowCtx / AllowNCtx / TakeCtx is the CALLER's business: when it ends
// (cancelled, deadline over - before the call or while the call is in flight) the
// request may go unanswered (false / an error), but nothing else changes: the store
// is as reachable as before, every instance has to keep answering from it, and a
// grant is still only a grant when the shared bucket / the period counter made it.
// So the oracles treat a call with an ended context like any other call, with one
// relaxation: `false` (TokenLimiter) and `(Unknown, ctx error)` (PeriodLimit) are
// acceptable answers whatever the server did.
//
// go-redis (as configured by go-zero: ContextTimeoutEnabled off) looks at the context
// only before it sends (go-zero's breaker hook, connection pool, dial, back-off before
// a retry, and between the EVALSHA that answered NOSCRIPT and the EVAL that follows),
// never while a command is on the wire.  To make "ends while the call is in flight"
// land on those points the harness stretches the call: latency on the request / the
// reply of exactly the calls that carry such a context, reaching just beyond (or just
// short of) the instant at which the context ends; together with the transport faults
// of the fault members (lost reply -> read timeout -> back-off -> retry) that covers
// every point at which the client consults the context.  Latency is no failure: the
// store stays reachable, the command is executed once, nobody is excused by it.

type cxKind int

const (
	cxNone      cxKind = iota // the plain API: context.Background() inside go-zero
	cxLive                    // cancellable context that outlives the call
	cxCancelled               // cancelled before the call
	cxExpired                 // deadline already passed before the call
	cxDeadline                // deadline d after the start of the call
	cxCancelAt                // cancelled by somebody else while the call runs
	nCxKinds
)

var cxNames = [...]string{"background", "live", "cancelled-before", "deadline-passed-before", "deadline-during", "cancelled-during"}

func (k cxKind) String() string { return cxNames[k] }

// how a cxCancelAt context is ended
const (
	trigTimed  = iota // a canceller task, d after the start of the call
	trigOnSend        // at the instant a command of the call leaves the client
	trigOnExec        // at the instant the server has executed a command of the call (its reply is on the way back)
)

type cxPlan struct {
	kind   cxKind
	d      time.Duration // cxExpired: how long ago; cxDeadline / cxCancelAt+trigTimed: how long after the start
	trig   int
	ctx    context.Context
	cancel context.CancelFunc
	endAt  time.Time // cxDeadline / trigTimed: the instant at which the context ends
	fired  bool      // trigOnSend / trigOnExec: done
	closed bool      // the call returned
	ended  bool      // the context was over when the call returned
	byDL   bool      // ... by its deadline
}

// drawCx draws the context of one call; `often` out of 24 calls carry one of their own
// (draw 0: the plain API).
func drawCx(t *simrt.Tape, often int) *cxPlan {
	p := &cxPlan{}
	if !t.Chance(often, 24) {
		return p
	}
	// weights: live 1, cancelled-before 1, deadline-passed-before 2, deadline-during 3, cancelled-during 2
	p.kind = []cxKind{cxLive, cxCancelled, cxExpired, cxExpired, cxDeadline, cxDeadline, cxDeadline, cxCancelAt, cxCancelAt}[t.Intn(9)]
	ms := time.Millisecond
	switch p.kind {
	case cxExpired:
		p.d = []time.Duration{0, 1, ms, time.Second}[t.Intn(4)]
	case cxCancelAt:
		p.trig = t.Intn(3)
	}
	if p.kind == cxDeadline || (p.kind == cxCancelAt && p.trig == trigTimed) {
		switch t.Intn(4) {
		case 0:
			p.d = time.Duration(t.Range(1, 1000)) // within the first microsecond: only a stall gets past it
		case 1:
			p.d = time.Duration(t.Range(1, 50)) * ms
		case 2:
			p.d = time.Duration(t.Range(50, 3000)) * ms // within go-redis' read timeout
		default:
			p.d = time.Duration(t.Range(3000, 3600)) * ms // a lost reply outlasts it, the back-off before the retry may not
		}
		p.d += time.Duration(t.Intn(2)) * 333 // off the round instants at which other timers fire
	}
	return p
}

// cxOften draws, once per run, how many calls out of 24 carry a context of their own.
func cxOften(t *simrt.Tape) int {
	return []int{1, 1, 4, 8, 16}[t.Intn(5)]
}

// open builds the context at the invocation (nil: use the plain API).  cancellers
// collects the canceller tasks for the final join.
func (p *cxPlan) open(r *simrt.Run, cancellers *[]*simrt.Task) context.Context {
	switch p.kind {
	case cxNone:
		return nil
	case cxLive:
		p.ctx, p.cancel = context.WithCancel(context.Background())
	case cxCancelled:
		p.ctx, p.cancel = context.WithCancel(context.Background())
		p.cancel()
	case cxExpired:
		if p.d == 0 {
			p.ctx, p.cancel = context.WithTimeout(context.Background(), 0)
		} else {
			p.ctx, p.cancel = context.WithDeadline(context.Background(), time.Now().Add(-p.d))
		}
	case cxDeadline:
		p.endAt = time.Now().Add(p.d)
		p.ctx, p.cancel = context.WithDeadline(context.Background(), p.endAt)
	default:
		p.ctx, p.cancel = context.WithCancel(context.Background())
		if p.trig == trigTimed {
			p.endAt = time.Now().Add(p.d)
			*cancellers = append(*cancellers, r.Go("canceller", func() {
				r.Sleep(p.d)
				if !p.closed {
					r.Probe("ctx-cancelled-by-other-task-during-call")
					// (last statement of the task: a client blocked on this context inside
					// go-redis is woken by it and runs on to its next scheduling point)
					p.cancel()
				}
			}))
		}
	}
	r.Probe("ctx-" + p.kind.String())
	return p.ctx
}

// close is called right after the call returned.
func (p *cxPlan) close(r *simrt.Run) {
	p.closed = true
	if p.ctx == nil {
		return
	}
	if err := p.ctx.Err(); err != nil {
		p.ended = true
		p.byDL = errors.Is(err, context.DeadlineExceeded)
		if p.kind == cxDeadline || p.kind == cxCancelAt {
			r.Probe("ctx-ended-while-call-ran")
		}
	}
	p.cancel()
}

// preEnded: the context was over before the call started.
func (p *cxPlan) preEnded() bool { return p.kind == cxCancelled || p.kind == cxExpired }

// onSend runs where a (non-handshake) command of the call leaves the client.  It may
// end the context there, or delay the request / the reply across the instant at which
// the context ends.  Only called when no transport fault was drawn for the command.
func (p *cxPlan) onSend(r *simrt.Run) simredis.Fault {
	t := r.Tape
	if p.kind == cxCancelAt && p.trig == trigOnSend && !p.fired {
		p.fired = true
		r.Probe("ctx-cancelled-as-command-left")
		p.cancel()
		return simredis.Fault{}
	}
	if p.endAt.IsZero() || !t.Chance(1, 2) {
		return simredis.Fault{}
	}
	rem := time.Until(p.endAt)
	if rem <= 0 || rem > 2*time.Second {
		// (over already, or too far away for a delay that stays clear of go-redis' 3 s timeouts)
		return simredis.Fault{}
	}
	// never exactly at the end: the order of two timers of one instant is not ours to choose
	d := rem + []time.Duration{1, time.Microsecond, time.Duration(t.Range(1, 20)) * time.Millisecond, -1}[t.Intn(4)]
	if d <= 0 {
		return simredis.Fault{}
	}
	if d > rem {
		r.Probe("ctx-end-while-command-in-flight")
	}
	if t.Bool() {
		return simredis.Fault{Kind: simredis.Latency, ReqDelay: d}
	}
	return simredis.Fault{Kind: simredis.Latency, RepDelay: d}
}

// onExec runs when the server has executed a (non-handshake) command of the call.
func (p *cxPlan) onExec(r *simrt.Run) {
	if p.kind == cxCancelAt && p.trig == trigOnExec && !p.fired && !p.closed {
		p.fired = true
		r.Probe("ctx-cancelled-while-reply-in-flight")
		p.cancel()
	}
}

// cxFault wraps a transport fault policy (nil: none): commands of calls whose context is
// due to end get the treatment of onSend when the policy itself has nothing for them.
func cxFault(r *simrt.Run, pol func(*simredis.Cmd) simredis.Fault, plan func(task int) *cxPlan) func(*simredis.Cmd) simredis.Fault {
	return func(c *simredis.Cmd) simredis.Fault {
		var f simredis.Fault
		if pol != nil {
			f = pol(c)
		}
		if f.Kind != simredis.None || c.Handshake() {
			return f
		}
		if p := plan(c.Task); p != nil && !p.closed && p.ctx != nil {
			return p.onSend(r)
		}
		return f
	}
}

func isCtxErr(err error) bool {
	return errors.Is(err, context.Canceled) || errors.Is(err, context.DeadlineExceeded)
}
