package zzall

import (
	"testing"

	_ "github.com/zeromicro/go-zero/core/breaker"
	_ "github.com/zeromicro/go-zero/core/collection"
	_ "github.com/zeromicro/go-zero/core/discov"
	_ "github.com/zeromicro/go-zero/core/executors"
	_ "github.com/zeromicro/go-zero/core/fx"
	_ "github.com/zeromicro/go-zero/core/limit"
	_ "github.com/zeromicro/go-zero/core/load"
	_ "github.com/zeromicro/go-zero/core/mr"
	_ "github.com/zeromicro/go-zero/core/stores/cache"
	_ "github.com/zeromicro/go-zero/core/stores/redis"
	_ "github.com/zeromicro/go-zero/core/stores/sqlc"
	_ "github.com/zeromicro/go-zero/core/stores/sqlx"
	_ "github.com/zeromicro/go-zero/core/threading"
	_ "github.com/zeromicro/go-zero/rest/handler"
	_ "github.com/zeromicro/go-zero/rest/token"
	_ "github.com/zeromicro/go-zero/zrpc"
	_ "github.com/zeromicro/go-zero/zrpc/resolver"

	"verifsim/simharness"
	"verifsim/simrt"
)

func TestSim(t *testing.T) {
	simharness.Main(t, &simharness.Spec{ID: "ZZ", Body: func(r *simrt.Run, tier string) { r.Probe("nontrivial") }})
}
