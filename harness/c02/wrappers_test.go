package c02

import (
	"context"
	"errors"
	"fmt"
	"net/http"
	"net/http/httptest"
	"strings"
	"time"

	"github.com/zeromicro/go-zero/core/load"
	"github.com/zeromicro/go-zero/core/stat"
	"github.com/zeromicro/go-zero/rest/handler"
	"github.com/zeromicro/go-zero/zrpc"
	"google.golang.org/grpc"
	"google.golang.org/grpc/codes"
	"google.golang.org/grpc/status"

	"verifsim/simrt"
)

// Second layer: rest/handler.SheddingHandler and the zrpc UnarySheddingInterceptor
// in front of a counting shedder.  "Each admitted request counts as in flight from
// Allow until its promise is resolved once": per request Allow is consulted once, a
// shed request never reaches the next handler, an admitted request runs it once and
// its promise is resolved exactly once, after the handler ended - also when the
// handler answers 503 / deadline-exceeded or panics.  The counting shedder either
// takes tape-drawn decisions or forwards to a real adaptive shedder, in which case
// the general oracle judges every decision and the in-flight conservation.

// contexts of a request
const (
	cxBackground = iota
	cxLive       // cancellable, outlives the request
	cxCancelled  // cancelled before the request is served
	cxExpired    // deadline passed before the request is served
	cxDeadline   // deadline cxd after the start of the request
	cxCancelAt   // cancelled by another task (the caller went away) cxd after the start
	nCx
)

// panic values of a handler
const (
	pvString = iota
	pvError
	pvDeadlineError // an error wrapping context.DeadlineExceeded
	pvRuntime       // a runtime error (write to a nil map)
	pvAbort         // http.ErrAbortHandler
	nPv
)

type req struct {
	id       int
	rpc      bool
	fakeShed bool
	behave   int
	dur      time.Duration
	pval     int           // what a panicking handler panics with
	cx       int           // the context the request carries
	cxd      time.Duration // cxDeadline / cxCancelAt: when it ends
	viaNil   bool          // http only: through SheddingHandler(nil, ...), the documented "no shedder" form
	opt      optPlan       // what the handler does with the optional interfaces of its writer / context
	// what the handler did
	wrote503 bool  // http: 503 is the status the handler answered with
	retErr   error // rpc: the error the handler returned
	open     bool  // whether that counts as a failure under load is left open
	closed   bool  // the request has been served
	// observations
	allows    int
	shed      bool
	c         *call
	nextRuns  int
	kNextEnd  int
	pass      int
	fail      int
	kResolved int
	panicked  bool
}

type countShedder struct {
	e    *env
	w    *world       // real shedder behind the counter (nil: decisions are drawn)
	reqs map[int]*req // engine task id -> request being served
}

type countPromise struct {
	s *countShedder
	q *req
}

func (s *countShedder) Allow() (load.Promise, error) {
	q := s.reqs[s.e.r.CurrentID()]
	if q == nil {
		s.e.r.Fail("wrapper-foreign-allow", "Allow called outside a request")
		return nil, load.ErrServiceOverloaded
	}
	q.allows++
	if s.w != nil {
		c := s.w.allow()
		if c.shed || c.p == nil {
			q.shed = true
			return nil, load.ErrServiceOverloaded
		}
		q.c = c
		return &countPromise{s, q}, nil
	}
	if q.fakeShed {
		q.shed = true
		return nil, load.ErrServiceOverloaded
	}
	return &countPromise{s, q}, nil
}

func (p *countPromise) resolved(pass bool) {
	q := p.q
	first := q.pass+q.fail == 0
	if pass {
		q.pass++
	} else {
		q.fail++
	}
	q.kResolved = p.s.e.tick()
	if first && q.c != nil {
		p.s.w.resolve(q.c, pass)
	}
}

func (p *countPromise) Pass() { p.resolved(true) }
func (p *countPromise) Fail() { p.resolved(false) }

// panicWith returns the value a handler panics with (pvRuntime: panics right here with
// a genuine runtime.Error).
func panicWith(r *simrt.Run, pval int) any {
	r.Probe([]string{"panic-value-string", "panic-value-error", "panic-value-deadline-error", "panic-value-runtime-error", "panic-value-abort-handler"}[pval])
	switch pval {
	case pvError:
		return errors.New("handler failed")
	case pvDeadlineError:
		return fmt.Errorf("handler gave up: %w", context.DeadlineExceeded)
	case pvRuntime:
		var m map[string]int
		m["x"]++
	case pvAbort:
		return http.ErrAbortHandler
	}
	return "handler-panic"
}

func wrappers(e *env, tier string) {
	r, t := e.r, e.r.Tape
	handler.VerifC02ResetSheddingStat()
	zrpc.VerifC02ResetRpcSheddingStat()
	real := t.Bool()
	cfg := drawConfig(t)
	maxC, maxR := 3, 4
	if tier == "thorough" {
		maxC, maxR = 5, 8
	}
	nClients := t.Range(1, maxC)
	e.nTasks = nClients + 1
	var all []*req
	plans := make([][]*req, nClients)
	for i := range plans {
		n := t.Range(1, maxR)
		for j := 0; j < n; j++ {
			q := &req{id: len(all), rpc: t.Bool(), fakeShed: t.Chance(1, 4), behave: t.Intn(12)}
			if t.Chance(1, 3) {
				q.dur = time.Duration(t.Range(1, 300)) * time.Millisecond
			}
			if q.behave == 4 || q.behave == 5 {
				q.pval = t.Intn(nPv)
			}
			if t.Chance(1, 3) {
				q.cx = t.Range(1, nCx-1)
				if q.cx == cxDeadline || q.cx == cxCancelAt {
					// before, around and after the end of the handler
					q.cxd = []time.Duration{time.Duration(t.Range(1, 999)), q.dur / 2, q.dur, q.dur + 1, time.Duration(t.Range(1, 400)) * time.Millisecond}[t.Intn(5)]
					if q.cxd <= 0 {
						q.cxd = 1
					}
				}
			}
			if !q.rpc && t.Chance(1, 8) {
				q.viaNil = true
			}
			if t.Chance(1, 2) {
				drawOptPlan(t, q)
			}
			all = append(all, q)
			plans[i] = append(plans[i], q)
		}
	}
	maybeDisableLog(e)
	cs := &countShedder{e: e, reqs: map[int]*req{}}
	if real {
		cs.w = newWorld(e, cfg, 0, false)
		cs.w.behindWrappers = true
		e.setCPU([]int64{1000, cfg.thr, 0}[t.Intn(3)])
	}
	metrics := stat.VerifC02NewMetrics(fmt.Sprintf("c02-%d", t.Pos()))
	mw := handler.SheddingHandler(cs, metrics)
	mwNil := handler.SheddingHandler(nil, metrics)
	icpt := zrpc.VerifC02UnarySheddingInterceptor(cs, metrics)
	r.Sample(map[string]any{"scenario": "wrappers", "real_cpu_predicate": e.realChk, "real_shedder_behind_counter": real, "clients": nClients, "requests": len(all), "first_client": fmt.Sprintf("%+v", plans[0][0])})

	work := func(q *req) {
		q.nextRuns++
		if q.dur > 0 {
			r.Sleep(q.dur)
		} else {
			r.Yield()
		}
	}
	// waitCtx: the handler works until its context is over (at most 400 ms longer)
	waitCtx := func(ctx context.Context) error {
		for i := 0; i < 40 && ctx.Err() == nil; i++ {
			r.Sleep(10 * time.Millisecond)
		}
		return ctx.Err()
	}
	panicValue := func(q *req) any { return panicWith(r, q.pval) }
	next := http.HandlerFunc(func(rw http.ResponseWriter, hr *http.Request) {
		q := cs.reqs[r.CurrentID()]
		work(q)
		// optOps: the handler uses the optional interfaces of its writer; true: it ends here
		optOps := func() bool {
			var next int
			if rw, next = httpOpts(e, q, rw); next == ooPanic {
				q.kNextEnd = e.tick()
				panic(panicValue(q))
			}
			return next == ooReturn
		}
		if len(q.opt.ops) > 0 && !q.opt.late && optOps() {
			q.kNextEnd = e.tick()
			return
		}
		switch q.behave {
		case 1:
			rw.WriteHeader(http.StatusOK)
		case 2:
			q.wrote503 = true
			rw.WriteHeader(http.StatusServiceUnavailable)
		case 3:
			rw.WriteHeader(http.StatusInternalServerError)
		case 4:
			q.kNextEnd = e.tick()
			panic(panicValue(q))
		case 5:
			rw.WriteHeader(http.StatusServiceUnavailable)
			q.kNextEnd = e.tick()
			panic(panicValue(q))
		case 6:
			rw.WriteHeader(http.StatusNotFound)
		case 7:
			rw.WriteHeader(http.StatusBadRequest)
		case 8:
			// a body without an explicit status: 200
			_, _ = rw.Write([]byte("hello"))
		case 9:
			// a second WriteHeader is ignored by net/http: the client sees 200
			rw.WriteHeader(http.StatusOK)
			rw.WriteHeader(http.StatusServiceUnavailable)
			q.open = true
		case 10:
			q.wrote503 = true
			rw.WriteHeader(http.StatusServiceUnavailable)
			_, _ = rw.Write([]byte("busy"))
			if f, ok := rw.(http.Flusher); ok {
				f.Flush()
			}
		case 11:
			// works until the caller's context is over; a timeout is answered with 503
			if err := waitCtx(hr.Context()); errors.Is(err, context.DeadlineExceeded) {
				q.wrote503 = true
				rw.WriteHeader(http.StatusServiceUnavailable)
			}
		}
		if len(q.opt.ops) > 0 && q.opt.late {
			r.Probe("opt-after-the-answer")
			optOps()
		}
		q.kNextEnd = e.tick()
	})
	h := mw(next)
	hNil := mwNil(next)
	rpcHandler := func(ctx context.Context, in any) (any, error) {
		q := cs.reqs[r.CurrentID()]
		work(q)
		defer func() { q.kNextEnd = e.tick() }()
		if len(q.opt.ops) > 0 && !q.opt.late {
			switch next, refusal := rpcOpts(e, q, ctx); next {
			case ooPanic:
				panic(panicValue(q))
			case ooReturn:
				// hands the refusal (a gRPC status, no deadline error) to its caller
				q.retErr, q.opt.cutShort = refusal, true
				return nil, q.retErr
			}
		}
		switch q.behave {
		case 1:
			q.retErr = context.DeadlineExceeded
		case 2:
			q.retErr = fmt.Errorf("wrapped: %w", context.DeadlineExceeded)
		case 3, 7:
			q.retErr = errors.New("business error")
		case 4, 5:
			panic(panicValue(q))
		case 8:
			q.retErr = context.Canceled
		case 9:
			// the deadline of a call further downstream, as gRPC reports it
			q.retErr, q.open = status.Error(codes.DeadlineExceeded, "downstream deadline exceeded"), true
		case 10:
			// the shedder's own sentinel, handed up from a nested call
			q.retErr = load.ErrServiceOverloaded
		case 11:
			// works until the caller's context is over and reports how it ended
			q.retErr = waitCtx(ctx)
		}
		if len(q.opt.ops) > 0 && q.opt.late {
			r.Probe("opt-after-the-answer")
			if next, _ := rpcOpts(e, q, ctx); next == ooPanic {
				panic(panicValue(q))
			}
		}
		if q.retErr != nil {
			return nil, q.retErr
		}
		return "ok", nil
	}
	var cancellers []*simrt.Task
	openCtx := func(q *req) (context.Context, context.CancelFunc) {
		if q.cx != cxBackground {
			r.Probe([]string{"", "ctx-live", "ctx-cancelled-before", "ctx-deadline-passed-before", "ctx-deadline-during", "ctx-cancelled-during"}[q.cx])
		}
		switch q.cx {
		case cxLive:
			return context.WithCancel(context.Background())
		case cxCancelled:
			ctx, cancel := context.WithCancel(context.Background())
			cancel()
			return ctx, cancel
		case cxExpired:
			return context.WithDeadline(context.Background(), time.Now().Add(-time.Millisecond))
		case cxDeadline:
			return context.WithDeadline(context.Background(), time.Now().Add(q.cxd))
		case cxCancelAt:
			ctx, cancel := context.WithCancel(context.Background())
			cancellers = append(cancellers, r.Go("caller-goes-away", func() {
				r.Sleep(q.cxd)
				if !q.closed {
					r.Probe("ctx-ended-while-request-ran")
					cancel() // nothing waits on this context in a raw channel operation: handlers poll it
				}
			}))
			return ctx, cancel
		}
		return context.Background(), func() {}
	}
	serve := func(q *req) {
		tid := r.CurrentID()
		cs.reqs[tid] = q
		var code int
		var rpcErr error
		ctx, cancel := openCtx(q)
		func() {
			defer func() {
				if rec := recover(); rec != nil {
					q.panicked = true
				}
			}()
			if q.rpc {
				_, rpcErr = icpt(rpcCtx(e, q, ctx), "req", &grpc.UnaryServerInfo{FullMethod: "/svc/method"}, rpcHandler)
			} else {
				rec, seen := newWriter(e, q)
				hh := h
				if q.viaNil {
					hh = hNil
				}
				defer func() { code = seen() }()
				hh.ServeHTTP(rec, httptest.NewRequest(http.MethodGet, "/x", nil).WithContext(ctx))
			}
		}()
		q.closed = true
		if q.cx == cxDeadline && ctx.Err() != nil {
			r.Probe("ctx-ended-while-request-ran")
		}
		cancel()
		delete(cs.reqs, tid)
		r.Ev("served", int64(q.id), b2i(q.shed), int64(q.pass), int64(q.fail))
		r.Probe("oracle")
		kind := "http"
		if q.rpc {
			kind = "rpc"
		}
		if q.viaNil {
			// no shedder: every request reaches its handler, nobody is asked
			r.Probe("wrapper-no-shedder")
			if q.allows != 0 || q.nextRuns != 1 || q.pass+q.fail != 0 {
				r.Fail("wrapper-nil-shedder", "http request %d through SheddingHandler(nil): Allow consulted %d times, handler ran %d times, %d resolutions", q.id, q.allows, q.nextRuns, q.pass+q.fail)
			}
			return
		}
		if q.allows != 1 {
			r.Fail("wrapper-allow-count", "%s request %d consulted Allow %d times", kind, q.id, q.allows)
			return
		}
		if q.shed {
			r.Probe("wrapper-shed")
			if q.nextRuns != 0 {
				r.Fail("wrapper-ran-shed-request", "%s request %d was shed but its handler ran", kind, q.id)
			} else if q.pass+q.fail != 0 {
				r.Fail("wrapper-resolved-shed-request", "%s request %d was shed but a promise was resolved", kind, q.id)
			} else if !q.rpc && code != http.StatusServiceUnavailable {
				r.Fail("wrapper-shed-status", "http request %d was shed, status %d", q.id, code)
			} else if q.rpc && status.Code(rpcErr) != codes.ResourceExhausted {
				r.Fail("wrapper-shed-status", "rpc request %d was shed, error %v", q.id, rpcErr)
			}
			return
		}
		if q.panicked {
			r.Probe("wrapper-handler-panicked")
		}
		// what the handler did with the optional interfaces of its writer / context
		how := ""
		endK := q.kNextEnd
		switch {
		case q.opt.hjOK:
			// the connection was taken over: the request / response cycle ended there, the
			// promise may be resolved from then on (once); with Pass or Fail is left open
			how, q.open = "/hijacked", true
			if q.opt.kHijacked < endK {
				endK = q.opt.kHijacked
			}
			if q.opt.writeAfter {
				r.Probe("opt-write-after-hijack")
			}
		case q.opt.hjRefused > 0 && q.rpc:
			how = "/header-call-refused"
		case q.opt.hjRefused > 0:
			how = "/hijack-refused"
		}
		if q.opt.unwrapped {
			q.open = true // the answer went past the wrapper
		}
		if !q.rpc && q.wrote503 != (code == http.StatusServiceUnavailable) {
			// the status the handler meant to answer with is not the one the client received (the
			// header had been sent by a Flush, an informational status on a writer that takes it for
			// the final one, ...): what that counts as is left open
			q.open = true
		}
		if how != "" && q.pass+q.fail == 1 {
			r.Probe("opt-resolved-once" + how)
		}
		switch {
		case q.nextRuns != 1:
			r.Fail("wrapper-handler-runs", "%s request %d was admitted, its handler ran %d times", kind, q.id, q.nextRuns)
		case q.pass+q.fail == 0:
			r.Fail("promise-unresolved"+how, "%s request %d (behaviour %d, panicked=%v, optional interfaces %+v) was admitted and served but its promise was never resolved", kind, q.id, q.behave, q.panicked, q.opt)
		case q.pass+q.fail > 1:
			r.Fail("promise-twice"+how, "%s request %d (behaviour %d, optional interfaces %+v): promise resolved %d times (pass %d, fail %d)", kind, q.id, q.behave, q.opt, q.pass+q.fail, q.pass, q.fail)
		case q.kResolved < endK:
			r.Fail("promise-early"+how, "%s request %d: promise resolved before the handler ended (before the connection was taken over)", kind, q.id)
		case q.panicked:
			// what a panicking handler counts as is left open
		case q.open:
			// whether this answer counts as a failure under load is left open
			r.Probe("wrapper-outcome-left-open")
		case !q.rpc:
			// only an answer of 503 tells the shedder that the request failed under load
			if wantFail := q.wrote503; wantFail != (q.fail == 1) {
				r.Fail("wrapper-outcome-http", "http request %d answered %d, promise resolved with Pass=%d Fail=%d (503 is the only status that counts as Fail)", q.id, code, q.pass, q.fail)
			}
		default:
			// only a deadline error (also wrapped) tells the shedder that the request failed under load
			if q.retErr != nil && q.behave >= 8 && !q.opt.cutShort {
				r.Probe("rpc-error-identity-" + []string{"canceled", "", "own-sentinel", "ctx-err"}[q.behave-8])
			}
			if wantFail := errors.Is(q.retErr, context.DeadlineExceeded); wantFail != (q.fail == 1) {
				r.Fail("wrapper-outcome-rpc", "rpc request %d returned %v, promise resolved with Pass=%d Fail=%d (a deadline error is the only one that counts as Fail)", q.id, rpcErr, q.pass, q.fail)
			}
		}
	}
	var tasks []*simrt.Task
	for i := 0; i < nClients; i++ {
		i := i
		tasks = append(tasks, r.Go(fmt.Sprintf("client%d", i), func() {
			for _, q := range plans[i] {
				serve(q)
				if r.Failed() {
					return
				}
			}
		}))
	}
	ok := r.JoinTimeout(2*time.Hour, tasks...)
	ok = ok && r.JoinTimeout(2*time.Hour, cancellers...)
	r.MarkBackground(func(name string) bool {
		return strings.HasPrefix(name, "core/load/sheddingstat.go") || strings.HasPrefix(name, "core/executors/periodicalexecutor.go")
	})
	if !ok {
		r.Fail("stuck", "requests did not finish: %v", r.AliveTasks())
		return
	}
	if real {
		cs.w.conservation()
	}
	// let the metrics flusher go idle and quit
	r.Sleep(13 * time.Minute)
}
