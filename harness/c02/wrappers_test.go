package c02

import (
	"context"
	"errors"
	"fmt"
	"net/http"
	"net/http/httptest"
	"strings"
	"time"

	"github.com/zeromicro/go-zero/core/load"
	"github.com/zeromicro/go-zero/core/stat"
	"github.com/zeromicro/go-zero/rest/handler"
	"github.com/zeromicro/go-zero/zrpc"
	"google.golang.org/grpc"
	"google.golang.org/grpc/codes"
	"google.golang.org/grpc/status"

	"verifsim/simrt"
)

// Second layer: rest/handler.SheddingHandler and the zrpc UnarySheddingInterceptor
// in front of a counting shedder.  "Each admitted request counts as in flight from
// Allow until its promise is resolved once": per request Allow is consulted once, a
// shed request never reaches the next handler, an admitted request runs it once and
// its promise is resolved exactly once, after the handler ended - also when the
// handler answers 503 / deadline-exceeded or panics.  The counting shedder either
// takes tape-drawn decisions or forwards to a real adaptive shedder, in which case
// the general oracle judges every decision and the in-flight conservation.

type req struct {
	id       int
	rpc      bool
	fakeShed bool
	behave   int
	dur      time.Duration
	// observations
	allows    int
	shed      bool
	c         *call
	nextRuns  int
	kNextEnd  int
	pass      int
	fail      int
	kResolved int
	panicked  bool
}

type countShedder struct {
	e    *env
	w    *world       // real shedder behind the counter (nil: decisions are drawn)
	reqs map[int]*req // engine task id -> request being served
}

type countPromise struct {
	s *countShedder
	q *req
}

func (s *countShedder) Allow() (load.Promise, error) {
	q := s.reqs[s.e.r.CurrentID()]
	if q == nil {
		s.e.r.Fail("wrapper-foreign-allow", "Allow called outside a request")
		return nil, load.ErrServiceOverloaded
	}
	q.allows++
	if s.w != nil {
		c := s.w.allow()
		if c.shed || c.p == nil {
			q.shed = true
			return nil, load.ErrServiceOverloaded
		}
		q.c = c
		return &countPromise{s, q}, nil
	}
	if q.fakeShed {
		q.shed = true
		return nil, load.ErrServiceOverloaded
	}
	return &countPromise{s, q}, nil
}

func (p *countPromise) resolved(pass bool) {
	q := p.q
	first := q.pass+q.fail == 0
	if pass {
		q.pass++
	} else {
		q.fail++
	}
	q.kResolved = p.s.e.tick()
	if first && q.c != nil {
		p.s.w.resolve(q.c, pass)
	}
}

func (p *countPromise) Pass() { p.resolved(true) }
func (p *countPromise) Fail() { p.resolved(false) }

func wrappers(e *env, tier string) {
	r, t := e.r, e.r.Tape
	handler.VerifC02ResetSheddingStat()
	zrpc.VerifC02ResetRpcSheddingStat()
	real := t.Bool()
	cfg := drawConfig(t)
	maxC, maxR := 3, 4
	if tier == "thorough" {
		maxC, maxR = 5, 8
	}
	nClients := t.Range(1, maxC)
	e.nTasks = nClients + 1
	var all []*req
	plans := make([][]*req, nClients)
	for i := range plans {
		n := t.Range(1, maxR)
		for j := 0; j < n; j++ {
			q := &req{id: len(all), rpc: t.Bool(), fakeShed: t.Chance(1, 4), behave: t.Intn(8)}
			if t.Chance(1, 3) {
				q.dur = time.Duration(t.Range(1, 300)) * time.Millisecond
			}
			all = append(all, q)
			plans[i] = append(plans[i], q)
		}
	}
	cs := &countShedder{e: e, reqs: map[int]*req{}}
	if real {
		cs.w = newWorld(e, cfg, 0, false)
		e.setCPU([]int64{1000, cfg.thr, 0}[t.Intn(3)])
	}
	metrics := stat.VerifC02NewMetrics(fmt.Sprintf("c02-%d", t.Pos()))
	mw := handler.SheddingHandler(cs, metrics)
	icpt := zrpc.VerifC02UnarySheddingInterceptor(cs, metrics)
	r.Sample(map[string]any{"scenario": "wrappers", "real_shedder_behind_counter": real, "clients": nClients, "requests": len(all), "first_client": fmt.Sprintf("%+v", plans[0][0])})

	work := func(q *req) {
		q.nextRuns++
		if q.dur > 0 {
			r.Sleep(q.dur)
		} else {
			r.Yield()
		}
	}
	next := http.HandlerFunc(func(rw http.ResponseWriter, hr *http.Request) {
		q := cs.reqs[r.CurrentID()]
		work(q)
		switch q.behave {
		case 1:
			rw.WriteHeader(http.StatusOK)
		case 2:
			rw.WriteHeader(http.StatusServiceUnavailable)
		case 3:
			rw.WriteHeader(http.StatusInternalServerError)
		case 4:
			q.kNextEnd = e.tick()
			panic("handler-panic")
		case 5:
			rw.WriteHeader(http.StatusServiceUnavailable)
			q.kNextEnd = e.tick()
			panic("handler-panic-after-503")
		case 6:
			rw.WriteHeader(http.StatusNotFound)
		case 7:
			rw.WriteHeader(http.StatusBadRequest)
		}
		q.kNextEnd = e.tick()
	})
	h := mw(next)
	rpcHandler := func(ctx context.Context, in any) (any, error) {
		q := cs.reqs[r.CurrentID()]
		work(q)
		defer func() { q.kNextEnd = e.tick() }()
		switch q.behave {
		case 1:
			return nil, context.DeadlineExceeded
		case 2:
			return nil, fmt.Errorf("wrapped: %w", context.DeadlineExceeded)
		case 3, 7:
			return nil, errors.New("business error")
		case 4, 5:
			panic("rpc-handler-panic")
		}
		return "ok", nil
	}
	serve := func(q *req) {
		tid := r.CurrentID()
		cs.reqs[tid] = q
		var code int
		var rpcErr error
		func() {
			defer func() {
				if rec := recover(); rec != nil {
					q.panicked = true
				}
			}()
			if q.rpc {
				_, rpcErr = icpt(context.Background(), "req", &grpc.UnaryServerInfo{FullMethod: "/svc/method"}, rpcHandler)
			} else {
				rec := httptest.NewRecorder()
				h.ServeHTTP(rec, httptest.NewRequest(http.MethodGet, "/x", nil))
				code = rec.Code
			}
		}()
		delete(cs.reqs, tid)
		r.Ev("served", int64(q.id), b2i(q.shed), int64(q.pass), int64(q.fail))
		r.Probe("oracle")
		kind := "http"
		if q.rpc {
			kind = "rpc"
		}
		if q.allows != 1 {
			r.Fail("wrapper-allow-count", "%s request %d consulted Allow %d times", kind, q.id, q.allows)
			return
		}
		if q.shed {
			r.Probe("wrapper-shed")
			if q.nextRuns != 0 {
				r.Fail("wrapper-ran-shed-request", "%s request %d was shed but its handler ran", kind, q.id)
			} else if q.pass+q.fail != 0 {
				r.Fail("wrapper-resolved-shed-request", "%s request %d was shed but a promise was resolved", kind, q.id)
			} else if !q.rpc && code != http.StatusServiceUnavailable {
				r.Fail("wrapper-shed-status", "http request %d was shed, status %d", q.id, code)
			} else if q.rpc && status.Code(rpcErr) != codes.ResourceExhausted {
				r.Fail("wrapper-shed-status", "rpc request %d was shed, error %v", q.id, rpcErr)
			}
			return
		}
		if q.panicked {
			r.Probe("wrapper-handler-panicked")
		}
		switch {
		case q.nextRuns != 1:
			r.Fail("wrapper-handler-runs", "%s request %d was admitted, its handler ran %d times", kind, q.id, q.nextRuns)
		case q.pass+q.fail == 0:
			r.Fail("promise-unresolved", "%s request %d (behaviour %d, panicked=%v) was admitted and served but its promise was never resolved", kind, q.id, q.behave, q.panicked)
		case q.pass+q.fail > 1:
			r.Fail("promise-twice", "%s request %d (behaviour %d): promise resolved %d times (pass %d, fail %d)", kind, q.id, q.behave, q.pass+q.fail, q.pass, q.fail)
		case q.kResolved < q.kNextEnd:
			r.Fail("promise-early", "%s request %d: promise resolved before the handler ended", kind, q.id)
		case q.panicked:
			// what a panicking handler counts as is left open
		case !q.rpc:
			// only an answer of 503 tells the shedder that the request failed under load
			if wantFail := q.behave == 2; wantFail != (q.fail == 1) {
				r.Fail("wrapper-outcome-http", "http request %d answered %d, promise resolved with Pass=%d Fail=%d (503 is the only status that counts as Fail)", q.id, code, q.pass, q.fail)
			}
		default:
			// only a deadline error (also wrapped) tells the shedder that the request failed under load
			if wantFail := q.behave == 1 || q.behave == 2; wantFail != (q.fail == 1) {
				r.Fail("wrapper-outcome-rpc", "rpc request %d returned %v, promise resolved with Pass=%d Fail=%d (a deadline error is the only one that counts as Fail)", q.id, rpcErr, q.pass, q.fail)
			}
		}
	}
	var tasks []*simrt.Task
	for i := 0; i < nClients; i++ {
		i := i
		tasks = append(tasks, r.Go(fmt.Sprintf("client%d", i), func() {
			for _, q := range plans[i] {
				serve(q)
				if r.Failed() {
					return
				}
			}
		}))
	}
	ok := r.JoinTimeout(2*time.Hour, tasks...)
	r.MarkBackground(func(name string) bool {
		return strings.HasPrefix(name, "core/load/sheddingstat.go") || strings.HasPrefix(name, "core/executors/periodicalexecutor.go")
	})
	if !ok {
		r.Fail("stuck", "requests did not finish: %v", r.AliveTasks())
		return
	}
	if real {
		cs.w.conservation()
	}
	// let the metrics flusher go idle and quit
	r.Sleep(13 * time.Minute)
}
