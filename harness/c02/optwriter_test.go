package c02

import (
	"bufio"
	"context"
	"errors"
	"net"
	"net/http"
	"net/http/httptest"
	"time"

	"google.golang.org/grpc"
	"google.golang.org/grpc/metadata"

	"verifsim/simrt"
)

// Handlers behind the shedding wrappers that use the OPTIONAL facilities of what they
// are given: http.Hijacker / http.Flusher / http.NewResponseController / Unwrap / 1xx
// status lines on the ResponseWriter (rest), grpc.SetHeader / SendHeader / SetTrailer on
// the request context (zrpc).  The writer (stream) underneath supports them, does not
// offer them or refuses them.  The oracle stays the property's: an admitted request's
// promise is resolved exactly once - whatever the handler did with its writer.

// writers the SheddingHandler is handed
const (
	uwRecorder = iota // httptest recorder: Flusher, no Hijacker
	uwConn            // like net/http's HTTP/1 writer: Flusher, Hijacker (a second Hijack: http.ErrHijacked), deadlines, full duplex
	uwBare            // the three mandatory methods only (HTTP/2 style: no Hijacker)
	uwRefusing        // offers Hijack and refuses it with a drawn error
	uwUnwrapOnly      // another middleware's wrapper: the mandatory methods + Unwrap() around a uwConn writer
	nUw
)

// what a handler does with its writer besides answering
const (
	oFlush     = iota // rw.(http.Flusher).Flush() when offered
	oFlushRC          // http.NewResponseController(rw).Flush()
	oHijack           // rw.(http.Hijacker).Hijack() when offered
	oHijackRC         // http.NewResponseController(rw).Hijack()
	oInfo             // WriteHeader(100 / 102 / 103)
	oDeadlines        // ResponseController: SetReadDeadline, SetWriteDeadline, EnableFullDuplex
	oUnwrap           // goes on with rw.Unwrap() when offered
	nOpt
)

// rpc: what a handler does with its context besides answering
const (
	gSetHeader = iota
	gSendHeader
	gSetTrailer
	gMethod
	nGOpt
)

// streams an rpc context carries
const (
	gsNone      = iota // no ServerTransportStream in the context: every call is refused
	gsAccepting        // accepts headers once, trailers always
	gsRefusing         // refuses every header / trailer
	nGs
)

// after a hijack (rpc: a header call) that was refused / that succeeded
const (
	afGoOn   = iota // refused: answers as planned; succeeded: closes the connection and returns
	afOther         // refused: returns without writing (rpc: returns the refusal); succeeded: answers as planned on the hijacked writer
	afPanic         // panics
	nAf
)

var errHTTP2Hijack = errors.New("http2: connection cannot be hijacked")

// optPlan: the optional-interface part of a request (zero value: none, the old behaviour)
type optPlan struct {
	uw        int   // writer handed to the SheddingHandler
	ops       []int // http: o*, rpc: g*
	late      bool  // the operations follow the answer instead of preceding it
	refuseErr int   // uwRefusing: which error
	info      int   // oInfo: which 1xx status
	afRefused int
	afSuccess int
	stream    int // rpc: gs*
	// observations
	hjRefused  int
	hjOK       bool
	kHijacked  int // logical instant at which the connection was taken over
	unwrapped  bool
	writeAfter bool // wrote to the writer after having taken over the connection
	cutShort   bool // rpc: the handler returned the refusal instead of its planned answer
}

func drawOptPlan(t *simrt.Tape, q *req) {
	p := &q.opt
	n := t.Range(1, 3)
	if q.rpc {
		p.stream = t.Intn(nGs)
		for i := 0; i < n; i++ {
			p.ops = append(p.ops, t.Intn(nGOpt))
		}
	} else {
		p.uw = t.Intn(nUw)
		for i := 0; i < n; i++ {
			p.ops = append(p.ops, t.Intn(nOpt))
		}
		p.refuseErr = t.Intn(3)
		p.info = t.Intn(3)
	}
	p.late = t.Chance(1, 4)
	p.afRefused = t.Intn(nAf)
	p.afSuccess = t.Intn(nAf)
	if (p.afRefused == afPanic || p.afSuccess == afPanic) && q.behave != 4 && q.behave != 5 {
		q.pval = t.Intn(nPv)
	}
}

// --- writers ----------------------------------------------------------------

type nopAddr struct{}

func (nopAddr) Network() string { return "sim" }
func (nopAddr) String() string  { return "sim" }

// nopConn is what a successful Hijack hands out.
type nopConn struct{ closed int }

func (c *nopConn) Read(b []byte) (int, error)       { return 0, net.ErrClosed }
func (c *nopConn) Write(b []byte) (int, error)      { return len(b), nil }
func (c *nopConn) Close() error                     { c.closed++; return nil }
func (c *nopConn) LocalAddr() net.Addr              { return nopAddr{} }
func (c *nopConn) RemoteAddr() net.Addr             { return nopAddr{} }
func (c *nopConn) SetDeadline(time.Time) error      { return nil }
func (c *nopConn) SetReadDeadline(time.Time) error  { return nil }
func (c *nopConn) SetWriteDeadline(time.Time) error { return nil }

// bareWriter: the mandatory methods, with net/http's rules: informational status
// lines do not end the header, the first final WriteHeader counts, a body without a
// status is a 200, nothing can be written once the connection has been taken over.
type bareWriter struct {
	e        *env
	q        *req
	hdr      http.Header
	code     int   // final status sent (0: none yet)
	infos    []int // informational status lines sent
	body     int
	hijacked bool
}

func (w *bareWriter) Header() http.Header { return w.hdr }

func (w *bareWriter) WriteHeader(code int) {
	if w.hijacked {
		w.q.opt.writeAfter = true
		return
	}
	if w.code != 0 {
		return // superfluous
	}
	if code >= 100 && code <= 199 && code != http.StatusSwitchingProtocols {
		w.infos = append(w.infos, code)
		return
	}
	w.code = code
}

func (w *bareWriter) Write(b []byte) (int, error) {
	if w.hijacked {
		w.q.opt.writeAfter = true
		return 0, http.ErrHijacked
	}
	if w.code == 0 {
		w.code = http.StatusOK
	}
	w.body += len(b)
	return len(b), nil
}

// seen: the status the client received (0: the connection was taken over before any).
func (w *bareWriter) seen() int {
	if w.code == 0 && !w.hijacked {
		return http.StatusOK
	}
	return w.code
}

// connWriter offers what net/http's HTTP/1 writer offers.
type connWriter struct {
	*bareWriter
	refuse error // Hijack is refused with this error
}

func (w *connWriter) Flush() { _ = w.FlushError() }

func (w *connWriter) FlushError() error {
	if w.hijacked {
		return http.ErrHijacked
	}
	if w.code == 0 {
		w.code = http.StatusOK
	}
	return nil
}

func (w *connWriter) Hijack() (net.Conn, *bufio.ReadWriter, error) {
	p := &w.q.opt
	if w.refuse != nil {
		return nil, nil, w.refuse
	}
	if w.hijacked {
		return nil, nil, http.ErrHijacked
	}
	w.hijacked = true
	p.kHijacked = w.e.tick()
	c := &nopConn{}
	return c, bufio.NewReadWriter(bufio.NewReader(c), bufio.NewWriter(c)), nil
}

func (w *connWriter) SetReadDeadline(time.Time) error  { return nil }
func (w *connWriter) SetWriteDeadline(time.Time) error { return nil }
func (w *connWriter) EnableFullDuplex() error          { return nil }

// unwrapWriter: a wrapper of some other middleware that forwards the mandatory
// methods and offers Unwrap, nothing else.
type unwrapWriter struct{ inner *connWriter }

func (w *unwrapWriter) Header() http.Header         { return w.inner.Header() }
func (w *unwrapWriter) WriteHeader(code int)        { w.inner.WriteHeader(code) }
func (w *unwrapWriter) Write(b []byte) (int, error) { return w.inner.Write(b) }
func (w *unwrapWriter) Unwrap() http.ResponseWriter { return w.inner }

// newWriter builds the writer of one http request; seen reports the status the
// client received.
func newWriter(e *env, q *req) (w http.ResponseWriter, seen func() int) {
	p := &q.opt
	if p.uw != uwRecorder {
		e.r.Probe([]string{"", "writer-conn-like", "writer-bare", "writer-refusing-hijack", "writer-unwrap-only"}[p.uw])
	}
	bw := &bareWriter{e: e, q: q, hdr: http.Header{}}
	switch p.uw {
	case uwConn:
		return &connWriter{bareWriter: bw}, bw.seen
	case uwBare:
		return bw, bw.seen
	case uwRefusing:
		err := []error{http.ErrNotSupported, errHTTP2Hijack, http.ErrHijacked}[p.refuseErr]
		return &connWriter{bareWriter: bw, refuse: err}, bw.seen
	case uwUnwrapOnly:
		return &unwrapWriter{&connWriter{bareWriter: bw}}, bw.seen
	}
	rec := httptest.NewRecorder()
	return rec, func() int { return rec.Code }
}

// optOutcome: what the handler does next.
const (
	ooGoOn = iota
	ooReturn
	ooPanic
)

// httpOpts performs the optional-interface operations of q on rw.  It returns the
// writer the handler goes on with (Unwrap) and what it does next.
func httpOpts(e *env, q *req, rw http.ResponseWriter) (http.ResponseWriter, int) {
	r, p := e.r, &q.opt
	for _, o := range p.ops {
		var conn net.Conn
		var err error
		tried := false
		switch o {
		case oFlush:
			if f, ok := rw.(http.Flusher); ok {
				r.Probe("opt-flush")
				f.Flush()
			} else {
				r.Probe("opt-flusher-not-offered")
			}
		case oFlushRC:
			if http.NewResponseController(rw).Flush() != nil {
				r.Probe("opt-rc-flush-refused")
			} else {
				r.Probe("opt-rc-flush")
			}
		case oHijack:
			if hj, ok := rw.(http.Hijacker); ok {
				conn, _, err = hj.Hijack()
				tried = true
			} else {
				r.Probe("opt-hijacker-not-offered")
			}
		case oHijackRC:
			conn, _, err = http.NewResponseController(rw).Hijack()
			tried = true
			r.Probe("opt-rc-hijack")
		case oInfo:
			r.Probe("opt-informational-status")
			if p.late {
				// one more WriteHeader after the answer: net/http ignores it, go-zero records the
				// last call - what the request counts as is left open (as for 200 followed by 503)
				q.open = true
			}
			rw.WriteHeader([]int{http.StatusEarlyHints, http.StatusContinue, http.StatusProcessing}[p.info])
		case oDeadlines:
			rc := http.NewResponseController(rw)
			e1 := rc.SetReadDeadline(time.Now().Add(time.Second))
			e2 := rc.SetWriteDeadline(time.Now().Add(time.Second))
			e3 := rc.EnableFullDuplex()
			if e1 != nil || e2 != nil || e3 != nil {
				r.Probe("opt-rc-deadlines-refused")
			} else {
				r.Probe("opt-rc-deadlines")
			}
		case oUnwrap:
			if u, ok := rw.(interface{ Unwrap() http.ResponseWriter }); ok {
				r.Probe("opt-unwrap")
				rw, p.unwrapped = u.Unwrap(), true
			} else {
				r.Probe("opt-unwrap-not-offered")
			}
		}
		if !tried {
			continue
		}
		af := p.afRefused
		if err != nil {
			p.hjRefused++
			r.Probe("opt-hijack-refused")
			if errors.Is(err, http.ErrHijacked) && p.hjOK {
				r.Probe("opt-hijack-twice")
			}
		} else {
			p.hjOK = true
			r.Probe("opt-hijack-succeeded")
			af = p.afSuccess
			if conn != nil {
				_, _ = conn.Write([]byte("HTTP/1.1 101 Switching Protocols\r\n\r\n"))
				_ = conn.Close()
			}
			if af == afGoOn {
				return rw, ooReturn
			}
			if af == afOther {
				af = afGoOn // answers as planned, on a writer whose connection is gone
			}
		}
		switch af {
		case afOther:
			r.Probe("opt-refused-returns-without-writing")
			return rw, ooReturn
		case afPanic:
			r.Probe("opt-panic-after-hijack-attempt")
			return rw, ooPanic
		}
	}
	return rw, ooGoOn
}

// --- rpc --------------------------------------------------------------------

// fakeStream is the ServerTransportStream of an rpc request.
type fakeStream struct {
	refusing   bool
	headerSent bool
	calls      int
}

var errStreamRefuses = errors.New("transport: the stream is done or WriteHeader was already called")

func (s *fakeStream) Method() string { return "/svc/method" }

func (s *fakeStream) SetHeader(metadata.MD) error {
	s.calls++
	if s.refusing || s.headerSent {
		return errStreamRefuses
	}
	return nil
}

func (s *fakeStream) SendHeader(metadata.MD) error {
	s.calls++
	if s.refusing || s.headerSent {
		return errStreamRefuses
	}
	s.headerSent = true
	return nil
}

func (s *fakeStream) SetTrailer(metadata.MD) error {
	s.calls++
	if s.refusing {
		return errStreamRefuses
	}
	return nil
}

// rpcCtx puts the stream of q (if any) into the context the interceptor is called with.
func rpcCtx(e *env, q *req, ctx context.Context) context.Context {
	switch q.opt.stream {
	case gsAccepting:
		e.r.Probe("rpc-stream-accepting")
		return grpc.NewContextWithServerTransportStream(ctx, &fakeStream{})
	case gsRefusing:
		e.r.Probe("rpc-stream-refusing")
		return grpc.NewContextWithServerTransportStream(ctx, &fakeStream{refusing: true})
	}
	return ctx
}

// rpcOpts performs the header / trailer calls of q on the context the handler was
// given.  It returns what the handler does next and the refusal it met last.
func rpcOpts(e *env, q *req, ctx context.Context) (int, error) {
	r, p := e.r, &q.opt
	var last error
	for _, o := range p.ops {
		var err error
		md := metadata.Pairs("x-c02", "v")
		switch o {
		case gSetHeader:
			err = grpc.SetHeader(ctx, md)
		case gSendHeader:
			err = grpc.SendHeader(ctx, md)
		case gSetTrailer:
			err = grpc.SetTrailer(ctx, md)
		case gMethod:
			if _, ok := grpc.Method(ctx); ok {
				r.Probe("rpc-opt-method")
			} else {
				r.Probe("rpc-opt-method-not-offered")
			}
			continue
		}
		if err == nil {
			r.Probe("rpc-opt-header-call-accepted")
			continue
		}
		last = err
		p.hjRefused++
		r.Probe("rpc-opt-header-call-refused")
		switch p.afRefused {
		case afOther:
			return ooReturn, last
		case afPanic:
			r.Probe("rpc-opt-panic-after-refusal")
			return ooPanic, last
		}
	}
	return ooGoOn, last
}
