package c02

import (
	"fmt"
	"testing"
	"time"

	"github.com/zeromicro/go-zero/core/load"
	"github.com/zeromicro/go-zero/core/logx"
	"github.com/zeromicro/go-zero/core/stat"

	"verifsim/simharness"
	"verifsim/simrt"
)

// C02: adaptive load shedder.
//
// The oracle works on the *external* history only: which Allow was admitted or
// shed, when promises were resolved (Pass/Fail), what the CPU predicate answered
// during each Allow.  From that history it derives
//   - F, the number of admitted-but-unresolved requests (as an interval under concurrency),
//   - the capacity estimate cap = peak per-bucket pass count x minimum per-bucket average
//     latency x buckets-per-second over the sliding window without the current bucket
//     (as a lower and an upper bound),
// and decides the clauses of the statement:
//   shed => (overloaded at that Allow, or overloaded at an Allow < 1s earlier and a drop happened before)
//   shed => F >= 1 and F > 0.1*cap
//   overloaded and F > cap and every recent sample of F > cap  => shed
//   disabled => never shed.

const (
	coolOff    = time.Second // "within the preceding second"
	liveN      = 60          // resolutions over which the in-flight level must have been held
	liveMargin = 1.25        // ... at least this multiple of the capacity estimate
)

type env struct {
	r      *simrt.Run
	clk    int
	cpu    int64
	cur    map[int]*call // engine task id -> call whose Allow is executing
	nTasks int           // upper bound of tasks operating on a shedder concurrently
	stray  int           // checker calls that no harness Allow accounts for
	// realChk: go-zero's own CPU predicate (stat.CpuUsage() >= threshold) is in place
	// instead of the recording one; "overloaded during an Allow" is then derived from the
	// CPU values that were current while the Allow ran (interval reasoning)
	realChk  bool
	flipping bool  // a CPU change is being applied: both cpu and cpuNext may be read
	cpuNext  int64 // the value being applied
}

func (e *env) tick() int { e.clk++; return e.clk }

// setCPU changes the CPU signal.  Every Allow that is executing meanwhile may have
// read the old or the new value.
func (e *env) setCPU(v int64) {
	if v < 0 {
		v = 0
	}
	e.cpuNext, e.flipping = v, true
	e.seenByRunningAllows(v)
	stat.VerifSetCpuUsage(v)
	e.cpu, e.flipping = v, false
	e.seenByRunningAllows(v) // Allows that began while the value was being stored
	e.r.Ev("cpu", v)
}

func (e *env) seenByRunningAllows(v int64) {
	for _, c := range e.cur { // order-independent (min / max only)
		c.sawCPU(v)
	}
}

// useRealPredicate puts go-zero's own CPU predicate back in place for this run.
func (e *env) useRealPredicate() {
	e.realChk = true
	load.VerifC02RestoreOverloadChecker()
	e.r.Probe("real-cpu-predicate")
}

// install wires the CPU signal of this run into go-zero.
func (e *env) install() {
	logx.Disable()
	// The alert reporter behind stat.Report (called on every drop) rate-limits through a
	// package-level LessExecutor whose "last time" survives a run: in a process that has
	// already seen a drop the next runs would take a different path through Report.  The unit
	// tests of go-zero run with the reporter switched off; do the same (public API).
	stat.SetReporter(nil)
	stat.VerifSetCpuUsage(0)
	// load.Disable() / load.DisableLog() are process-global and have no public inverse:
	// every run starts with both switches on
	load.VerifC02SetEnabled(true)
	load.VerifC02SetLogEnabled(true)
	load.VerifSetOverloadChecker(func(thr int64) bool {
		over := e.cpu >= thr
		c := e.cur[e.r.CurrentID()]
		if c == nil {
			e.stray++
			return over
		}
		c.checks++
		c.thrSeen = thr
		// the oracle's notion of "overloaded during this Allow" uses the threshold this
		// shedder was configured with, not the one the implementation passes in
		if e.cpu >= c.w.cfg.thr {
			c.over = true
		}
		return over
	})
}

func (e *env) uninstall() {
	stat.VerifSetCpuUsage(0)
	load.VerifC02SetEnabled(true)
	load.VerifC02SetLogEnabled(true)
	load.VerifSetOverloadChecker(func(int64) bool { return false })
}

type call struct {
	id   int
	w    *world
	p    load.Promise
	done bool // Allow returned
	shed bool
	over bool // the CPU predicate answered (real predicate: may have answered) "overloaded" during this Allow
	// overSure: the CPU was at or above the threshold whenever this Allow may have looked
	overSure     bool
	cpuLo, cpuHi int64 // range of the CPU values current while this Allow ran
	// Allow: logical ticks and virtual instants (relative to the creation of the shedder)
	kInv, kRet int
	tInv, tRet time.Duration
	checks     int
	thrSeen    int64
	// resolution
	pass         bool
	kRInv, kRRet int // 0: not yet
	tRInv, tRRet time.Duration
	sLo          int // lower bound of the in-flight count right after this resolution
}

func (c *call) sawCPU(v int64) {
	if v < c.cpuLo {
		c.cpuLo = v
	}
	if v > c.cpuHi {
		c.cpuHi = v
	}
}

// opened: the Allow of c starts now.
func (e *env) opened(c *call) {
	e.cur[e.r.CurrentID()] = c
	c.cpuLo, c.cpuHi = e.cpu, e.cpu
	if e.flipping {
		c.sawCPU(e.cpuNext)
	}
}

// overPossible: the CPU predicate may have answered "overloaded" during the Allow of
// d (which may still be running).
func (w *world) overPossible(d *call) bool {
	if w.e.realChk && !d.done {
		return d.cpuHi >= w.cfg.thr
	}
	return d.over
}

// config is the EFFECTIVE configuration of a shedder; shape tells which options
// are handed to the constructor (the others are left to the documented defaults).
type config struct {
	window  time.Duration
	buckets int
	thr     int64
	shape   int
}

// documented defaults of NewAdaptiveShedder
const (
	defWindow  = 5 * time.Second
	defBuckets = 50
	defThr     = 900
)

func (c config) interval() time.Duration { return c.window / time.Duration(c.buckets) }

type world struct {
	e        *env
	pfx      string   // prefix of the violation classes (scenario family)
	desc     string   // which shedder this is, for messages (group key / route class)
	peers    []*world // the other shedders of the same ShedderGroup / engine
	cfg      config
	get      func() load.Shedder
	t0       time.Time
	interval time.Duration
	size     int
	bps      float64 // buckets per second
	noCap    bool    // creation instant not exactly known: no capacity reasoning
	disabled bool
	calls    []*call
	resLo    []int // sLo of the resolutions in order of their return
	nShed    int
	nAdmit   int
	// exact in-flight conservation (white-box counter read through a seam)
	sh     load.Shedder // the shedder object the last Allow of this world went to
	busy   int          // Allow / Pass / Fail calls executing on this shedder right now
	seq    int          // bumped whenever such a call starts or ends
	peak   int          // most requests ever possibly in flight at one instant
	nExact int          // exact comparisons made
	// the shedder sits behind rest SheddingHandler / the zrpc interceptor (coverage only)
	behindWrappers bool
}

// option shapes
const (
	shAll       = iota // WithWindow, WithBuckets, WithCpuThreshold
	shNone             // no option at all: the defaults
	shThr              // only the threshold (what the REST / zrpc servers pass)
	shWindow           // only the window
	shBuckets          // only the number of buckets
	shWinBkt           // window and buckets
	shThrWin           // threshold and window
	shOverriden        // every option twice, in reverse order: the later value counts
	nShapes
)

func drawConfig(t *simrt.Tape) config {
	cfg := config{
		// sub-second windows (shorter than the cool-off second), windows that are no whole
		// number of seconds, a window of a minute; 1-3 buckets (with 1 bucket there is never
		// a complete bucket to look at); thresholds 0 (always overloaded), 1, 999
		window: []time.Duration{5 * time.Second, time.Second, 2 * time.Second, 10 * time.Second, 3 * time.Second,
			500 * time.Millisecond, 100 * time.Millisecond, 2500 * time.Millisecond, time.Minute}[t.Intn(9)],
		buckets: []int{50, 10, 5, 20, 100, 7, 1, 2, 3}[t.Intn(9)],
		thr:     []int64{900, 500, 100, 950, 700, 0, 1, 999}[t.Intn(8)],
	}
	if t.Chance(1, 3) {
		cfg.shape = t.Range(1, nShapes-1)
	}
	switch cfg.shape {
	case shNone:
		cfg.window, cfg.buckets, cfg.thr = defWindow, defBuckets, defThr
	case shThr:
		cfg.window, cfg.buckets = defWindow, defBuckets
	case shWindow:
		cfg.buckets, cfg.thr = defBuckets, defThr
	case shBuckets:
		cfg.window, cfg.thr = defWindow, defThr
	case shWinBkt:
		cfg.thr = defThr
	case shThrWin:
		cfg.buckets = defBuckets
	}
	return cfg
}

func (cfg config) opts() []load.ShedderOption {
	w, b, c := load.WithWindow(cfg.window), load.WithBuckets(cfg.buckets), load.WithCpuThreshold(cfg.thr)
	switch cfg.shape {
	case shNone:
		return nil
	case shThr:
		return []load.ShedderOption{c}
	case shWindow:
		return []load.ShedderOption{w}
	case shBuckets:
		return []load.ShedderOption{b}
	case shWinBkt:
		return []load.ShedderOption{b, w}
	case shThrWin:
		return []load.ShedderOption{c, w}
	case shOverriden:
		return []load.ShedderOption{load.WithCpuThreshold(cfg.thr/2 + 17), load.WithBuckets(cfg.buckets + 3), load.WithWindow(cfg.window + 700*time.Millisecond), c, b, w}
	}
	return []load.ShedderOption{w, b, c}
}

// drawCreateDelay: how long the clock runs before a shedder is created, so that its
// buckets are aligned to an instant that is no round reading of any clock.
func drawCreateDelay(t *simrt.Tape, cfg config) time.Duration {
	switch t.Intn(8) {
	case 4:
		return time.Duration(t.Range(1, 999))
	case 5:
		return time.Duration(t.Range(1, 400))*time.Millisecond + time.Duration(t.Range(0, 999999))
	case 6:
		return cfg.interval()/2 + 1
	case 7:
		return time.Duration(t.Range(1, 7))*time.Second + 123456789
	}
	return 0
}

// lateCreation lets the drawn delay pass before a shedder is created.
func lateCreation(e *env, cfg config) {
	if d := drawCreateDelay(e.r.Tape, cfg); d > 0 {
		e.r.Sleep(d)
		e.r.Probe("created-off-the-clock-grid")
	}
}

// maybeDisableLog: load.DisableLog() only silences the shedding statistics; it must not
// change any decision.
func maybeDisableLog(e *env) {
	if e.r.Tape.Chance(1, 6) {
		load.DisableLog()
		e.r.Probe("stat-log-disabled")
	}
}

func baseWorld(e *env, cfg config, disabled bool) *world {
	w := &world{e: e, cfg: cfg, interval: cfg.interval(), size: cfg.buckets, disabled: disabled}
	w.bps = float64(time.Second) / float64(w.interval)
	if cfg.shape != shAll {
		e.r.Probe([]string{"", "options-none", "options-threshold-only", "options-window-only", "options-buckets-only", "options-window-buckets", "options-threshold-window", "options-overridden"}[cfg.shape])
	}
	if cfg.window < time.Second {
		e.r.Probe("window-below-cool-off-second")
	}
	if cfg.window%time.Second != 0 {
		e.r.Probe("window-no-whole-seconds")
	}
	if cfg.buckets <= 3 {
		e.r.Probe("buckets-1-to-3")
	}
	if cfg.thr == 0 {
		e.r.Probe("threshold-zero")
	}
	return w
}

// created notes the creation instant of the shedder; before was read right before
// the constructor was called.
func (w *world) created(before time.Time) {
	w.t0 = time.Now()
	if !w.t0.Equal(before) {
		// a stall hit the constructor: the alignment of the buckets is not known exactly
		w.noCap = true
	}
}

// newWorld creates the shedder under test.  via: 0 NewAdaptiveShedder, 1 ShedderGroup (looked up for every call).
func newWorld(e *env, cfg config, via int, disabled bool) *world {
	w := baseWorld(e, cfg, disabled)
	lateCreation(e, cfg)
	before := time.Now()
	if via == 0 {
		sh := load.NewAdaptiveShedder(cfg.opts()...)
		w.get = func() load.Shedder { return sh }
	} else {
		g := load.NewShedderGroup(cfg.opts()...)
		g.GetShedder("svc")
		w.get = func() load.Shedder { return g.GetShedder("svc") }
	}
	w.created(before)
	return w
}

// newGroupWorlds creates n shedders behind ONE ShedderGroup, one per key; every call
// looks its shedder up again.  "One shedder per key, keys independent": each key is
// judged by the general oracle with its own in-flight population and its own
// capacity estimate, so load on one key can never justify a shed on another.
func newGroupWorlds(e *env, cfg config, n int, disabled bool, between func()) []*world {
	g := load.NewShedderGroup(cfg.opts()...)
	if between != nil {
		between() // between the creation of the group and the first lookup of any key
	}
	ws := make([]*world, n)
	for i := range ws {
		key := fmt.Sprintf("key%d", i)
		w := baseWorld(e, cfg, disabled)
		w.pfx, w.desc = "group/", key
		lateCreation(e, cfg) // every key is first looked up at an instant of its own
		before := time.Now()
		g.GetShedder(key)
		w.created(before)
		w.get = func() load.Shedder { return g.GetShedder(key) }
		ws[i] = w
	}
	for _, w := range ws {
		for _, p := range ws {
			if p != w {
				w.peers = append(w.peers, p)
			}
		}
	}
	return ws
}

func (w *world) fail(class, format string, a ...any) {
	if w.desc != "" {
		format = "[" + w.desc + "] " + format
	}
	w.e.r.Fail(w.pfx+class, format, a...)
}

func (w *world) now() time.Duration { return time.Since(w.t0) }

func (w *world) idx(t time.Duration) int {
	if t < 0 {
		return -1
	}
	return int(t / w.interval)
}

func msf(d time.Duration) float64 { return float64(d) / float64(time.Millisecond) }

// allow performs one Allow on the shedder and judges the answer.
func (w *world) allow() *call {
	e := w.e
	c := &call{id: len(w.calls), w: w}
	w.calls = append(w.calls, c)
	sh := w.get()
	w.sh = sh
	e.opened(c)
	c.kInv, c.tInv = e.tick(), w.now()
	w.opBegin()
	w.notePeak()
	p, err := sh.Allow()
	w.opEnd()
	shed := true
	switch {
	case err == nil:
		c.p = p
		shed = false
	case err == load.ErrServiceOverloaded:
	default:
		w.fail("unexpected-error", "Allow %d returned %v", c.id, err)
	}
	w.decided(c, shed, func() {
		if err == nil && p == nil {
			w.fail("promise-nil", "Allow %d returned neither a promise nor an error", c.id)
		}
	})
	w.racedResolution(c)
	w.checkInFlight("Allow", c)
	return c
}

// begin opens a request whose Allow happens somewhere inside code the harness does
// not see (REST engine): the decision lies between begin and decided.
func (w *world) begin() *call {
	e := w.e
	c := &call{id: len(w.calls), w: w}
	w.calls = append(w.calls, c)
	e.opened(c)
	c.kInv, c.tInv = e.tick(), w.now()
	return c
}

// decided records the outcome of the Allow of call c (on the task that made it) and judges it.
func (w *world) decided(c *call, shed bool, extra func()) {
	e := w.e
	r := e.r
	c.kRet, c.tRet = e.tick(), w.now()
	if e.realChk {
		// go-zero's own predicate is in place: it read the CPU signal at some instant of this Allow
		c.over, c.overSure = c.cpuHi >= w.cfg.thr, c.cpuLo >= w.cfg.thr
	} else {
		c.overSure = c.over
	}
	c.done = true
	delete(e.cur, r.CurrentID())
	c.shed = shed
	if shed {
		w.nShed++
	} else {
		w.nAdmit++
	}
	if extra != nil {
		extra()
	}
	r.Ev("allow", int64(c.id), b2i(c.shed), b2i(c.over))
	if r.Tracing() {
		r.Logf("%sallow #%d t=[%v,%v] k=[%d,%d] over=%v shed=%v cpu=%d", w.tag(), c.id, c.tInv, c.tRet, c.kInv, c.kRet, c.over, c.shed, e.cpu)
	}
	w.checkAllow(c)
}

func (w *world) tag() string {
	if w.desc == "" {
		return ""
	}
	return "[" + w.desc + "] "
}

func b2i(b bool) int64 {
	if b {
		return 1
	}
	return 0
}

// resolve resolves the promise of an admitted call exactly once.
func (w *world) resolve(c *call, pass bool) {
	w.resolveBegin(c, pass)
	w.opBegin()
	if pass {
		c.p.Pass()
	} else {
		c.p.Fail()
	}
	w.opEnd()
	w.resolveEnd(c)
	w.checkInFlight("resolution", c)
}

// --- exact in-flight conservation -------------------------------------------------
//
// "Each admitted request counts as in flight from Allow until its promise is resolved
// once": whenever no Allow / Pass / Fail is executing on a shedder (a quiescent point:
// one task runs at a time, so that is every instant at which the harness' own count of
// running calls is zero), the shedder's in-flight counter - read through the accessor
// seam load.VerifC02InFlight - must equal the number of requests the harness was
// handed a promise for and has not resolved yet.  Its moving average, being an average
// of in-flight counts, can never leave the range [0, most requests ever in flight].

func (w *world) opBegin() { w.busy++; w.seq++ }
func (w *world) opEnd()   { w.busy--; w.seq++ }

// notePeak: upper bound of the number of requests in flight at this instant (every
// request whose Allow has been invoked and whose resolution has not returned).
func (w *world) notePeak() {
	n := 0
	for _, d := range w.calls {
		if !(d.done && d.shed) && d.kRRet == 0 {
			n++
		}
	}
	if n > w.peak {
		w.peak = n
	}
}

// racedResolution: coverage only - the Allow of c overlapped the resolution of
// another request on the same shedder (the interleaving the conservation clause
// quantifies over).
func (w *world) racedResolution(c *call) {
	for _, d := range w.calls {
		if d != c && d.kRInv != 0 && d.kRInv < c.kRet && (d.kRRet == 0 || d.kRRet > c.kInv) {
			w.e.r.Probe("allow-overlapped-resolution-of-another-request")
			if !c.shed && (d.kRRet == 0 || c.kInv > d.kRInv) {
				w.e.r.Probe("allow-admitted-inside-resolution-of-another-request")
			}
			return
		}
	}
}

// checkInFlight compares the counter with the harness' books if this is a quiescent
// point of the shedder; after says which call just returned (messages only).
func (w *world) checkInFlight(after string, c *call) {
	r := w.e.r
	if w.sh == nil || r.Failed() {
		return
	}
	if w.busy != 0 {
		r.Probe("inflight-not-quiescent")
		return
	}
	s0 := w.seq
	cnt, avg, ok := load.VerifC02InFlight(w.sh)
	if !ok {
		return // not an adaptive shedder (shedding disabled)
	}
	if w.seq != s0 || w.busy != 0 {
		// the accessor itself was interrupted by a call on this shedder: the value read
		// belongs to no quiescent instant
		r.Probe("inflight-read-interrupted")
		return
	}
	want := 0
	for _, d := range w.calls {
		if d.done && !d.shed && d.p != nil && d.kRInv == 0 {
			want++
		}
	}
	w.nExact++
	r.Probe("inflight-exact")
	if w.e.nTasks > 1 {
		r.Probe("inflight-exact-concurrent-clients")
	}
	if want > 0 {
		r.Probe("inflight-exact-nonzero")
	}
	switch {
	case w.behindWrappers:
		r.Probe("inflight-exact-shedder-behind-rest-zrpc-wrappers")
	case w.pfx == "group/":
		r.Probe("inflight-exact-group-member")
	case w.pfx == "fleet/":
		r.Probe("inflight-exact-fleet-member")
	}
	id := -1
	if c != nil {
		id = c.id
	}
	switch {
	case cnt < int64(want):
		w.fail("inflight-undercount", "after %s #%d at %v, with no Allow / Pass / Fail running, the shedder counts %d requests in flight; %d admitted requests have not been resolved", after, id, w.now(), cnt, want)
	case cnt > int64(want):
		w.fail("inflight-overcount", "after %s #%d at %v, with no Allow / Pass / Fail running, the shedder counts %d requests in flight; only %d admitted requests have not been resolved", after, id, w.now(), cnt, want)
	case avg < -1e-9 || avg > float64(w.peak)+1e-9:
		w.fail("inflight-average-range", "after %s #%d at %v the moving average of the in-flight count is %.6f; the in-flight count itself never left [0, %d]", after, id, w.now(), avg, w.peak)
	}
}

// resolveBegin: from here on the promise of c may be being resolved (with the given outcome).
func (w *world) resolveBegin(c *call, pass bool) {
	c.pass = pass
	c.kRInv, c.tRInv = w.e.tick(), w.now()
}

// resolveEnd: the resolution of c has certainly ended.
func (w *world) resolveEnd(c *call) {
	e := w.e
	c.kRRet, c.tRRet = e.tick(), w.now()
	// lower bound of the in-flight count the shedder saw right after this resolution:
	// admitted before this resolution began and not being resolved before it ended
	n := 0
	for _, d := range w.calls {
		if d != c && d.done && !d.shed && d.kRet < c.kRInv && d.kRInv == 0 {
			n++
		}
	}
	c.sLo = n
	w.resLo = append(w.resLo, n)
	e.r.Ev("resolve", int64(c.id), b2i(c.pass))
	if e.r.Tracing() {
		e.r.Logf("%sresolve #%d pass=%v t=[%v,%v] lat>=%v inflight-after>=%d", w.tag(), c.id, c.pass, c.tRInv, c.tRRet, c.tRInv-c.tRet, n)
	}
}

// flyBounds returns the bounds of the number of admitted-but-unresolved
// requests at the instant Allow c took its decision.
func (w *world) flyBounds(c *call) (lo, hi int) {
	for _, d := range w.calls {
		if d == c {
			continue
		}
		if d.done && d.shed {
			continue
		}
		// possibly in flight: its Allow began before c returned (true for every
		// call known now) and its resolution had not returned before c began
		if !(d.kRRet != 0 && d.kRRet < c.kInv) {
			hi++
		}
		// certainly in flight: admitted before c began, resolution not begun before c returned
		if d.done && d.kRet < c.kInv && d.kRInv == 0 {
			lo++
		}
	}
	return
}

type bucketAcc struct {
	nC           int     // records certainly in this bucket and certainly visible
	sumLo, sumHi float64 // sums of their latency bounds (ms)
	nU           int     // records possibly in this bucket / possibly visible
	minLo        float64 // smallest latency lower bound of any record possibly here
}

// capBounds computes bounds of the capacity estimate at the decision instant of
// Allow c.  okLo/okHi tell whether the respective bound is defined (the statement
// defines the estimate through recorded passes only).
func (w *world) capBounds(c *call) (lo float64, okLo bool, hi float64, okHi bool) {
	if w.noCap {
		return
	}
	now := w.now()
	iInv, iRet := w.idx(c.tInv), w.idx(c.tRet)
	certainElig := func(b int) bool { return b > iRet-w.size && b < iInv }
	possibleElig := func(b int) bool { return b > iInv-w.size && b < iRet }
	acc := map[int]*bucketAcc{}
	var keys []int
	get := func(b int) *bucketAcc {
		a := acc[b]
		if a == nil {
			a = &bucketAcc{minLo: 1e18}
			acc[b] = a
			keys = append(keys, b)
		}
		return a
	}
	for _, p := range w.calls {
		if p.kRInv == 0 || !p.pass {
			continue
		}
		end := p.tRRet
		if p.kRRet == 0 {
			end = now
		}
		b1, b2 := w.idx(p.tRInv), w.idx(end)
		latLo, latHi := msf(p.tRInv-p.tRet), msf(end-p.tInv)
		if latLo < 0 {
			latLo = 0
		}
		certain := p.kRRet != 0 && p.kRRet < c.kInv && b1 == b2
		for b := b1; b <= b2; b++ {
			a := get(b)
			if certain {
				a.nC++
				a.sumLo += latLo
				a.sumHi += latHi
			} else {
				a.nU++
			}
			if latLo < a.minLo {
				a.minLo = latLo
			}
		}
	}
	maxLo, maxHi := 0, 0
	minRtLo, minRtHi := 1e18, 1e18
	for _, b := range keys {
		a := acc[b]
		if certainElig(b) {
			if a.nC > maxLo {
				maxLo = a.nC
			}
			if a.nC > 0 && a.nU == 0 {
				// implementation-independent tolerance: latencies may be rounded up to
				// the millisecond per request and the average rounded to the nearest one
				if v := a.sumHi/float64(a.nC) + 1.5; v < minRtHi {
					minRtHi = v
				}
			}
		}
		if possibleElig(b) {
			if n := a.nC + a.nU; n > maxHi {
				maxHi = n
			}
			var v float64
			if a.nU == 0 {
				v = a.sumLo/float64(a.nC) - 0.5
			} else {
				v = a.minLo - 0.5
			}
			if v < 0 {
				v = 0
			}
			if v < minRtLo {
				minRtLo = v
			}
		}
	}
	if maxLo > 0 && minRtLo < 1e17 {
		// the estimate never assumes a latency above one second
		if minRtLo > 1000 {
			minRtLo = 1000
		}
		lo, okLo = float64(maxLo)*minRtLo*w.bps/1000, true
	}
	if maxHi > 0 && minRtHi < 1e17 {
		hi, okHi = float64(maxHi)*minRtHi*w.bps/1000, true
		if hi < 1 {
			hi = 1 // a capacity below one request is not meaningful: never demand shedding below it
		}
	}
	return
}

func (w *world) checkAllow(c *call) {
	r := w.e.r
	r.Probe("oracle")
	if w.disabled {
		if c.shed {
			w.fail("disabled-shed", "a disabled shedder shed Allow %d", c.id)
		}
		return
	}
	if c.checks > 0 && c.thrSeen != w.cfg.thr {
		w.fail("threshold", "CPU predicate consulted with threshold %d, configured %d", c.thrSeen, w.cfg.thr)
		return
	}
	fLo, fHi := w.flyBounds(c)
	if c.overSure && w.mustShed(c, fLo) {
		r.Probe("must-shed-antecedent")
		if w.e.realChk {
			r.Probe("must-shed-antecedent-real-cpu-predicate")
		}
		if !c.shed {
			return
		}
	}
	if !c.shed {
		if c.over {
			r.Probe("admitted-while-overloaded")
			if fHi == 0 && w.peerLoad() > 0 {
				r.Probe("idle-shedder-admits-while-peer-loaded")
			}
		}
		return
	}
	r.Probe("shed")
	if w.e.realChk {
		r.Probe("shed-judged-with-real-cpu-predicate")
	}
	if !c.over {
		// cool-off clause
		recent, drop := false, false
		var last time.Duration = -1
		for _, d := range w.calls {
			if d == c {
				continue
			}
			if w.overPossible(d) {
				if !d.done || c.tInv-d.tRet < coolOff {
					recent = true
				}
				if d.done && d.tRet > last {
					last = d.tRet
				}
			}
			if !d.done || d.shed {
				drop = true
			}
		}
		if !recent {
			w.fail("shed-cpu-cold", "Allow %d at %v was shed although the CPU was below the threshold and the last overloaded Allow ended at %v (>= 1s earlier; -1ns = never)", c.id, c.tInv, last)
			return
		}
		if !drop {
			w.fail("shed-cpu-no-drop", "Allow %d at %v was shed with the CPU below the threshold although nothing had been shed before", c.id, c.tInv)
			return
		}
		r.Probe("shed-in-cool-off")
	}
	if fHi == 0 {
		if n := w.peerLoad(); n > 0 {
			w.fail("shed-nothing-in-flight", "Allow %d at %v was shed with no admitted request of its own unresolved (%d are in flight on the other shedders of the same group / engine)", c.id, c.tInv, n)
			return
		}
		w.fail("shed-nothing-in-flight", "Allow %d at %v was shed with no admitted request unresolved", c.id, c.tInv)
		return
	}
	if lo, ok, _, _ := w.capBounds(c); ok {
		r.Probe("shed-with-capacity-known")
		if float64(fHi) <= 0.1*lo*(1-1e-9) {
			w.fail("shed-under-capacity", "Allow %d at %v was shed with at most %d in flight, capacity estimate is at least %.3f (10%% = %.3f)", c.id, c.tInv, fHi, lo, 0.1*lo)
			return
		}
	}
}

// peerLoad is the number of requests certainly in flight on the other shedders of
// the same ShedderGroup / REST engine (reporting and coverage only).
func (w *world) peerLoad() int {
	n := 0
	for _, p := range w.peers {
		for _, d := range p.calls {
			if d.done && !d.shed && d.kRInv == 0 {
				n++
			}
		}
	}
	return n
}

// mustShed evaluates the antecedent of the "does shed" clause for an Allow during
// which the CPU predicate answered "overloaded": in-flight count above the full
// capacity estimate now and - so that any reasonable moving average of it is above
// the estimate as well - at least liveMargin times the estimate right after each of
// the last liveN (+ number of concurrent tasks) resolutions.  A violation is
// recorded when the Allow was admitted nevertheless.
func (w *world) mustShed(c *call, fLo int) bool {
	if c.kRet != c.kInv+1 {
		return false // another operation overlapped this Allow: the decision inputs are not exactly known
	}
	_, _, hi, ok := w.capBounds(c)
	if !ok {
		return false
	}
	need := liveN + w.e.nTasks
	if len(w.resLo) < need || float64(fLo) <= hi*(1+1e-9) {
		return false
	}
	minS := 1 << 30
	for _, s := range w.resLo[len(w.resLo)-need:] {
		if s < minS {
			minS = s
		}
	}
	if float64(minS) < liveMargin*hi {
		return false
	}
	if !c.shed {
		w.fail("not-shed", "Allow %d at %v was admitted although the CPU was overloaded, %d requests were in flight, the in-flight count was >= %d after each of the last %d resolutions and the capacity estimate is at most %.3f", c.id, c.tInv, fLo, minS, need, hi)
	}
	return true
}

// ---------------------------------------------------------------------------

func drawThink(t *simrt.Tape, cfg config) time.Duration {
	switch t.Intn(16) {
	case 0, 1, 2:
		return 0
	case 3:
		return time.Duration(t.Range(1, 20)) * time.Millisecond
	case 4:
		return cfg.interval()
	case 5:
		return cfg.interval() * time.Duration(t.Range(1, cfg.buckets))
	case 6:
		return time.Duration(t.Range(20, 400)) * time.Millisecond
	case 7:
		return time.Second - 1
	case 8:
		return time.Second
	case 9:
		return time.Second + 1
	case 10:
		return cfg.window + cfg.interval()
	case 12:
		return cfg.interval() - 1
	case 13:
		return cfg.interval() + 1
	case 14:
		return cfg.window - time.Duration(t.Intn(2))
	case 15:
		return 10*time.Minute + 1 // every window has long expired
	default:
		return time.Duration(t.Range(1, 3)) * time.Second
	}
}

func drawCPU(t *simrt.Tape, thr int64) int64 {
	switch t.Intn(5) {
	case 0:
		return 0
	case 1:
		return 1000
	case 2:
		return thr
	case 3:
		if thr == 0 {
			return 0
		}
		return thr - 1
	default:
		return (thr + 1000) / 2
	}
}

func body(r *simrt.Run, tier string) {
	e := &env{r: r, cur: map[int]*call{}}
	e.install()
	defer e.uninstall()
	// existing scenario families keep 2/3 of the runs; ShedderGroup with several keys 1/6,
	// REST engine wiring 1/6 (+ a share of the disabled runs each)
	kind := r.Tape.Intn(13)
	if r.Tape.Chance(1, 3) {
		e.useRealPredicate()
	}
	switch kind {
	case 0, 1, 2:
		steady(e, tier, false)
	case 3, 4, 5:
		mixed(e, tier, false, mSingle)
	case 6:
		// load.Disable(): whatever is created afterwards - directly, through a
		// ShedderGroup, by the REST engine - never sheds
		switch r.Tape.Intn(3) {
		case 0:
			mixed(e, tier, true, mSingle)
		case 1:
			mixed(e, tier, true, mGroup)
		default:
			engineMode(e, tier, true)
		}
	case 7:
		wrappers(e, tier)
	case 8:
		steady(e, tier, true)
	case 9:
		mixed(e, tier, false, mGroup)
	case 12:
		mixed(e, tier, false, mFleet)
	default:
		engineMode(e, tier, false)
	}
	if e.stray > 0 {
		r.Probe("stray-checker-call")
	}
}

// --- mixed: concurrent clients + CPU trace task -----------------------------

type op struct {
	kind int // 0 allow, 1 resolve oldest (pass), 2 resolve oldest (fail), 3 sleep
	d    time.Duration
	key  int // which shedder of the group (multi-key runs)
}

// what the clients of mixed work on
const (
	mSingle = iota // one shedder
	mGroup         // 2-3 keys of one ShedderGroup (one configuration)
	mFleet         // 2-3 unrelated shedders, each with its own configuration and creation instant
)

// mixed: mGroup = several keys of one ShedderGroup, every client has a home key it
// mostly works on, so the keys carry different in-flight populations.  mFleet =
// several independent shedders (own configuration each, created directly or through
// a group of their own, one after the other with load.Disable() / load.DisableLog()
// possibly called in between): they share nothing but go-zero's package-level
// state, each is judged on its own; the ones created after Disable() never shed,
// the ones created before it go on as before.
func mixed(e *env, tier string, disabled bool, mode int) {
	r, t := e.r, e.r.Tape
	multi := mode != mSingle
	cfg := drawConfig(t)
	via, nKeys := 0, 1
	if multi {
		via, nKeys = 2, t.Range(2, 3)
	} else {
		via = t.Intn(2)
	}
	cfgs := make([]config, nKeys)
	for i := range cfgs {
		cfgs[i] = cfg
		if mode == mFleet && i > 0 {
			cfgs[i] = drawConfig(t)
		}
	}
	maxC, maxOps := 5, 14
	if tier == "thorough" {
		maxC, maxOps = 8, 40
	}
	nClients := t.Range(1, maxC)
	e.nTasks = nClients + 1
	plans := make([][]op, nClients)
	homes := make([]int, nClients)
	for i := range plans {
		n := t.Range(2, maxOps)
		home := 0
		if multi {
			home = t.Intn(nKeys)
		}
		homes[i] = home
		for j := 0; j < n; j++ {
			var o op
			switch v := t.Intn(10); {
			case v < 4:
				o.kind = 0
			case v < 6:
				o.kind = 1
			case v < 7:
				o.kind = 2
			default:
				o.kind, o.d = 3, drawThink(t, cfgs[home])
			}
			if multi && o.kind != 3 {
				o.key = home
				if t.Chance(1, 4) {
					o.key = t.Intn(nKeys)
				}
			}
			plans[i] = append(plans[i], o)
		}
	}
	// churn: in a quarter of the runs every client first runs 1-12 (thorough 1-30)
	// back-to-back admit / resolve pairs on its home shedder, so that the Allows of one
	// client keep landing inside the Pass / Fail calls of the others (and the other way
	// round) while little is in flight
	if t.Chance(1, 4) {
		maxChurn := 12
		if tier == "thorough" {
			maxChurn = 30
		}
		n := t.Range(1, maxChurn)
		for i := range plans {
			var pre []op
			for j := 0; j < n; j++ {
				pre = append(pre, op{kind: 0, key: homes[i]}, op{kind: 1 + (i+j)%2, key: homes[i]})
			}
			plans[i] = append(pre, plans[i]...)
		}
		if nClients > 1 {
			r.Probe("mixed-churn-of-admit-resolve-pairs")
		}
	}
	type flip struct {
		after time.Duration
		cpu   int64
	}
	cpu0 := drawCPU(t, cfg.thr)
	if disabled {
		cpu0 = 1000
	}
	var flips []flip
	for i, n := 0, t.Intn(6); i < n; i++ {
		k := 0
		if mode == mFleet {
			k = t.Intn(nKeys) // around the threshold of any of the shedders
		}
		flips = append(flips, flip{drawThink(t, cfgs[k]), drawCPU(t, cfgs[k].thr)})
	}
	maybeDisableLog(e)
	var between func()
	if disabled {
		defer load.VerifC02SetEnabled(true)
		if multi && t.Bool() {
			// the group exists already when shedding is disabled; its shedders are obtained afterwards
			between = load.Disable
			r.Probe("disabled-after-group-creation")
		} else {
			load.Disable()
		}
	}
	var ws []*world
	switch mode {
	case mGroup:
		ws = newGroupWorlds(e, cfg, nKeys, disabled, between)
		r.Probe("group-multi-key")
	case mFleet:
		defer load.VerifC02SetEnabled(true)
		off := false
		var how []string
		for i := 0; i < nKeys; i++ {
			switch t.Intn(5) {
			case 3:
				load.Disable()
				off = true
				how = append(how, "Disable()")
				if i > 0 {
					r.Probe("fleet-disable-between-creations")
				}
			case 4:
				load.DisableLog()
				how = append(how, "DisableLog()")
				r.Probe("stat-log-disabled")
			}
			w := newWorld(e, cfgs[i], t.Intn(2), off)
			w.pfx, w.desc = "fleet/", fmt.Sprintf("shedder%d", i)
			how = append(how, fmt.Sprintf("shedder%d %+v", i, cfgs[i]))
			ws = append(ws, w)
		}
		for _, w := range ws {
			for _, p := range ws {
				if p != w {
					w.peers = append(w.peers, p)
				}
			}
		}
		r.Probe("fleet")
		if r.Tracing() {
			r.Logf("fleet: %v", how)
		}
	default:
		ws = []*world{newWorld(e, cfg, via, disabled)}
	}
	e.setCPU(cpu0)
	if r.Tracing() {
		r.Logf("mixed cfg=%+v via=%d keys=%d disabled=%v clients=%d cpu0=%d flips=%+v plans=%+v", cfg, via, nKeys, disabled, nClients, cpu0, flips, plans)
	}
	r.Sample(map[string]any{"scenario": []string{"mixed", "mixed/group", "mixed/fleet"}[mode], "disabled": disabled, "window": cfg.window.String(), "buckets": cfg.buckets, "cpu_threshold": cfg.thr,
		"options": cfg.shape, "real_cpu_predicate": e.realChk, "configs": fmt.Sprintf("%+v", cfgs), "via_group": via != 0, "shedders": nKeys, "clients": nClients, "cpu0": cpu0, "cpu_flips": fmt.Sprintf("%+v", flips), "first_client_ops": fmt.Sprintf("%+v", plans[0])})
	var tasks []*simrt.Task
	tasks = append(tasks, r.Go("cpu-trace", func() {
		for _, f := range flips {
			r.Sleep(f.after)
			e.setCPU(f.cpu)
			r.Probe("cpu-flip")
		}
	}))
	for i := 0; i < nClients; i++ {
		i := i
		tasks = append(tasks, r.Go(fmt.Sprintf("client%d", i), func() {
			held := make([][]*call, nKeys)
			for _, o := range plans[i] {
				w := ws[o.key]
				switch o.kind {
				case 0:
					if c := w.allow(); !c.shed && c.p != nil {
						held[o.key] = append(held[o.key], c)
					}
				case 1, 2:
					if h := held[o.key]; len(h) > 0 {
						w.resolve(h[0], o.kind == 1)
						held[o.key] = h[1:]
					}
				default:
					if o.d > 0 {
						r.Sleep(o.d)
					} else {
						r.Yield()
					}
				}
				if r.Failed() {
					break
				}
			}
			for k, h := range held {
				for _, c := range h {
					ws[k].resolve(c, c.id%2 == 0)
				}
			}
		}))
	}
	if !r.JoinTimeout(2*time.Hour, tasks...) {
		r.Fail("stuck", "clients did not finish: %v", r.AliveTasks())
		return
	}
	for _, w := range ws {
		w.conservation()
	}
}

// conservation: every promise has been resolved once, so nothing is in flight:
// under full CPU overload a sequence of Allow/resolve pairs is admitted entirely
// (decided by the general oracle: shed with nothing in flight is a violation).
func (w *world) conservation() {
	e := w.e
	if e.r.Failed() {
		return
	}
	// everything has returned: the counter must be back at zero
	w.checkInFlight("the end of the scenario", nil)
	if w.nExact > 0 && !e.r.Failed() {
		e.r.Probe("inflight-exact-at-the-end")
	}
	e.setCPU(1000)
	for i := 0; i < 3; i++ {
		c := w.allow()
		if c.shed || c.p == nil {
			return
		}
		w.resolve(c, i%2 == 0)
	}
	e.r.Probe("conservation-checked")
}

// --- steady: one driver, scripted phases that reach the boundaries -----------

// steady: multi = the driver's shedder is key0 of a ShedderGroup with 2-3 keys; the
// other keys ("side" shedders) carry their own drawn in-flight level and are asked
// while key0 is loaded / shedding / cooling off.  Every key is judged on its own.
func steady(e *env, tier string, multi bool) {
	r, t := e.r, e.r.Tape
	cfg := drawConfig(t)
	e.nTasks = 1
	maybeDisableLog(e)
	var w *world
	var side []*world
	via := 0
	if multi {
		via = 2
		ws := newGroupWorlds(e, cfg, t.Range(2, 3), false, nil)
		w, side = ws[0], ws[1:]
		r.Probe("group-multi-key")
	} else {
		via = t.Intn(2)
		w = newWorld(e, cfg, via, false)
	}
	e.setCPU(0)
	heldS := make([][]*call, len(side))
	sideAdmit := func(i int) bool {
		c := side[i].allow()
		if !c.shed && c.p != nil {
			heldS[i] = append(heldS[i], c)
			return true
		}
		return false
	}
	sideResolve := func(i int, pass bool) {
		if h := heldS[i]; len(h) > 0 {
			side[i].resolve(h[0], pass)
			heldS[i] = h[1:]
		}
	}
	var held []*call
	var script []string
	note := func(f string, a ...any) {
		s := fmt.Sprintf(f, a...)
		if len(script) < 40 {
			script = append(script, s)
		}
		if r.Tracing() {
			r.Logf("steady: %s", s)
		}
	}
	admit := func() bool {
		c := w.allow()
		if !c.shed && c.p != nil {
			held = append(held, c)
			return true
		}
		return false
	}
	resolveOldest := func(pass bool) {
		if len(held) > 0 {
			w.resolve(held[0], pass)
			held = held[1:]
		}
	}
	lastOver := func() time.Duration {
		var last time.Duration = -1
		for _, c := range w.calls {
			if c.over && c.tRet > last {
				last = c.tRet
			}
		}
		return last
	}
	rounds := 1 + t.Intn(2)
	if tier == "thorough" {
		rounds = 1 + t.Intn(3)
	}
	for round := 0; round < rounds && !r.Failed(); round++ {
		// A: calibrate the capacity estimate with k passes of latency la in one bucket
		k := t.Intn(7)
		la := []time.Duration{0, time.Millisecond, 5 * time.Millisecond, 20 * time.Millisecond, 100 * time.Millisecond, 700 * time.Microsecond}[t.Intn(6)]
		conc := t.Bool() // all k concurrently (peak count k, latency la) or one after the other
		note("A: %d passes of %v concurrent=%v", k, la, conc)
		if conc {
			for i := 0; i < k; i++ {
				admit()
			}
			r.Sleep(la)
			for i := 0; i < k; i++ {
				resolveOldest(true)
			}
		} else {
			for i := 0; i < k; i++ {
				admit()
				r.Sleep(la)
				resolveOldest(true)
			}
		}
		// leave the bucket(s) of phase A
		r.Sleep(cfg.interval() * time.Duration(1+t.Intn(2)))
		// side keys: own in-flight level, optionally with a few passes so that they
		// have a capacity estimate and a moving average of their own
		for i := range side {
			hS := []int{0, 30, 3, 12, 0, 1}[t.Intn(6)]
			for j := 0; j < hS; j++ {
				sideAdmit(i)
			}
			nRes := t.Intn(4)
			if nRes > 0 && len(heldS[i]) > 0 {
				r.Sleep([]time.Duration{0, time.Millisecond, 5 * time.Millisecond}[t.Intn(3)])
				for j := 0; j < nRes; j++ {
					sideResolve(i, true)
				}
				r.Sleep(cfg.interval())
			}
			note("side %s: level %d, %d passes", side[i].desc, hS, nRes)
		}
		// B: ramp the in-flight level up
		h := []int{0, 2, 5, 12, 30, 1, 3}[t.Intn(7)]
		for i := 0; i < h; i++ {
			admit()
		}
		// C: hold it over m resolutions
		m := []int{0, 70, 10, 100, 62}[t.Intn(5)]
		passEvery := t.Intn(4) // 0: all Fail, n: every n-th is a Pass
		gap := []time.Duration{0, 0, time.Millisecond, 3 * time.Millisecond}[t.Intn(4)]
		note("B/C: level %d held over %d resolutions (pass every %d, gap %v)", h, m, passEvery, gap)
		for i := 0; i < m && !r.Failed(); i++ {
			admit()
			resolveOldest(passEvery > 0 && i%passEvery == 0)
			if gap > 0 {
				r.Sleep(gap)
			}
		}
		// D: overload
		cpu := []int64{1000, cfg.thr, (cfg.thr + 1000) / 2}[t.Intn(3)]
		e.setCPU(cpu)
		nD := t.Range(1, 4)
		shedD := 0
		for i := 0; i < nD && !r.Failed(); i++ {
			if !admit() {
				shedD++
			}
		}
		note("D: cpu=%d, %d Allows, %d shed", cpu, nD, shedD)
		for i := range side {
			for j, n := 0, t.Intn(3); j < n && !r.Failed(); j++ {
				if len(heldS[i]) == 0 && len(held) > 0 {
					r.Probe("group-idle-key-asked-while-other-key-loaded")
				}
				sideAdmit(i)
			}
		}
		// E: cool-off boundary
		low := []int64{0, cfg.thr - 1}[t.Intn(2)]
		if low < 0 {
			low = 0 // threshold 0: there is no CPU value below it
		}
		e.setCPU(low)
		delta := []time.Duration{time.Second, time.Second - 1, time.Second + 1, 0, 500 * time.Millisecond, 2 * time.Second, 999 * time.Millisecond}[t.Intn(7)]
		if lo := lastOver(); lo >= 0 {
			if wait := lo + delta - w.now(); wait > 0 {
				r.Sleep(wait)
			}
		}
		nE := t.Range(1, 3)
		shedE := 0
		for i := 0; i < nE && !r.Failed(); i++ {
			if !admit() {
				shedE++
			}
		}
		note("E: cpu=%d, %v after the last overloaded Allow: %d Allows, %d shed", low, delta, nE, shedE)
		for i := range side {
			if t.Bool() && !r.Failed() {
				sideAdmit(i)
			}
		}
		if shedD > 0 {
			r.Probe("steady-shed-under-overload")
		}
		if shedE > 0 {
			r.Probe("steady-shed-in-cool-off")
		}
		// F: drain, partially or entirely
		keep := 0
		if t.Chance(1, 4) {
			keep = t.Intn(3)
		}
		dgap := []time.Duration{0, time.Millisecond, 0, 40 * time.Millisecond}[t.Intn(4)]
		for len(held) > keep && !r.Failed() {
			resolveOldest(t.Bool())
			if dgap > 0 {
				r.Sleep(dgap)
			}
		}
		for i := range side {
			if t.Chance(1, 4) {
				continue // this key keeps its population into the next round
			}
			for len(heldS[i]) > 0 && !r.Failed() {
				sideResolve(i, t.Bool())
			}
		}
		if keep == 0 && len(held) == 0 {
			// G: nothing in flight: a burst under full overload is decided by the general oracle
			e.setCPU(1000)
			nG := t.Range(1, 4)
			holdG := t.Bool()
			note("G: empty, cpu=1000, %d Allows hold=%v", nG, holdG)
			for i := 0; i < nG && !r.Failed(); i++ {
				if admit() && !holdG {
					resolveOldest(i%2 == 0)
				}
			}
			r.Probe("empty-burst")
		}
		e.setCPU([]int64{0, 1000, cfg.thr}[t.Intn(3)])
		r.Sleep(drawThink(t, cfg))
	}
	for len(held) > 0 {
		resolveOldest(true)
	}
	for i := range side {
		for len(heldS[i]) > 0 {
			sideResolve(i, true)
		}
	}
	r.Sample(map[string]any{"scenario": "steady", "window": cfg.window.String(), "buckets": cfg.buckets, "cpu_threshold": cfg.thr, "options": cfg.shape, "real_cpu_predicate": e.realChk,
		"via_group": via != 0, "group_keys": 1 + len(side), "allows": len(w.calls), "shed": w.nShed, "script": script})
	w.conservation()
	for _, sw := range side {
		sw.conservation()
	}
	r.Probe("nontrivial")
}

// simConfig is simharness.DefaultConfig with a wider step budget: in the engine scenario
// up to 40 request tasks contend for the shedder's spin lock, and every failed
// attempt of every waiter is a scheduling point.
func simConfig(t *simrt.Tape, tier string) simrt.Config {
	c := simharness.DefaultConfig(t, tier)
	c.MaxSteps = 150000
	return c
}

func TestSim(t *testing.T) {
	simharness.Main(t, &simharness.Spec{ID: "C02", Body: body, Config: simConfig, CrashIsViolation: true})
}
