package c02

import (
	"fmt"
	"net/http"
	"net/http/httptest"
	"strings"
	"time"

	"github.com/zeromicro/go-zero/core/load"
	"github.com/zeromicro/go-zero/rest"
	"github.com/zeromicro/go-zero/rest/handler"

	"verifsim/simrt"
)

// Third layer: the REST engine's own wiring of the shedding middleware
// (rest.newEngine + AddRoutes + bindRoutes through the seam rest.VerifNewRouterHandler).
//
// A server with RestConf.CpuThreshold > 0 and Middlewares.Shedding on sheds the
// routes registered with rest.WithPriority() only when the CPU is at or above the
// higher threshold (CpuThreshold+1000)/2 and the other routes at CpuThreshold; the
// two route classes are separate shedders: each is judged by the general oracle
// with its OWN in-flight population and its own capacity estimate.  With
// CpuThreshold 0, with the middleware switched off, or after load.Disable() no
// request is ever answered 503 without having reached its handler.
//
// Only HTTP answers are observed: a request counts as shed when it is answered 503
// and its handler never ran; it counts as admitted from the moment its handler
// starts; its promise is being resolved between the end of its handler and the
// return of ServeHTTP (with Fail when the handler wrote 503, else with Pass - only
// the capacity bounds depend on that).  The Allow itself happened somewhere between
// the invocation of ServeHTTP and those observations (interval reasoning).

var engineCounter int

type eroute struct {
	method, path string
	prio         bool
	w            *world
}

type ereq struct {
	id     int
	route  int
	behave int // 0 writes nothing, 1 200, 2 503, 3 500, 4 404, 5 panics without writing
	dur    time.Duration
	gap    time.Duration // arrival gap before this request
	pval   int           // what a panicking handler panics with
	// observations
	c        *call
	ran      int
	code     int
	panicked bool
}

func drawEngineCPU(t *simrt.Tape, thrN, thrP int64) int64 {
	var v int64
	switch t.Intn(7) {
	case 0:
		v = 0
	case 1:
		v = 1000
	case 2:
		v = thrN
	case 3:
		v = thrP
	case 4:
		v = thrP - 1
	case 5:
		v = thrN - 1
	default:
		v = (thrP + 1000) / 2
	}
	if v < 0 {
		v = 0
	}
	return v
}

func engineMode(e *env, tier string, globallyDisabled bool) {
	r, t := e.r, e.r.Tape
	handler.VerifC02ResetSheddingStat()
	thr := []int64{900, 0, 500, 100, 950, 700, 999, 1}[t.Intn(8)]
	shedOn := !t.Chance(1, 6)
	recoverOn := t.Bool()
	metricsOn := t.Bool()
	if globallyDisabled {
		// the configuration that would shed if shedding had not been disabled
		shedOn = true
		if thr == 0 {
			thr = 900
		}
	}
	off := thr == 0 || !shedOn || globallyDisabled
	thrP := (thr + 1000) / 2
	cfg := config{window: 5 * time.Second, buckets: 50, thr: thr} // NewAdaptiveShedder's documented defaults

	// route groups
	nG := t.Range(1, 3)
	var routes []*eroute
	groups := make([]rest.VerifRouteGroup, nG)
	var gdesc []string
	for g := 0; g < nG; g++ {
		prio := t.Bool()
		nR := t.Range(1, 2)
		for j := 0; j < nR; j++ {
			routes = append(routes, &eroute{method: http.MethodGet, path: fmt.Sprintf("/g%d/r%d", g, j), prio: prio})
		}
		if prio {
			groups[g].Opts = append(groups[g].Opts, rest.WithPriority())
		}
		gdesc = append(gdesc, fmt.Sprintf("g%d:priority=%v,routes=%d", g, prio, nR))
	}

	// open-loop arrivals: every request is its own task
	maxReq := 24
	if tier == "thorough" {
		maxReq = 40
	}
	nReq := t.Range(3, maxReq)
	reqs := make([]*ereq, nReq)
	for i := range reqs {
		q := &ereq{id: i, route: t.Intn(len(routes)), behave: t.Intn(6)}
		if q.behave == 5 {
			q.pval = t.Intn(nPv)
		}
		switch t.Intn(4) {
		case 1:
			q.dur = time.Duration(t.Range(1, 20)) * time.Millisecond
		case 2:
			q.dur = time.Duration(t.Range(20, 400)) * time.Millisecond
		case 3:
			q.dur = time.Duration(t.Range(1, 3)) * time.Second
		}
		if t.Chance(1, 3) {
			q.gap = drawThink(t, cfg)
		}
		reqs[i] = q
	}
	e.nTasks = nReq + 2
	type flip struct {
		after time.Duration
		cpu   int64
	}
	cpu0 := drawEngineCPU(t, thr, thrP)
	if off {
		cpu0 = 1000
	}
	var flips []flip
	for i, n := 0, t.Intn(6); i < n; i++ {
		flips = append(flips, flip{drawThink(t, cfg), drawEngineCPU(t, thr, thrP)})
	}

	if globallyDisabled {
		load.Disable()
		defer load.VerifC02SetEnabled(true)
	}
	engineCounter++
	var conf rest.RestConf
	conf.Name = fmt.Sprintf("c02-engine-%d", engineCounter)
	conf.Host, conf.Port = "localhost", 0
	conf.MaxConns = 10000
	conf.MaxBytes = 1 << 20
	conf.CpuThreshold = thr
	conf.Middlewares.Shedding = shedOn
	conf.Middlewares.Recover = recoverOn
	conf.Middlewares.Metrics = metricsOn

	mk := func(thr int64, desc string) *world {
		c := cfg
		c.thr = thr
		w := baseWorld(e, c, off)
		w.pfx, w.desc = "engine/", desc
		return w
	}
	wN, wP := mk(thr, "normal routes"), mk(thrP, "priority routes")
	wN.peers, wP.peers = []*world{wP}, []*world{wN}
	if off {
		// no shedder at all: one population, nothing may be shed
		wP = wN
		wN.desc = "shedding off"
	}
	byTask := map[int]*ereq{}
	serveFn := func(rw http.ResponseWriter, hr *http.Request) {
		q := byTask[r.CurrentID()]
		if q == nil {
			r.Fail("engine/foreign-handler-run", "a route handler ran outside a request of the harness")
			return
		}
		q.ran++
		c := q.c
		if q.ran == 1 {
			c.w.decided(c, false, nil) // reached the handler: admitted
		}
		if q.dur > 0 {
			r.Sleep(q.dur)
		} else {
			r.Yield()
		}
		switch q.behave {
		case 1:
			rw.WriteHeader(http.StatusOK)
		case 2:
			rw.WriteHeader(http.StatusServiceUnavailable)
		case 3:
			rw.WriteHeader(http.StatusInternalServerError)
		case 4:
			rw.WriteHeader(http.StatusNotFound)
		}
		if q.ran == 1 {
			c.w.resolveBegin(c, q.behave != 2)
		}
		if q.behave == 5 {
			panic(panicWith(r, q.pval))
		}
	}
	gi := 0
	for g := range groups {
		for ; gi < len(routes) && strings.HasPrefix(routes[gi].path, fmt.Sprintf("/g%d/", g)); gi++ {
			rt := routes[gi]
			rt.w = wN
			if rt.prio {
				rt.w = wP
			}
			groups[g].Routes = append(groups[g].Routes, rest.Route{Method: rt.method, Path: rt.path, Handler: serveFn})
		}
	}
	maybeDisableLog(e)
	lateCreation(e, cfg)
	before := time.Now()
	h, err := rest.VerifNewRouterHandler(conf, groups)
	wN.created(before)
	if wP != wN {
		wP.created(before)
	}
	r.MarkBackground(func(name string) bool {
		return strings.HasPrefix(name, "core/load/sheddingstat.go") || strings.HasPrefix(name, "core/executors/periodicalexecutor.go")
	})
	if err != nil {
		r.Fail("engine/bind-error", "bindRoutes: %v", err)
		return
	}
	e.setCPU(cpu0)
	r.Probe("engine-wiring")
	if off {
		r.Probe("engine-shedding-off")
	}
	if r.Tracing() {
		r.Logf("engine: CpuThreshold=%d (priority %d) shedding=%v recover=%v metrics=%v load.Disable=%v groups=%v cpu0=%d flips=%+v", thr, thrP, shedOn, recoverOn, metricsOn, globallyDisabled, gdesc, cpu0, flips)
		for _, q := range reqs {
			r.Logf("engine: request %d: +%v %s behave=%d dur=%v", q.id, q.gap, routes[q.route].path, q.behave, q.dur)
		}
	}
	r.Sample(map[string]any{"scenario": "engine", "real_cpu_predicate": e.realChk, "cpu_threshold": thr, "priority_threshold": thrP, "shedding_middleware": shedOn, "recover_middleware": recoverOn,
		"metrics_middleware": metricsOn, "load_disable": globallyDisabled, "groups": gdesc, "requests": nReq, "cpu0": cpu0, "cpu_flips": fmt.Sprintf("%+v", flips),
		"first_request": fmt.Sprintf("%s behave=%d dur=%v", routes[reqs[0].route].path, reqs[0].behave, reqs[0].dur)})

	serve := func(q *ereq) {
		rt := routes[q.route]
		w := rt.w
		tid := r.CurrentID()
		byTask[tid] = q
		q.c = w.begin()
		rec := httptest.NewRecorder()
		func() {
			defer func() {
				if p := recover(); p != nil {
					q.panicked = true
				}
			}()
			h.ServeHTTP(rec, httptest.NewRequest(rt.method, rt.path, nil))
		}()
		delete(byTask, tid)
		q.code = rec.Code
		r.Ev("served", int64(q.id), int64(q.ran), int64(q.code))
		c := q.c
		switch {
		case q.ran == 0 && q.code == http.StatusServiceUnavailable && !q.panicked:
			// answered 503 without reaching the handler: shed
			if rt.prio {
				r.Probe("engine-shed-priority-route")
			} else {
				r.Probe("engine-shed-normal-route")
			}
			w.decided(c, true, nil)
		case q.ran == 0:
			delete(e.cur, tid)
			c.done, c.shed = true, true // not in flight; not judged
			c.kRet, c.tRet = e.tick(), w.now()
			r.Fail("engine/handler-not-run", "request %d to %s never reached its handler and was answered %d (panicked=%v)", q.id, rt.path, q.code, q.panicked)
		case q.ran > 1:
			w.resolveEnd(c)
			r.Fail("engine/handler-ran-twice", "request %d to %s ran its handler %d times", q.id, rt.path, q.ran)
		default:
			w.resolveEnd(c)
			if q.panicked {
				r.Probe("engine-handler-panic-propagated")
			}
		}
	}
	var reqTasks []*simrt.Task
	cpuTask := r.Go("cpu-trace", func() {
		for _, f := range flips {
			r.Sleep(f.after)
			e.setCPU(f.cpu)
			r.Probe("cpu-flip")
		}
	})
	arrivals := r.Go("arrivals", func() {
		for _, q := range reqs {
			q := q
			if q.gap > 0 {
				r.Sleep(q.gap)
			}
			if r.Failed() {
				return
			}
			reqTasks = append(reqTasks, r.Go(fmt.Sprintf("req%d", q.id), func() { serve(q) }))
		}
	})
	ok := r.JoinTimeout(2*time.Hour, arrivals, cpuTask)
	ok = ok && r.JoinTimeout(2*time.Hour, reqTasks...)
	if !ok {
		r.Fail("stuck", "requests did not finish: %v", r.AliveTasks())
		return
	}
	if wN.nShed > 0 && wP != wN && wP.nAdmit > 0 {
		r.Probe("engine-normal-shed-in-a-run-with-priority-admissions")
	}
	// conservation: nothing is in flight any more; under full overload every route class
	// admits sequential requests (decided by the general oracle)
	if !r.Failed() {
		e.setCPU(1000)
		seen := map[*world]bool{}
		for i, rt := range routes {
			if seen[rt.w] {
				continue
			}
			seen[rt.w] = true
			for j := 0; j < 3 && !r.Failed(); j++ {
				q := &ereq{id: nReq + 3*i + j, route: i, behave: []int{0, 2, 3}[j]}
				serve(q)
				if q.ran == 0 {
					break
				}
			}
		}
		r.Probe("conservation-checked")
	}
	// let the metrics flusher go idle and quit
	r.Sleep(13 * time.Minute)
}
