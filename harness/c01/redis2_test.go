package c01

import (
	"context"
	"errors"
	"fmt"
	"strings"

	red "github.com/redis/go-redis/v9"
	"github.com/zeromicro/go-zero/core/stores/redis"

	"verifsim/simredis"
	"verifsim/simrt"
)

// Second layer, redis: go-zero's redis.Redis (real), its breakerHook (real), go-redis (real, with
// its retries and back-off), a real miniredis behind the simulated network.  One identity = one
// redis.Redis object on its own server.  The "request" of the property is everything below the
// breaker hook: the harness observes it through a hook of its own that sits directly inside the
// breaker hook (go-zero installs: duration hook, breaker hook, then the hooks given by WithHook).
// Failures are made by the network/server: error replies, connection resets, LOADING replies that
// go-redis retries, lost replies; the acceptable outcomes are real ones too: GET of a missing key
// (redis.Nil), EVALSHA of an unknown script (NOSCRIPT), and a context cancelled while go-redis
// waits for its retry back-off (context.Canceled).

type redisIdent struct {
	srv *simredis.Server
	rds *redis.Redis
}

// what the harness saw of one call below the breaker hook
type redisObs struct {
	sends    int // commands of this call that left the client (attempts included)
	execs    int // commands of this call the server executed
	val      string
	ok       bool
	canceled bool
}

const (
	rkErrReply = iota
	rkWrongType
	rkResetBefore
	rkLoading
	rkResetAfter
	rkDropReply
)

var redisFailKinds = []string{"error-reply", "wrongtype-reply", "reset-before-every-attempt", "loading-every-attempt", "reset-after-every-attempt", "reply-lost-every-attempt"}

func redisFailKind(p *plan) int {
	if p.variant == 11 {
		return rkDropReply
	}
	return p.variant % 5
}

const (
	raNil = iota
	raCanceled
	raNoScript
)

func redisAccKind(p *plan) int {
	switch {
	case p.variant < 7:
		return raNil
	case p.variant < 10:
		return raCanceled
	}
	return raNoScript
}

func fixRedisPlan(t *simrt.Tape, p *plan) {
	p.entry = entRedisGet + t.Intn(4)
	switch p.outcome {
	case outAccErr:
		switch redisAccKind(p) {
		case raNil:
			if p.entry != entRedisPipeline {
				p.entry = entRedisGet
			}
		case raCanceled:
			p.ctx = ctxLive
		case raNoScript:
			p.entry = entRedisEvalSha
		}
	}
}

type obsHook struct {
	l  *layer2
	id *ident
}

func (h obsHook) DialHook(next red.DialHook) red.DialHook { return next }

func (h obsHook) observe(run func() error) error {
	r, w := h.l.r, h.id.w
	c := w.cur[r.CurrentID()]
	if c == nil {
		r.Fail("foreign-handler-run", "a command of %s ran outside a call of the harness", h.id.desc)
		return run()
	}
	c.servedBy = h.id
	w.reqBegin(c)
	if c.p.outcome == outPanic {
		c.reqEnd = w.stamp()
		c.raise()
	}
	err := run()
	c.l2err = err
	c.reqEnd = w.stamp()
	return err
}

func (h obsHook) ProcessHook(next red.ProcessHook) red.ProcessHook {
	return func(ctx context.Context, cmd red.Cmder) error {
		return h.observe(func() error { return next(ctx, cmd) })
	}
}

func (h obsHook) ProcessPipelineHook(next red.ProcessPipelineHook) red.ProcessPipelineHook {
	return func(ctx context.Context, cmds []red.Cmder) error {
		return h.observe(func() error { return next(ctx, cmds) })
	}
}

func (l *layer2) setupRedis() bool {
	r, t := l.r, l.r.Tape
	n := 1 + t.Intn(2)
	for i := 0; i < n; i++ {
		id := &ident{rds: &redisIdent{}}
		l.ids = append(l.ids, id)
		srv := simredis.New(r)
		id.rds.srv = srv
		srv.MR().Set("present", "value-of-present")
		id.desc = fmt.Sprintf("redis.Redis #%d", i)
		id.w = l.newWorld(func(int) bool {
			// srv.Addr is run-unique (go-zero caches go-redis clients by address)
			id.rds.rds = redis.New(srv.Addr, redis.WithHook(srv.Hook()), redis.WithHook(obsHook{l, id}))
			return true
		})
		if id.w == nil {
			return false
		}
		id.w.b = redis.VerifC01Breaker(id.rds.rds)
		w := id.w
		srv.OnExec = func(e *simredis.Exec) {
			if c := w.cur[e.Cmd.Task]; c != nil && !e.Cmd.Handshake() {
				c.x.(*redisObs).execs++
			}
		}
		srv.Fault = func(cmd *simredis.Cmd) simredis.Fault {
			c := w.cur[cmd.Task]
			if c == nil || cmd.Handshake() {
				return simredis.Fault{}
			}
			x := c.x.(*redisObs)
			x.sends++
			p := c.p
			switch p.outcome {
			case outErr:
				r.Probe("redis-failure-" + redisFailKinds[redisFailKind(p)])
				switch redisFailKind(p) {
				case rkErrReply:
					return simredis.Fault{Kind: simredis.ErrReply, Msg: fmt.Sprintf("ERR injected failure of call %d", c.id)}
				case rkWrongType:
					return simredis.Fault{Kind: simredis.ErrReply, Msg: "WRONGTYPE Operation against a key holding the wrong kind of value"}
				case rkResetBefore:
					return simredis.Fault{Kind: simredis.ResetBefore}
				case rkLoading:
					return simredis.Fault{Kind: simredis.ErrReply, Msg: "LOADING Redis is loading the dataset in memory"}
				case rkResetAfter:
					return simredis.Fault{Kind: simredis.ResetAfter}
				case rkDropReply:
					return simredis.Fault{Kind: simredis.DropReply}
				}
			case outAccErr:
				if redisAccKind(p) == raCanceled && !x.canceled {
					// the reply of the first attempt is lost with the connection and the caller
					// gives up while go-redis waits before its retry
					x.canceled = true
					if c.cancel != nil {
						c.cancel()
					}
					r.Probe("redis-cancelled-during-backoff")
					return simredis.Fault{Kind: simredis.ResetAfter}
				}
			}
			return simredis.Fault{}
		}
		if n > 1 && t.Bool() {
			r.Sleep(simDur(t))
		}
	}
	return true
}

func (l *layer2) teardownRedis() {}

func (l *layer2) redisCall(id *ident, c *callRec, ctx context.Context, cancel func()) {
	x := &redisObs{}
	c.x, c.cancel = x, cancel
	rds := id.rds.rds
	p := c.p
	nilKey := p.outcome == outAccErr && redisAccKind(p) == raNil
	switch p.entry {
	case entRedisGet:
		key := "present"
		if nilKey {
			key = "missing"
		}
		x.val, c.gotErr = rds.GetCtx(ctx, key)
	case entRedisSet:
		c.gotErr = rds.SetCtx(ctx, fmt.Sprintf("key-%d", c.id), "v")
	case entRedisExists:
		x.ok, c.gotErr = rds.ExistsCtx(ctx, "present")
	case entRedisPipeline:
		c.gotErr = rds.PipelinedCtx(ctx, func(pl redis.Pipeliner) error {
			pl.Exists(ctx, "present")
			if nilKey {
				pl.Get(ctx, "missing")
			} else {
				pl.Get(ctx, "present")
			}
			return nil
		})
	case entRedisEvalSha:
		_, c.gotErr = rds.EvalShaCtx(ctx, "0123456789012345678901234567890123456789", []string{"present"})
	}
}

func sameErr(a, b error) (same bool) {
	defer func() {
		if recover() != nil {
			same = a != nil && b != nil && a.Error() == b.Error()
		}
	}()
	return a == b
}

func redisAccepted(err error) bool {
	return err == nil || errors.Is(err, red.Nil) || errors.Is(err, context.Canceled) || strings.HasPrefix(err.Error(), "NOSCRIPT")
}

func redisPassThrough(c *callRec) (bool, string) {
	x := c.x.(*redisObs)
	below := c.l2err
	if c.p.entry == entRedisGet && errors.Is(below, red.Nil) {
		// go-zero's Get reports a missing key as ("", nil)
		if c.gotErr != nil || x.val != "" {
			return false, fmt.Sprintf("GET of a missing key returned (%q, %v), want (\"\", nil)", x.val, c.gotErr)
		}
		return true, ""
	}
	if !sameErr(c.gotErr, below) {
		return false, fmt.Sprintf("the command ended below the breaker with %v, the caller got %v", below, c.gotErr)
	}
	if below == nil {
		switch c.p.entry {
		case entRedisGet:
			if x.val != "value-of-present" {
				return false, fmt.Sprintf("GET returned %q", x.val)
			}
		case entRedisExists:
			if !x.ok {
				return false, "EXISTS of an existing key returned false"
			}
		}
		if x.execs == 0 {
			return false, "the command succeeded but the server never executed it"
		}
	}
	return true, ""
}

// redisRecordedAs: nil, redis.Nil, context.Canceled and a NOSCRIPT reply are accepted; the verdict
// is taken on what the command really ended with below the breaker hook.
func redisRecordedAs(c *callRec) evKind {
	if c.p.outcome == outPanic {
		return evFail
	}
	if redisAccepted(c.l2err) {
		return evSucc
	}
	return evFail
}

// redisRejectedClean: a rejected command never left the client.
func redisRejectedClean(c *callRec) (bool, string) {
	x := c.x.(*redisObs)
	if x.sends != 0 || x.execs != 0 {
		return false, fmt.Sprintf("%d commands of the rejected call left the client, the server executed %d", x.sends, x.execs)
	}
	return true, ""
}
