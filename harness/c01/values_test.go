package c01

import (
	"context"
	"errors"
	"fmt"
	"io"
	"net/http"
	"runtime"

	"github.com/zeromicro/go-zero/core/breaker"
)

// Identities of request errors and panic values.
//
// The property speaks about THE error of the request ("returns its error unchanged") and THE
// panic ("re-raised"): whatever value the request produces.  plan.kind selects the value from a
// pool; kind 0 is the plain typed error / the plain custom panic value of the harness.  The pool
// deliberately contains the values a wrapper could be tempted to interpret: the breaker's own
// rejection error (a nested breaker downstream was open) bare and wrapped, context errors that
// did not come from the call's context, io.EOF, errors that only LOOK like a sentinel (same
// text), value-typed errors, joined errors; panics with strings, errors, http.ErrAbortHandler,
// genuine runtime errors, panic(nil), typed nil pointers and zero values.
//
// In the direct mode the acceptability predicate is the harness' own function, so every identity
// can be put in either class: the class is the plan's (outErr / outAccErr), the identity is
// plan.kind.  The second-layer wrappers have documented predicates; their pools are in
// layer2_test.go / sql2_test.go next to the predicate they must respect.

const nKinds = 12

// codeErr is a value-typed (non-pointer) error.
type codeErr struct {
	id   int
	code int
}

func (e codeErr) Error() string { return fmt.Sprintf("backend code %d (call %d)", e.code, e.id) }

var errKindNames = []string{"typed-pointer", "wrapped-typed", "ErrServiceUnavailable", "wrapped-ErrServiceUnavailable",
	"context.Canceled", "context.DeadlineExceeded", "io.EOF", "text-of-ErrServiceUnavailable", "typed-value",
	"joined-with-ErrServiceUnavailable", "wrapped-DeadlineExceeded", "wrapped-Canceled"}

// mkReqErr builds the error a failing (or acceptably failing) request of the direct mode returns.
func mkReqErr(c *callRec, kind int) error {
	base := &callErr{id: c.id, acceptable: c.p.outcome == outAccErr}
	switch kind % nKinds {
	case 1:
		return fmt.Errorf("request of call %d: %w", c.id, base)
	case 2:
		return breaker.ErrServiceUnavailable // what an open breaker further down returns
	case 3:
		return fmt.Errorf("downstream of call %d: %w", c.id, breaker.ErrServiceUnavailable)
	case 4:
		return context.Canceled
	case 5:
		return context.DeadlineExceeded
	case 6:
		return io.EOF
	case 7:
		return errors.New(breaker.ErrServiceUnavailable.Error()) // same text, another error
	case 8:
		return codeErr{id: c.id, code: 1040}
	case 9:
		return errors.Join(io.EOF, fmt.Errorf("replica of call %d: %w", c.id, breaker.ErrServiceUnavailable))
	case 10:
		return fmt.Errorf("request of call %d: %w", c.id, context.DeadlineExceeded)
	case 11:
		return fmt.Errorf("request of call %d: %w", c.id, context.Canceled)
	}
	return base
}

// same: identity of two values (errors or panic values); values of uncomparable dynamic types are
// never handed out by the harness, a foreign one is simply different.
func same(a, b any) (eq bool) {
	defer func() {
		if recover() != nil {
			eq = false
		}
	}()
	return a == b
}

var panicKindNames = []string{"custom-pointer", "string", "error", "http.ErrAbortHandler", "runtime-nil-map-write",
	"runtime-index-out-of-range", "custom-struct", "panic(nil)", "typed-nil-pointer", "empty-string", "wrapped-ErrAbortHandler", "zero-int"}

type panicCode struct {
	id   int
	what string
}

var zeroLen []int

// setPanic prepares the panic of a call: raise() panics on the calling task, samePanic(v) tells
// whether v is the value raise() panicked with.
func (c *callRec) setPanic(kind int) {
	kind %= nKinds
	c.panicKind = kind
	byValue := func(v any) {
		c.panicVal = v
		c.raise = func() { panic(v) }
		c.samePanic = func(got any) bool { return same(got, v) }
	}
	switch kind {
	case 0:
		byValue(&callPanic{id: c.id})
	case 1:
		byValue(fmt.Sprintf("handler of call %d crashed", c.id))
	case 2:
		byValue(fmt.Errorf("handler of call %d crashed", c.id))
	case 3:
		byValue(http.ErrAbortHandler)
	case 4: // a genuine runtime error
		c.panicVal = "runtime error: assignment to entry in nil map"
		c.raise = func() {
			var m map[int]int
			m[c.id] = 1
		}
		c.samePanic = func(got any) bool {
			e, ok := got.(runtime.Error)
			return ok && e.Error() == "assignment to entry in nil map"
		}
	case 5:
		c.panicVal = "runtime error: index out of range [3] with length 0"
		c.raise = func() {
			i := 3
			zeroLen[i]++
		}
		c.samePanic = func(got any) bool {
			e, ok := got.(runtime.Error)
			return ok && e.Error() == "runtime error: index out of range [3] with length 0"
		}
	case 6:
		byValue(panicCode{id: c.id, what: "invariant broken"})
	case 7: // the runtime turns it into a *runtime.PanicNilError
		c.panicVal = "panic(nil)"
		c.raise = func() { panic(nil) }
		c.samePanic = func(got any) bool {
			_, ok := got.(*runtime.PanicNilError)
			return ok
		}
	case 8:
		byValue((*callPanic)(nil))
	case 9:
		byValue("")
	case 10:
		byValue(fmt.Errorf("stream of call %d: %w", c.id, http.ErrAbortHandler))
	case 11:
		byValue(0)
	}
}
