package c01

import (
	"context"
	"database/sql"
	"database/sql/driver"
	"errors"
	"fmt"
	"io"

	"github.com/zeromicro/go-zero/core/breaker"
	"strings"
	"sync"

	"github.com/zeromicro/go-zero/core/stores/sqlx"

	"verifsim/simrt"
)

// Second layer, sqlx: go-zero's commonSqlConn (real: ExecCtx, QueryRowCtx, QueryRowsCtx,
// TransactCtx with their breaker calls and the `acceptable` predicate, the row scanner), real
// database/sql, and a tiny in-memory database/sql driver owned by the harness.  One identity = one
// SqlConn on its own data source: either NewSqlConnFromDB on a sql.DB of the harness, or
// NewSqlConn(driver, dsn), which connects lazily (sql.Open + Ping through go-zero's process-wide
// connection manager, one creation in flight per data source shared by all callers, failed
// creations not cached).  The "request" of the property is what happens below the breaker,
// acquiring the connection included: the harness observes it at the driver (first driver call
// of a harness call - Open of a physical connection or a statement - = the request started).
//
// Connection-level outage: while the backend of an identity is unreachable the driver's Open
// fails (every attempt with its own error value) and the connections established before are dead
// (driver.ErrBadConn, database/sql discards them and dials again).  How the request of a call ends
// is decided by the LAST driver call made on its behalf (database/sql's retries); a call that
// made no driver call but returns the connect error of somebody else's attempt shared that
// attempt inside the connection manager: its request ran and failed as well.
//
// Documented acceptability (sqlconn.go): nil, sql.ErrNoRows, sql.ErrTxDone, context.Canceled, a
// query whose row scan failed (the statement itself worked), and whatever the predicate given
// with WithAcceptable accepts (here: duplicate-key errors, in half of the runs); everything else
// - driver errors, bad connections, deadline exceeded, failed BEGIN/COMMIT - is a failure.

const sqlDriverName = "verif-simsql-c01"

type sqlDriver struct{}

var sqlRegistry = struct {
	mu sync.Mutex
	m  map[string]*sqlBackend
	n  int
}{m: map[string]*sqlBackend{}}

func init() { sql.Register(sqlDriverName, sqlDriver{}) }

// Open establishes one physical connection.  database/sql calls it on the task of the harness
// call that needs the connection (Ping of a lazily connected SqlConn, or a statement that finds no
// idle connection in the pool).
func (sqlDriver) Open(dsn string) (driver.Conn, error) {
	sqlRegistry.mu.Lock()
	b := sqlRegistry.m[dsn]
	sqlRegistry.mu.Unlock()
	if b == nil {
		return nil, fmt.Errorf("simsql: unknown dsn %q", dsn)
	}
	cr, x := b.touch()
	defer b.done(cr)
	if cr == nil {
		return nil, errors.New("simsql: no call")
	}
	x.opens++
	if b.down() {
		b.connErrs++
		e := &sqlConnectErr{b: b, n: b.connErrs, call: cr.id, at: b.id.w.stamp()}
		b.l.r.Probe("sql-connect-refused")
		if b.everConnected {
			b.l.r.Probe("sql-connect-refused-after-a-successful-connect")
		} else {
			b.l.r.Probe("sql-connect-refused-never-connected")
		}
		return nil, x.result(e, true)
	}
	b.everConnected = true
	x.result(nil, false)
	return &sqlConn{b: b, gen: b.gen}, nil
}

// sqlConnectErr is the error of one refused connection attempt.
type sqlConnectErr struct {
	b    *sqlBackend
	n    int   // attempt number (per backend)
	call int   // the call on whose behalf the attempt was made
	at   stamp // when the attempt ended
}

func (e *sqlConnectErr) Error() string {
	return fmt.Sprintf("dial tcp 10.0.0.7:3306: connect: connection refused (simsql %s, refused attempt %d)", e.b.dsn, e.n)
}

// dupKeyErr is the "duplicate key" error of the stub database.
type dupKeyErr struct{ id int }

func (e *dupKeyErr) Error() string {
	return fmt.Sprintf("Error 1062: Duplicate entry 'call-%d' for key 'PRIMARY'", e.id)
}

type sqlBackend struct {
	l   *layer2
	id  *ident
	dsn string

	// reachability: unreachable while the drawn schedule or the running phase says so
	schedDown, phaseDown bool
	flips                []int // the schedule: it flips when the n-th call of the identity arrives (ascending)
	arrived              int
	gen                  int // bumped when an outage starts: connections of older generations are dead
	everConnected        bool
	connErrs             int
}

func (b *sqlBackend) down() bool { return b.schedDown || b.phaseDown }

func (b *sqlBackend) setDown(sched, phase bool) {
	was := b.down()
	b.schedDown, b.phaseDown = sched, phase
	now := b.down()
	if was == now {
		return
	}
	r := b.l.r
	if now {
		b.gen++
		r.Probe("sql-outage-begins")
		if !b.everConnected {
			r.Probe("sql-outage-before-the-first-connect")
		}
	} else {
		r.Probe("sql-outage-ends")
	}
	v := int64(0)
	if now {
		v = 1
	}
	r.Ev("sql-reachability", int64(b.arrived), v)
	if r.Tracing() {
		r.Logf("backend of %s: unreachable=%v (at its call %d)", b.id.desc, now, b.arrived)
	}
}

// arrive: a call of the identity arrives; the outage schedule is counted in arrivals.
func (b *sqlBackend) arrive() {
	b.arrived++
	for len(b.flips) > 0 && b.arrived >= b.flips[0] {
		b.flips = b.flips[1:]
		b.setDown(!b.schedDown, b.phaseDown)
	}
}

type sqlIdent struct {
	b    *sqlBackend
	db   *sql.DB // NewSqlConnFromDB identities: the pool belongs to the harness
	lazy bool    // NewSqlConn(driver, dsn): go-zero connects on first use and owns the pool
	conn sqlx.SqlConn
}

// what the harness saw of one call at the driver
type sqlObs struct {
	drvCalls  int
	opens     int   // connection attempts made on behalf of the call
	want      error // the error the request ended with below the breaker (nil: none): result of the last driver call
	connFault bool  // ... and it is the outage's doing (refused connection attempt, dead connection)
	shared    bool  // no driver call of its own: it received the error of another call's connection attempt
	wantText  string
	began     bool
	commits   int
	rollback  int
	row       sqlRow
	rows      []sqlRow
	hasResult bool
}

type sqlRow struct {
	ID   int64  `db:"id"`
	Name string `db:"name"`
}

const (
	sfGeneric = iota
	sfBadConn
	sfDeadline
	sfDupKey
	sfBegin
	sfCommit
	sfBodyPanics
)

var sqlFailNames = []string{"driver-error", "bad-connection-every-attempt", "deadline-exceeded", "duplicate-key-not-accepted", "begin-fails", "commit-fails", "transaction-body-panics"}

const (
	saNoRows = iota
	saScan
	saCanceled
	saDupKey
	saTxDone
	saExecNoRows
)

var sqlAccNames = []string{"no-rows", "scan-failed", "context-canceled", "duplicate-key-accepted", "tx-done", "exec-returns-no-rows"}

// sqlKind maps (entry, outcome, variant) to the concrete behaviour.
func (l *layer2) sqlKind(p *plan) int {
	v := p.variant
	switch p.outcome {
	case outErr:
		if p.entry == entSQLTransact {
			return []int{sfBegin, sfGeneric, sfCommit, sfBodyPanics, sfGeneric, sfBadConn}[v%6]
		}
		k := []int{sfGeneric, sfBadConn, sfDeadline, sfDupKey}[v%4]
		if k == sfDupKey && l.sqlAcceptDup {
			k = sfGeneric
		}
		return k
	case outAccErr:
		switch p.entry {
		case entSQLExec:
			k := []int{saCanceled, saDupKey, saExecNoRows}[v%3]
			if k == saDupKey && !l.sqlAcceptDup {
				k = saCanceled
			}
			return k
		case entSQLQueryRow:
			return []int{saNoRows, saScan, saCanceled}[v%3]
		case entSQLQueryRows:
			k := []int{saScan, saCanceled, saDupKey}[v%3]
			if k == saDupKey && !l.sqlAcceptDup {
				k = saScan
			}
			return k
		case entSQLTransact:
			k := []int{saTxDone, saNoRows, saCanceled, saDupKey}[v%4]
			if k == saDupKey && !l.sqlAcceptDup {
				k = saTxDone
			}
			return k
		}
	}
	return -1
}

func fixSQLPlan(t *simrt.Tape, p *plan) {
	p.entry = entSQLExec + t.Intn(4)
	if p.outcome == outPanic {
		// a panic below the breaker exists only as a panicking transaction body, which
		// go-zero's transact turns into an error
		p.outcome, p.entry, p.variant = outErr, entSQLTransact, 3
	}
	if p.ctx == ctxTimeout {
		// a deadline that passes while a query is running is noticed by database/sql's own
		// watcher goroutine, which races with the row scanner outside the scheduler's control;
		// "deadline exceeded" is injected at the driver instead
		p.ctx = ctxLive
	}
}

func (b *sqlBackend) cur() (*callRec, *sqlObs) {
	w := b.id.w
	c := w.cur[b.l.r.CurrentID()]
	if c == nil {
		return nil, nil
	}
	return c, c.x.(*sqlObs)
}

// touch: a driver call made on behalf of the current harness call starts.
func (b *sqlBackend) touch() (*callRec, *sqlObs) {
	c, x := b.cur()
	if c == nil {
		b.l.r.Fail("foreign-handler-run", "a statement of %s reached the driver outside a call of the harness", b.id.desc)
		return nil, nil
	}
	c.servedBy = b.id
	x.drvCalls++
	if x.drvCalls == 1 {
		b.id.w.reqBegin(c)
	}
	return c, x
}

// result: how a driver call made on behalf of a call ended.  database/sql retries bad connections,
// a transaction goes on after BEGIN: the last driver call decides how the request ends.
func (x *sqlObs) result(err error, connFault bool) error {
	x.want, x.connFault = err, connFault
	return err
}

func (b *sqlBackend) done(c *callRec) {
	if c != nil {
		c.reqEnd = b.id.w.stamp()
	}
}

type sqlConn struct {
	b   *sqlBackend
	gen int
}

// dead: the connection was established before the latest outage began.
func (c *sqlConn) dead() bool { return c.gen != c.b.gen }

func (c *sqlConn) deadErr(x *sqlObs) error {
	c.b.l.r.Probe("sql-dead-connection")
	return x.result(driver.ErrBadConn, true)
}

var (
	_ driver.ConnBeginTx    = (*sqlConn)(nil)
	_ driver.ExecerContext  = (*sqlConn)(nil)
	_ driver.QueryerContext = (*sqlConn)(nil)
)

func (c *sqlConn) Prepare(string) (driver.Stmt, error) {
	return nil, errors.New("simsql: prepare is not supported")
}
func (c *sqlConn) Close() error { return nil }
func (c *sqlConn) Begin() (driver.Tx, error) {
	return c.BeginTx(context.Background(), driver.TxOptions{})
}

func (c *sqlConn) BeginTx(context.Context, driver.TxOptions) (driver.Tx, error) {
	cr, x := c.b.touch()
	defer c.b.done(cr)
	if cr == nil {
		return nil, errors.New("simsql: no call")
	}
	if c.dead() {
		return nil, c.deadErr(x)
	}
	if cr.p.outcome == outErr {
		switch c.b.l.sqlKind(cr.p) {
		case sfBegin:
			return nil, x.result(fmt.Errorf("simsql: BEGIN failed (call %d)", cr.id), false)
		case sfBadConn:
			return nil, x.result(driver.ErrBadConn, false)
		}
	}
	x.result(nil, false)
	x.began = true
	return &sqlTx{b: c.b, c: c, cr: cr, x: x}, nil
}

type sqlTx struct {
	b  *sqlBackend
	c  *sqlConn
	cr *callRec
	x  *sqlObs
}

func (t *sqlTx) Commit() error {
	t.x.commits++
	defer t.b.done(t.cr)
	if t.c.dead() {
		return t.c.deadErr(t.x)
	}
	if t.cr.p.outcome == outErr && t.b.l.sqlKind(t.cr.p) == sfCommit {
		return t.x.result(fmt.Errorf("simsql: COMMIT failed (call %d)", t.cr.id), false)
	}
	return nil
}

func (t *sqlTx) Rollback() error {
	t.x.rollback++
	t.b.done(t.cr)
	return nil
}

// stmtErr decides the error of a statement (Exec or Query) of the current call.
func (c *sqlConn) stmtErr(cr *callRec, x *sqlObs) error {
	p := cr.p
	if c.dead() {
		return c.deadErr(x)
	}
	x.result(nil, false)
	if p.entry == entSQLTransact {
		return nil // the statement inside a transaction body works; the body decides
	}
	switch p.outcome {
	case outErr:
		switch c.b.l.sqlKind(p) {
		case sfGeneric:
			x.want = sqlFailure(cr, fmt.Sprintf("simsql: connection lost while executing the statement of call %d", cr.id))
		case sfBadConn:
			x.want = driver.ErrBadConn
		case sfDeadline:
			x.want = context.DeadlineExceeded
		case sfDupKey:
			x.want = &dupKeyErr{id: cr.id}
		}
	case outAccErr:
		switch c.b.l.sqlKind(p) {
		case saCanceled:
			if cr.cancel != nil {
				cr.cancel()
			}
			x.want = sqlWrapped(cr, context.Canceled)
		case saDupKey:
			x.want = sqlWrapped(cr, &dupKeyErr{id: cr.id})
		case saExecNoRows:
			x.want = sqlWrapped(cr, sql.ErrNoRows)
		}
	}
	return x.want
}

func (c *sqlConn) ExecContext(_ context.Context, q string, _ []driver.NamedValue) (driver.Result, error) {
	cr, x := c.b.touch()
	defer c.b.done(cr)
	if cr == nil {
		return nil, errors.New("simsql: no call")
	}
	if err := c.stmtErr(cr, x); err != nil {
		return nil, err
	}
	return driver.RowsAffected(int64(cr.id + 1)), nil
}

func (c *sqlConn) QueryContext(_ context.Context, q string, _ []driver.NamedValue) (driver.Rows, error) {
	cr, x := c.b.touch()
	defer c.b.done(cr)
	if cr == nil {
		return nil, errors.New("simsql: no call")
	}
	if err := c.stmtErr(cr, x); err != nil {
		return nil, err
	}
	rows := &sqlRows{}
	if !(cr.p.outcome == outAccErr && c.b.l.sqlKind(cr.p) == saNoRows) {
		rows.data = [][]driver.Value{{int64(cr.id), fmt.Sprintf("name-%d", cr.id)}, {int64(cr.id + 1), "second"}}
	}
	return rows, nil
}

type sqlRows struct {
	data [][]driver.Value
	i    int
}

func (r *sqlRows) Columns() []string { return []string{"id", "name"} }
func (r *sqlRows) Close() error      { return nil }

func (r *sqlRows) Next(dest []driver.Value) error {
	if r.i >= len(r.data) {
		return io.EOF
	}
	copy(dest, r.data[r.i])
	r.i++
	return nil
}

// ---------------------------------------------------------------- set-up, calls, oracle parts

func (l *layer2) setupSQL() bool {
	r, t := l.r, l.r.Tape
	n := 1 + t.Intn(2)
	l.sqlAcceptDup = t.Bool()
	for i := 0; i < n; i++ {
		id := &ident{sql: &sqlIdent{}}
		l.ids = append(l.ids, id)
		b := &sqlBackend{l: l, id: id}
		sqlRegistry.mu.Lock()
		sqlRegistry.n++
		// run-unique: go-zero's connection manager is process-wide and keyed by the data source
		// (never influences behaviour or verdicts; not a DSN the mysql driver could parse, so
		// go-zero registers no pool metrics for it)
		b.dsn = fmt.Sprintf("c01-%d", sqlRegistry.n)
		sqlRegistry.m[b.dsn] = b
		sqlRegistry.mu.Unlock()
		id.sql.b = b
		id.sql.lazy = t.Bool()
		var db *sql.DB
		if id.sql.lazy {
			id.desc = fmt.Sprintf("SqlConn #%d (NewSqlConn, connects on first use)", i)
			r.Probe("sql-identity-lazily-connected")
		} else {
			var err error
			db, err = sql.Open(sqlDriverName, b.dsn)
			if err != nil {
				r.EngineError("sql.Open: %v", err)
				return false
			}
			id.sql.db = db
			id.desc = fmt.Sprintf("SqlConn #%d (NewSqlConnFromDB)", i)
		}
		// connection-level outage windows, counted in arrivals of calls of this identity; 0 = none.
		// Reachable at first: 1-3 changes (goes down after a successful connect, comes back, ...);
		// unreachable from the start (a lazily connected SqlConn has never connected yet): 0-2 changes.
		if k := t.Intn(4); k > 0 {
			changes := k
			if t.Bool() {
				b.schedDown = true
				changes = k - 1
				r.Probe("sql-outage-from-the-start")
			}
			at := 1
			for f := 0; f < changes; f++ {
				at += []int{1, 2, 4, 8, 20, 60}[t.Intn(6)] + t.Intn(4)
				b.flips = append(b.flips, at)
			}
			r.Probe("sql-outage-scheduled")
		}
		var opts []sqlx.SqlOption
		if l.sqlAcceptDup {
			opts = append(opts, sqlx.WithAcceptable(func(err error) bool {
				var d *dupKeyErr
				return errors.As(err, &d)
			}))
			r.Probe("sql-with-acceptable")
		}
		id.w = l.newWorld(func(int) bool {
			if id.sql.lazy {
				id.sql.conn = sqlx.NewSqlConn(sqlDriverName, b.dsn, opts...)
			} else {
				id.sql.conn = sqlx.NewSqlConnFromDB(db, opts...)
			}
			return true
		})
		if id.w == nil {
			return false
		}
		id.w.b = sqlx.VerifC01Breaker(id.sql.conn)
		if n > 1 && t.Bool() {
			r.Sleep(simDur(t))
		}
	}
	return true
}

func (l *layer2) teardownSQL() {
	var lazy []string
	for _, id := range l.ids {
		if id.sql == nil {
			continue
		}
		if id.sql.db != nil {
			id.sql.db.Close() // ends database/sql's connectionOpener goroutine of this run
		}
		if id.sql.lazy {
			lazy = append(lazy, id.sql.b.dsn)
		}
	}
	if len(lazy) > 0 {
		// the pools go-zero created for this run (and their goroutines) end with the run
		sqlx.VerifC01ForgetConns(lazy...)
	}
	for _, id := range l.ids {
		if id.sql != nil {
			sqlRegistry.mu.Lock()
			delete(sqlRegistry.m, id.sql.b.dsn)
			sqlRegistry.mu.Unlock()
		}
	}
}

func (l *layer2) sqlCall(id *ident, c *callRec, ctx context.Context, cancel func()) {
	x := &sqlObs{}
	c.x, c.cancel = x, cancel
	id.sql.b.arrive()
	conn := id.sql.conn
	p := c.p
	kind := l.sqlKind(p)
	switch {
	case p.outcome == outErr:
		l.r.Probe("sql-failure-" + sqlFailNames[kind])
	case p.outcome == outAccErr:
		l.r.Probe("sql-acceptable-" + sqlAccNames[kind])
	}
	switch p.entry {
	case entSQLExec:
		res, err := conn.ExecCtx(ctx, "update t set name = ? where id = ?", "x", c.id)
		c.gotErr = err
		// (sql.Result.RowsAffected locks the pooled connection, which another task may be using
		// inside the driver: the result is only checked for presence)
		x.hasResult = res != nil
	case entSQLQueryRow:
		if p.outcome == outAccErr && kind == saScan {
			var wrong struct {
				ID   int64 `db:"id"`
				Name int64 `db:"name"` // the column holds a string
			}
			c.gotErr = conn.QueryRowCtx(ctx, &wrong, "select id, name from t where id = ?", c.id)
		} else {
			c.gotErr = conn.QueryRowCtx(ctx, &x.row, "select id, name from t where id = ?", c.id)
		}
	case entSQLQueryRows:
		if p.outcome == outAccErr && kind == saScan {
			var wrong []int64 // two columns do not fit
			c.gotErr = conn.QueryRowsCtx(ctx, &wrong, "select id, name from t where id >= ?", c.id)
		} else {
			c.gotErr = conn.QueryRowsCtx(ctx, &x.rows, "select id, name from t where id >= ?", c.id)
		}
	case entSQLTransact:
		c.gotErr = conn.TransactCtx(ctx, func(tctx context.Context, s sqlx.Session) error {
			if _, err := s.ExecCtx(tctx, "insert into t (id, name) values (?, ?)", c.id, "x"); err != nil {
				return err
			}
			switch p.outcome {
			case outErr:
				switch kind {
				case sfGeneric:
					x.want = sqlFailure(c, fmt.Sprintf("business rule violated in the transaction of call %d", c.id))
					return x.want
				case sfBodyPanics:
					x.wantText = "recover from"
					c.raise()
				}
			case outAccErr:
				switch kind {
				case saTxDone:
					x.want = sqlWrapped(c, sql.ErrTxDone)
				case saNoRows:
					x.want = fmt.Errorf("lookup in the transaction of call %d: %w", c.id, sql.ErrNoRows)
				case saCanceled:
					if cancel != nil {
						cancel()
					}
					x.want = sqlWrapped(c, context.Canceled)
				case saDupKey:
					x.want = sqlWrapped(c, &dupKeyErr{id: c.id})
				}
				return x.want
			}
			return nil
		})
	}
}

// sqlFailure: the identity of a plain failure (driver error of a statement, business error of a
// transaction body) by plan.kind.  None of them is accepted by sqlx' documented predicate (nil,
// sql.ErrNoRows, sql.ErrTxDone, context.Canceled - errors.Is -, a failed scan, WithAcceptable):
// the breaker's own rejection error out of a nested breaker, look-alikes of the accepted
// sentinels, io.EOF, wrapped deadline.
func sqlFailure(c *callRec, text string) error {
	switch c.p.kind {
	case 1:
		return io.EOF
	case 2:
		return breaker.ErrServiceUnavailable
	case 3:
		return fmt.Errorf("%s: %w", text, breaker.ErrServiceUnavailable)
	case 4:
		return errors.New(sql.ErrNoRows.Error()) // same text, another error
	case 5:
		return errors.New(context.Canceled.Error())
	case 6:
		return codeErr{id: c.id, code: 1205}
	case 7:
		return fmt.Errorf("%s: %w", text, context.DeadlineExceeded)
	case 8:
		return errors.New(breaker.ErrServiceUnavailable.Error())
	}
	return errors.New(text)
}

// sqlWrapped: an accepted error, bare or (plan.kind 1, 4, 7, 10) at the end of a %w chain.
func sqlWrapped(c *callRec, err error) error {
	if c.p.kind%3 == 1 {
		return fmt.Errorf("statement of call %d: %w", c.id, err)
	}
	return err
}

func sqlPassThrough(c *callRec) (bool, string) {
	x := c.x.(*sqlObs)
	p := c.p
	switch {
	case x.wantText != "":
		if c.gotErr == nil || !strings.Contains(c.gotErr.Error(), x.wantText) {
			return false, fmt.Sprintf("the transaction body panicked, the caller got %v (want an error reporting the recovered panic)", c.gotErr)
		}
	case x.want != nil:
		if !errors.Is(c.gotErr, x.want) && !sameErr(c.gotErr, x.want) {
			return false, fmt.Sprintf("below the breaker the statement ended with %v, the caller got %v", x.want, c.gotErr)
		}
	case p.outcome == outAccErr && p.entry != entSQLTransact:
		// no-rows / failed scan: produced by go-zero's scanner, the caller must see an error
		if c.gotErr == nil {
			return false, "a query without a row / with a failing scan returned nil"
		}
		if p.entry == entSQLQueryRow && c.p.variant%3 == 0 && !errors.Is(c.gotErr, sqlx.ErrNotFound) {
			return false, fmt.Sprintf("a query without a row returned %v, want ErrNotFound", c.gotErr)
		}
	default:
		if c.gotErr != nil {
			return false, fmt.Sprintf("the statement worked, the caller got %v", c.gotErr)
		}
		switch p.entry {
		case entSQLExec:
			if !x.hasResult {
				return false, "Exec worked but returned no result"
			}
		case entSQLQueryRow:
			if x.row.ID != int64(c.id) || x.row.Name != fmt.Sprintf("name-%d", c.id) {
				return false, fmt.Sprintf("row %+v", x.row)
			}
		case entSQLQueryRows:
			if len(x.rows) != 2 || x.rows[0].ID != int64(c.id) || x.rows[1].Name != "second" {
				return false, fmt.Sprintf("rows %+v", x.rows)
			}
		case entSQLTransact:
			if x.commits != 1 || x.rollback != 0 {
				return false, fmt.Sprintf("transaction body returned nil: %d commits, %d rollbacks", x.commits, x.rollback)
			}
		}
	}
	if p.entry == entSQLTransact && x.began && x.commits+x.rollback != 1 {
		return false, fmt.Sprintf("transaction ended %d times (commit %d, rollback %d)", x.commits+x.rollback, x.commits, x.rollback)
	}
	return true, ""
}

// sqlInferRequest: a call that made no driver call of its own but returns the error of a refused
// connection attempt waited for that attempt (made for another call) inside go-zero's connection
// manager, which shares one creation in flight between all callers of a data source.  Acquiring
// the connection is part of its request: the request ran, below the breaker, and failed, at some
// instant after the attempt had ended.
func (l *layer2) sqlInferRequest(id *ident, c *callRec) {
	x, _ := c.x.(*sqlObs)
	var ce *sqlConnectErr
	if x == nil || x.drvCalls > 0 || c.reqRuns > 0 || c.panicked || !errors.As(c.gotErr, &ce) {
		return
	}
	c.servedBy = ce.b.id
	if ce.b.id != id {
		return // reported as wrong-handler
	}
	c.reqRuns = 1
	x.shared = true
	x.result(ce, true)
	st := ce.at
	if st.s < c.inv.s {
		st = c.inv
	}
	c.reqStart, c.reqEnd = st, st
	l.r.Probe("sql-connect-error-shared-with-a-concurrent-call")
}

// sqlEndedUnavailable: the request itself ended with (a wrapper of) the breaker's rejection
// error, e.g. out of a nested breaker: the caller seeing it is then no sign of a rejection.
func sqlEndedUnavailable(c *callRec) bool {
	x := c.x.(*sqlObs)
	return x.want != nil && errors.Is(x.want, breaker.ErrServiceUnavailable)
}

func sqlRecordedAs(c *callRec) evKind {
	if c.x.(*sqlObs).connFault {
		return evFail // a refused connection / a dead connection is none of the accepted errors
	}
	if c.p.outcome == outOK || c.p.outcome == outAccErr {
		return evSucc
	}
	return evFail
}
