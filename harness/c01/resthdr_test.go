package c01

import (
	"bytes"
	"fmt"
	"net/http"
	"strings"

	"verifsim/simrt"
)

// REST handlers with unusual header / write sequences.
//
// What counts as the outcome of a REST call is the status a net/http server sends for what the
// handler did (the property: 5xx => failure, everything else => success, a panic => failure):
//   * WriteHeader with an informational status (100-199 except 101) sends an informational
//     response at once and does NOT end the header phase; any number of them may precede the
//     final status (103 Early Hints, 100 Continue, 102 Processing);
//   * the first WriteHeader with any other status is THE status; later WriteHeader calls are
//     superfluous and ignored (net/http logs them);
//   * Write or Flush before any final WriteHeader sends 200; a handler that writes nothing at
//     all answers 200.
// restRecorder is the stub HTTP connection of the harness and models exactly that (server.go,
// response.WriteHeader); httptest.ResponseRecorder does not (it takes a 1xx for the final status).

type restRecorder struct {
	hdr         http.Header
	Code        int         // the final status; valid after finish()
	wrote       bool        // the final status line is out
	snap        http.Header // the header map as sent with the final status
	infos       []int       // informational responses sent, in order
	infoCall    []string    // ... and the X-C01-Call header each of them carried
	Body        bytes.Buffer
	flushes     int
	superfluous int
}

func newRestRecorder() *restRecorder { return &restRecorder{hdr: http.Header{}} }

func (w *restRecorder) Header() http.Header { return w.hdr }

func (w *restRecorder) WriteHeader(code int) {
	if w.wrote {
		w.superfluous++
		return
	}
	if code < 100 || code > 999 {
		panic(fmt.Sprintf("invalid WriteHeader code %v", code))
	}
	if code >= 100 && code <= 199 && code != http.StatusSwitchingProtocols {
		w.infos = append(w.infos, code)
		w.infoCall = append(w.infoCall, w.hdr.Get("X-C01-Call"))
		return
	}
	w.wrote = true
	w.Code = code
	w.snap = w.hdr.Clone()
}

func (w *restRecorder) Write(b []byte) (int, error) {
	if !w.wrote {
		w.WriteHeader(http.StatusOK)
	}
	if w.Code == http.StatusNoContent || w.Code == http.StatusNotModified || w.Code < 200 {
		return 0, http.ErrBodyNotAllowed
	}
	return w.Body.Write(b)
}

func (w *restRecorder) Flush() {
	if !w.wrote {
		w.WriteHeader(http.StatusOK)
	}
	w.flushes++
}

// finish: the handler has returned.
func (w *restRecorder) finish() {
	if !w.wrote {
		w.WriteHeader(http.StatusOK)
	}
}

func (w *restRecorder) sentHeader(k string) string {
	if w.snap != nil {
		return w.snap.Get(k)
	}
	return w.hdr.Get(k)
}

// header / write sequences of a handler (plan.shape)
const (
	shPlain         = iota // at most one WriteHeader, then the body (as before)
	shInfo                 // one informational response, then the final status
	shInfos                // two or three informational responses, then the final status
	shInfoThenBody         // an informational response, then the body without a status (implicit 200)
	shFlushFirst           // Flush before anything else (implicit 200), then the body
	shWriteThenCode        // the body first (implicit 200), then a superfluous WriteHeader
	shFlushThenCode        // Flush first (implicit 200), then a superfluous WriteHeader
	shTwoFinals            // the final status, then a superfluous second one of the other class
	shFinalThenInfo        // the final status, then a superfluous informational one
	shInfoTwoFinals        // informational, final, superfluous final
	nShapes
)

var shapeNames = []string{"plain", "1xx-then-status", "several-1xx-then-status", "1xx-then-body-implicit-200", "flush-first-implicit-200",
	"body-then-superfluous-status", "flush-then-superfluous-status", "status-then-superfluous-status", "status-then-superfluous-1xx", "1xx-status-superfluous-status"}

func shapeSuperfluous(sh int) bool { return sh >= shWriteThenCode }

// rest shape modes of a run (layer2.restShapes): 0 plain handlers only (as before), 1 also the
// sequences every middleware must get right (informational responses, implicit 200), 2 also
// handlers that call WriteHeader again after the status is out
func drawShape(t *simrt.Tape, mode int, sustained bool) int {
	switch {
	case mode == 0 || t.Intn(2) == 0:
		return shPlain
	case sustained && mode == 1:
		return shInfo + t.Intn(2)
	case sustained:
		return []int{shInfo, shInfos, shTwoFinals, shFinalThenInfo, shInfoTwoFinals}[t.Intn(5)]
	case mode == 1:
		return shInfo + t.Intn(4)
	}
	return shInfo + t.Intn(nShapes-1)
}

const (
	opWriteHeader = iota
	opWrite
	opFlush
)

type restOp struct{ kind, code int }

func (o restOp) String() string {
	switch o.kind {
	case opWriteHeader:
		return fmt.Sprintf("WriteHeader(%d)", o.code)
	case opWrite:
		return "Write"
	}
	return "Flush"
}

// restScript: what the handler of call c does to its ResponseWriter (before it panics, if it is
// to panic) and the effective shape.
func restScript(c *callRec) ([]restOp, int) {
	p := c.p
	pick := func(xs []int) int { return xs[p.variant%len(xs)] }
	final, body := 0, p.variant >= 6 // final 0: the handler never calls WriteHeader; -1: it writes nothing at all
	switch p.outcome {
	case outOK:
		final = pick(restOK)
	case outAccErr:
		final = pick(restAcc)
	case outErr:
		final = pick(restFail)
	case outPanic:
		switch p.variant % 4 {
		case 2:
			final, body = http.StatusInternalServerError, false
		case 3:
			final, body = http.StatusOK, true
		default:
			final, body = -1, false
		}
	}
	sh := p.shape
	// the sequences that answer with the implicit 200 fit a planned plain success only
	if p.outcome != outOK {
		switch sh {
		case shInfoThenBody, shFlushFirst:
			sh = shInfo
		case shWriteThenCode, shFlushThenCode:
			sh = shTwoFinals
		}
	}
	if final == -1 && sh >= shTwoFinals {
		sh = shInfo // nothing final to repeat
	}
	if final == 0 && sh >= shTwoFinals {
		final = http.StatusOK
	}
	var ops []restOp
	wh := func(code int) { ops = append(ops, restOp{opWriteHeader, code}) }
	info := func(n int) {
		for i := 0; i < n; i++ {
			wh([]int{http.StatusEarlyHints, http.StatusContinue, http.StatusProcessing}[(p.hsub+i)%3])
		}
	}
	status := func() {
		if final > 0 {
			wh(final)
		}
	}
	wbody := func(code int) {
		if body && code != http.StatusNoContent && code != http.StatusNotModified {
			ops = append(ops, restOp{kind: opWrite})
		}
	}
	// a superfluous status: another code of the SAME class (failure / no failure).  Which of two
	// contradicting final statuses "is" the outcome of a handler that misuses the writer is not
	// defined by the property (go-zero records the last WriteHeader, net/http sends the first final
	// one); a first version drew the other class and judged by what a server sends, which fired on
	// the unchanged tree - an oracle that demanded more than the statement, see DESIGN 11.3.
	other := func(code int) int {
		if code >= 500 {
			return []int{500, 503, 599, 501}[p.hsub%4]
		}
		return []int{200, 404, 204, 302}[p.hsub%4]
	}
	switch sh {
	case shPlain:
		status()
		wbody(final)
	case shInfo:
		info(1)
		status()
		wbody(final)
	case shInfos:
		info(2 + p.hsub%2)
		status()
		wbody(final)
	case shInfoThenBody:
		info(1)
		ops = append(ops, restOp{kind: opWrite})
	case shFlushFirst:
		ops = append(ops, restOp{kind: opFlush})
		wbody(200)
	case shWriteThenCode:
		ops = append(ops, restOp{kind: opWrite})
		wh(other(200))
	case shFlushThenCode:
		ops = append(ops, restOp{kind: opFlush})
		wh(other(200))
		wbody(200)
	case shTwoFinals:
		status()
		wh(other(final))
		wbody(final)
	case shFinalThenInfo:
		status()
		if final < 500 {
			// (after a 5xx the late 1xx would be the last code go-zero sees: same ambiguity)
			info(1)
		}
		wbody(final)
	case shInfoTwoFinals:
		info(1)
		status()
		wh(other(final))
		wbody(final)
	}
	return ops, sh
}

func playRest(c *callRec, ops []restOp, rw http.ResponseWriter) {
	rw.Header().Set("X-C01-Call", fmt.Sprint(c.id))
	for _, o := range ops {
		switch o.kind {
		case opWriteHeader:
			rw.WriteHeader(o.code)
		case opWrite:
			rw.Write([]byte(fmt.Sprintf("body-of-call-%d", c.id)))
		case opFlush:
			if f, ok := rw.(http.Flusher); ok {
				f.Flush()
			} else {
				c.noFlusher = true
			}
		}
	}
}

// restRespond is the wrapped handler's answer: it plays the call's script on the writer the
// middleware handed over; what a net/http server would send for it is worked out on a scratch
// recorder (c.wantCode, c.wantBody, c.wantInfos).
func restRespond(id *ident, c *callRec, rw http.ResponseWriter) {
	r, p := id.w.r, c.p
	ops, sh := restScript(c)
	model := newRestRecorder()
	playRest(c, ops, model)
	model.finish()
	c.wantCode, c.wantBody, c.wantInfos = model.Code, model.Body.String(), model.infos
	// the planned outcome class is the class of the status a server would send
	if p.outcome != outPanic {
		if fail := c.wantCode >= 500; fail != (p.outcome == outErr) {
			r.EngineError("harness: REST script %v of a call planned as %s answers %d", ops, outcomeNames[p.outcome], c.wantCode)
		}
	}
	if sh != shPlain {
		r.Probe("rest-handler-" + shapeNames[sh])
		if len(model.infos) > 0 && c.wantCode >= 500 {
			r.Probe("rest-1xx-before-5xx")
		}
		if shapeSuperfluous(sh) {
			id.w.lawSuffix = "/rest-superfluous-writeheader"
		}
	}
	if r.Tracing() {
		var s []string
		for _, o := range ops {
			s = append(s, o.String())
		}
		r.Logf("call %d handler script (%s): %s -> a server sends %v then %d", c.id, shapeNames[sh], strings.Join(s, ", "), c.wantInfos, c.wantCode)
	}
	playRest(c, ops, rw)
	if p.outcome == outPanic {
		c.raise()
	}
}

func sameInts(a, b []int) bool {
	if len(a) != len(b) {
		return false
	}
	for i := range a {
		if a[i] != b[i] {
			return false
		}
	}
	return true
}
