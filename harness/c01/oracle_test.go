package c01

import (
	"context"
	"errors"
	"fmt"
	"time"

	"github.com/zeromicro/go-zero/core/breaker"

	"verifsim/simrt"
)

// Reference model of C01.
//
// Every call leaves at most one recorded event (success, failure or rejection).  The
// instant at which the breaker took its admission decision and the instant at which it
// recorded the event are not observable; the harness only knows a closed interval for
// each (logical sequence numbers for "happened before", virtual time for window
// membership).  Every check below fires only when the property is broken under *every*
// placement consistent with those intervals.  In a single-client history without
// injected stalls every interval is a point and the checks are exact.

const (
	// the property's 10 s window, kept by the breaker as 40 slots of 250 ms aligned
	// to its creation instant
	bucketDur = 250 * time.Millisecond
	nBuckets  = 40
	// "a call arriving more than 1 s after the previous throttled admission"
	probeGap = time.Second
)

type evKind int

const (
	evNone evKind = iota
	evSucc
	evFail
	evDrop
)

type callClass int

const (
	clUnknown callClass = iota
	clAdmitted
	clRejected
	clShortCircuit
)

// stamp is an observation instant: virtual time since breaker creation and a logical clock.
type stamp struct {
	t time.Duration
	s int
}

type callErr struct {
	id         int
	acceptable bool
}

func (e *callErr) Error() string { return fmt.Sprintf("request-error-%d(acceptable=%v)", e.id, e.acceptable) }

type fbErr struct{ id int }

func (e *fbErr) Error() string { return fmt.Sprintf("fallback-error-%d", e.id) }

type callPanic struct{ id int }

type callRec struct {
	id int
	p  *plan

	inv, ret stamp
	decEnd   stamp // latest instant at which the admission decision can have been taken
	decSet   bool

	reqRuns, fbRuns          int
	reqStart, reqEnd, fbStart stamp
	reqErr                   error // the request's own error (values_test.go)
	panicVal                 any   // what the request panics with (or a description of it)
	panicKind                int
	raise                    func()         // panics with the call's panic value
	samePanic                func(any) bool // is it the value raise() panicked with?
	predCalls                int            // calls of the acceptability predicate given with the call
	predForeign              error          // ... with an error that is not the request's own
	fbOwn                    *fbErr
	fbArg, fbRet             error
	gotErr                   error
	panicked                 bool
	gotPanic                 any
	returned                 bool

	class        callClass
	ev           evKind
	recLo, recHi stamp // the event was recorded somewhere in [recLo, recHi]

	// second layer
	servedBy        *ident
	rec             *restRecorder // what the client of a REST call gets (resthdr_test.go)
	wantCode        int
	wantBody        string
	wantInfos       []int // informational (1xx) responses the handler sent before its final status
	noFlusher       bool  // the writer handed to the handler cannot Flush
	l2err           error // what the wrapped handler / invoker / command returned
	wantUnavailable bool
	ctxChanged      bool
	gotResp         any
	wantResp        any
	x               any // wrapper-specific observations (redis, sqlx)
	cancel          func()

	possThrottled bool // admitted; some consistent placement has the law's condition true at its decision
	defThrottled  bool // admitted; every consistent placement has it true (and no accept in the window)
}

type world struct {
	r    *simrt.Run
	b    breaker.Breaker
	name string
	t0   time.Time
	clk  int

	calls    []*callRec
	inflight int
	checked  int // calls[:checked] have been settled
	skip     int // calls[:skip] can no longer be inside any window that is still examined

	hasAdm   bool
	lastAdmT time.Duration

	firstDefThrottled int // logical instant (decEnd.s) of the earliest definitely-throttled admission; 0 = none

	nRejected, nAdmitted int

	// second layer
	cur        map[int]*callRec // engine task id -> call in flight on that task
	opensClass string
	lawSuffix  string // REST: appended to the class admission-law once a handler of this identity has made superfluous WriteHeader calls

	// first use through the name registry (firstuse_test.go): the harness does not create the
	// breaker; it comes into being with the first lookups of the name, made by several tasks
	byName  bool                    // the window is read from breaker.GetBreaker(name) at every accounting check
	seen    bool                    // something that follows a lookup of the name has been observed
	seenAt  time.Duration           // ... first at this instant (upper bound of the creation instant)
	dead    bool                    // creation instant unknown: no verdicts from this world
	holders map[int]breaker.Breaker // engine task id -> the breaker that task obtained from GetBreaker(name) and keeps
}

func (w *world) now() time.Duration { return time.Since(w.t0) }

func (w *world) stamp() stamp { w.clk++; return stamp{t: w.now(), s: w.clk} }

// observe: st was taken after a lookup of the world's name has returned (the request or the
// fallback of a by-name call runs, a by-name call has returned, GetBreaker has returned).  The
// breaker of the name exists by then; the first such instant bounds its creation from above.
func (w *world) observe(st stamp) {
	if !w.seen {
		w.seen, w.seenAt = true, st.t
	}
}

func bucketOf(t time.Duration) int64 { return int64(t / bucketDur) }

func (p *plan) hasFallback() bool   { return p.entry == entFallback || p.entry == entFallbackAcceptable }
func (p *plan) hasAcceptable() bool { return p.entry == entAcceptable || p.entry == entFallbackAcceptable }

// success is the verdict of the acceptability predicate on the planned outcome.
func (p *plan) success() bool {
	if p.l2 {
		return p.outcome == outOK || p.outcome == outAccErr
	}
	switch p.outcome {
	case outOK:
		return true
	case outAccErr:
		// Allow: the caller itself decides; it treats the acceptable error as success
		return p.hasAcceptable() || p.entry == entAllow
	}
	return false
}

// call performs one planned call against the breaker, observes everything observable and
// checks the per-call clauses.
func (w *world) call(p *plan) *callRec {
	r := w.r
	c := &callRec{id: len(w.calls), p: p}
	c.reqErr = mkReqErr(c, p.kind)
	c.setPanic(p.kind)
	c.fbOwn = &fbErr{id: c.id}
	// the acceptability predicate of the call is the harness' own: the class is the plan's,
	// whatever the identity of the error
	acceptable := func(err error) bool {
		if err == nil {
			return true
		}
		c.predCalls++
		if !same(err, c.reqErr) && c.predForeign == nil {
			c.predForeign = err
		}
		return p.outcome == outAccErr
	}
	switch p.outcome {
	case outErr, outAccErr:
		r.Probe("error-identity-" + errKindNames[p.kind%nKinds])
	case outPanic:
		r.Probe("panic-value-" + panicKindNames[p.kind%nKinds])
	}
	w.calls = append(w.calls, c)

	var ctx context.Context
	var cancel context.CancelFunc
	switch p.ctx {
	case ctxLive:
		ctx, cancel = context.WithCancel(context.Background())
	case ctxCancelled:
		ctx, cancel = context.WithCancel(context.Background())
		cancel()
	case ctxTimeout:
		ctx, cancel = context.WithTimeout(context.Background(), p.ctxD)
	case ctxExpired:
		ctx, cancel = context.WithTimeout(context.Background(), 0)
	}
	if cancel != nil {
		defer cancel()
	}

	req := func() error {
		c.reqRuns++
		st := w.stamp()
		w.observe(st)
		if c.reqRuns == 1 {
			c.reqStart = st
			if !c.decSet {
				c.decEnd, c.decSet = st, true
			}
			w.hasAdm, w.lastAdmT = true, st.t
		}
		for i := 0; i < p.yields; i++ {
			r.Yield()
		}
		if p.dur > 0 {
			r.Sleep(p.dur)
		}
		c.reqEnd = w.stamp()
		switch p.outcome {
		case outErr, outAccErr:
			return c.reqErr
		case outPanic:
			c.raise()
		}
		return nil
	}
	fb := func(err error) error {
		c.fbRuns++
		st := w.stamp()
		w.observe(st)
		if c.fbRuns == 1 {
			c.fbStart = st
			c.fbArg = err
			if !c.decSet {
				c.decEnd, c.decSet = st, true
			}
		}
		if p.fbDur > 0 {
			r.Sleep(p.fbDur)
		}
		switch p.fbRet {
		case 0:
			c.fbRet = err
		case 1:
			c.fbRet = c.fbOwn
		default:
			c.fbRet = nil
		}
		return c.fbRet
	}

	// the task's own long-lived handle on the name's breaker, if it took one; without any
	// instance at hand (the harness has not resolved the name yet) the call goes by name
	b := w.b
	if h, ok := w.holders[r.CurrentID()]; ok {
		b = h
		if p.via == 0 {
			r.Probe("first-use-call-through-holder")
		}
	}
	via := p.via
	if b == nil {
		via = 1
	}
	w.inflight++
	doneAtInv := ctx != nil && ctx.Err() != nil
	c.inv = w.stamp()
	r.Ev("invoke", int64(c.id), int64(p.entry), int64(p.outcome))
	func() {
		defer func() {
			if v := recover(); v != nil {
				c.panicked, c.gotPanic = true, v
			}
		}()
		switch p.entry {
		case entDo:
			switch {
			case via == 1 && ctx != nil:
				c.gotErr = breaker.DoCtx(ctx, w.name, req)
			case via == 1:
				c.gotErr = breaker.Do(w.name, req)
			case ctx != nil:
				c.gotErr = b.DoCtx(ctx, req)
			default:
				c.gotErr = b.Do(req)
			}
		case entAcceptable:
			switch {
			case via == 1 && ctx != nil:
				c.gotErr = breaker.DoWithAcceptableCtx(ctx, w.name, req, acceptable)
			case via == 1:
				c.gotErr = breaker.DoWithAcceptable(w.name, req, acceptable)
			case ctx != nil:
				c.gotErr = b.DoWithAcceptableCtx(ctx, req, acceptable)
			default:
				c.gotErr = b.DoWithAcceptable(req, acceptable)
			}
		case entFallback:
			switch {
			case via == 1 && ctx != nil:
				c.gotErr = breaker.DoWithFallbackCtx(ctx, w.name, req, fb)
			case via == 1:
				c.gotErr = breaker.DoWithFallback(w.name, req, fb)
			case ctx != nil:
				c.gotErr = b.DoWithFallbackCtx(ctx, req, fb)
			default:
				c.gotErr = b.DoWithFallback(req, fb)
			}
		case entFallbackAcceptable:
			switch {
			case via == 1 && ctx != nil:
				c.gotErr = breaker.DoWithFallbackAcceptableCtx(ctx, w.name, req, fb, acceptable)
			case via == 1:
				c.gotErr = breaker.DoWithFallbackAcceptable(w.name, req, fb, acceptable)
			case ctx != nil:
				c.gotErr = b.DoWithFallbackAcceptableCtx(ctx, req, fb, acceptable)
			default:
				c.gotErr = b.DoWithFallbackAcceptable(req, fb, acceptable)
			}
		case entAllow:
			var pr breaker.Promise
			var err error
			if via == 1 {
				b = breaker.GetBreaker(w.name)
			}
			if ctx != nil {
				pr, err = b.AllowCtx(ctx)
			} else {
				pr, err = b.Allow()
			}
			c.gotErr = err
			if err != nil {
				return
			}
			if pr == nil {
				r.Fail("nil-promise", "call %d: Allow returned neither a promise nor an error", c.id)
				return
			}
			// the caller performs the request itself
			st := w.stamp()
			w.observe(st)
			c.reqRuns, c.reqStart = 1, st
			c.decEnd, c.decSet = st, true
			w.hasAdm, w.lastAdmT = true, st.t
			for i := 0; i < p.yields; i++ {
				r.Yield()
			}
			if p.dur > 0 {
				r.Sleep(p.dur)
			}
			c.reqEnd = w.stamp()
			if p.success() {
				pr.Accept()
			} else {
				pr.Reject(fmt.Sprintf("reason-%d", c.id))
			}
		}
	}()
	c.ret = w.stamp()
	w.observe(c.ret)
	c.returned = true
	w.inflight--
	if !c.decSet {
		c.decEnd = c.ret
	}
	doneAtRet := ctx != nil && ctx.Err() != nil
	w.classify(c, ctx, doneAtInv, doneAtRet)
	w.probeInFlight(c)
	r.Ev("return", int64(c.id), int64(c.class), int64(c.ev))
	if r.Tracing() {
		r.Logf("call %d entry=%s via=%d ctx=%d outcome=%s dur=%v -> class=%d ev=%d err=%v panicked=%v req=%d fb=%d inv=%v ret=%v",
			c.id, entryNames[p.entry], via, p.ctx, outcomeNames[p.outcome], p.dur, c.class, c.ev, c.gotErr, c.panicked, c.reqRuns, c.fbRuns, c.inv.t, c.ret.t)
	}
	return c
}

// classify decides what happened to the call from what was observed and checks the
// per-call clauses of the property.
func (w *world) classify(c *callRec, ctx context.Context, doneAtInv, doneAtRet bool) {
	r, p := w.r, c.p
	isAllow := p.entry == entAllow
	switch {
	case c.panicked && (isAllow || c.reqRuns == 0 || p.outcome != outPanic):
		r.Fail("foreign-panic", "call %d (%s) panicked with %v although its request did not panic", c.id, entryNames[p.entry], c.gotPanic)
	case c.reqRuns > 1:
		r.Fail("request-ran-twice", "call %d (%s) ran its request %d times", c.id, entryNames[p.entry], c.reqRuns)
	case c.fbRuns > 1:
		r.Fail("fallback-ran-twice", "call %d (%s) ran its fallback %d times", c.id, entryNames[p.entry], c.fbRuns)
	case c.reqRuns == 1 && c.fbRuns > 0:
		r.Fail("request-and-fallback", "call %d (%s) ran both the request and the fallback", c.id, entryNames[p.entry])
	case doneAtInv && (c.reqRuns > 0 || c.fbRuns > 0 || c.gotErr != ctx.Err()):
		r.Fail("done-context-not-short-circuited", "call %d (%s) with an already done context: request runs=%d fallback runs=%d returned %v, want %v and nothing run",
			c.id, entryNames[p.entry], c.reqRuns, c.fbRuns, c.gotErr, ctx.Err())
	case c.reqRuns == 1:
		c.class = clAdmitted
		w.nAdmitted++
		switch {
		case isAllow:
		case p.outcome == outPanic:
			if !c.panicked || !c.samePanic(c.gotPanic) {
				r.Fail("panic-not-reraised", "call %d (%s): request panicked with %v (%s), call ended with panicked=%v value=%T(%v)", c.id, entryNames[p.entry], c.panicVal, panicKindNames[c.panicKind], c.panicked, c.gotPanic, c.gotPanic)
				return
			}
			r.Probe("panic-reraised")
		default:
			var want error
			if p.outcome != outOK {
				want = c.reqErr
			}
			if !same(c.gotErr, want) {
				r.Fail("error-changed", "call %d (%s): request returned %T(%v) (%s), call returned %T(%v)", c.id, entryNames[p.entry], want, want, errKindNames[p.kind%nKinds], c.gotErr, c.gotErr)
				return
			}
			if c.predForeign != nil {
				r.Fail("predicate-argument", "call %d (%s): request returned %T(%v), the acceptability predicate was asked about %T(%v)", c.id, entryNames[p.entry], want, want, c.predForeign, c.predForeign)
				return
			}
		}
		c.ev = evFail
		if p.success() {
			c.ev = evSucc
		}
		c.recLo, c.recHi = c.reqEnd, c.ret
	case c.fbRuns == 1:
		c.class = clRejected
		w.nRejected++
		r.Probe("fallback-ran")
		if c.fbArg != breaker.ErrServiceUnavailable {
			r.Fail("fallback-argument", "call %d (%s): fallback received %v, want ErrServiceUnavailable", c.id, entryNames[p.entry], c.fbArg)
			return
		}
		if c.gotErr != c.fbRet {
			r.Fail("fallback-result", "call %d (%s): fallback returned %v, call returned %v", c.id, entryNames[p.entry], c.fbRet, c.gotErr)
			return
		}
		c.ev = evDrop
		c.recLo, c.recHi = c.inv, c.fbStart
	default: // nothing ran
		switch {
		case ctx != nil && doneAtRet && c.gotErr != nil && c.gotErr == ctx.Err():
			c.class = clShortCircuit
			r.Probe("ctx-short-circuit")
		case errors.Is(c.gotErr, breaker.ErrServiceUnavailable):
			if p.hasFallback() {
				r.Fail("fallback-not-run", "call %d (%s) was rejected (%v) but its fallback did not run", c.id, entryNames[p.entry], c.gotErr)
				return
			}
			c.class = clRejected
			w.nRejected++
			c.ev = evDrop
			c.recLo, c.recHi = c.inv, c.ret
		default:
			r.Fail("neither-ran-nor-rejected", "call %d (%s) returned %v without running its request and without being rejected", c.id, entryNames[p.entry], c.gotErr)
		}
	}
}

// advanceSkip drops the prefix of calls whose event can no longer be inside a window
// whose newest slot is B or later.
func (w *world) advanceSkip(B int64) {
	for w.skip < len(w.calls) && w.skip < w.checked {
		e := w.calls[w.skip]
		if !e.returned || (e.ev != evNone && bucketOf(e.recHi.t) >= B-(nBuckets-1)) {
			return
		}
		w.skip++
	}
}

type bounds struct{ nMax, nMin, aMax, aMin int }

// boundsAt bounds the window content seen by the admission decision of c.
func (w *world) boundsAt(c *callRec) bounds {
	var bd bounds
	bLo, bHi := bucketOf(c.inv.t), bucketOf(c.decEnd.t)
	for _, e := range w.calls[w.skip:] {
		if e == c || e.ev == evNone {
			continue
		}
		possibly := e.recLo.s < c.decEnd.s && bucketOf(e.recHi.t) >= bLo-(nBuckets-1)
		definitely := e.recHi.s < c.inv.s && bucketOf(e.recLo.t) >= bHi-(nBuckets-1)
		switch {
		case e.ev == evSucc:
			if possibly {
				bd.aMax++
			}
			if definitely {
				bd.aMin++
			}
		default:
			if possibly {
				bd.nMax++
			}
			if definitely {
				bd.nMin++
			}
		}
	}
	return bd
}

// lawHolds: non-accepted > 5 + 10% of accepted.
func lawHolds(nonAccepted, accepted int) bool { return 10*nonAccepted > 50+accepted }

// settle evaluates the history clauses for every call that has returned; it must be
// called when no call is in flight.
func (w *world) settle() {
	r := w.r
	if w.inflight != 0 || w.dead {
		return
	}
	for ; w.checked < len(w.calls); w.checked++ {
		if r.Failed() {
			return
		}
		c := w.calls[w.checked]
		if c.class != clAdmitted && c.class != clRejected {
			continue
		}
		w.advanceSkip(bucketOf(c.inv.t))
		bd := w.boundsAt(c)
		r.Probe("oracle")
		exact := bd.nMax == bd.nMin && bd.aMax == bd.aMin
		if exact {
			r.Probe("exact-window")
		}
		// candidates for "the previous throttled admission" seen by c's decision
		var lMax time.Duration = -1 << 62
		for _, a := range w.calls[w.skip:] {
			if a == c || a.class != clAdmitted || a.inv.s >= c.decEnd.s {
				continue
			}
			if a.id < w.checked && !a.possThrottled {
				continue
			}
			if a.decEnd.t > lMax {
				lMax = a.decEnd.t
			}
		}
		havePrev := w.firstDefThrottled != 0 && w.firstDefThrottled < c.inv.s
		probeDue := havePrev && c.inv.t-lMax > probeGap
		if c.class == clRejected {
			if !lawHolds(bd.nMax, bd.aMin) {
				r.Fail("admission-law"+w.lawSuffix, "call %d (%s) was rejected at %v although the preceding window holds at most %d non-accepted and at least %d accepted calls (needs non-accepted > 5 + 10%% accepted)",
					c.id, entryNames[c.p.entry], c.inv.t, bd.nMax, bd.aMin)
				return
			}
			if exact && !lawHolds(bd.nMax-1, bd.aMin) {
				r.Probe("law-boundary-reject")
			}
			if probeDue {
				r.Fail("probe-denied", "call %d (%s) arrived at %v, more than 1 s after the latest admission made while throttling (at %v), and was rejected",
					c.id, entryNames[c.p.entry], c.inv.t, lMax)
				return
			}
			continue
		}
		c.possThrottled = lawHolds(bd.nMax, bd.aMin)
		c.defThrottled = bd.aMax == 0 && bd.nMin > 5
		if exact && !c.possThrottled && lawHolds(bd.nMax+1, bd.aMin) {
			r.Probe("law-boundary-admit")
		}
		if c.defThrottled {
			r.Probe("admitted-while-throttling")
			if probeDue {
				r.Probe("forced-probe-admitted")
			}
			if w.firstDefThrottled == 0 || c.decEnd.s < w.firstDefThrottled {
				w.firstDefThrottled = c.decEnd.s
			}
		}
	}
}

// checkAccounting compares the breaker's own window with the model at a quiescent point.
func (w *world) checkAccounting(where string) {
	r := w.r
	if w.inflight != 0 || r.Failed() || w.b == nil || w.dead {
		// w.b == nil: the wrapper keeps its breaker private (REST middleware); accounting is then
		// only checked through behaviour
		return
	}
	b := w.b
	if w.byName {
		// THE breaker of the name, as the registry hands it out now
		b = breaker.GetBreaker(w.name)
		r.Probe("accounting-by-name-after-first-use")
	}
	t1 := w.now()
	acc, tot, ok := breaker.VerifWindow(b)
	t2 := w.now()
	if !ok {
		if w.byName {
			r.Fail("accounting-no-window", "%s: the registry's breaker of %q is a %T, which keeps no window: the calls made under that name are recorded nowhere", where, w.name, b)
			return
		}
		r.EngineError("breaker.VerifWindow does not recognise the breaker")
		return
	}
	if bucketOf(t1) != bucketOf(t2) {
		r.Probe("accounting-skipped-slot-changed")
		return
	}
	B := bucketOf(t2)
	w.advanceSkip(B)
	var bd bounds
	expired := false
	for _, e := range w.calls[w.skip:] {
		if e.ev == evNone {
			continue
		}
		definitely := bucketOf(e.recLo.t) >= B-(nBuckets-1)
		possibly := bucketOf(e.recHi.t) >= B-(nBuckets-1)
		if !definitely {
			expired = true
		}
		switch {
		case e.ev == evSucc:
			if possibly {
				bd.aMax++
			}
			if definitely {
				bd.aMin++
			}
		default:
			if possibly {
				bd.nMax++
			}
			if definitely {
				bd.nMin++
			}
		}
	}
	if expired || w.skip > 0 {
		r.Probe("accounting-after-expiry")
	}
	r.Probe("accounting-checked")
	n := int(tot - acc)
	if int(acc) < bd.aMin || int(acc) > bd.aMax {
		r.Fail("accounting-accepted", "%s at %v: the breaker's window holds %d accepted calls, the history implies [%d,%d] (non-accepted: breaker %d, history [%d,%d])",
			where, t2, acc, bd.aMin, bd.aMax, n, bd.nMin, bd.nMax)
		return
	}
	if n < bd.nMin || n > bd.nMax {
		r.Fail("accounting-non-accepted", "%s at %v: the breaker's window holds %d failures+rejections, the history implies [%d,%d] (accepted: breaker %d, history [%d,%d])",
			where, t2, n, bd.nMin, bd.nMax, acc, bd.aMin, bd.aMax)
	}
}
