package c01

import (
	"fmt"
	"testing"
	"time"

	"github.com/zeromicro/go-zero/core/breaker"
	"github.com/zeromicro/go-zero/core/logx"
	"github.com/zeromicro/go-zero/core/stat"

	"verifsim/simharness"
	"verifsim/simrt"
)

// C01: circuit breaker - admission law, per-call effects, exact accounting, guaranteed
// probing, "it does open".  The model and the checks are in oracle_test.go; this file
// generates the workload.

const (
	entDo = iota
	entAcceptable
	entFallback
	entFallbackAcceptable
	entAllow
)

var entryNames = []string{"Do", "DoWithAcceptable", "DoWithFallback", "DoWithFallbackAcceptable", "Allow"}

const (
	outOK = iota
	outErr
	outAccErr
	outPanic
)

var outcomeNames = []string{"ok", "error", "acceptable-error", "panic"}

const (
	ctxNone = iota
	ctxLive
	ctxCancelled
	ctxTimeout // deadline somewhere after the arrival: live when the call is made
	ctxExpired
)

const (
	thNone      = iota
	thFixed     // d
	thAlign     // to the start of slot (current+k), plus delta
	thAfterAdm  // 1 s + delta after the latest admission seen by the harness
)

type think struct {
	kind  int
	d     time.Duration
	k     int
	delta time.Duration
}

type plan struct {
	entry   int
	via     int // 0: method of the instance, 1: package-level function by name
	ctx     int
	ctxD    time.Duration
	outcome int
	dur     time.Duration
	yields  int
	fbRet   int // 0: returns its argument, 1: its own error, 2: nil
	fbDur   time.Duration
	think   think
	kind    int // identity of the request's error / of its panic value (values_test.go); 0: the plain one
	// second layer (layer2_test.go)
	l2      bool
	ident   int // which of the run's breaker identities
	variant int // concrete realisation of the outcome (status, gRPC code, error value, ...)
	shape   int // REST: the header / write sequence of the handler (resthdr_test.go); 0: one WriteHeader at most
	hsub    int // ... and its details (which informational statuses, which superfluous status)
}

const (
	phMixed = iota
	phProbe
	phSustained
	phTrickle
)

var phaseNames = []string{"mixed", "probe-gaps", "sustained-failure", "success-burst-then-failure-trickle"}

type phase struct {
	kind    int
	gap     time.Duration
	failPct int
	profile int
	spacing time.Duration
	plans   [][]plan
	// second layer
	ident      int  // identity whose history the phase builds
	panicsOnly bool // REST sustained phase: every handler panics
	variant    int  // sustained phase: the one failure kind of the phase
	valKind    int  // ... and the one error identity / panic value of the phase
	outage     bool // sqlx sustained phase: the failure kind is "the database is unreachable"
	shape      int  // REST sustained phase: the one header / write sequence of the phase
	hsub       int
	// long in-flight times (slow_test.go)
	long   int           // mixed phase: how many of its calls stay in flight for long (longNone .. longAll)
	slow   bool          // sustained phase in which EVERY call fails slowly: open-loop arrivals, one task per call
	slowA  int           // ... its first slowA calls are the opening wave, the rest the stream that must be rejected
	slowSA time.Duration // ... spacing of the opening wave
}

var runCounter int

// The alert reporter is a stub (off).  With a reporter installed, stat.Report rate-limits its
// alerts through a package-level LessExecutor ("once per 5 minutes" of go-zero's relative clock):
// whether a rejection of this run takes the alert path (two more atomic operations, i.e.
// scheduling points) would depend on the instant of the last alert of the *previous* run in the
// same process, which breaks run independence (seen by --selftest).  go-zero's own "running under
// go test" switch (flag.Lookup("test.v") in stat's init) no longer works: the testing flags are
// registered after package initialisation.
func init() {
	stat.SetReporter(nil)
	logx.Disable() // the REST middleware and the stores log every rejection
}

var deltas = []time.Duration{0, -1, 1}

func drawDelta(t *simrt.Tape) time.Duration { return deltas[t.Intn(3)] }

func drawThink(t *simrt.Tape, profile int) think {
	switch profile {
	case 1: // mostly back to back, some sub-slot spacing
		switch v := t.Intn(8); {
		case v < 6:
			return think{}
		case v == 6:
			return think{kind: thFixed, d: time.Duration(t.Range(1, int(bucketDur)-1))}
		default:
			return think{kind: thFixed, d: time.Duration(t.Range(250, 2000)) * time.Millisecond}
		}
	case 2: // slot boundaries, including the far edge of the window
		switch v := t.Intn(8); {
		case v < 4:
			return think{}
		case v < 6:
			return think{kind: thAlign, k: 1, delta: drawDelta(t)}
		case v == 6:
			return think{kind: thAlign, k: nBuckets - 2 + t.Intn(4), delta: drawDelta(t)}
		default:
			return think{kind: thAlign, k: t.Range(2, nBuckets-3), delta: drawDelta(t)}
		}
	case 3: // wide gaps
		switch v := t.Intn(8); {
		case v < 4:
			return think{}
		case v == 4:
			return think{kind: thFixed, d: 10*time.Second + drawDelta(t)}
		case v == 5:
			return think{kind: thFixed, d: time.Duration(t.Range(10, 40)) * time.Second}
		case v == 6:
			return think{kind: thAfterAdm, delta: drawDelta(t)}
		default:
			return think{kind: thFixed, d: time.Duration(t.Range(1, int(bucketDur)-1))}
		}
	case 4: // around the probing interval
		switch v := t.Intn(4); {
		case v < 2:
			return think{}
		case v == 2:
			return think{kind: thAfterAdm, delta: drawDelta(t)}
		default:
			return think{kind: thFixed, d: probeGap + drawDelta(t)}
		}
	}
	return think{}
}

func drawEntry(t *simrt.Tape) int {
	switch v := t.Intn(10); {
	case v < 4:
		return entDo
	case v == 4 || v == 9:
		return entAcceptable
	case v == 5:
		return entFallback
	case v == 6:
		return entFallbackAcceptable
	default:
		return entAllow
	}
}

func drawCtx(t *simrt.Tape, p *plan) {
	switch v := t.Intn(12); {
	case v < 7:
	case v < 9:
		p.ctx = ctxLive
	case v == 9:
		p.ctx = ctxCancelled
	case v == 10:
		p.ctx = ctxTimeout
		p.ctxD = time.Duration(t.Range(1, 2000)) * time.Millisecond
	default:
		p.ctx = ctxExpired
	}
}

func drawPlan(t *simrt.Tape, failPct, profile int, registry, timed bool) plan {
	p := plan{entry: drawEntry(t)}
	if registry && t.Chance(1, 3) {
		p.via = 1
	}
	drawCtx(t, &p)
	fail := t.Intn(100) >= 100-failPct
	if fail {
		p.outcome = outErr
		if t.Intn(6) == 4 {
			p.outcome = outPanic
		}
	} else if t.Intn(4) == 3 {
		p.outcome = outAccErr // a failure for the entry points without a predicate
	}
	p.kind = t.Intn(nKinds)
	if timed {
		switch v := t.Intn(8); {
		case v < 5:
		case v == 5:
			p.dur = time.Duration(t.Range(1, 100)) * time.Millisecond
		case v == 6:
			p.dur = time.Duration(t.Range(100, 1500)) * time.Millisecond
		default:
			p.yields = 1 + t.Intn(2)
		}
	}
	p.fbRet = t.Intn(3)
	if timed && t.Chance(1, 8) {
		p.fbDur = time.Duration(t.Range(1, 300)) * time.Millisecond
	}
	p.think = drawThink(t, profile)
	return p
}

// lazy: some breaker of the run is not created by the harness but by the first lookups of its
// name (firstuse_test.go): the first phase then has several clients and is a mixed or a
// sustained-failure phase.
func drawPhases(t *simrt.Tape, tier string, registry, lazy bool) []*phase {
	maxPhases, maxSingle, maxMulti := 3, 80, 25
	if tier == "thorough" {
		maxPhases, maxSingle, maxMulti = 5, 150, 50
	}
	n := t.Range(1, maxPhases)
	var out []*phase
	sustained, trickle := false, false
	for i := 0; i < n; i++ {
		ph := &phase{}
		switch v := t.Intn(12); {
		case v < 6:
			ph.kind = phMixed
		case v < 8:
			ph.kind = phProbe
		case v < 10:
			ph.kind = phSustained
			if sustained {
				ph.kind = phMixed
			}
		default:
			ph.kind = phTrickle
			if trickle {
				ph.kind = phMixed
			}
		}
		if lazy && i == 0 && ph.kind != phSustained {
			ph.kind = phMixed
		}
		clients := 1
		if t.Intn(3) == 2 {
			clients = t.Range(2, 6)
		}
		if lazy && i == 0 && clients == 1 {
			clients = t.Range(2, 6)
		}
		switch ph.kind {
		case phMixed:
			ph.failPct = []int{0, 100, 50, 10, 90, 30}[t.Intn(6)]
			ph.profile = t.Intn(5)
			ph.long = t.Intn(4)
			if i > 0 {
				switch t.Intn(4) {
				case 1:
					ph.gap = time.Duration(t.Range(1, 3000)) * time.Millisecond
				case 2:
					ph.gap = time.Duration(t.Range(9500, 10500)) * time.Millisecond
				case 3:
					ph.gap = time.Duration(t.Range(11, 60)) * time.Second
				}
			}
			per := t.Range(1, maxSingle)
			if clients > 1 {
				per = t.Range(1, maxMulti)
			}
			if ph.long == longAll && per > 12 {
				per = 12 // every call outlives the window: the history is short
			}
			budget := longBudget
			ph.plans = make([][]plan, clients)
			for c := range ph.plans {
				for j := 0; j < per; j++ {
					p := drawPlan(t, ph.failPct, ph.profile, registry, true)
					applyLong(t, &p, ph.long, &budget)
					ph.plans[c] = append(ph.plans[c], p)
				}
			}
		case phProbe:
			// a burst of failures opens the breaker, then calls are placed around
			// "1 s after the latest admission"
			ph.failPct = 100
			if i > 0 && t.Intn(4) != 0 {
				ph.gap = 10*time.Second + bucketDur + time.Duration(t.Intn(2000))*time.Millisecond
			}
			burst := t.Range(8, 40)
			gaps := t.Range(2, 8)
			var ps []plan
			for j := 0; j < burst; j++ {
				p := drawPlan(t, 100, 0, registry, false)
				ps = append(ps, p)
			}
			for j := 0; j < gaps; j++ {
				p := drawPlan(t, 100, 0, registry, t.Chance(1, 4))
				p.think = think{kind: thAfterAdm, delta: []time.Duration{1, 0, -1, 100 * time.Millisecond, -100 * time.Millisecond, time.Second}[t.Intn(6)]}
				ps = append(ps, p)
				// a few more calls right behind it: they see a fresh admission
				for k := t.Intn(4); k > 0; k-- {
					ps = append(ps, drawPlan(t, 100, 0, registry, false))
				}
			}
			ph.plans = [][]plan{ps}
		case phSustained:
			sustained = true
			ph.failPct = 100
			if i > 0 {
				ph.gap = 10*time.Second + bucketDur + time.Duration(t.Intn(2000))*time.Millisecond
			}
			total := t.Range(400, 480)
			spacing := []time.Duration{0, time.Microsecond, time.Millisecond, 5 * time.Millisecond, 20 * time.Millisecond}[t.Intn(5)]
			ph.spacing = spacing
			ph.plans = make([][]plan, clients)
			for j := 0; j < total; j++ {
				p := drawPlan(t, 100, 0, registry, false)
				if spacing > 0 {
					// per client, so that the arrivals of all clients together keep the spacing
					p.think = think{kind: thFixed, d: spacing * time.Duration(clients)}
				}
				ph.plans[j%clients] = append(ph.plans[j%clients], p)
			}
			// every call of the phase fails slowly (slow_test.go); not in a phase that starts
			// with the concurrent first lookups of a name
			if !(lazy && i == 0) && t.Intn(3) == 2 {
				drawSlowSustained(t, ph, total, registry)
			}
		case phTrickle:
			// many accepted calls at once, then one failure (or a few) per slot for most of
			// a window: the accepted calls stay visible while the failures pile up, which is
			// where "5 plus 10% of the accepted ones" is tight
			trickle = true
			ph.failPct = 100
			if i > 0 && t.Intn(4) != 0 {
				ph.gap = 10*time.Second + bucketDur + time.Duration(t.Intn(2000))*time.Millisecond
			}
			var ps []plan
			// (the law is tight when the failures stay below 10% of the accepted calls for most
			// of a window: many accepted calls, one failure per slot)
			lo, hi := 100, 400
			if t.Bool() {
				lo, hi = 300, 800
			}
			extras := t.Intn(3)
			for j, n := 0, t.Range(lo, hi); j < n; j++ {
				p := drawPlan(t, 0, 0, registry, false)
				p.outcome, p.ctx = outOK, ctxNone
				ps = append(ps, p)
			}
			for j, n := 0, t.Range(20, nBuckets-1); j < n; j++ {
				p := drawPlan(t, 100, 0, registry, false)
				p.think = think{kind: thAlign, k: 1, delta: drawDelta(t)}
				if p.think.delta < 0 {
					p.think.delta = 0
				}
				ps = append(ps, p)
				for k := t.Intn(extras + 1); k > 0; k-- {
					ps = append(ps, drawPlan(t, 100, 0, registry, false))
				}
			}
			ph.plans = [][]plan{ps}
		}
		out = append(out, ph)
	}
	return out
}

func (w *world) doThink(th think) {
	var d time.Duration
	now := w.now()
	switch th.kind {
	case thFixed:
		d = th.d
	case thAlign:
		target := time.Duration(bucketOf(now)+int64(th.k))*bucketDur + th.delta
		d = target - now
	case thAfterAdm:
		if w.hasAdm {
			d = w.lastAdmT + probeGap + th.delta - now
		}
	}
	if d > 0 {
		w.r.Sleep(d)
	}
}

func body(r *simrt.Run, tier string) {
	t := r.Tape
	// a third of the runs goes through one of the second-layer wrappers
	if t.Intn(3) == 2 {
		bodyLayer2(r, tier)
		return
	}
	w := &world{r: r}
	registry := t.Chance(1, 4)
	// who creates the breakers of the run's names: the harness up front, or the first calls
	fu := drawFirstUse(t, registry)
	phases := drawPhases(t, tier, registry, fu.anyLazy())
	ws := []*world{w}
	for i := 0; i < fu.nSide(); i++ {
		ws = append(ws, &world{r: r})
	}
	if fu.nSide() > 0 {
		// now and then a call of a mixed phase goes to one of the side names
		for _, ph := range phases {
			if ph.kind != phMixed {
				continue
			}
			for ci := range ph.plans {
				for j := range ph.plans[ci] {
					if t.Intn(8) == 7 {
						ph.plans[ci][j].ident = 1 + t.Intn(fu.nSide())
					}
				}
			}
		}
	}
	if fu.anyLazy() {
		// every name that comes into being by first use, and every side name, is called by
		// several clients at the start of the first phase
		var idx []int
		for k := range ws {
			if fu.lazy[k] || k > 0 {
				idx = append(idx, k)
			}
		}
		addFirstUse(t, phases[0], idx)
		fu.drawHolders(t, len(phases[0].plans))
	}
	// the breaker is not created at the bubble's epoch
	if off := t.Intn(4); off > 0 {
		r.Sleep(time.Duration(t.Range(1, 999_999_999)))
	}
	for k, x := range ws {
		if fu.lazy[k] {
			runCounter++
			x.name = fmt.Sprintf("c01-breaker-%d", runCounter)
			x.byName = true
			continue
		}
		// creation must be an instant (the slots are aligned to it)
		for try := 0; ; try++ {
			runCounter++
			x.name = fmt.Sprintf("c01-breaker-%d", runCounter)
			a := time.Now()
			if registry {
				x.b = breaker.GetBreaker(x.name)
			} else {
				x.b = breaker.NewBreaker(breaker.WithName(x.name))
			}
			if time.Now().Equal(a) {
				x.t0 = a
				break
			}
			if try == 8 {
				r.Probe("creation-always-stalled")
				return
			}
		}
	}
	if r.Tracing() {
		for i, ph := range phases {
			n := 0
			for _, ps := range ph.plans {
				n += len(ps)
			}
			r.Logf("phase %d: %s gap=%v failPct=%d profile=%d clients=%d calls=%d%s", i, phaseNames[ph.kind], ph.gap, ph.failPct, ph.profile, len(ph.plans), n, ph.longDescr())
		}
		r.Logf("first use: mode=%d created-by-first-use=%v holders=%v noise=%d/%d", fu.mode, fu.lazy, fu.holders, fu.noise, fu.noiseN)
	}
	var descr []string
	total := 0
	for _, ph := range phases {
		n := 0
		for _, ps := range ph.plans {
			n += len(ps)
		}
		total += n
		descr = append(descr, fmt.Sprintf("%s(gap=%v clients=%d calls=%d fail%%=%d think-profile=%d%s)", phaseNames[ph.kind], ph.gap, len(ph.plans), n, ph.failPct, ph.profile, ph.longDescr()))
	}
	first := ""
	for i, p := range phases[0].plans[0] {
		if i == 6 {
			first += " ..."
			break
		}
		first += fmt.Sprintf(" %s/ctx%d/%s/dur=%v/think=%+v;", entryNames[p.entry], p.ctx, outcomeNames[p.outcome], p.dur, p.think)
	}
	sample := map[string]any{"registry_functions": registry, "phases": descr, "calls": total, "first_calls": first}
	if fu.mode > 0 {
		sample["names_created_by_first_use"] = fmt.Sprintf("mode=%d names(main, side...)=%v clients-keeping-GetBreaker-result=%v registry-noise=%d", fu.mode, fu.lazy, fu.holders, fu.noise)
	}
	r.Sample(sample)

	settleAll := func(where string) {
		for k, x := range ws {
			x.settle()
			if k == 0 {
				x.checkAccounting(where)
			} else {
				x.checkAccounting(fmt.Sprintf("%s, side name %d", where, k))
			}
		}
	}
	for pi, ph := range phases {
		if r.Failed() {
			return
		}
		if ph.gap > 0 {
			r.Sleep(ph.gap)
		}
		from := len(w.calls)
		if ph.slow {
			fromB, ok := runSlow(r, pi, ph, w, func(p *plan) { ws[p.ident].call(p) })
			if !ok {
				return
			}
			settleAll(fmt.Sprintf("after slow sustained phase %d", pi))
			if r.Failed() {
				return
			}
			w.checkOpensSlow(from, fromB, ph.spacing)
			continue
		}
		if len(ph.plans) == 1 {
			for i := range ph.plans[0] {
				p := &ph.plans[0][i]
				x := ws[p.ident]
				x.doThink(p.think)
				x.call(p)
				x.settle()
				x.checkAccounting(fmt.Sprintf("after call %d of name %d", len(x.calls)-1, p.ident))
				if r.Failed() {
					return
				}
			}
		} else {
			firstUse := pi == 0 && fu.anyLazy()
			if firstUse {
				beginFirstUse(ws)
			}
			var tasks []*simrt.Task
			for ci := range ph.plans {
				ps := ph.plans[ci]
				tasks = append(tasks, r.Go(fmt.Sprintf("client%d", ci), func() {
					if firstUse {
						fu.takeHolders(r, ws, ci)
					}
					for i := range ps {
						if r.Failed() {
							return
						}
						x := ws[ps[i].ident]
						x.doThink(ps[i].think)
						x.call(&ps[i])
					}
				}))
			}
			if firstUse && fu.noise > 0 {
				tasks = append(tasks, r.Go("registry-noise", fu.noiseTask(r, w.name)))
			}
			if !r.JoinTimeout(12*time.Hour, tasks...) {
				r.Fail("stuck", "phase %d: calls did not return: %v", pi, r.AliveTasks())
				return
			}
			r.Probe("concurrent-phase")
			if firstUse {
				resolveFirstUse(r, ws)
				if ph.kind == phSustained {
					r.Probe("first-use-sustained-failure")
				}
			}
			settleAll(fmt.Sprintf("after concurrent phase %d", pi))
		}
		if r.Failed() {
			return
		}
		if ph.kind == phSustained {
			w.checkOpens(from, ph.spacing)
		}
	}
	// the window empties
	if t.Chance(1, 4) {
		r.Sleep(time.Duration(t.Range(9500, 10500)) * time.Millisecond)
		for _, x := range ws {
			x.checkAccounting("after the final pause")
		}
	}
	for _, x := range ws {
		if x.nRejected > 0 {
			r.Probe("rejections-seen")
			break
		}
	}
	if len(ws) > 1 {
		r.Probe("first-use-side-names")
	}
	if len(phases) > 0 && total > 0 {
		r.Probe("nontrivial")
	}
}

// checkOpens: under sustained total failure the overwhelming majority of calls is rejected.
// The phase starts with an empty window; a probe per second is legitimate (at most a few
// per cent of the calls at the spacings used here).
func (w *world) checkOpens(from int, spacing time.Duration) {
	r := w.r
	cs := w.calls[from:]
	const tail = 300
	if len(cs) < tail+100 {
		return
	}
	cs = cs[len(cs)-tail:]
	span := cs[len(cs)-1].ret.t - cs[0].inv.t
	if span > tail*spacing+2*time.Second {
		// injected stalls stretched the phase: every second of it legitimately lets a probe through
		r.Probe("sustained-phase-stretched")
		return
	}
	rej, counted := 0, 0
	for _, c := range cs {
		switch c.class {
		case clRejected:
			rej++
			counted++
		case clAdmitted:
			counted++
		}
	}
	r.Probe("sustained-failure-checked")
	if counted >= tail/2 && rej*100 < counted*80 {
		class := "does-not-open"
		if w.opensClass != "" {
			class = w.opensClass
		}
		r.Fail(class, "sustained total failure: only %d of the last %d calls (within %v) were rejected", rej, counted, span)
	}
}

// config is the default swarm with a wider step budget: a second-layer run through the REST
// middleware spends extra scheduling points in the metrics executor for every rejected request.
func config(t *simrt.Tape, tier string) simrt.Config {
	cfg := simharness.DefaultConfig(t, tier)
	cfg.MaxSteps = 90000
	return cfg
}

func TestSim(t *testing.T) {
	simharness.Main(t, &simharness.Spec{ID: "C01", Body: body, Config: config, CrashIsViolation: true})
}
