package c01

import (
	"context"
	"errors"
	"fmt"
	"io"
	"net/http"
	"net/http/httptest"
	"path"
	"strings"
	"time"

	"github.com/zeromicro/go-zero/core/breaker"
	"github.com/zeromicro/go-zero/core/stat"
	"github.com/zeromicro/go-zero/rest"
	"github.com/zeromicro/go-zero/rest/handler"
	"github.com/zeromicro/go-zero/zrpc"
	"google.golang.org/grpc"
	"google.golang.org/grpc/codes"
	"google.golang.org/grpc/credentials/insecure"
	"google.golang.org/grpc/status"

	"verifsim/simrt"
)

// Second layer of C01: the wrappers that put a breaker in front of a handler / invoker /
// command / statement.  All calls of a run go through ONE wrapper kind; there are one or two
// breaker identities (two routes, two gRPC methods, two redis.Redis objects, two SqlConn
// objects) whose histories must be independent.  Every identity has its own world, i.e. its own
// reference model, and the clauses of the direct mode are applied to it unchanged: admission law
// from the recorded history, per-call effects, exact accounting (where the breaker's window is
// reachable), guaranteed probing, "it does open".
//
// What the wrapper documents about acceptability is the oracle's predicate:
//   REST            status < 500 accepted, >= 500 rejected; a panicking handler is a failure
//   zrpc server     gRPC codes DeadlineExceeded, Internal, Unavailable, DataLoss, Unimplemented,
//                   ResourceExhausted are failures, and so are context.DeadlineExceeded and
//                   breaker.ErrServiceUnavailable returned by the handler; everything else accepted
//   zrpc client     the same six codes are failures, everything else accepted
//   redis hook      nil, redis.Nil, context.Canceled (and a NOSCRIPT reply) accepted
//   sqlx            nil, sql.ErrNoRows, sql.ErrTxDone, context.Canceled, a failed scan of a
//                   delivered row, and whatever WithAcceptable accepts

const (
	wrapNone = iota
	wrapREST
	wrapRPCServer
	wrapRPCClient
	wrapRedis
	wrapSQL
)

var wrapNames = []string{"direct", "rest-BreakerHandler", "zrpc-server-interceptor", "zrpc-client-interceptor", "redis-breakerHook", "sqlx-SqlConn"}

// entry points of the second layer (continue the numbering of c01_test.go)
const (
	entRESTHandler = entAllow + 1 + iota // handler.BreakerHandler(method, path, metrics)(next)
	entRESTEngine                        // the same middleware as wired by rest's engine for a route
	entRPCUnary
	entRPCStream
	entRPCClient
	entRedisGet
	entRedisSet
	entRedisExists
	entRedisPipeline
	entRedisEvalSha
	entSQLExec
	entSQLQueryRow
	entSQLQueryRows
	entSQLTransact
)

func init() {
	entryNames = append(entryNames, "rest/BreakerHandler", "rest/engine-route", "zrpc/UnaryBreakerInterceptor", "zrpc/StreamBreakerInterceptor",
		"zrpc/client-BreakerInterceptor", "redis/Get", "redis/Set", "redis/Exists", "redis/Pipelined", "redis/EvalSha",
		"sqlx/Exec", "sqlx/QueryRow", "sqlx/QueryRows", "sqlx/Transact")
}

// two never-dialled client connections (created outside every bubble: the client interceptor
// only asks them for their target)
var rpcConns [2]*grpc.ClientConn

func init() {
	for i, tgt := range []string{"passthrough:///c01-backend-a", "passthrough:///c01-backend-b"} {
		cc, err := grpc.NewClient(tgt, grpc.WithTransportCredentials(insecure.NewCredentials()), grpc.WithIdleTimeout(0))
		if err != nil {
			panic(err)
		}
		rpcConns[i] = cc
	}
}

// HTTP statuses by outcome class
var (
	restOK   = []int{0, 200, 201, 204, 302, 304} // 0: the handler never calls WriteHeader
	restAcc  = []int{400, 401, 404, 409, 429, 499}
	restFail = []int{500, 503, 502, 501, 504, 599}
)

// gRPC codes by outcome class (the wrapper's documented predicate)
var (
	rpcAccCodes  = []codes.Code{codes.NotFound, codes.InvalidArgument, codes.Canceled, codes.Unknown, codes.AlreadyExists, codes.PermissionDenied, codes.FailedPrecondition, codes.Aborted, codes.OutOfRange, codes.Unauthenticated}
	rpcFailCodes = []codes.Code{codes.Internal, codes.Unavailable, codes.DeadlineExceeded, codes.ResourceExhausted, codes.Unimplemented, codes.DataLoss}
)

type ident struct {
	w    *world
	desc string
	// rest
	h            http.Handler
	method, path string
	// zrpc
	fullMethod string
	cc         *grpc.ClientConn
	name       string
	brk        breaker.Breaker
	// redis / sqlx: see redis2_test.go, sql2_test.go
	rds *redisIdent
	sql *sqlIdent
}

type layer2 struct {
	r         *simrt.Run
	kind      int
	ids       []*ident
	restEntry int
	// REST: which header / write sequences the handlers of the run use (resthdr_test.go): 0 one
	// WriteHeader at most, 1 also informational responses and implicit statuses, 2 also superfluous
	// WriteHeader calls
	restShapes int
	// sqlx: the SqlConn objects of the run were built with WithAcceptable(duplicate key)
	sqlAcceptDup bool
	// zrpc: 0 the harness creates the breakers of the interceptors' names before the first call;
	// 1 none of them: they come into being with the first intercepted calls, made by several
	// tasks (firstuse_test.go); 2 the first identity up front, the second by first use
	lazyMode int
}

// l2fix turns a plan drawn for the direct mode into a plan of the wrapper: entry point, identity,
// concrete realisation of the outcome.
func (l *layer2) fixPlan(p *plan, forceIdent int) {
	t := l.r.Tape
	p.l2 = true
	p.via = 0
	p.fbRet, p.fbDur = 0, 0
	if forceIdent >= 0 {
		p.ident = forceIdent
	} else if len(l.ids) > 1 {
		p.ident = t.Intn(len(l.ids))
	}
	p.variant = t.Intn(12)
	switch l.kind {
	case wrapREST:
		p.entry = l.restEntry
		p.ctx = ctxNone // the middleware asks the breaker without a context
		p.shape = drawShape(t, l.restShapes, false)
		if p.shape != shPlain {
			p.hsub = t.Intn(12)
		}
	case wrapRPCServer:
		p.entry = entRPCUnary
		if t.Intn(4) == 3 {
			p.entry = entRPCStream
			p.ctx = ctxNone
		}
	case wrapRPCClient:
		p.entry = entRPCClient
	case wrapRedis:
		fixRedisPlan(t, p)
	case wrapSQL:
		fixSQLPlan(t, p)
	}
}

var l2Counter int

// ---------------------------------------------------------------- set-up

// newIdentWorld creates the world of one identity; create must create the identity's breaker
// (directly or inside the wrapper's constructor); creation has to be an instant because the
// window's slots are aligned to it.
func (l *layer2) newWorld(create func(try int) bool) *world {
	r := l.r
	w := &world{r: r}
	for try := 0; ; try++ {
		a := time.Now()
		ok := create(try)
		if !ok {
			r.Probe("creation-always-stalled")
			return nil
		}
		if time.Now().Equal(a) {
			w.t0 = a
			return w
		}
		if try == 8 {
			r.Probe("creation-always-stalled")
			return nil
		}
	}
}

func (l *layer2) setupREST() bool {
	r, t := l.r, l.r.Tape
	n := 1 + t.Intn(2)
	engine := t.Intn(3) == 2
	l.restShapes = t.Intn(3)
	if l.restShapes > 0 {
		r.Probe([]string{"", "rest-shapes-informational", "rest-shapes-superfluous-writeheader"}[l.restShapes])
	}
	l.restEntry = entRESTHandler
	if engine {
		l.restEntry = entRESTEngine
	}
	next := func(id *ident) http.HandlerFunc {
		return func(rw http.ResponseWriter, hr *http.Request) {
			c := id.w.cur[r.CurrentID()]
			if c == nil {
				r.Fail("foreign-handler-run", "the handler of %s ran outside a call of the harness", id.desc)
				return
			}
			c.servedBy = id
			id.w.runReq(c)
			restRespond(id, c, rw)
		}
	}
	// two routes: same path with another method, or another path
	routes := [][2]string{{http.MethodGet, "/c01/a"}}
	if n == 2 {
		if t.Bool() {
			routes = append(routes, [2]string{http.MethodPost, "/c01/a"})
		} else {
			routes = append(routes, [2]string{http.MethodGet, "/c01/b"})
		}
	}
	for _, rt := range routes {
		l.ids = append(l.ids, &ident{method: rt[0], path: rt[1], desc: rt[0] + " " + rt[1]})
	}
	if engine {
		// all breakers are created by bindRoutes, in one instant
		var h http.Handler
		w0 := l.newWorld(func(try int) bool {
			l2Counter++
			conf := rest.RestConf{}
			conf.Name = fmt.Sprintf("c01-rest-%d", l2Counter)
			conf.Middlewares.Breaker = true
			var groups []rest.VerifRouteGroup
			for _, id := range l.ids {
				groups = append(groups, rest.VerifRouteGroup{Routes: []rest.Route{{Method: id.method, Path: id.path, Handler: next(id)}}})
			}
			var err error
			h, err = rest.VerifNewRouterHandler(conf, groups)
			if err != nil {
				r.Fail("rest/engine-bind-error", "bindRoutes: %v", err)
				return false
			}
			return true
		})
		if w0 == nil {
			return false
		}
		for i, id := range l.ids {
			if i == 0 {
				id.w = w0
			} else {
				id.w = &world{r: r, t0: w0.t0}
			}
			id.h = h
		}
		r.Probe("rest-engine-wiring")
		return true
	}
	l2Counter++
	metrics := stat.NewMetrics(fmt.Sprintf("c01-rest-%d", l2Counter))
	for _, id := range l.ids {
		id := id
		id.w = l.newWorld(func(int) bool {
			id.h = handler.BreakerHandler(id.method, id.path, metrics)(next(id))
			return true
		})
		if id.w == nil {
			return false
		}
		if len(l.ids) > 1 && t.Bool() {
			r.Sleep(time.Duration(t.Range(1, 999_999_999)))
		}
	}
	return true
}

func (l *layer2) setupRPC() bool {
	r, t := l.r, l.r.Tape
	n := 1 + t.Intn(2)
	// two gRPC methods of one service, or (client side) one method on two backends
	for i := 0; i < n; i++ {
		l.ids = append(l.ids, &ident{cc: rpcConns[0]})
	}
	sameMethod := l.kind == wrapRPCClient && n == 2 && t.Bool()
	if sameMethod {
		l.ids[1].cc = rpcConns[1]
	}
	for i, id := range l.ids {
		i, id := i, id
		// the interceptors take their breaker from the name registry: the server by the full
		// method, the client by target + method
		naming := func() {
			if sameMethod && i == 1 {
				id.fullMethod = l.ids[0].fullMethod
			} else {
				l2Counter++
				id.fullMethod = fmt.Sprintf("/c01.Svc%d/Method%c", l2Counter, 'A'+i)
			}
			id.name = id.fullMethod
			id.desc = "server method " + id.fullMethod
			if l.kind == wrapRPCClient {
				id.name = path.Join(id.cc.Target(), id.fullMethod)
				id.desc = "client of " + id.cc.Target() + " method " + id.fullMethod
			}
		}
		if l.lazyMode == 1 || (l.lazyMode == 2 && i == len(l.ids)-1) {
			// nobody looks the name up before the first intercepted calls
			naming()
			id.desc += " (breaker created by the first calls)"
			id.w = &world{r: r, byName: true, name: id.name}
			r.Probe("first-use-rpc-interceptor")
			continue
		}
		id.w = l.newWorld(func(try int) bool {
			if sameMethod && i == 1 && try > 0 {
				return false // the name is fixed and its breaker already exists
			}
			naming()
			id.brk = breaker.GetBreaker(id.name)
			return true
		})
		if id.w == nil {
			return false
		}
		id.w.b, id.w.name = id.brk, id.name
		if len(l.ids) > 1 && t.Bool() {
			r.Sleep(time.Duration(t.Range(1, 999_999_999)))
		}
	}
	return true
}

// ---------------------------------------------------------------- one call

// runReq is the body of the wrapped handler / invoker: it runs on the caller's task.
func (w *world) runReq(c *callRec) {
	w.reqBegin(c)
	c.reqEnd = w.stamp()
}

// reqBegin: the wrapped request starts (the caller stamps reqEnd when it ends).
func (w *world) reqBegin(c *callRec) {
	r, p := w.r, c.p
	c.reqRuns++
	st := w.stamp()
	w.observe(st)
	if c.reqRuns == 1 {
		c.reqStart = st
		if !c.decSet {
			c.decEnd, c.decSet = st, true
		}
		w.hasAdm, w.lastAdmT = true, st.t
	}
	for i := 0; i < p.yields; i++ {
		r.Yield()
	}
	if p.dur > 0 {
		r.Sleep(p.dur)
	}
}

func simDur(t *simrt.Tape) time.Duration { return time.Duration(t.Range(1, 999_999_999)) }

// rpcResult is what the wrapped gRPC handler / invoker returns.
func (l *layer2) rpcResult(c *callRec, ctx context.Context) error {
	p := c.p
	if e, ok := l.rpcRichErr(c); ok {
		c.l2err = e
		return e
	}
	switch p.outcome {
	case outOK:
		return nil
	case outAccErr:
		switch v := p.variant; {
		case v < len(rpcAccCodes):
			c.l2err = status.Error(rpcAccCodes[v], fmt.Sprintf("business error of call %d", c.id))
		case v == len(rpcAccCodes):
			c.l2err = c.reqErr // a plain error: code Unknown
		default:
			c.l2err = context.Canceled
		}
	case outErr:
		switch v := p.variant; {
		case v < len(rpcFailCodes):
			c.l2err = status.Error(rpcFailCodes[v], fmt.Sprintf("backend error of call %d", c.id))
		case l.kind == wrapRPCClient:
			c.l2err = status.Error(rpcFailCodes[v%len(rpcFailCodes)], fmt.Sprintf("backend error of call %d", c.id))
		case v < len(rpcFailCodes)+2:
			c.l2err = context.DeadlineExceeded
			if ctx != nil && ctx.Err() != nil && p.ctx == ctxTimeout {
				c.l2err = ctx.Err()
			}
		case v < len(rpcFailCodes)+4:
			c.l2err = fmt.Errorf("handler of call %d: %w", c.id, context.DeadlineExceeded)
		default:
			// the handler's own downstream breaker rejected: reported to the client as Unavailable
			c.l2err = breaker.ErrServiceUnavailable
			c.wantUnavailable = true
		}
	case outPanic:
		c.raise()
	}
	return c.l2err
}

// rpcRichErr: for plan.kind > 0 the handler / invoker returns one of the less ordinary error
// identities, classified by what the interceptors document: the gRPC code of the error as
// status.Code reports it (the code of a wrapped status error is the code of the status; every
// error without a status has code Unknown and is accepted), and on the server side
// context.DeadlineExceeded and breaker.ErrServiceUnavailable - bare or wrapped - are failures.
func (l *layer2) rpcRichErr(c *callRec) (error, bool) {
	p := c.p
	server := l.kind == wrapRPCServer
	var e error
	switch p.outcome {
	case outAccErr:
		switch p.kind {
		case 1:
			e = io.EOF
		case 2:
			e = errors.New(breaker.ErrServiceUnavailable.Error()) // same text, another error
		case 3:
			e = fmt.Errorf("lookup of call %d: %w", c.id, status.Error(rpcAccCodes[p.variant%len(rpcAccCodes)], "business error"))
		case 4:
			e = fmt.Errorf("handler of call %d: %w", c.id, context.Canceled)
		case 5:
			e = codeErr{id: c.id, code: 1040}
		case 6:
			if !server { // a nested breaker below the invoker was open: an error without a gRPC status
				e = breaker.ErrServiceUnavailable
			}
		case 7:
			if !server {
				e = fmt.Errorf("downstream of call %d: %w", c.id, breaker.ErrServiceUnavailable)
			}
		case 8:
			e = errors.New(context.DeadlineExceeded.Error()) // same text, another error
		}
	case outErr:
		switch p.kind {
		case 1:
			e = fmt.Errorf("backend of call %d: %w", c.id, status.Error(rpcFailCodes[p.variant%len(rpcFailCodes)], "backend error"))
		case 2:
			if server {
				e = fmt.Errorf("downstream of call %d: %w", c.id, breaker.ErrServiceUnavailable)
				c.wantUnavailable = true
			}
		case 3:
			if server {
				e = errors.Join(io.EOF, fmt.Errorf("replica of call %d: %w", c.id, context.DeadlineExceeded))
			}
		}
	}
	if e == nil {
		return nil, false
	}
	l.r.Probe("rpc-rich-error-identity")
	return e, true
}

func mkCtx(p *plan) (context.Context, context.CancelFunc) {
	switch p.ctx {
	case ctxLive:
		return context.WithCancel(context.Background())
	case ctxCancelled:
		ctx, cancel := context.WithCancel(context.Background())
		cancel()
		return ctx, cancel
	case ctxTimeout:
		return context.WithTimeout(context.Background(), p.ctxD)
	case ctxExpired:
		return context.WithTimeout(context.Background(), 0)
	}
	return nil, nil
}

type rpcReply struct{ id int }

func (l *layer2) call(p *plan) *callRec {
	r := l.r
	id := l.ids[p.ident]
	w := id.w
	c := &callRec{id: len(w.calls), p: p}
	c.reqErr = &callErr{id: c.id, acceptable: p.outcome == outAccErr}
	c.setPanic(p.kind)
	if p.outcome == outPanic {
		r.Probe("l2-panic-value-" + panicKindNames[c.panicKind])
	}
	w.calls = append(w.calls, c)

	ctx, cancel := mkCtx(p)
	if cancel != nil {
		defer cancel()
	}
	if w.cur == nil {
		w.cur = map[int]*callRec{}
	}
	tid := r.CurrentID()
	w.cur[tid] = c
	w.inflight++
	doneAtInv := ctx != nil && ctx.Err() != nil
	c.inv = w.stamp()
	r.Ev("invoke2", int64(p.ident), int64(c.id), int64(p.entry), int64(p.outcome), int64(p.variant), int64(p.shape))
	func() {
		defer func() {
			if v := recover(); v != nil {
				c.panicked, c.gotPanic = true, v
			}
		}()
		cctx := ctx
		if cctx == nil {
			cctx = context.Background()
		}
		switch p.entry {
		case entRESTHandler, entRESTEngine:
			rec := newRestRecorder()
			c.rec = rec
			hr := httptest.NewRequest(id.method, id.path, nil)
			defer rec.finish() // also when the handler panics
			id.h.ServeHTTP(rec, hr)
		case entRPCUnary:
			reply := &rpcReply{id: c.id}
			hnd := func(hctx context.Context, req any) (any, error) {
				c.servedBy = id
				if hctx != cctx {
					c.ctxChanged = true
				}
				w.runReq(c)
				err := l.rpcResult(c, hctx)
				if p.outcome == outOK || p.variant%2 == 1 {
					c.wantResp = reply
					return reply, err
				}
				return nil, err
			}
			c.gotResp, c.gotErr = zrpc.VerifC01UnaryBreakerInterceptor(cctx, "request", &grpc.UnaryServerInfo{FullMethod: id.fullMethod}, hnd)
		case entRPCStream:
			hnd := func(srv any, stream grpc.ServerStream) error {
				c.servedBy = id
				w.runReq(c)
				return l.rpcResult(c, nil)
			}
			c.gotErr = zrpc.VerifC01StreamBreakerInterceptor("server", nil, &grpc.StreamServerInfo{FullMethod: id.fullMethod}, hnd)
		case entRPCClient:
			reply := &rpcReply{}
			invoker := func(ictx context.Context, method string, req, rep any, cc *grpc.ClientConn, opts ...grpc.CallOption) error {
				c.servedBy = id
				if ictx != cctx || method != id.fullMethod || cc != id.cc || rep != any(reply) {
					c.ctxChanged = true
				}
				w.runReq(c)
				return l.rpcResult(c, ictx)
			}
			c.gotErr = zrpc.VerifC01ClientBreakerInterceptor(cctx, id.fullMethod, "request", reply, id.cc, invoker)
		default:
			switch l.kind {
			case wrapRedis:
				l.redisCall(id, c, cctx, cancel)
			case wrapSQL:
				l.sqlCall(id, c, cctx, cancel)
			}
		}
	}()
	c.ret = w.stamp()
	w.observe(c.ret)
	c.returned = true
	w.inflight--
	delete(w.cur, tid)
	if !c.decSet {
		c.decEnd = c.ret
	}
	doneAtRet := ctx != nil && ctx.Err() != nil
	l.classify(id, c, ctx, doneAtInv, doneAtRet)
	w.probeInFlight(c)
	r.Ev("return2", int64(p.ident), int64(c.id), int64(c.class), int64(c.ev))
	if r.Tracing() {
		code := 0
		if c.rec != nil {
			code = c.rec.Code
		}
		r.Logf("call %d.%d entry=%s ctx=%d outcome=%s/%d dur=%v -> class=%d ev=%d err=%v code=%d panicked=%v req=%d inv=%v ret=%v",
			p.ident, c.id, entryNames[p.entry], p.ctx, outcomeNames[p.outcome], p.variant, p.dur, c.class, c.ev, c.gotErr, code, c.panicked, c.reqRuns, c.inv.t, c.ret.t)
	}
	return c
}

// rejectionSeen: does the caller see the wrapper's documented rejection signal?
func (l *layer2) rejectionSeen(c *callRec) (bool, string) {
	switch l.kind {
	case wrapREST:
		return c.rec.Code == http.StatusServiceUnavailable, fmt.Sprintf("status %d, want 503", c.rec.Code)
	case wrapRPCServer:
		return c.gotErr != nil && status.Code(c.gotErr) == codes.Unavailable && c.gotResp == nil,
			fmt.Sprintf("response %v error %v, want a status error with code Unavailable", c.gotResp, c.gotErr)
	default:
		return errors.Is(c.gotErr, breaker.ErrServiceUnavailable), fmt.Sprintf("error %v, want breaker.ErrServiceUnavailable", c.gotErr)
	}
}

// passThrough: the result of an admitted call reaches the caller unchanged.
func (l *layer2) passThrough(c *callRec) (bool, string) {
	switch l.kind {
	case wrapREST:
		rec := c.rec
		if rec.Code != c.wantCode || rec.Body.String() != c.wantBody || rec.sentHeader("X-C01-Call") != fmt.Sprint(c.id) {
			return false, fmt.Sprintf("handler wrote status %d body %q, the client got status %d body %q header %q", c.wantCode, c.wantBody, rec.Code, rec.Body.String(), rec.sentHeader("X-C01-Call"))
		}
		if !sameInts(rec.infos, c.wantInfos) {
			return false, fmt.Sprintf("handler sent the informational responses %v before its status %d, the client got %v", c.wantInfos, c.wantCode, rec.infos)
		}
		for _, v := range rec.infoCall {
			if v != fmt.Sprint(c.id) {
				return false, fmt.Sprintf("an informational response of call %d carried the header X-C01-Call=%q", c.id, v)
			}
		}
		if c.noFlusher {
			return false, "the ResponseWriter handed to the handler is no http.Flusher although the connection's is"
		}
		return true, ""
	case wrapRPCServer, wrapRPCClient:
		if c.ctxChanged {
			return false, "the handler/invoker did not receive the caller's context, method, connection and reply"
		}
		if c.p.entry == entRPCUnary && c.gotResp != c.wantResp {
			return false, fmt.Sprintf("handler returned response %v, the interceptor %v", c.wantResp, c.gotResp)
		}
		if c.wantUnavailable {
			if status.Code(c.gotErr) != codes.Unavailable {
				return false, fmt.Sprintf("handler returned ErrServiceUnavailable, the interceptor %v (want a status error with code Unavailable)", c.gotErr)
			}
			return true, ""
		}
		if !same(c.gotErr, c.l2err) {
			return false, fmt.Sprintf("handler returned %T(%v), the interceptor %T(%v)", c.l2err, c.l2err, c.gotErr, c.gotErr)
		}
		return true, ""
	case wrapRedis:
		return redisPassThrough(c)
	case wrapSQL:
		return sqlPassThrough(c)
	}
	return true, ""
}

func (l *layer2) ctxAware(p *plan) bool {
	return l.kind != wrapREST && p.entry != entRPCStream
}

func (l *layer2) classify(id *ident, c *callRec, ctx context.Context, doneAtInv, doneAtRet bool) {
	r, p, w := l.r, c.p, id.w
	name := entryNames[p.entry]
	if l.kind == wrapSQL {
		l.sqlInferRequest(id, c)
	}
	switch {
	case c.servedBy != nil && c.servedBy != id:
		r.Fail("wrong-handler", "call %d of %s was served by the handler of %s", c.id, id.desc, c.servedBy.desc)
	case c.panicked && (c.reqRuns == 0 || p.outcome != outPanic):
		r.Fail("foreign-panic", "call %d (%s) panicked with %v although its handler did not panic", c.id, name, c.gotPanic)
	case c.reqRuns > 1:
		r.Fail("request-ran-twice", "call %d (%s) ran its handler %d times", c.id, name, c.reqRuns)
	case doneAtInv && l.ctxAware(p) && (c.reqRuns > 0 || c.gotErr != ctx.Err()):
		r.Fail("done-context-not-short-circuited", "call %d (%s) with an already done context: handler runs=%d returned %v, want %v and nothing run",
			c.id, name, c.reqRuns, c.gotErr, ctx.Err())
	case c.reqRuns == 1 && l.kind == wrapSQL && errors.Is(c.gotErr, breaker.ErrServiceUnavailable) && !sqlEndedUnavailable(c):
		x := c.x.(*sqlObs)
		r.Fail("rejected-but-ran", "call %d (%s) was rejected by the breaker (%v), yet %d driver calls (%d of them connection attempts) were made on its behalf: a rejected call must not reach the database",
			c.id, name, c.gotErr, x.drvCalls, x.opens)
	case c.reqRuns == 1:
		c.class = clAdmitted
		w.nAdmitted++
		if p.outcome == outPanic {
			if !c.panicked || !c.samePanic(c.gotPanic) {
				r.Fail("panic-not-reraised", "call %d (%s): handler panicked with %v (%s), call ended with panicked=%v value=%T(%v)", c.id, name, c.panicVal, panicKindNames[c.panicKind], c.panicked, c.gotPanic, c.gotPanic)
				return
			}
			r.Probe("panic-reraised")
		} else if ok, what := l.passThrough(c); !ok {
			r.Fail("result-changed", "call %d (%s), admitted: %s", c.id, name, what)
			return
		}
		c.ev = l.recordedAs(c)
		c.recLo, c.recHi = c.reqEnd, c.ret
		r.Probe("l2-admitted")
	default: // nothing ran
		seen, what := l.rejectionSeen(c)
		switch {
		case ctx != nil && l.ctxAware(p) && doneAtRet && c.gotErr != nil && c.gotErr == ctx.Err():
			c.class = clShortCircuit
			r.Probe("ctx-short-circuit")
		case seen:
			if l.kind == wrapRedis {
				if ok, what := redisRejectedClean(c); !ok {
					r.Fail("rejected-but-ran", "call %d (%s) was rejected: %s", c.id, name, what)
					return
				}
			}
			c.class = clRejected
			w.nRejected++
			c.ev = evDrop
			c.recLo, c.recHi = c.inv, c.ret
			r.Probe("l2-rejected")
		default:
			r.Fail("rejection-signal", "call %d (%s) did not run its handler and was not short-circuited by its context, but the caller does not see the rejection: %s", c.id, name, what)
		}
	}
}

// recordedAs: how the wrapper's documented acceptability classifies the outcome of an admitted call.
func (l *layer2) recordedAs(c *callRec) evKind {
	p := c.p
	switch l.kind {
	case wrapRedis:
		return redisRecordedAs(c)
	case wrapSQL:
		return sqlRecordedAs(c)
	}
	if l.kind == wrapREST && p.outcome != outPanic {
		// the status a server sends for what the handler did: 5xx is a failure
		if c.wantCode >= http.StatusInternalServerError {
			return evFail
		}
		return evSucc
	}
	if p.outcome == outOK || p.outcome == outAccErr {
		return evSucc
	}
	return evFail
}

// ---------------------------------------------------------------- the run

func bodyLayer2(r *simrt.Run, tier string) {
	t := r.Tape
	l := &layer2{r: r}
	l.kind = wrapREST + t.Intn(5)
	if l.kind == wrapRPCServer || l.kind == wrapRPCClient {
		l.lazyMode = t.Intn(3)
	}
	phases := drawPhases(t, tier, false, l.lazyMode > 0)
	if off := t.Intn(4); off > 0 {
		r.Sleep(time.Duration(t.Range(1, 999_999_999)))
	}
	ok := false
	switch l.kind {
	case wrapREST:
		ok = l.setupREST()
	case wrapRPCServer, wrapRPCClient:
		ok = l.setupRPC()
	case wrapRedis:
		ok = l.setupRedis()
	case wrapSQL:
		ok = l.setupSQL()
	}
	defer l.teardown()
	if !ok {
		return
	}
	r.Probe("layer2-" + wrapNames[l.kind])
	if len(l.ids) > 1 {
		r.Probe("layer2-two-identities")
	}
	// second-layer plans
	var descr []string
	total := 0
	for _, ph := range phases {
		ph.ident = 0
		if len(l.ids) > 1 {
			ph.ident = t.Intn(len(l.ids))
		}
		focus := ph.kind != phMixed // these phases build one identity's history
		ph.variant = t.Intn(12)
		ph.valKind = t.Intn(nKinds)
		if ph.kind == phSustained && l.kind == wrapREST && t.Intn(3) == 2 {
			ph.panicsOnly = true
		}
		if ph.kind == phSustained && l.kind == wrapREST {
			// ... and ONE header / write sequence
			ph.shape = drawShape(t, l.restShapes, true)
			ph.hsub = t.Intn(12)
		}
		if ph.slow && l.kind >= wrapRedis {
			ph.unslow()
		}
		if ph.kind == phSustained && l.kind == wrapSQL && t.Intn(2) == 1 {
			// the one failure kind of the phase: the database is unreachable
			ph.outage = true
		}
		n := 0
		for ci := range ph.plans {
			var out []plan
			for _, p := range ph.plans[ci] {
				if focus {
					l.fixPlan(&p, ph.ident)
				} else {
					l.fixPlan(&p, -1)
				}
				if ph.kind == phSustained {
					// sustained failure of ONE kind (one status, one gRPC code, one error value):
					// a kind that is wrongly recorded as success keeps the breaker closed
					if p.outcome != outPanic || l.kind == wrapREST {
						p.outcome, p.variant = outErr, ph.variant
					}
					p.kind = ph.valKind // one error identity / one panic value, too
					if l.kind == wrapREST {
						p.shape, p.hsub = ph.shape, ph.hsub
					}
					if l.kind == wrapRedis && p.outcome == outErr {
						p.variant = ph.variant % 2 // failures without retries and back-off: the phase stays dense
					}
					if ph.panicsOnly {
						p.outcome = outPanic
						p.variant = []int{0, 1, 3}[t.Intn(3)] // before anything is written, or after a 200
					}
				}
				out = append(out, p)
				// now and then a successful call of the other identity: it has its own breaker
				if focus && len(l.ids) > 1 && t.Intn(16) == 15 {
					q := plan{outcome: outOK}
					l.fixPlan(&q, 1-ph.ident)
					q.ctx = ctxNone
					out = append(out, q)
				}
			}
			ph.plans[ci] = out
			n += len(out)
		}
		total += n
		descr = append(descr, fmt.Sprintf("%s(gap=%v clients=%d calls=%d fail%%=%d think-profile=%d focus-identity=%d failure-kind=%d/%d panics-only=%v backend-unreachable=%v rest-handler-sequence=%s%s)", phaseNames[ph.kind], ph.gap, len(ph.plans), n, ph.failPct, ph.profile, ph.ident, ph.variant, ph.valKind, ph.panicsOnly, ph.outage, shapeNames[ph.shape], ph.longDescr()))
	}
	var lws []*world
	if l.lazyMode > 0 {
		// every identity is called by several clients at the start of the first phase: the
		// first lookups of a name that does not exist yet are concurrent
		var idx []int
		for k, id := range l.ids {
			idx = append(idx, k)
			lws = append(lws, id.w)
		}
		addFirstUse(t, phases[0], idx)
	}
	var idd []string
	for _, id := range l.ids {
		idd = append(idd, id.desc)
	}
	r.Sample(map[string]any{"layer": wrapNames[l.kind], "identities": idd, "phases": descr, "calls": total})
	if r.Tracing() {
		r.Logf("layer2 %s identities=%v phases=%v", wrapNames[l.kind], idd, descr)
	}

	settleAll := func(where string) {
		for i, id := range l.ids {
			id.w.settle()
			id.w.checkAccounting(fmt.Sprintf("%s, identity %d (%s)", where, i, id.desc))
		}
	}
	for pi, ph := range phases {
		if r.Failed() {
			return
		}
		if ph.gap > 0 {
			r.Sleep(ph.gap)
		}
		from := len(l.ids[ph.ident].w.calls)
		if ph.outage {
			b := l.ids[ph.ident].sql.b
			b.setDown(b.schedDown, true)
			r.Probe("sql-sustained-outage")
		}
		setOpensClass := func(w *world) {
			w.opensClass = "does-not-open"
			if ph.panicsOnly {
				w.opensClass = "does-not-open/rest-handler-panics"
				r.Probe("rest-sustained-panics")
			}
			if ph.outage {
				w.opensClass = "does-not-open/sql-backend-unreachable"
			}
			switch {
			case ph.shape == shPlain || ph.panicsOnly:
			case shapeSuperfluous(ph.shape):
				w.opensClass = "does-not-open/rest-superfluous-writeheader"
				r.Probe("rest-sustained-superfluous-writeheader")
			default:
				w.opensClass = "does-not-open/rest-informational-before-status"
				r.Probe("rest-sustained-1xx-before-5xx")
			}
		}
		if ph.slow {
			w := l.ids[ph.ident].w
			fromB, ok := runSlow(r, pi, ph, w, func(p *plan) { l.call(p) })
			if !ok {
				return
			}
			settleAll(fmt.Sprintf("after slow sustained phase %d", pi))
			if r.Failed() {
				return
			}
			setOpensClass(w)
			r.Probe("slow-sustained-" + wrapNames[l.kind])
			w.checkOpensSlow(from, fromB, ph.spacing)
			continue
		}
		if len(ph.plans) == 1 {
			for i := range ph.plans[0] {
				p := &ph.plans[0][i]
				w := l.ids[p.ident].w
				w.doThink(p.think)
				l.call(p)
				w.settle()
				w.checkAccounting(fmt.Sprintf("after call %d of identity %d (%s)", len(w.calls)-1, p.ident, l.ids[p.ident].desc))
				if r.Failed() {
					return
				}
			}
		} else {
			firstUse := pi == 0 && l.lazyMode > 0
			if firstUse {
				beginFirstUse(lws)
			}
			var tasks []*simrt.Task
			for ci := range ph.plans {
				ps := ph.plans[ci]
				tasks = append(tasks, r.Go(fmt.Sprintf("client%d", ci), func() {
					for i := range ps {
						if r.Failed() {
							return
						}
						l.ids[ps[i].ident].w.doThink(ps[i].think)
						l.call(&ps[i])
					}
				}))
			}
			if !r.JoinTimeout(12*time.Hour, tasks...) {
				r.Fail("stuck", "phase %d: calls did not return: %v", pi, r.AliveTasks())
				return
			}
			r.Probe("concurrent-phase")
			if firstUse {
				resolveFirstUse(r, lws)
				for _, id := range l.ids {
					id.brk = id.w.b
				}
				r.Probe("first-use-" + wrapNames[l.kind])
			}
			settleAll(fmt.Sprintf("after concurrent phase %d", pi))
		}
		if r.Failed() {
			return
		}
		if ph.kind == phSustained {
			w := l.ids[ph.ident].w
			setOpensClass(w)
			w.checkOpens(from, ph.spacing)
		}
		if ph.outage {
			b := l.ids[ph.ident].sql.b
			b.setDown(b.schedDown, false)
		}
	}
	if t.Chance(1, 4) {
		r.Sleep(time.Duration(t.Range(9500, 10500)) * time.Millisecond)
		settleAll("after the final pause")
	}
	for _, id := range l.ids {
		if id.w.nRejected > 0 {
			r.Probe("rejections-seen")
			r.Probe("l2-rejections-seen-" + wrapNames[l.kind])
		}
	}
	if total > 0 {
		r.Probe("nontrivial")
	}
}

func (l *layer2) teardown() {
	r := l.r
	switch l.kind {
	case wrapREST:
		// the metrics of the middleware flush through a periodical executor: let it go idle and quit
		r.MarkBackground(func(name string) bool {
			return strings.HasPrefix(name, "core/executors/periodicalexecutor.go")
		})
		r.Sleep(13 * time.Minute)
	case wrapRedis:
		l.teardownRedis()
	case wrapSQL:
		l.teardownSQL()
	}
}
