package c01

import (
	"fmt"
	"strings"
	"time"

	"verifsim/simrt"
)

// Long in-flight times.  A call may stay in flight (request running, promise unresolved, handler
// not returned yet) for much longer than the breaker's window; the property records it "exactly
// once as success or failure" - when it resolves, whatever happened to the window in between.
// The reference model already places the event of an admitted call between the end of its
// request and its return (recLo/recHi), so nothing changes in the oracle: exact accounting at
// quiescence, the admission law and "it does open" apply unchanged.

const window = nBuckets * bucketDur

const (
	longNone  = iota
	longRare  // 1 call in 12 of the phase
	longOften // 1 call in 3
	longAll   // every call, each one longer than the window
)

var longNames = []string{"", " long-calls=rare", " long-calls=every-third", " long-calls=all-beyond-window"}

// virtual time spent in long calls per phase (the run has a virtual-time budget)
const longBudget = 90 * time.Minute

func (ph *phase) longDescr() string {
	s := longNames[ph.long]
	if ph.slow {
		n := 0
		for _, ps := range ph.plans {
			n += len(ps)
		}
		d := time.Duration(0)
		if n > 0 {
			d = ph.plans[0][0].dur
		}
		s += fmt.Sprintf(" EVERY-CALL-SLOW(in flight ~%v each; opening wave of %d calls %v apart, then %d calls %v apart, one task per call)", d, ph.slowA, ph.slowSA, n-ph.slowA, ph.spacing)
	}
	return s
}

// drawLongDur draws how long a call stays in flight.  beyond: only times longer than the window.
func drawLongDur(t *simrt.Tape, beyond bool) time.Duration {
	lo := 0
	if beyond {
		lo = 3
	}
	switch v := lo + t.Intn(8-lo); v {
	case 0: // inside one slot
		return time.Duration(t.Range(1, int(bucketDur)-1))
	case 1: // seconds
		return time.Duration(t.Range(2000, 9999))*time.Millisecond + time.Duration(t.Intn(2))
	case 2: // the window's length, to the nanosecond
		return window + drawDelta(t)
	case 3:
		return window + 1
	case 4: // a little more than the window
		return window + time.Duration(t.Range(1, 2500))*time.Millisecond
	case 5: // several windows, on and off the slot grid
		return time.Duration(t.Range(2, 5))*window + []time.Duration{0, 1, -1, 123456789}[t.Intn(4)]
	case 6:
		return time.Duration(t.Range(20, 50)) * time.Second
	default: // minutes
		return time.Duration(t.Range(60, 600)) * time.Second
	}
}

func applyLong(t *simrt.Tape, p *plan, level int, budget *time.Duration) {
	switch level {
	case longNone:
		return
	case longRare:
		if t.Intn(12) != 11 {
			return
		}
	case longOften:
		if t.Intn(3) != 2 {
			return
		}
	}
	d := drawLongDur(t, level == longAll)
	if d > *budget {
		d = window + 1
	}
	*budget -= d
	p.dur, p.yields = d, 0
}

// drawSlowSustained turns a sustained-failure phase into one in which every call fails slowly:
// each call stays in flight for longer than the window.  A closed loop of a few clients cannot
// build a history then (a client is busy for > 10 s per admitted call), so the arrivals are an
// open loop, one task per call: an opening wave of 30-80 calls within less than one window (all
// admitted: nothing is recorded yet; they fail one in-flight time later, all inside one
// window), and, starting when the last of them has failed, the usual stream of 400-480 failing
// calls at 0-20 ms spacing, which the breaker must reject.
func drawSlowSustained(t *simrt.Tape, ph *phase, total int, registry bool) {
	ph.slow = true
	if ph.spacing == 0 {
		// one task per call: arrivals at one instant would all decide on the same history (no
		// call sees the rejection of another one), which is a burst, not a sustained stream
		ph.spacing = time.Microsecond
	}
	k := t.Range(30, 80)
	ph.slowA = k
	ph.slowSA = []time.Duration{0, time.Millisecond, 20 * time.Millisecond, 100 * time.Millisecond}[t.Intn(4)]
	d := drawLongDur(t, true)
	jitter := []int{0, 1_000_000, 1_000_000_000}[t.Intn(3)]
	var ps []plan
	for j := 0; j < k+total; j++ {
		p := drawPlan(t, 100, 0, registry, false)
		p.dur = d
		if jitter > 0 {
			p.dur += time.Duration(t.Intn(jitter))
		}
		p.think = think{kind: thFixed, d: ph.spacing}
		if j < k {
			p.think.d = ph.slowSA
		}
		ps = append(ps, p)
	}
	ph.plans = [][]plan{ps}
}

// unslow: the wrapper kind of the run cannot take hundreds of calls in flight cheaply (redis
// connection pool, database/sql pool): an ordinary sustained phase of one client.
func (ph *phase) unslow() {
	ph.slow = false
	for i := range ph.plans[0] {
		ph.plans[0][i].dur = 0
		ph.plans[0][i].think.d = ph.spacing
	}
	ph.slowA = 0
}

// runSlow runs a slow sustained phase: the dispatcher (the main task) starts one task per call.
// It returns the index of the first call of the stream in focus.calls.
func runSlow(r *simrt.Run, pi int, ph *phase, focus *world, call func(p *plan)) (int, bool) {
	ps := ph.plans[0]
	var tasks []*simrt.Task
	fromB := len(focus.calls)
	join := func() bool {
		if !r.JoinTimeout(12*time.Hour, tasks...) {
			r.Fail("stuck", "phase %d (every call slow): calls did not return: %v", pi, r.AliveTasks())
			return false
		}
		tasks = tasks[:0]
		return true
	}
	for i := range ps {
		if r.Failed() {
			break
		}
		p := &ps[i]
		if i == ph.slowA {
			// the opening wave has failed, to the last call
			if !join() {
				return 0, false
			}
			fromB = len(focus.calls)
			r.Probe("slow-sustained-opening-wave-resolved")
		}
		if p.think.d > 0 {
			r.Sleep(p.think.d)
		}
		tasks = append(tasks, r.Go(fmt.Sprintf("slow-call%d", i), func() { call(p) }))
	}
	if !join() {
		return 0, false
	}
	r.Probe("concurrent-phase")
	r.Probe("slow-sustained-phase")
	return fromB, !r.Failed()
}

// checkOpensSlow: "sustained total failure does make the breaker reject the overwhelming
// majority of calls" when every call takes longer than the window to fail.  calls[fromA:fromB]
// is the opening wave, calls[fromB:] the stream.  Asserted when the opening wave left at least
// 25 recorded failures and nothing else (the window held no accepted call at any time of the
// phase), on the last 300 arrivals of the stream.
func (w *world) checkOpensSlow(fromA, fromB int, spacing time.Duration) {
	r := w.r
	fails := 0
	var first, last time.Duration
	for _, c := range w.calls[fromA:fromB] {
		switch c.ev {
		case evSucc:
			return
		case evFail:
			if fails == 0 || c.recLo.t < first {
				first = c.recLo.t
			}
			if c.recHi.t > last {
				last = c.recHi.t
			}
			fails++
		}
	}
	if fails < 25 {
		r.Probe("slow-sustained-too-few-failures")
		return
	}
	cs := w.calls[fromB:]
	const tail = 300
	if len(cs) < tail+100 {
		return
	}
	if last-first >= window-bucketDur || cs[0].inv.t-first >= window-bucketDur {
		// injected stalls spread the failures of the opening wave over more than a window
		r.Probe("slow-sustained-wave-stretched")
		return
	}
	cs = cs[len(cs)-tail:]
	span := cs[len(cs)-1].inv.t - cs[0].inv.t
	if span > tail*spacing+2*time.Second {
		r.Probe("sustained-phase-stretched")
		return
	}
	rej, counted := 0, 0
	for _, c := range cs {
		switch c.class {
		case clRejected:
			rej++
			counted++
		case clAdmitted:
			if c.ev == evSucc {
				return
			}
			counted++
		}
	}
	r.Probe("slow-sustained-failure-checked")
	if counted >= tail/2 && rej*100 < counted*80 {
		class := "does-not-open"
		if w.opensClass != "" {
			class = w.opensClass
		}
		if !strings.HasSuffix(class, "/rest-superfluous-writeheader") { // one class per cause
			class += "/every-call-slow"
		}
		r.Fail(class, "sustained total failure, every call in flight for longer than the window: %d calls failed within %v, yet only %d of the last %d calls of the stream that followed (arriving within %v) were rejected",
			fails, last-first, rej, counted, span)
	}
}

// probeInFlight: evidence of how long admitted calls stayed in flight, per entry point.
func (w *world) probeInFlight(c *callRec) {
	if c.class != clAdmitted {
		return
	}
	r := w.r
	d := c.reqEnd.t - c.reqStart.t
	switch {
	case d < time.Second:
		return
	case d < window:
		r.Probe("in-flight-seconds")
	case d == window:
		r.Probe("in-flight-exactly-one-window")
	case d == window+1:
		r.Probe("in-flight-one-window+1ns")
	case d < 2*window:
		r.Probe("in-flight-beyond-window")
	case d < time.Minute:
		r.Probe("in-flight-several-windows")
	default:
		r.Probe("in-flight-minutes")
	}
	if d == window-1 {
		r.Probe("in-flight-one-window-1ns")
	}
	if d > window {
		r.Probe("resolved-after-window/" + entryNames[c.p.entry])
		if c.ev == evFail {
			r.Probe("failure-resolved-after-window")
		}
	}
}
