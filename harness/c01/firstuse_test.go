package c01

import (
	"fmt"
	"time"

	"github.com/zeromicro/go-zero/core/breaker"

	"verifsim/simrt"
)

// First use through the name registry.
//
// The package-level functions of core/breaker (Do, DoCtx, DoWithAcceptable(Ctx),
// DoWithFallback(Ctx), DoWithFallbackAcceptable(Ctx), GetBreaker) look the breaker up by name and
// create it on first use.  The property quantifies over "every breaker ... and every concurrent
// interleaving of such calls": the calls made under one name are calls on ONE breaker, also when
// the very first of them arrive concurrently.  In this dimension the harness does not create the
// breaker of a name: the first lookups are made by the client tasks of the run's first phase, at
// one virtual instant, through whatever entry point their plans draw (and, for some clients,
// through GetBreaker, whose result the client keeps and uses for its method calls, like the
// long-lived holders in go-zero: mon.Model, httpc.Service).  The oracles are the unchanged ones;
// the window compared at quiescence is the window of THE breaker of the name, i.e. of what
// breaker.GetBreaker(name) returns at that moment.
//
// The reference model aligns the window's slots to the creation instant of the breaker.  It is not
// observable here; it lies between the instant T at which the clients are started (the name is
// run-unique, nobody can have looked it up before) and the first instant at which something that
// follows a lookup is observed (a request or fallback runs, a call or GetBreaker returns).  All
// clients start at T and virtual time only moves when every task is blocked or when the scheduler
// injects a stall, so this interval is normally the single instant T.  When it is not (a stall hit
// one of the first lookups) the world is muted: no law / probing / accounting verdicts from it.
// "It does open" does not depend on the slot grid and stays asserted.
//
// Names created up front and names created by first use are mixed in one run (side names with
// short histories of their own, each with its own reference model), and a noise task may look up
// and switch off (NoBreakerFor) OTHER run-unique names at the same time; the property says nothing
// about switched-off names, so nothing is asserted about them - only that the watched names are
// not affected.

type firstUse struct {
	mode   int    // 0: every breaker is created by the harness before the first call (the old behaviour)
	lazy   []bool // per world: created by the first lookups of the clients
	noise  int    // 0 none; 1 lookups of other names; 2 also NoBreakerFor on other names
	noiseN int
	// per client of the first phase and world: the client starts with GetBreaker(name) and keeps the result
	holders [][]bool
}

func (fu *firstUse) anyLazy() bool {
	for _, l := range fu.lazy {
		if l {
			return true
		}
	}
	return false
}

func (fu *firstUse) nSide() int { return len(fu.lazy) - 1 }

// drawFirstUse: direct mode.  World 0 is the run's main breaker, the others are side names.
func drawFirstUse(t *simrt.Tape, registry bool) *firstUse {
	fu := &firstUse{lazy: []bool{false}}
	if !registry {
		return fu
	}
	fu.mode = t.Intn(4)
	switch fu.mode {
	case 0:
		return fu
	case 1: // the main name comes into being with the first calls
		fu.lazy[0] = true
	case 2: // ... next to side names, each created up front or by first use
		fu.lazy[0] = true
	case 3: // the main name is created up front, a side name by first use
	}
	if fu.mode >= 2 {
		for i, n := 0, 1+t.Intn(2); i < n; i++ {
			fu.lazy = append(fu.lazy, t.Bool())
		}
		if fu.mode == 3 && !fu.anyLazy() {
			fu.lazy[1] = true
		}
	}
	fu.noise = t.Intn(3)
	if fu.noise > 0 {
		fu.noiseN = 1 + t.Intn(3)
	}
	return fu
}

// heads puts, for every world in idx, one more call at the head of the clients' lists of the
// first phase: the same kind of call as the client's own first one, without think time, so that
// the first lookups of the name are made by several tasks at the instant the phase starts.  The
// first two clients always take part.
func addFirstUse(t *simrt.Tape, ph *phase, idx []int) {
	for ci := range ph.plans {
		if len(ph.plans[ci]) == 0 {
			continue
		}
		var head []plan
		for _, k := range idx {
			if ci >= 2 && t.Bool() {
				continue
			}
			q := ph.plans[ci][0]
			q.ident = k
			q.think = think{}
			head = append(head, q)
		}
		ph.plans[ci] = append(head, ph.plans[ci]...)
	}
}

func (fu *firstUse) drawHolders(t *simrt.Tape, clients int) {
	fu.holders = make([][]bool, clients)
	for ci := range fu.holders {
		fu.holders[ci] = make([]bool, len(fu.lazy))
		for k, l := range fu.lazy {
			if l && t.Intn(3) == 2 {
				fu.holders[ci][k] = true
			}
		}
	}
}

// beginFirstUse: the clients are about to be started; every by-name world counts its time from here.
func beginFirstUse(ws []*world) {
	a := time.Now()
	for _, w := range ws {
		if w.byName && w.b == nil {
			w.t0 = a
		}
	}
}

// takeHolders runs at the start of client ci of the first phase.
func (fu *firstUse) takeHolders(r *simrt.Run, ws []*world, ci int) {
	if fu.holders == nil || ci >= len(fu.holders) {
		return
	}
	for k, w := range ws {
		if !fu.holders[ci][k] {
			continue
		}
		h := breaker.GetBreaker(w.name)
		w.observe(w.stamp())
		if w.holders == nil {
			w.holders = map[int]breaker.Breaker{}
		}
		w.holders[r.CurrentID()] = h
		r.Probe("first-use-holder-taken")
	}
}

// resolveFirstUse runs on the main task when the first phase has ended (nothing in flight).
func resolveFirstUse(r *simrt.Run, ws []*world) {
	for _, w := range ws {
		if !w.byName || w.b != nil {
			continue
		}
		w.holders = nil
		switch {
		case !w.seen:
			// no lookup of the name was made (the run is being abandoned)
			w.dead = true
			r.Probe("first-use-never-looked-up")
		case w.seenAt != 0:
			w.dead = true
			r.Probe("first-use-creation-instant-unknown")
		default:
			r.Probe("first-use-concurrent")
		}
		w.b = breaker.GetBreaker(w.name)
	}
}

// noiseTask: registry traffic on other run-unique names while the watched names are first used.
func (fu *firstUse) noiseTask(r *simrt.Run, base string) func() {
	return func() {
		for i := 0; i < fu.noiseN; i++ {
			name := fmt.Sprintf("%s-other-%d", base, i)
			if fu.noise == 2 && i%2 == 0 {
				breaker.NoBreakerFor(name)
				r.Probe("first-use-noise-nobreakerfor-other-name")
			} else {
				breaker.GetBreaker(name)
			}
			_ = breaker.Do(name, func() error { return nil })
			r.Probe("first-use-noise-other-names")
			r.Yield()
		}
	}
}
