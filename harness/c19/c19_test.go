package c19

import (
	"context"
	"errors"
	"fmt"
	"io"
	"net"
	"os"
	"strings"
	"testing"
	"time"

	"github.com/zeromicro/go-zero/core/breaker"
	"github.com/zeromicro/go-zero/core/logx"
	"github.com/zeromicro/go-zero/core/stat"
	"github.com/zeromicro/go-zero/core/stores/redis"

	"verifsim/simharness"
	"verifsim/simredis"
	"verifsim/simrt"
)

// C19: Redis lock — one holder at a time, only the holder can release.
//
// Real: redis.RedisLock, lockscript.lua, delscript.lua, go-zero's redis wrapper (breaker and
// duration hooks), go-redis (pool, retries), miniredis (Lua, TTLs).  Stub: network, clock.
//
// Oracle layers (all from the property text):
//
//  1. server-order model, updated in srv.OnExec for every execution of one of the two scripts
//     (also when the reply is lost, also for every retry): per key (holder instance, expiry
//     instant).  A grant is legal only if no OTHER instance has an unexpired, unreleased grant
//     ("two-holders"); a denial is legal only if another instance holds the key unexpired; the
//     holder's own acquire refreshes; release answers 1 iff the caller is the holder, and then
//     the key is gone; a release by anybody else answers 0 and leaves the holder's key.  The
//     store itself (value, PTTL) is inspected directly after every execution and after every
//     client operation: the lease of a grant is seconds*1000+500 ms.
//  2. client-visible results: what Acquire/Release return must be the result of the last
//     execution of the script inside that call when they return no error; never true together
//     with an error.  A grant whose reply was lost makes the instance a holder for layer 1
//     without the client knowing.
//  3. critical-section gauge: a client that got true enters a harness critical section for a
//     duration strictly shorter than (lease - time since it invoked Acquire); at no time are
//     two clients inside the section of one key while both are within that self-computed
//     deadline.  (A client pushed beyond its deadline by an injected stall is the well known
//     paused-process problem of lease locks, not a violation of the statement; counted only.)
//
// Expiry instants: Redis keeps expiry with millisecond resolution and removes a key when the
// clock is *past* the deadline, miniredis removes it *at* the deadline; the statement says
// "lasts seconds+500 ms".  The oracle therefore requires "still held" up to expiry-1ms,
// "expired" from expiry+1ms on, and accepts either outcome strictly in between (the model then
// follows what the server answered).
//
// Instance ids are generated inside go-zero; they are learnt from the commands the server
// executed, are only compared for equality and never reach a verdict text, an Ev() or a draw.
//
// Generator dimensions (every first draw value is the plain choice): 1-6 instances, instances
// that are abandoned and replaced by a fresh RedisLock mid-run, key spellings (case / blank /
// prefix / long / binary variants of one another), SetExpire values 0, 1-5 and (wide runs) up to
// beyond 2^32 ms, chains of re-acquires by the holder, clock advances to the lease boundary, to
// the bare "seconds" mark and to half of the lease, caller contexts (none, explicit Background,
// value-carrying, timeouts, far / past deadlines, cancelled before and in the middle of the
// call), transport faults incl. error replies of several identities, store constructors, loss of
// the server's script cache (data kept, store reachable; every member) and restarts of the server
// with its data (faulty members).
//
// SetExpire from another task: RedisLock.SetExpire is an atomic store, i.e. callable while an
// Acquire / Release of the same instance is running on another goroutine.  In members that draw it
// (0 = never) a second task issues 1-2 SetExpire calls on the instance while its client task is
// inside Acquire / Release.  Every SetExpire call is an interval [begin, end] on a logical clock
// of the harness; a SetExpire is superseded for an Acquire when another SetExpire that began after
// it had returned has itself returned before the Acquire was invoked.  The lease of a grant must be
// seconds*1000+500 ms for the seconds of a SetExpire that is not superseded (exactly one value for
// an Acquire that overlaps no SetExpire: the latest one; either value for an Acquire that overlaps
// one).  The client's own critical section is sized by the shortest lease it may have been given.
//
// Script cache: Acquire and Release run Lua scripts by hash.  A server can lose its script cache
// while keeping its data and staying reachable (SCRIPT FLUSH, failover to a replica, restart with
// persistence behind a proxy); it then answers NOSCRIPT to EVALSHA and the client has to send the
// script itself.  That is no fault of the store: the statement's "Acquire succeeds ...", "re-acquiring
// by the holder refreshes", "Release frees the key when called by the holder" keep applying, so in a
// run without injected faults a call whose own context has not ended must not come back with an
// error (classes acquire-error-store-healthy[/script-cache-lost], release-error-store-healthy[...]).

const ms = time.Millisecond

const (
	opNone = iota
	opAcquire
	opRelease
)

var masked = map[string]bool{}

func init() {
	logx.Disable()
	// The breaker reports "breaker is open" through stat.Report, which rate-limits with a
	// process-global LessExecutor (one alert per 5 min of timex time): its lastTime would leak
	// from one simulated run into the next and change the number of scheduling points of a
	// later run.  stat's own init tries to switch the reporter off under "go test" (it looks
	// for the test.v flag, which is not registered yet at init time); do it explicitly.
	stat.SetReporter(nil)
	for _, c := range strings.Split(os.Getenv("VERIF_C19_MASK"), ",") {
		if c = strings.TrimSpace(c); c != "" {
			masked[c] = true
		}
	}
}

type execRec struct {
	granted bool  // acquire: script answered OK
	n       int64 // release: script answer
	at      time.Duration
	fault   simredis.Kind
}

type keyState struct {
	name   string        // the key as handed to NewRedisLock (may be long / binary: never printed raw)
	label  string        // printable name for verdicts and traces
	holder int           // instance index of the last grant that is neither released nor known expired; -1 none
	expiry time.Duration // of holder's grant
	inCS   []*client
}

// seWrite is one SetExpire call on an instance: an interval on the harness' logical clock.
type seWrite struct {
	val        int
	begin, end int64
	done       bool // the call has returned
}

type client struct {
	idx     int
	k       *keyState
	lock    *redis.RedisLock
	seconds int // value of the SetExpire call that began last (0 = none yet)
	// SetExpire calls that are not superseded for the current / next Acquire (the first entry of a
	// fresh instance is the constructor's "0 seconds"), values of the superseded ones, and whether a
	// SetExpire of another task ever began while an Acquire / Release of this instance was running
	writes     []*seWrite
	superseded []int
	raced      bool
	id      string
	idKnown bool

	op    int
	execs []execRec
	noscr int // NOSCRIPT replies the server gave to the current call

	// hold interval of the most recent grant: [from, until), ended early by a successful release
	holdActive  bool
	from, until time.Duration
	stale       bool // the most recent grant ended by expiry (not by release)

	everGranted, releasedSinceGrant bool

	csDeadline time.Duration
	nAcq, nRel int

	// caller context that is cancelled when the cancelAt-th command of the current call leaves the client
	cancelAt, sent int
	cancel         context.CancelFunc
	store          *redis.Redis
	storeKind      int
}

type world struct {
	r        *simrt.Run
	srv      *simredis.Server
	keys     []*keyState
	cls      []*client
	byTask   map[int]*client
	void     bool
	faulty   bool
	overstay bool
	wide     bool // SetExpire also draws long leases (minutes .. beyond 2^32 ms)
	log      []string
	newStore func(kind int) *redis.Redis
	maxSec   int
	lost     int // times the server lost its script cache so far (restarts included)
	clk      int64 // logical clock for SetExpire / Acquire intervals
	concSet  int   // SetExpire from another task during Acquire / Release: 0 never, 1 some calls, 2 every other call
	// a verdict about a script executed by a task that is no client of the harness has been given
	// (lock-script-outside-call / lock-script-by-unknown-caller)
	foreignVerdict bool
}

func (w *world) fail(class, format string, a ...any) {
	if w.void {
		return
	}
	if masked[class] {
		w.r.Probe("masked-finding-" + class)
		return
	}
	w.r.Fail(class, format, a...)
}

func leaseOf(seconds int) time.Duration { return time.Duration(seconds*1000+500) * ms }

func (w *world) tick() int64 { w.clk++; return w.clk }

func (w *world) newClient(k *keyState, store *redis.Redis, kind int, lock *redis.RedisLock) *client {
	return &client{idx: len(w.cls), k: k, store: store, storeKind: kind, lock: lock, writes: []*seWrite{{done: true}}}
}

// beginCall is the invocation of an Acquire at logical instant now: SetExpire calls that were
// overwritten by a later SetExpire which returned before now cannot be what this (or any later)
// Acquire uses.
func (cl *client) beginCall(now int64) {
	var keep []*seWrite
	for _, x := range cl.writes {
		dom := false
		if x.done {
			for _, y := range cl.writes {
				if y.done && y.end < now && y.begin > x.end {
					dom = true
					break
				}
			}
		}
		if dom {
			cl.superseded = append(cl.superseded, x.val)
		} else {
			keep = append(keep, x)
		}
	}
	cl.writes = keep
}

// leases an Acquire invoked at the last beginCall may be granted (distinct values, oldest SetExpire first).
func (cl *client) leases() []time.Duration {
	var out []time.Duration
next:
	for _, x := range cl.writes {
		l := leaseOf(x.val)
		for _, o := range out {
			if o == l {
				continue next
			}
		}
		out = append(out, l)
	}
	return out
}

func (cl *client) minLease() time.Duration {
	ls := cl.leases()
	m := ls[0]
	for _, l := range ls {
		if l < m {
			m = l
		}
	}
	return m
}

// who names the owner of a stored value without ever printing it.
func (w *world) who(val string) string {
	for _, c := range w.cls {
		if c.idKnown && c.id == val {
			return fmt.Sprintf("the id of instance %d", c.idx)
		}
	}
	return "an unknown value"
}

func (w *world) scrub(s string) string {
	for _, c := range w.cls {
		if c.idKnown {
			s = strings.ReplaceAll(s, c.id, fmt.Sprintf("<id%d>", c.idx))
		}
	}
	if len(s) > 160 {
		s = s[:160]
	}
	return strings.TrimSpace(s)
}

// settle drops a holder whose lease is certainly over.
func (w *world) settle(k *keyState, now time.Duration) {
	if k.holder >= 0 && now >= k.expiry+ms {
		h := w.cls[k.holder]
		h.stale = true
		h.holdActive = false
		k.holder = -1
	}
	for _, c := range w.cls {
		if c.k == k && c.holdActive && now >= c.until+ms {
			c.holdActive = false
			c.stale = true
		}
	}
}

// certainlyHeld: the lease that ends at expiry is certainly still running at now.
func certainlyHeld(now, expiry time.Duration) bool { return now <= expiry-ms }

func (w *world) onExec(e *simredis.Exec) {
	name := e.Cmd.Name()
	if name != "EVAL" && name != "EVALSHA" {
		return
	}
	r := w.r
	a := e.Cmd.Args
	rep := string(e.Reply)
	cl := w.byTask[e.Cmd.Task]
	if cl == nil || cl.op == opNone {
		// The lock API is synchronous: a script of an instance runs inside that instance's
		// Acquire/Release call, on the caller's task.  Anything else (a renewal loop, a release
		// finished in the background) changes or ends a lease outside any call.
		if w.void {
			return
		}
		w.foreignVerdict = true
		for _, c := range w.cls {
			if len(a) >= 5 && c.idKnown && c.id == a[4] && c.k.name == a[3] {
				w.fail("lock-script-outside-call", "a lock script with the id of instance %d was executed on %s at %v by a task that is not inside an Acquire/Release call of that instance (%d words, answer %q): the lease of an instance may only change through its own calls", c.idx, c.k.label, e.At, len(a), w.scrub(rep))
				return
			}
		}
		w.fail("lock-script-by-unknown-caller", "a script (%d words) was executed at %v by task %d, which is not inside any Acquire/Release call of the harness, with an id no instance has used", len(a), e.At, e.Cmd.Task)
		return
	}
	if strings.HasPrefix(rep, "-NOSCRIPT") {
		r.Probe("noscript-fallback")
		cl.noscr++
		if w.lost > 0 {
			r.Probe("noscript-after-script-cache-loss")
		}
		return
	}
	want := 6
	if cl.op == opRelease {
		want = 5
	}
	if len(a) != want || a[2] != "1" {
		w.fail("script-call-shape", "instance %d: %s called with %d words (numkeys %q) during %s", cl.idx, name, len(a), a[2], opName(cl.op))
		return
	}
	k := cl.k
	if a[3] != k.name {
		w.fail("script-wrong-key", "instance %d on %s ran its script on another key: %s", cl.idx, k.label, show(a[3]))
		return
	}
	id := a[4]
	if !cl.idKnown {
		cl.id, cl.idKnown = id, true
		for _, o := range w.cls {
			if o != cl && o.idKnown && o.id == id {
				// ids are tape-derived under simrand (two 63-bit draws each): equal ids cannot
				// come out of a generated tape; a tape shrunk to zeroes would make them equal, the
				// class of its own keeps the shrinker from accepting such a candidate
				w.fail("instance-ids-collide", "instances %d and %d use the same id: the lock cannot tell them apart", o.idx, cl.idx)
				w.void = true
			}
		}
	} else if cl.id != id {
		w.fail("instance-id-not-stable", "instance %d sent a different id than in its earlier commands", cl.idx)
		return
	}
	if w.void {
		return
	}
	if strings.HasPrefix(rep, "-") {
		w.fail("script-error-reply", "instance %d %s: the server answered the script with an error: %s", cl.idx, opName(cl.op), w.scrub(rep))
		return
	}
	now := e.At
	r.Probe("oracle")
	if cl.op == opAcquire {
		w.execAcquire(cl, e, now, rep, id)
	} else {
		w.execRelease(cl, e, now)
	}
}

// show prints a key spelling safely (quoted, shortened).
func show(key string) string {
	if len(key) > 48 {
		return fmt.Sprintf("%q...(%d bytes)...%q", key[:16], len(key), key[len(key)-8:])
	}
	return fmt.Sprintf("%q", key)
}

func opName(op int) string { return [...]string{"none", "Acquire", "Release"}[op] }

func lostReply(f simredis.Kind) bool {
	return f == simredis.DropReply || f == simredis.ResetAfter || f == simredis.Truncate
}

func (w *world) execAcquire(cl *client, e *simredis.Exec, now time.Duration, rep, id string) {
	r, k := w.r, cl.k
	var granted bool
	switch rep {
	case "+OK\r\n", "$2\r\nOK\r\n":
		granted = true
	case "$-1\r\n", "_\r\n", "*-1\r\n":
	default:
		w.fail("acquire-script-unknown-reply", "instance %d Acquire: script answered %q", cl.idx, w.scrub(rep))
		return
	}
	// boundary probes: an acquire of a non-holder landing exactly around the holder's expiry
	if k.holder >= 0 && k.holder != cl.idx {
		switch now - k.expiry {
		case -ms:
			r.Probe("boundary-lease-minus-1ms")
		case 0:
			r.Probe("boundary-lease-exact")
		case ms:
			r.Probe("boundary-lease-plus-1ms")
		}
	}
	w.settle(k, now)
	cl.execs = append(cl.execs, execRec{granted: granted, at: now, fault: e.Fault})
	for _, o := range w.cls {
		if o != cl && o.k == k && o.op == opAcquire {
			r.Probe("acquire-executed-while-another-acquire-on-the-key-is-in-flight")
			break
		}
	}
	g := int64(0)
	if granted {
		g = 1
	}
	r.Ev("exec-acquire", int64(cl.idx), g)
	if r.Tracing() {
		r.Logf("  server@%v: acquire-script by instance %d on %s -> granted=%v (model holder %d, expiry %v, fault %v)", now, cl.idx, k.label, granted, k.holder, k.expiry, e.Fault)
	}
	if !granted {
		switch {
		case k.holder == -1:
			w.fail("acquire-denied-while-free", "instance %d Acquire on %s at %v was denied although nobody holds the key (last lease ended, or key released)", cl.idx, k.label, now)
		case k.holder == cl.idx:
			w.fail("reacquire-denied-to-holder", "instance %d Acquire on %s at %v was denied although it is the holder itself (lease until %v)", cl.idx, k.label, now, k.expiry)
		case certainlyHeld(now, k.expiry):
			r.Probe("denied-while-held")
			if cl.stale {
				r.Probe("expired-holder-denied-while-new-holder")
			}
		default:
			r.Probe("denied-inside-expiry-millisecond")
		}
		return
	}
	// mutual exclusion of hold intervals
	for _, o := range w.cls {
		if o == cl || o.k != k || !o.holdActive {
			continue
		}
		if certainlyHeld(now, o.until) {
			w.fail("two-holders", "key %s: instance %d was granted the lock at %v while instance %d holds it since %v with a lease until %v and has not released it", k.label, cl.idx, now, o.idx, o.from, o.until)
		} else {
			r.Probe("granted-inside-expiry-millisecond")
		}
		o.holdActive = false
		o.stale = true
	}
	if k.holder == cl.idx {
		r.Probe("re-acquire-by-holder")
	} else if cl.stale {
		r.Probe("acquire-after-own-lease-expired")
	}
	if lostReply(e.Fault) {
		r.Probe("reply-lost-after-grant")
	}
	// the lease of this grant is what the store says right after the execution; it must be the lease
	// of a SetExpire that is not superseded for this Acquire
	mr := w.srv.MR()
	ttl := mr.TTL(k.name)
	allowed := cl.leases()
	L, leaseOK := allowed[len(allowed)-1], false
	for i, a := range allowed {
		if a == ttl {
			L, leaseOK = ttl, true
			if len(allowed) > 1 {
				if i == 0 {
					r.Probe("grant-used-the-lease-from-before-the-overlapping-setexpire")
				} else {
					r.Probe("grant-used-the-lease-of-an-overlapping-setexpire")
				}
			}
		}
	}
	if len(allowed) > 1 {
		r.Probe("grant-with-more-than-one-lease-allowed")
	} else if cl.raced {
		r.Probe("grant-with-one-lease-allowed-after-an-earlier-call-overlapped-a-setexpire")
	}
	switch {
	case L >= (1<<32)*ms:
		r.Probe("grant-with-lease-beyond-2^32-ms")
	case L >= (1<<31)*ms:
		r.Probe("grant-with-lease-beyond-2^31-ms")
	case L > time.Hour+500*ms:
		r.Probe("grant-with-lease-longer-than-one-hour")
	case L > 6*time.Second:
		r.Probe("grant-with-lease-of-minutes")
	case L == 500*ms:
		r.Probe("grant-with-zero-seconds")
	}
	k.holder, k.expiry = cl.idx, now+L
	cl.holdActive, cl.from, cl.until, cl.stale = true, now, now+L, false
	cl.everGranted, cl.releasedSinceGrant = true, false
	// the store right after the grant
	if v, err := mr.Get(k.name); err != nil || v != id {
		w.fail("granted-but-key-not-holders", "key %s after the grant to instance %d: stored value is %s (err %v)", k.label, cl.idx, w.who(v), err)
		return
	}
	if leaseOK {
		return
	}
	if cl.raced {
		for _, s := range cl.superseded {
			if leaseOf(s) == ttl {
				w.fail("lease-of-superseded-setexpire-after-concurrent-setexpire", "key %s granted to instance %d at %v: time to live is %v, the lease for seconds=%d, but that setting was followed by SetExpire call(s) that had returned before this Acquire was invoked (the lease must be %v); another task called SetExpire on the instance while an earlier Acquire / Release of it was running", k.label, cl.idx, now, ttl, s, allowed)
				return
			}
		}
	}
	if len(allowed) > 1 {
		w.fail("lease-length-wrong", "key %s granted to instance %d at %v while SetExpire was called from another task: time to live is %v, the lease must be one of %v", k.label, cl.idx, now, ttl, allowed)
		return
	}
	w.fail("lease-length-wrong", "key %s granted to instance %d with seconds=%d: time to live is %v, the lease must be %v", k.label, cl.idx, cl.seconds, ttl, L)
}

func (w *world) execRelease(cl *client, e *simredis.Exec, now time.Duration) {
	r, k := w.r, cl.k
	n, ok := simredis.ParseInt(e.Reply)
	if !ok || (n != 0 && n != 1) {
		w.fail("release-script-unknown-reply", "instance %d Release: script answered %q", cl.idx, w.scrub(string(e.Reply)))
		return
	}
	w.settle(k, now)
	cl.execs = append(cl.execs, execRec{n: n, at: now, fault: e.Fault})
	r.Ev("exec-release", int64(cl.idx), n)
	mr := w.srv.MR()
	exists := mr.Exists(k.name)
	val, _ := mr.Get(k.name)
	switch {
	case !cl.everGranted:
		r.Probe("release-by-instance-that-never-acquired")
	case cl.releasedSinceGrant:
		r.Probe("release-again-after-successful-release")
	}
	if r.Tracing() {
		r.Logf("  server@%v: release-script by instance %d on %s -> %d (model holder %d, expiry %v, key exists after=%v, fault %v)", now, cl.idx, k.label, n, k.holder, k.expiry, exists, e.Fault)
	}
	switch {
	case k.holder == cl.idx:
		held := certainlyHeld(now, k.expiry)
		if held && n != 1 {
			w.fail("release-by-holder-returned-0", "instance %d released %s at %v as the current holder (lease until %v) but the script answered 0", cl.idx, k.label, now, k.expiry)
		}
		if exists {
			w.fail("release-by-holder-key-still-present", "instance %d released %s at %v as the current holder (script answered %d) but the key still exists with %s", cl.idx, k.label, now, n, w.who(val))
		}
		if n == 1 {
			r.Probe("release-by-holder")
			cl.releasedSinceGrant = true
			if now-k.expiry == -ms {
				r.Probe("release-at-lease-minus-1ms")
			}
			cl.stale = false
		} else {
			r.Probe("release-inside-expiry-millisecond-returned-0")
			cl.stale = true
		}
		k.holder = -1
		cl.holdActive = false
	case k.holder >= 0:
		h := w.cls[k.holder]
		late := cl.stale
		if certainlyHeld(now, k.expiry) {
			if !exists || val != h.id {
				if late {
					w.fail("late-release-removed-new-holders-key", "instance %d, whose own lease on %s had expired, called Release at %v: afterwards the key of the new holder instance %d (lease until %v) is gone or changed (exists=%v, value %s)", cl.idx, k.label, now, h.idx, k.expiry, exists, w.who(val))
				} else {
					w.fail("foreign-release-removed-holders-key", "instance %d, not the holder of %s, called Release at %v: afterwards the key of holder instance %d (lease until %v) is gone or changed (exists=%v, value %s)", cl.idx, k.label, now, h.idx, k.expiry, exists, w.who(val))
				}
			}
			if late {
				r.Probe("late-release-by-expired-holder-while-new-holder")
			} else {
				r.Probe("release-by-non-holder-while-held")
			}
		} else if !exists {
			// the holder's lease ended inside its last millisecond
			k.holder = -1
			h.holdActive, h.stale = false, true
		}
		if n != 0 {
			w.fail("release-by-non-holder-returned-1", "instance %d called Release on %s at %v while instance %d is the holder: script answered 1", cl.idx, k.label, now, h.idx)
		}
	default:
		if cl.stale {
			r.Probe("late-release-by-expired-holder")
		}
		if n != 0 {
			w.fail("release-of-free-key-returned-1", "instance %d called Release on %s at %v while nobody holds it: script answered 1", cl.idx, k.label, now)
		}
		if exists {
			w.fail("key-outlives-lease", "key %s exists at %v (value %s) although every grant is released or past its lease", k.label, now, w.who(val))
		}
	}
}

// checkStore compares the store with the model at a moment when nothing is in flight on the
// calling task (other tasks are parked: one task runs at a time).
func (w *world) checkStore(k *keyState) {
	if w.void {
		return
	}
	w.srv.Sync()
	now := w.r.Elapsed()
	w.settle(k, now)
	mr := w.srv.MR()
	exists := mr.Exists(k.name)
	if k.holder < 0 {
		if exists {
			v, _ := mr.Get(k.name)
			w.fail("key-outlives-lease", "key %s exists at %v (value %s, ttl %v) although every grant is released or past its lease", k.label, now, w.who(v), mr.TTL(k.name))
		}
		return
	}
	if !certainlyHeld(now, k.expiry) {
		return
	}
	h := w.cls[k.holder]
	v, _ := mr.Get(k.name)
	if !exists || v != h.id {
		w.fail("holders-key-lost", "key %s at %v: instance %d holds it with a lease until %v but the store has exists=%v value %s", k.label, now, h.idx, k.expiry, exists, w.who(v))
		return
	}
	d := mr.TTL(k.name) - (k.expiry - now)
	if d <= -ms || d >= ms {
		w.fail("lease-length-wrong", "key %s at %v: time to live %v, the lease of instance %d runs until %v (%v left)", k.label, now, mr.TTL(k.name), h.idx, k.expiry, k.expiry-now)
	}
}

func weighted(t *simrt.Tape, w ...int) int {
	sum := 0
	for _, x := range w {
		sum += x
	}
	v := t.Intn(sum)
	for i, x := range w {
		if v < x {
			return i
		}
		v -= x
	}
	return 0
}

type ctxKey struct{}

// drawCtx: 0 = the plain method (context.Background inside go-zero).
func (w *world) drawCtx(cl *client) (context.Context, context.CancelFunc, string) {
	t, r := w.r.Tape, w.r
	cl.cancelAt, cl.sent, cl.cancel = 0, 0, nil
	switch weighted(t, 14, 4, 1, 2, 2, 1) {
	case 1:
		d := []time.Duration{10 * time.Second, 3500 * ms, time.Second, 50 * ms, ms, time.Hour}[t.Intn(6)]
		ctx, c := context.WithTimeout(context.Background(), d)
		if d == time.Hour {
			r.Probe("ctx-far-deadline")
		}
		return ctx, c, fmt.Sprintf("Ctx[timeout %v]", d)
	case 2:
		ctx, c := context.WithCancel(context.Background())
		c()
		return ctx, c, "Ctx[already cancelled]"
	case 3:
		// the non-plain entry point with a context that never ends: explicit Background / TODO,
		// bare or carrying a value
		r.Probe("ctx-explicit-background")
		switch t.Intn(3) {
		case 1:
			return context.TODO(), func() {}, "Ctx[TODO]"
		case 2:
			return context.WithValue(context.Background(), ctxKey{}, "v"), func() {}, "Ctx[Background+value]"
		}
		return context.Background(), func() {}, "Ctx[Background]"
	case 4:
		// cancelled by the caller in the middle of the call: when the n-th command of this call
		// (handshake of a new connection included) leaves the client
		ctx, c := context.WithCancel(context.Background())
		if t.Bool() {
			ctx = context.WithValue(ctx, ctxKey{}, "v")
		}
		cl.cancelAt, cl.cancel = t.Range(1, 3), c
		return ctx, c, fmt.Sprintf("Ctx[cancelled at command %d of the call]", cl.cancelAt)
	case 5:
		// deadline already over when the call is made (DeadlineExceeded, not Canceled)
		r.Probe("ctx-deadline-in-the-past")
		ctx, c := context.WithDeadline(context.Background(), time.Now().Add(-time.Duration(t.Range(0, 1000))*ms))
		return ctx, c, "Ctx[deadline in the past]"
	}
	return nil, func() {}, ""
}

// onSend runs on the sending task when a command leaves the client.
func (w *world) onSend(c *simredis.Cmd) {
	cl := w.byTask[c.Task]
	if cl == nil && w.foreignVerdict {
		// The verdict on this run is in (a lock script was executed by a task that is no client of
		// the harness).  Such a task can go on for as long as the clients sleep - a renewal loop
		// ticking every 166 ms under a client that waits for the end of a lease of days - and use up
		// the step budget of the run, which would turn the verdict into an engine error: park it.
		w.r.Probe("foreign-task-parked-after-verdict")
		w.r.Sleep(200 * 365 * 24 * time.Hour)
	}
	if cl == nil || cl.op == opNone || cl.cancelAt == 0 {
		return
	}
	cl.sent++
	if cl.sent == cl.cancelAt {
		w.r.Probe("ctx-cancelled-mid-call")
		cl.cancel()
	}
}

// ctxErrProbe records which error identity the caller saw (coverage only).
func (w *world) errProbe(err error) {
	var ne net.Error
	var re interface{ RedisError() }
	switch {
	case errors.Is(err, context.Canceled):
		w.r.Probe("error-is-context-canceled")
	case errors.Is(err, context.DeadlineExceeded):
		w.r.Probe("error-is-context-deadline-exceeded")
	case errors.Is(err, breaker.ErrServiceUnavailable):
		w.r.Probe("error-is-breaker-open")
	case errors.As(err, &re):
		w.r.Probe("error-is-server-error-reply")
	case errors.As(err, &ne) && ne.Timeout():
		w.r.Probe("error-is-network-timeout")
	case errors.Is(err, io.EOF) || errors.As(err, &ne):
		w.r.Probe("error-is-connection-failure")
	default:
		w.r.Probe("error-is-something-else")
	}
}

// healthyStoreError judges an error that Acquire / Release returned.  In a run without injected
// faults the store is reachable and healthy the whole time (no transport fault, no refused dial,
// no outage, no restart; losing the script cache is none of these: the server keeps answering and
// keeps its data), so the only reasons for a call not to do what the statement says are the
// caller's own context having ended and go-zero's breaker (counted, not judged here).
func (w *world) healthyStoreError(cl *client, op, class string, err error, ctxEnded bool) {
	r := w.r
	switch {
	case w.faulty:
		return
	case ctxEnded:
		r.Probe("fault-free-run-error-by-own-context")
		return
	case errors.Is(err, breaker.ErrServiceUnavailable):
		r.Probe("fault-free-run-error-breaker-open")
		return
	}
	if cl.noscr > 0 && len(cl.execs) == 0 {
		w.fail(class+"-error-store-healthy/script-cache-lost", "instance %d %s on %s at %v failed (%s) in a run without any injected fault, with a live context: the reachable server answered NOSCRIPT %d time(s) to this call and the script was never executed for it (script cache lost %d time(s) so far in this run; data kept, store reachable)", cl.idx, op, cl.k.label, r.Elapsed(), w.scrub(err.Error()), cl.noscr, w.lost)
		return
	}
	w.fail(class+"-error-store-healthy", "instance %d %s on %s at %v failed (%s) in a run without any injected fault, with a live context (server executions of the script in this call: %d)", cl.idx, op, cl.k.label, r.Elapsed(), w.scrub(err.Error()), len(cl.execs))
}

func b2i(b bool) int64 {
	if b {
		return 1
	}
	return 0
}

func (w *world) note(cl *client, format string, a ...any) {
	s := fmt.Sprintf("@%v i%d ", w.r.Elapsed(), cl.idx) + fmt.Sprintf(format, a...)
	if len(w.log) < 40 {
		w.log = append(w.log, s)
	}
	w.r.Logf("%s", s)
}

// acquire performs one Acquire/AcquireCtx and checks the client-visible result.
func (w *world) acquire(cl *client) (ok bool, err error, inv, L time.Duration) {
	r := w.r
	ctx, cancel, how := w.drawCtx(cl)
	cl.op, cl.execs, cl.noscr = opAcquire, cl.execs[:0], 0
	inv = r.Elapsed()
	cl.beginCall(w.tick())
	cl.nAcq++
	setter := w.setExpireFromAnotherTask(cl, "acquire")
	if ctx == nil {
		ok, err = cl.lock.Acquire()
	} else {
		ok, err = cl.lock.AcquireCtx(ctx)
		if err == nil && ctx.Err() != nil {
			r.Probe("call-returned-no-error-although-ctx-ended-mid-call")
		}
	}
	ctxEnded := ctx != nil && ctx.Err() != nil
	cancel()
	cl.op, cl.cancelAt = opNone, 0
	if setter != nil {
		r.Join(setter)
	}
	// the caller cannot know which of the overlapping SetExpire values its lease has: it relies on the shortest
	L = cl.minLease()
	if err != nil {
		w.errProbe(err)
		w.healthyStoreError(cl, "Acquire", "acquire", err, ctxEnded)
	}
	n := len(cl.execs)
	r.Ev("acquire", int64(cl.idx), b2i(ok), b2i(err != nil), int64(n))
	w.note(cl, "Acquire%s leases allowed=%v -> (%v, err=%v) server executions=%d", how, cl.leases(), ok, err != nil, n)
	if n >= 2 {
		r.Probe("retry-executed-twice")
	}
	if err != nil {
		r.Probe("acquire-error")
		if ok {
			w.fail("acquire-true-with-error", "instance %d Acquire returned true together with an error", cl.idx)
		}
		if n > 0 && cl.execs[n-1].granted {
			r.Probe("caller-sees-error-but-server-granted")
		}
	} else if n == 0 {
		w.fail("acquire-result-without-execution", "instance %d Acquire returned (%v, nil) although the server executed no script for it", cl.idx, ok)
	} else if last := cl.execs[n-1]; ok && !last.granted {
		w.fail("acquire-true-but-server-denied", "instance %d Acquire on %s returned true, but the script it ran at %v was denied (the key is held by somebody else)", cl.idx, cl.k.label, last.at)
	} else if !ok && last.granted {
		w.fail("acquire-false-but-server-granted", "instance %d Acquire on %s returned (false, nil), but the script it ran at %v was granted", cl.idx, cl.k.label, last.at)
	}
	w.checkStore(cl.k)
	return
}

func (w *world) release(cl *client) {
	r := w.r
	ctx, cancel, how := w.drawCtx(cl)
	cl.op, cl.execs, cl.noscr = opRelease, cl.execs[:0], 0
	cl.nRel++
	setter := w.setExpireFromAnotherTask(cl, "release")
	var ok bool
	var err error
	if ctx == nil {
		ok, err = cl.lock.Release()
	} else {
		ok, err = cl.lock.ReleaseCtx(ctx)
	}
	ctxEnded := ctx != nil && ctx.Err() != nil
	cancel()
	cl.op, cl.cancelAt = opNone, 0
	if setter != nil {
		r.Join(setter)
	}
	if err != nil {
		w.errProbe(err)
		w.healthyStoreError(cl, "Release", "release", err, ctxEnded)
	}
	n := len(cl.execs)
	r.Ev("release", int64(cl.idx), b2i(ok), b2i(err != nil), int64(n))
	w.note(cl, "Release%s -> (%v, err=%v) server executions=%d", how, ok, err != nil, n)
	if n >= 2 {
		r.Probe("retry-executed-twice")
	}
	if err != nil {
		r.Probe("release-error")
		if ok {
			w.fail("release-true-with-error", "instance %d Release returned true together with an error", cl.idx)
		}
	} else if n == 0 {
		w.fail("release-result-without-execution", "instance %d Release returned (%v, nil) although the server executed no script for it", cl.idx, ok)
	} else if last := cl.execs[n-1]; ok && last.n != 1 {
		w.fail("release-true-but-script-0", "instance %d Release on %s returned true, but the script it ran at %v answered 0 (it was not the holder)", cl.idx, cl.k.label, last.at)
	} else if !ok && last.n == 1 {
		w.fail("release-false-but-script-1", "instance %d Release on %s returned (false, nil), but the script it ran at %v removed its key", cl.idx, cl.k.label, last.at)
	} else if !ok {
		for _, x := range cl.execs[:n-1] {
			if x.n == 1 {
				// at-least-once delivery: the first execution freed the key, its reply was lost,
				// the retry finds nothing to delete
				r.Probe("release-retry-reports-false-after-freeing")
			}
		}
	}
	w.checkStore(cl.k)
}

// think: 0 = none.
func (w *world) think(cl *client) {
	t, r := w.r.Tape, w.r
	switch weighted(t, 5, 2, 2, 3, 2) {
	case 1:
		r.Sleep(time.Duration(t.Range(1, 50)) * ms)
	case 2:
		r.Sleep(time.Duration(t.Range(100, 3000)) * ms)
	case 4:
		// rendezvous: wait for the next common instant (multiples of 250 ms), so that clients whose
		// clocks have drifted apart call at the same moment again
		const grid = 250 * ms
		r.Probe("think-to-common-instant")
		r.Sleep(grid - r.Elapsed()%grid)
	case 3:
		// land exactly around a landmark of the current lease on the key: its end (0), the end of
		// the bare configured seconds (500 ms before the end), the middle of the lease
		k := cl.k
		off := time.Duration(t.Intn(3)-1) * ms // -1ms, 0, +1ms
		if k.holder >= 0 {
			target, probe := k.expiry+off, "think-to-lease-boundary"
			switch weighted(t, 6, 2, 1) {
			case 1:
				target, probe = k.expiry-500*ms+off, "think-to-seconds-mark"
			case 2:
				from := w.cls[k.holder].from
				target, probe = from+(k.expiry-from)/2+off, "think-to-half-lease"
			}
			if d := target - r.Elapsed(); d > 0 {
				r.Probe(probe)
				if d > time.Hour {
					r.Probe("clock-advance-longer-than-one-hour")
				}
				r.Sleep(d)
				return
			}
		}
		r.Yield()
	}
}

// critical is the harness critical section of a client that was told "true".
func (w *world) critical(cl *client, inv, L time.Duration) {
	t, r, k := w.r.Tape, w.r, cl.k
	now := r.Elapsed()
	deadline := inv + L
	remaining := deadline - now
	if w.overstay {
		// swarm member: the client does not respect its lease; only the model checks apply
		var d time.Duration
		switch t.Intn(5) {
		case 0:
			d = remaining - ms
		case 1:
			d = remaining
		case 2:
			d = remaining + ms
		case 3:
			d = remaining + time.Duration(t.Range(2, 3000))*ms
		default:
			d = time.Duration(t.Range(0, 50)) * ms
		}
		if d > 0 {
			r.Sleep(d)
		}
		if r.Elapsed() >= deadline {
			r.Probe("client-held-longer-than-lease")
		}
		return
	}
	if remaining <= ms {
		r.Probe("lease-over-before-critical-section")
		return
	}
	maxMs := int((remaining - 1) / ms) // dur <= maxMs ms < remaining
	var d time.Duration
	switch weighted(t, 3, 3, 2, 3) {
	case 1:
		hi := 50
		if maxMs < hi {
			hi = maxMs
		}
		d = time.Duration(t.Range(0, hi)) * ms
	case 2:
		d = time.Duration(maxMs) * ms
		r.Probe("critical-section-up-to-lease-end")
	case 3:
		d = time.Duration(t.Range(0, maxMs)) * ms
	}
	// enter
	for _, o := range k.inCS {
		if o.csDeadline > now {
			w.fail("critical-section-overlap", "key %s: instance %d entered its critical section at %v (Acquire returned true) while instance %d is still inside its own, within the lease it was granted (its deadline %v)", k.label, cl.idx, now, o.idx, o.csDeadline)
		} else {
			r.Probe("other-client-stalled-past-its-lease")
		}
	}
	r.Probe("critical-section")
	cl.csDeadline = deadline
	k.inCS = append(k.inCS, cl)
	r.Ev("cs-enter", int64(cl.idx))
	if d > 0 {
		r.Sleep(d)
	} else {
		r.Yield()
	}
	for i, o := range k.inCS {
		if o == cl {
			k.inCS = append(k.inCS[:i], k.inCS[i+1:]...)
			break
		}
	}
	r.Ev("cs-exit", int64(cl.idx))
	if r.Elapsed() >= deadline {
		r.Probe("stalled-past-own-lease-in-critical-section")
	}
}

// drawSeconds: 0 = one second.  Wide runs also draw leases of minutes, hours and values whose
// millisecond count does not fit 31 / 32 bits.
func (w *world) drawSeconds() int {
	t, r := w.r.Tape, w.r
	wd := 0
	if w.wide {
		wd = 3
	}
	switch weighted(t, 8, 2, wd, wd) {
	case 1:
		return 0
	case 2:
		r.Probe("setexpire-minutes")
		return []int{10, 30, 60, 90, 300, 1800}[t.Intn(6)]
	case 3:
		r.Probe("setexpire-hours-and-beyond")
		return []int{3600, 3601, 7200, 86400, 604800, 2147483, 2147484, 4294967, 4294968, 10000000}[t.Intn(10)]
	}
	return t.Range(1, 5)
}

func (w *world) setExpire(cl *client) {
	s := w.drawSeconds()
	if s == 0 {
		if cl.seconds > 0 {
			w.r.Probe("setexpire-zero-after-nonzero")
		} else {
			w.r.Probe("setexpire-zero")
		}
	} else if s < cl.seconds {
		w.r.Probe("setexpire-shorter-than-before")
	}
	w.setExpireCall(cl, s, false)
}

// setExpireCall is one SetExpire(s) on the instance of cl, by its client task between two of its
// operations or (other) by another task while the client task may be inside Acquire / Release.
func (w *world) setExpireCall(cl *client, s int, other bool) {
	r := w.r
	wr := &seWrite{val: s, begin: w.tick()}
	cl.writes = append(cl.writes, wr)
	cl.seconds = s
	if s > w.maxSec {
		w.maxSec = s
	}
	during := cl.op
	if other {
		switch {
		case during == opAcquire && len(cl.execs) == 0:
			r.Probe("setexpire-of-another-task-began-inside-acquire-before-the-script-was-executed")
			cl.raced = true
		case during == opAcquire:
			r.Probe("setexpire-of-another-task-began-inside-acquire-after-the-script-was-executed")
			cl.raced = true
		case during == opRelease:
			r.Probe("setexpire-of-another-task-began-inside-release")
			cl.raced = true
		default:
			r.Probe("setexpire-of-another-task-began-after-the-call-returned")
		}
	}
	cl.lock.SetExpire(s)
	wr.end, wr.done = w.tick(), true
	if other && during != opNone && cl.op == during {
		r.Probe("setexpire-of-another-task-returned-inside-the-call")
	}
	o := int64(0)
	if other {
		o = 1
	}
	r.Ev("setexpire", int64(cl.idx), int64(s), o)
	if other {
		w.note(cl, "SetExpire(%d) by another task (client task inside %s)", s, opName(during))
	} else {
		w.note(cl, "SetExpire(%d)", s)
	}
}

// setExpireFromAnotherTask: 0 = none.  The task is started runnable just before the client task
// enters Acquire / Release; where it runs relative to the call is the scheduler's choice.
func (w *world) setExpireFromAnotherTask(cl *client, during string) *simrt.Task {
	if w.concSet == 0 {
		return nil
	}
	t, r := w.r.Tape, w.r
	if !t.Chance(1, []int{1, 6, 2}[w.concSet]) {
		return nil
	}
	vals := []int{w.drawSeconds()}
	if t.Chance(1, 4) {
		vals = append(vals, w.drawSeconds())
	}
	yields, own := t.Intn(4), t.Intn(3)
	r.Probe("setexpire-from-another-task-started-with-" + during)
	st := r.Go(fmt.Sprintf("setexpire-i%d", cl.idx), func() {
		for _, s := range vals {
			for y := 0; y < yields; y++ {
				r.Yield()
			}
			w.setExpireCall(cl, s, true)
		}
	})
	// the client task may lose the processor on its way into the call, so that the call also starts
	// in the middle of a SetExpire (the invocation instant of the oracle stays where it was taken:
	// before the other task existed)
	for ; own > 0; own-- {
		r.Yield()
	}
	return st
}

const maxInstances = 9

// replace: the client drops its RedisLock object (whatever it holds is left to expire) and
// continues with a fresh one on the same key, as a restarted process would.
func (w *world) replace(old *client) *client {
	t, r := w.r.Tape, w.r
	w.settle(old.k, r.Elapsed())
	store, kind := old.store, old.storeKind
	if t.Chance(1, 3) {
		kind = t.Intn(nStoreKinds)
		store = w.newStore(kind)
	}
	lock := redis.NewRedisLock(store, old.k.name)
	// no scheduling point between taking the index and the append (constructors may yield)
	cl := w.newClient(old.k, store, kind, lock)
	w.cls = append(w.cls, cl)
	r.Probe("instance-replaced")
	if old.holdActive {
		r.Probe("instance-abandoned-while-holding")
	}
	r.Ev("replace", int64(old.idx), int64(cl.idx))
	w.note(old, "abandoned, the task continues with new instance %d", cl.idx)
	return cl
}

func (w *world) clientMain(cl *client, steps int) {
	t, r := w.r.Tape, w.r
	task := r.CurrentID()
	w.byTask[task] = cl
	if t.Bool() {
		w.setExpire(cl)
	}
	for s := 0; s < steps; s++ {
		w.think(cl)
		switch weighted(t, 6, 2, 2, 1) {
		case 0:
			ok, err, inv, L := w.acquire(cl)
			// heartbeat: the holder re-acquires 0-4 times, possibly with another lease length,
			// possibly at a landmark of its lease
			done := 0
			for n := weighted(t, 9, 3, 1, 1, 1); n > 0 && ok && err == nil; n-- {
				if t.Bool() {
					w.setExpire(cl)
				}
				w.think(cl)
				ok, err, inv, L = w.acquire(cl)
				if ok && err == nil {
					if done++; done == 2 {
						r.Probe("re-acquire-chain-of-2-or-more")
					}
				}
			}
			if ok && err == nil {
				w.critical(cl, inv, L)
				if !t.Chance(1, 4) {
					w.release(cl)
				}
			} else if err != nil && t.Bool() {
				// tidy up after an error: the lock may have been taken
				w.release(cl)
			}
		case 1:
			w.release(cl)
		case 2:
			w.setExpire(cl)
		default:
			if len(w.cls) < maxInstances {
				// (the bound may be passed by the few tasks that are inside replace at once)
				cl = w.replace(cl)
				w.byTask[task] = cl
			}
		}
	}
}

// keySpellings: pairs of keys that are different keys for Redis but close to each other.  0 =
// plain.
var keySpellings = [][2]string{
	{"lock-k0", "lock-k1"},
	{"Lock-K", "lock-k"},
	{"lock-k", "lock-k "},
	{" lock-k", "lock-k"},
	{"lock", "lock:1"},
	{"{user:1}:lock", "{user:1}:lock:b"},
	{strings.Repeat("k", 300) + "a", strings.Repeat("k", 300) + "b"},
	{"\u9501-\u03b1", "\u9501-\u03b2"},
	{"lock\r\nk", "lock\nk"},
	{"", "0"},
	{"lock*", "lock?"},
	{"lock-k\x00", "lock-k"},
	{"lock-k\t", "lock-k"},
	{strings.Repeat("lock/", 13) + "x", strings.Repeat("lock/", 13) + "y"},
}

var errReplies = []string{
	"ERR injected server error",
	"LOADING Redis is loading the dataset in memory",
	"BUSY Redis is busy running a script. You can only call SCRIPT KILL or SHUTDOWN NOSAVE.",
	"OOM command not allowed when used memory > 'maxmemory'.",
	"READONLY You can't write against a read only replica.",
	"NOSCRIPT No matching script. Please use EVAL.",
	"MISCONF Redis is configured to save RDB snapshots, but it's currently not able to persist on disk.",
	"TRYAGAIN Multiple keys request during rehashing of slot",
	"CLUSTERDOWN The cluster is down",
	"MOVED 3999 127.0.0.1:6381",
	"NOAUTH Authentication required.",
	"ERR max number of clients reached",
	"WRONGTYPE Operation against a key holding the wrong kind of value",
}

const nStoreKinds = 5

func body(r *simrt.Run, tier string) {
	t := r.Tape
	w := &world{r: r, byTask: map[int]*client{}}
	srv := simredis.New(r)
	w.srv = srv
	nInst := []int{1, 2, 2, 2, 3, 3, 4, 4, 5, 6}[t.Intn(10)]
	nKeys := t.Range(1, 2)
	maxSteps := 5
	if tier == "thorough" {
		maxSteps = 9
	}
	w.faulty = t.Bool()
	w.overstay = t.Chance(1, 3)
	w.wide = t.Chance(1, 3)
	spelling := 0
	if t.Bool() {
		spelling = t.Intn(len(keySpellings))
	}
	// script cache lost (every member; 0 = never): per command that leaves a client - the cache is
	// emptied just before that command reaches the server - and / or at instants on the clock;
	// faulty members: restarts of the server with its data (connections reset, script cache empty)
	lossPM := []int{0, 0, 0, 0, 30, 250, 1000}[t.Intn(7)]
	var lossGaps, restartGaps []time.Duration
	gap := func() time.Duration {
		if t.Bool() {
			return time.Duration(t.Intn(3000)) * ms
		}
		return time.Duration(t.Intn(50)) * ms
	}
	if t.Chance(1, 4) {
		for n := t.Range(1, 3); n > 0; n-- {
			lossGaps = append(lossGaps, gap())
		}
	}
	if w.faulty && t.Chance(1, 4) {
		for n := t.Range(1, 2); n > 0; n-- {
			restartGaps = append(restartGaps, gap())
		}
	}
	scriptsLost := func(when string) {
		w.lost++
		srv.FlushScripts()
		r.Ev("scripts-lost")
		r.Probe("script-cache-lost-" + when)
		if r.Tracing() {
			r.Logf("  server@%v: SCRIPT CACHE LOST (%s); data kept, store reachable", r.Elapsed(), when)
		}
	}
	enabled := true
	outages := 0
	var rates simredis.Rates
	// Outage windows are realised by the harness' own fault functions instead of srv.SetDown:
	// while the window is open every dial is refused and every command on an established
	// connection is reset before it reaches the server -- but at most maxRefused dials are
	// refused per run, after that connections are accepted and only the commands are reset.
	// Reason: go-redis counts dial errors per client and, once they reach PoolSize
	// (= 10*GOMAXPROCS, so 10 in the GOMAXPROCS=1 self-test processes), switches to a fail-fast
	// mode and starts its own prober goroutine (pool.tryDial) from uninstrumented code; that
	// goroutine is not a task of the simulation (it inherits the spawning task's identity) and
	// the threshold depends on GOMAXPROCS, so runs would not be reproducible across processes.
	const maxRefused = 5
	down, refused, dialRate := false, 0, 0
	srv.Fault = func(c *simredis.Cmd) simredis.Fault {
		w.onSend(c)
		return simredis.Fault{}
	}
	if w.faulty {
		lvl := func() int { return []int{0, 15, 50, 120}[t.Intn(4)] }
		rates = simredis.Rates{DropReply: lvl(), DropRequest: lvl(), Latency: lvl(), ResetBefore: lvl(), ResetAfter: lvl(), Truncate: []int{0, 0, 15, 40}[t.Intn(4)],
			MaxDelay: []time.Duration{50 * ms, 700 * ms, 4 * time.Second}[t.Intn(3)], Enabled: &enabled}
		rates.ErrReply, rates.ErrMsgs = lvl(), errReplies
		policy := simredis.Policy(r, rates)
		srv.Fault = func(c *simredis.Cmd) simredis.Fault {
			w.onSend(c)
			if down && enabled {
				r.Probe("outage-command-reset")
				return simredis.Fault{Kind: simredis.ResetBefore}
			}
			f := policy(c)
			if f.Kind == simredis.ErrReply {
				word, _, _ := strings.Cut(f.Msg, " ")
				r.Probe("error-reply-" + word)
			}
			return f
		}
		if t.Chance(1, 3) {
			outages = t.Range(1, 2)
		}
		dialRate = []int{0, 0, 30, 150}[t.Intn(4)]
		srv.DialFault = func(int) bool {
			if !enabled || refused >= maxRefused {
				return false
			}
			if down || (dialRate > 0 && t.Intn(1000) >= 1000-dialRate) {
				refused++
				if down {
					r.Probe("outage-dial-refused")
				}
				return true
			}
			return false
		}
	}
	if lossPM > 0 {
		inner := srv.Fault
		srv.Fault = func(c *simredis.Cmd) simredis.Fault {
			if !c.Handshake() {
				if v := t.Intn(1000); v > 0 && v <= lossPM {
					scriptsLost("as-command-left")
				}
			}
			return inner(c)
		}
	}
	srv.OnExec = w.onExec
	shared := redis.New(srv.Addr, redis.WithHook(srv.Hook()))
	// store objects: every constructor of the redis package that takes the transport hook (they
	// all end in the same go-redis client per address)
	w.newStore = func(kind int) *redis.Redis {
		conf := redis.RedisConf{Host: srv.Addr, Type: redis.NodeType, NonBlock: true}
		switch kind {
		case 1:
			return redis.New(srv.Addr, redis.WithHook(srv.Hook()))
		case 2:
			r.Probe("store-from-NewRedis")
			if s, err := redis.NewRedis(conf, redis.WithHook(srv.Hook())); err == nil {
				return s
			}
			r.EngineError("c19: redis.NewRedis(non-blocking) failed")
		case 3:
			r.Probe("store-from-MustNewRedis")
			return redis.MustNewRedis(conf, redis.WithHook(srv.Hook()))
		case 4:
			// the blocking form pings the server first; when the ping fails no store is returned
			conf.NonBlock, conf.PingTimeout = false, time.Second
			s, err := redis.NewRedis(conf, redis.WithHook(srv.Hook()))
			if err == nil {
				r.Probe("store-from-NewRedis-with-ping")
				return s
			}
			r.Probe("store-ping-failed")
			return redis.New(srv.Addr, redis.WithHook(srv.Hook()))
		}
		return shared
	}
	perInstanceStore := t.Bool()
	w.concSet = t.Intn(3)
	if w.concSet > 0 {
		r.Probe("member-with-setexpire-from-another-task")
	}
	for i := 0; i < nKeys; i++ {
		w.keys = append(w.keys, &keyState{name: keySpellings[spelling][i], label: fmt.Sprintf("key%d", i), holder: -1})
	}
	steps := make([]int, nInst)
	for i := 0; i < nInst; i++ {
		store, kind := shared, 0
		if perInstanceStore {
			kind = 1 + t.Intn(nStoreKinds-1)
			store = w.newStore(kind)
		}
		k := w.keys[0] // the first two instances always compete for the same key
		if i >= 2 {
			k = w.keys[t.Intn(nKeys)]
		}
		lock := redis.NewRedisLock(store, k.name)
		cl := w.newClient(k, store, kind, lock) // (no scheduling point between taking the index and the append)
		w.cls = append(w.cls, cl)
		steps[i] = t.Range(1, maxSteps)
	}
	if spelling > 0 {
		r.Probe("key-spelling-not-plain")
		for _, c := range w.cls {
			if c.k != w.keys[0] {
				r.Probe("instances-on-two-keys-of-close-spelling")
				break
			}
		}
	}
	switch {
	case nInst == 1:
		r.Probe("single-instance-run")
	case nInst >= 5:
		r.Probe("five-or-six-instances-run")
	}
	if r.Tracing() {
		r.Logf("c19: instances=%d keys=%d (%s, %s) steps=%v faulty=%v rates=%+v outages=%d dialRefusePerMille=%d overstay=%v wide=%v perInstanceStore=%v setExpireFromAnotherTask=%d scriptCacheLostPerMille=%d at=%v restarts=%v", nInst, nKeys, show(keySpellings[spelling][0]), show(keySpellings[spelling][1]), steps, w.faulty, rates, outages, dialRate, w.overstay, w.wide, perInstanceStore, w.concSet, lossPM, lossGaps, restartGaps)
	}
	var tasks []*simrt.Task
	for i, cl := range w.cls {
		cl, n := cl, steps[i]
		tasks = append(tasks, r.Go(fmt.Sprintf("client%d", i), func() { w.clientMain(cl, n) }))
	}
	var outTask *simrt.Task
	if outages > 0 {
		outTask = r.Go("outage", func() {
			for i := 0; i < outages; i++ {
				r.Sleep(time.Duration(t.Range(0, 6000)) * ms)
				down = true
				r.Probe("outage-window")
				r.Sleep(time.Duration(t.Range(1, 8000)) * ms)
				down = false
			}
		})
	}
	var lossTasks []*simrt.Task
	if len(lossGaps) > 0 {
		lossTasks = append(lossTasks, r.Go("script-cache", func() {
			for _, g := range lossGaps {
				r.Sleep(g)
				scriptsLost("at-drawn-instant")
			}
		}))
	}
	if len(restartGaps) > 0 {
		lossTasks = append(lossTasks, r.Go("restarts", func() {
			for _, g := range restartGaps {
				r.Sleep(g)
				w.lost++
				srv.Restart()
				r.Ev("restart")
				r.Probe("server-restarted-with-data")
				if r.Tracing() {
					r.Logf("  server@%v: RESTART with persisted data (connections reset, script cache empty)", r.Elapsed())
				}
			}
		}))
	}
	// every step of a client takes a bounded number of calls, retries and think times; the think
	// times and critical sections are bounded by the longest lease configured in the run
	patience := 3 * time.Hour
	if w.wide {
		patience = 40 * 365 * 24 * time.Hour
	}
	if !r.JoinTimeout(patience, tasks...) {
		r.Fail("stuck", "lock clients did not return within %v of virtual time: %v", patience, r.AliveTasks())
		return
	}
	if outTask != nil {
		r.Join(outTask)
	}
	r.Join(lossTasks...)
	// faults off; after every lease has run out anybody can acquire
	enabled = false
	down = false
	for _, k := range w.keys {
		w.checkStore(k)
	}
	var far time.Duration
	for _, c := range w.cls {
		if c.until > far {
			far = c.until
		}
	}
	if d := far + time.Duration(t.Intn(2)+1)*ms - r.Elapsed(); d > 0 {
		r.Sleep(d)
	}
	for _, k := range w.keys {
		// the LAST instance on the key tries: everything has expired, it must be granted
		var cl *client
		for _, c := range w.cls {
			if c.k == k {
				cl = c
			}
		}
		if cl == nil {
			continue
		}
		w.byTask[r.CurrentID()] = cl
		ok, err, _, _ := w.acquire(cl)
		if err != nil {
			r.Probe("final-acquire-error")
		} else if ok {
			r.Probe("final-acquire-after-expiry-granted")
		}
		w.checkStore(k)
	}
	if w.faulty {
		r.Probe("faulty-run")
	} else {
		r.Probe("fault-free-run")
	}
	nA, nR := 0, 0
	for _, c := range w.cls {
		nA += c.nAcq
		nR += c.nRel
	}
	if nA > 0 {
		r.Probe("nontrivial")
	}
	r.Sample(map[string]any{"instances": nInst, "instances_incl_replacements": len(w.cls), "keys": nKeys, "key_spelling": spelling, "longest_seconds_configured": w.maxSec, "wide": w.wide, "steps_per_client": steps, "faulty": w.faulty, "clients_overstay_lease": w.overstay,
		"acquires": nA, "releases": nR, "server_executions": srv.Executed(), "script_cache_lost_per_mille_of_commands": lossPM, "script_cache_lost_at_drawn_instants": len(lossGaps), "restarts_with_data": len(restartGaps), "script_cache_lost": w.lost, "setexpire_from_another_task_during_calls": w.concSet,
		"faults_fired": srv.FiredMap(), "history_head": w.log})
}

func TestSim(t *testing.T) {
	simharness.Main(t, &simharness.Spec{ID: "C19", Body: body, CrashIsViolation: true, Config: func(t *simrt.Tape, tier string) simrt.Config {
		c := simharness.DefaultConfig(t, tier)
		// leases of up to 10^7 s (115 days) are advanced over several times in one run
		c.MaxVirtual = 100 * 365 * 24 * time.Hour
		return c
	}})
}
