package zzredis

import (
	"fmt"
	"testing"
	"time"

	"github.com/zeromicro/go-zero/core/limit"
	"github.com/zeromicro/go-zero/core/logx"
	"github.com/zeromicro/go-zero/core/stores/redis"

	"verifsim/simharness"
	"verifsim/simredis"
	"verifsim/simrt"
)

func init() { logx.Disable() }

func body(r *simrt.Run, tier string) {
	srv := simredis.New(r)
	faulty := r.Tape.Bool()
	if faulty {
		srv.Fault = simredis.Policy(r, simredis.Rates{Latency: 50, DropRequest: 30, DropReply: 30, ResetBefore: 30, ResetAfter: 30, ErrReply: 30, Truncate: 30, Deferred: 30,
			ErrMsgs: []string{"LOADING Redis is loading the dataset in memory", "ERR boom"}})
	}
	execs := 0
	srv.OnExec = func(e *simredis.Exec) {
		execs++
		r.Ev("exec", int64(e.Cmd.Task), int64(len(e.Reply)))
	}
	rds := redis.New(srv.Addr, redis.WithHook(srv.Hook()))
	quota := 3
	l := limit.NewPeriodLimit(5, quota, rds, "pl")
	grants := 0
	var ts []*simrt.Task
	n := r.Tape.Range(1, 4)
	for i := 0; i < n; i++ {
		ts = append(ts, r.Go(fmt.Sprintf("c%d", i), func() {
			for j := 0; j < 3; j++ {
				code, err := l.Take("k")
				r.Ev("take", int64(code))
				if err == nil && (code == limit.Allowed || code == limit.HitQuota) {
					grants++
				}
				if r.Tape.Bool() {
					r.Sleep(time.Duration(r.Tape.Range(1, 3000)) * time.Millisecond)
				}
			}
		}))
	}
	if !r.JoinTimeout(10*time.Minute, ts...) {
		r.Fail("stuck", "clients stuck: %v", r.AliveTasks())
	}
	r.Probe("oracle")
	r.Probe("nontrivial")
	if execs > 0 {
		r.Probe("executed")
	}
	r.Sample(map[string]any{"clients": n, "faulty": faulty, "grants": grants, "execs": execs, "fired": srv.FiredMap()})
}

func TestSim(t *testing.T) {
	simharness.Main(t, &simharness.Spec{ID: "ZZREDIS", Body: body})
}
