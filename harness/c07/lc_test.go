package c07

import (
	"fmt"
	"time"

	"github.com/zeromicro/go-zero/core/syncx"

	"verifsim/simrt"
)

func lockedCalls(r *simrt.Run, tier string) {
	t := r.Tape
	w := newWorld(r)
	ev := drawEnv(r, tier, false)
	groups := make([]syncx.LockedCalls, ev.nGroups)
	for i := range groups {
		groups[i] = syncx.NewLockedCalls()
	}
	// optionally one call on key "gatekey" blocks until main has seen all other keys finish
	useGate := t.Chance(1, 3)
	gate := make(chan struct{})
	plans := ev.drawPlans(false)
	if r.Tracing() {
		r.Logf("lockedcalls %v gate=%v plans=%v", ev.sample("LockedCalls", plans), useGate, plans)
	}
	smp := ev.sample("LockedCalls", plans)
	smp["gate_key_stalled"] = useGate
	r.Sample(smp)
	do := func(p *plan, gt chan struct{}) {
		c := w.newCall(p)
		func() {
			defer func() {
				if rec := recover(); rec != nil {
					c.panicked = true
					c.panicVal = rec
				}
			}()
			c.val, c.err = groups[p.g].Do(p.key, func() (any, error) { return w.runFn(c, p, gt) })
		}()
		c.ret = w.tick()
		c.returned = true
		if c.ownRuns != 1 {
			r.Fail("own-runs", "LockedCalls call %d ran its function %d times", c.id, c.ownRuns)
			return
		}
		if w.checkPanic(c, "foreign-panic") {
			if c.ownExec.panicked {
				r.Probe("lockedcalls-function-panicked")
			}
			return
		}
		e := c.ownExec
		if !sameAny(c.val, e.val) || !sameErr(c.err, e.err) {
			r.Fail("result", "LockedCalls call %d on %q: got (%v, %v), own function returned (%v, %v)", c.id, c.raw, c.val, c.err, e.val, e.err)
		}
	}
	w.nested = func(p *plan) { do(p, nil) }
	gatePlan := func() *plan { return &plan{g: 0, ki: 99, key: "gatekey"} }
	var gated *simrt.Task
	var gateWaiters []*simrt.Task
	if useGate {
		gated = r.Go("gated", func() { do(gatePlan(), gate) })
		// let the gated call get going (it may or may not have registered yet; both are fine)
		for i := t.Intn(4); i > 0; i-- {
			r.Yield()
		}
		// further callers of the stalled key: they may stay blocked until the release (or run
		// before the gated call if they win the race), but whatever they do inside LockedCalls
		// while waiting must not hold up the calls on the other keys
		for i := t.Intn(3); i > 0; i-- {
			i := i
			th := drawDur(t) / 2
			gateWaiters = append(gateWaiters, r.Go(fmt.Sprintf("gatewaiter%d", i), func() {
				if th > 0 {
					r.Sleep(th)
				}
				do(gatePlan(), nil)
			}))
			r.Probe("waiter-on-stalled-key")
		}
	}
	if ev.churn != nil {
		r.Probe("churn-lockedcalls")
	}
	quick := func(p *plan) { do(p, nil) }
	ev.churnBefore(quick)
	tasks := ev.churnStart(r, quick)
	for i := 0; i < ev.nTasks; i++ {
		i := i
		tasks = append(tasks, r.Go(fmt.Sprintf("client%d", i), func() {
			for _, p := range plans[i] {
				if p.think > 0 {
					r.Sleep(p.think)
				}
				do(p, nil)
			}
		}))
	}
	if !r.JoinTimeout(6*time.Hour, tasks...) {
		if useGate {
			// were they waiting for the stalled key?  release it and see
			alive := r.AliveTasks()
			simrt.Close("gate", gate)
			if r.JoinTimeout(6*time.Hour, tasks...) {
				r.Fail("cross-key-blocking", "calls on other keys did not finish while key gatekey's function was stalled (they did once it was released): %v", alive)
			} else {
				r.Fail("stuck", "LockedCalls callers did not all return, with or without the stalled key released: %v", r.AliveTasks())
			}
		} else {
			r.Fail("stuck", "LockedCalls callers did not all return: %v", r.AliveTasks())
		}
		return
	}
	if useGate {
		r.Probe("cross-key-progress-checked")
		simrt.Close("gate", gate)
		if !r.JoinTimeout(time.Hour, append([]*simrt.Task{gated}, gateWaiters...)...) {
			r.Fail("stuck", "LockedCalls calls on the stalled key did not return after its release: %v", r.AliveTasks())
		}
	}
	// "calls on different keys never wait for each other", timed form: computation takes no
	// virtual time, so in a run without injected stalls a call starts its function either at
	// the instant it was made or at an instant at which an execution on the SAME key (of the
	// same object) ended; any other start instant means it was held up by (the end of) a call on
	// another key or on another object.
	if !stallOn {
		for _, c := range w.calls {
			e := c.ownExec
			if e == nil || e.startT.Equal(c.invT) {
				continue
			}
			ok := false
			for _, o := range w.execsBy[c.key] {
				if o != e && o.end != 0 && o.endT.Equal(e.startT) {
					ok = true
					break
				}
			}
			r.Probe("waiter-start-instant-checked")
			if !ok {
				r.Fail("cross-key-wait", "LockedCalls call %d on key %q (object|key %s) was made at +%v and started its function at +%v, an instant at which no execution on that key ended (no stalls injected): it waited for a call on another key",
					c.id, c.raw, c.key, c.invT.Sub(w.t0), e.startT.Sub(w.t0))
				break
			}
		}
	}
	r.Probe("oracle")
}
