package c07

import (
	"fmt"
	"io"
	"time"

	"github.com/zeromicro/go-zero/core/syncx"

	"verifsim/simrt"
)

type closer struct {
	id     int
	closed int
	cerr   error
}

func (c *closer) Close() error { c.closed++; return c.cerr }

// install: an instance became the resource of a key, by a successful creation (interval: start
// of the creating execution .. return of the creating GetResource call) or by Inject (interval
// of the Inject call).  end == 0 while in progress.
type install struct {
	inst       *closer
	start, end int
	by         *call // creating call; nil for Inject
}

func resourceManager(r *simrt.Run, tier string) {
	t := r.Tape
	w := newWorld(r)
	ev := drawEnv(r, tier, false)
	ev.injectOn = t.Chance(1, 3)
	closeAtEnd := t.Chance(1, 3)
	mgrs := make([]*syncx.ResourceManager, ev.nGroups)
	for i := range mgrs {
		mgrs[i] = syncx.NewResourceManager()
	}
	plans := ev.drawPlans(false)
	if ev.injectOn {
		for _, ps := range plans {
			for _, p := range ps {
				if t.Chance(1, 5) {
					p.op = 1
					p.nest = nil
				}
			}
		}
	}
	if r.Tracing() {
		r.Logf("resourcemanager %v inject=%v close=%v plans=%v", ev.sample("ResourceManager", plans), ev.injectOn, closeAtEnd, plans)
	}
	smp := ev.sample("ResourceManager", plans)
	smp["inject_ops"], smp["close_at_end"] = ev.injectOn, closeAtEnd
	r.Sample(smp)

	created := map[string]*closer{} // first successful creation per (manager, key)
	installs := map[string][]*install{}
	nInst := 0
	w.mkVal = func(e *exec, vk int) any {
		c := &closer{id: e.id}
		if vk == 2 {
			c.cerr = &execErr{id: e.id}
		}
		return c
	}
	var invoke func(p *plan)
	invoke = func(p *plan) {
		m := mgrs[p.g]
		k := p.wkey()
		if p.op == 1 {
			nInst++
			in := &install{inst: &closer{id: -nInst}, start: w.tick()}
			installs[k] = append(installs[k], in)
			m.Inject(p.key, in.inst)
			in.end = w.tick()
			r.Probe("rm-inject")
			return
		}
		c := w.newCall(p)
		var mine *closer
		var res io.Closer
		var err error
		func() {
			defer func() {
				if rec := recover(); rec != nil {
					c.panicked = true
					c.panicVal = rec
				}
			}()
			res, err = m.GetResource(p.key, func() (io.Closer, error) {
				v, err := w.runFn(c, p, nil)
				if err != nil {
					if v != nil {
						return v.(*closer), err
					}
					return nil, err
				}
				mine = v.(*closer)
				if prev := created[k]; prev != nil {
					r.Fail("created-twice", "resource %q (manager|key %s) created successfully twice (exec %d after exec %d)", p.key, k, c.ownExec.id, prev.id)
				} else {
					created[k] = mine
				}
				installs[k] = append(installs[k], &install{inst: mine, start: c.ownExec.start, by: c})
				return mine, nil
			})
		}()
		c.ret = w.tick()
		c.returned = true
		c.val, c.err = res, err
		for _, in := range installs[k] {
			if in.by == c && in.end == 0 {
				in.end = c.ret
			}
		}
		if w.checkPanic(c, "rm-waiter-panics-after-creator-panicked") {
			if c.ownExec != nil && c.ownExec.panicked {
				r.Probe("rm-create-panicked")
			}
			return
		}
		if c.ownRuns > 1 {
			r.Fail("multi-run", "GetResource call %d ran create %d times", c.id, c.ownRuns)
			return
		}
		if err != nil {
			if res != nil {
				r.Fail("result", "GetResource returned both a resource and an error")
			}
			if own := c.ownExec; own != nil {
				if !sameErr(err, own.err) {
					r.Fail("own-result-lost", "GetResource(%q) call %d: own create returned (%v, %v), the call returned error %v", p.key, c.id, own.val, own.err, err)
				}
				return
			}
			// must be the error of a failed creation whose call overlaps this call, or any
			// error if it shared a creation that panicked
			ok := false
			if len(w.sharedPanicked(c)) > 0 {
				r.Probe("waiter-of-panicked-create-got-error")
				ok = true
			}
			for _, e := range w.execsBy[k] {
				if e.err != nil && sameErr(err, e.err) && overlaps(c, w.calls[e.leader]) {
					ok = true
				}
			}
			if !ok {
				r.Fail("stale-error", "GetResource(%q) call %d returned error %v that no overlapping creation produced", p.key, c.id, err)
			}
			return
		}
		if own := c.ownExec; own != nil && own.err != nil {
			r.Fail("own-result-lost", "GetResource(%q) call %d: own create failed with %v, the call returned (%v, nil)", p.key, c.id, own.err, res)
			return
		}
		if mine != nil && res != io.Closer(mine) {
			r.Fail("own-result-lost", "GetResource(%q) call %d created instance %d but returned %v", p.key, c.id, mine.id, res)
			return
		}
		// the instance is one that was created for / injected under this key of this manager
		var X *install
		for _, in := range installs[k] {
			if io.Closer(in.inst) == res {
				X = in
			}
		}
		if X == nil {
			r.Fail("different-instance", "GetResource(%q) call %d (manager|key %s) returned %v, which was neither created for nor injected under that key of that manager (created: %v)", p.key, c.id, k, res, created[k])
			return
		}
		// ... and it was not replaced (Inject) before the call, or before the calls it may share
		// a flight with, began
		tmin := c.inv
		for _, d := range w.callsBy[k] {
			if d != c && d.inv < tmin && overlaps(c, d) {
				tmin = d.inv
			}
		}
		for _, Y := range installs[k] {
			if Y != X && X.end != 0 && Y.start > X.end && Y.end != 0 && Y.end < tmin {
				r.Fail("stale-instance", "GetResource(%q) call %d [%d,%d] returned instance %d (installed [%d,%d]) although instance %d had replaced it [%d,%d] before the call (and every call overlapping it) began",
					p.key, c.id, c.inv, c.ret, X.inst.id, X.start, X.end, Y.inst.id, Y.start, Y.end)
				return
			}
		}
		if mine != nil {
			for _, Y := range installs[k] {
				if Y.inst != mine && Y.end != 0 && Y.end < c.inv {
					r.Fail("created-although-present", "GetResource(%q) call %d [%d,%d] created a new instance although instance %d was the resource of that key since [%d,%d]",
						p.key, c.id, c.inv, c.ret, Y.inst.id, Y.start, Y.end)
					return
				}
			}
		}
	}
	w.nested = invoke
	if ev.churn != nil {
		r.Probe("churn-resourcemanager")
	}
	ev.churnBefore(invoke)
	tasks := ev.churnStart(r, invoke)
	for i := 0; i < ev.nTasks; i++ {
		i := i
		tasks = append(tasks, r.Go(fmt.Sprintf("client%d", i), func() {
			for _, p := range plans[i] {
				if p.think > 0 {
					r.Sleep(p.think)
				}
				invoke(p)
			}
		}))
	}
	if !r.JoinTimeout(6*time.Hour, tasks...) {
		r.Fail("stuck", "ResourceManager callers did not all return: %v", r.AliveTasks())
		return
	}
	if closeAtEnd {
		// Close ends the life of a manager ("don't use it after Close"): only that it returns
		cl := r.Go("closer", func() {
			for _, m := range mgrs {
				m.Close()
			}
		})
		if !r.JoinTimeout(time.Hour, cl) {
			r.Fail("stuck", "ResourceManager.Close did not return")
		}
		r.Probe("rm-close-at-end")
	}
	r.Probe("oracle")
}
