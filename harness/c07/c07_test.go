package c07

import (
	"context"
	"errors"
	"fmt"
	"net/http"
	"reflect"
	"strconv"
	"strings"
	"testing"
	"time"

	"verifsim/simharness"
	"verifsim/simrt"
)

// C07: SingleFlight / LockedCalls / ResourceManager.
//
// c07_test.go   history model, workload generator (plans, result / error / panic kinds, key
//               shapes, nested calls, several objects per run, long-lived objects: churn of
//               quick calls on other keys), body, engine config
// sf_test.go    SingleFlight member and its oracle
// lc_test.go    LockedCalls member and its oracle
// rm_test.go    ResourceManager member (GetResource, Inject, Close) and its oracle

type exec struct {
	id          int
	g           int    // object index
	key         string // world key: object index + key index (see plan.wkey)
	leader      int    // call index
	start, end  int    // logical clock; end==0 while running
	startT      time.Time
	endT        time.Time
	val         any
	err         error
	panicked    bool
	panicVal    any
	shared      int // SingleFlight: callers that received this execution's result without running
	doneAtStart int // executions completed on its object when it started
}

type call struct {
	id       int
	g        int    // object index
	key      string // world key
	raw      string // key as passed to go-zero
	inv, ret int
	invT     time.Time
	val      any
	fresh    bool
	err      error
	panicked bool
	panicVal any
	ownRuns  int
	returned bool
	ownExec  *exec
}

type world struct {
	r      *simrt.Run
	t0     time.Time
	clk    int
	execs  []*exec
	calls  []*call
	active map[string]*exec
	// the same history by world key (histories of long-lived objects have hundreds of entries)
	execsBy map[string][]*exec
	callsBy map[string][]*call
	done    map[int]int // executions completed, per object
	// mkVal produces the value of a successful execution (nil: the generic value kinds)
	mkVal func(e *exec, vk int) any
	// nested performs a call made from inside a supplied function
	nested func(p *plan)
}

func newWorld(r *simrt.Run) *world {
	return &world{r: r, t0: time.Now(), active: map[string]*exec{}, execsBy: map[string][]*exec{}, callsBy: map[string][]*call{}, done: map[int]int{}}
}

func (w *world) tick() int { w.clk++; return w.clk }

// ---------------------------------------------------------------------------------------------
// result / error / panic kinds

// errSentinel is a package-level error shared by every execution that returns it (one identity
// for many executions, as io.EOF / sql.ErrNoRows / a model's ErrNotFound are in real users).
var errSentinel = errors.New("c07: sentinel error")

// execErr is an error owned by one execution.
type execErr struct{ id int }

func (e *execErr) Error() string { return fmt.Sprintf("err-of-exec-%d", e.id) }

// multiErr is an error of a non-comparable dynamic type (like validator.ValidationErrors).
type multiErr []error

func (m multiErr) Error() string { return fmt.Sprintf("%d errors", len(m)) }

// resVal is a result handed out by pointer.
type resVal struct{ id int }

const (
	nValKinds   = 6
	nErrKinds   = 6
	nPanicKinds = 5
)

type outcome struct {
	kind int  // 0 value, 1 error, 2 panic
	vk   int  // value kind (kind 0, or kind 1 with both)
	ek   int  // error kind
	both bool // an error AND a non-nil value
	pk   int  // panic kind
}

func (o outcome) String() string {
	switch o.kind {
	case 1:
		if o.both {
			return fmt.Sprintf("err%d+val%d", o.ek, o.vk)
		}
		return fmt.Sprintf("err%d", o.ek)
	case 2:
		return fmt.Sprintf("panic%d", o.pk)
	}
	return fmt.Sprintf("val%d", o.vk)
}

// sameAny is identity of two results / errors / panic values: equal dynamic type and, for
// comparable types, ==; for slices the same backing array and length.
func sameAny(a, b any) bool {
	if a == nil || b == nil {
		return a == nil && b == nil
	}
	ta, tb := reflect.TypeOf(a), reflect.TypeOf(b)
	if ta != tb {
		return false
	}
	if ta.Comparable() {
		return a == b
	}
	if ta.Kind() == reflect.Slice {
		va, vb := reflect.ValueOf(a), reflect.ValueOf(b)
		return va.Len() == vb.Len() && va.Pointer() == vb.Pointer()
	}
	return false
}

func sameErr(a, b error) bool { return sameAny(a, b) }

// runtimeErr produces a genuine runtime.Error value.
func runtimeErr() (v any) {
	defer func() { v = recover() }()
	var m map[string]int
	m["x"] = 1
	return nil
}

func (w *world) value(e *exec, vk int) any {
	if w.mkVal != nil {
		return w.mkVal(e, vk)
	}
	switch vk {
	case 1:
		w.r.Probe("val-pointer")
		return &resVal{id: e.id}
	case 2:
		w.r.Probe("val-uncomparable-bytes")
		return []byte(fmt.Sprintf("bytes-of-exec-%d", e.id))
	case 3:
		w.r.Probe("val-nil-with-nil-error")
		return nil
	case 4:
		w.r.Probe("val-shared-by-executions")
		return "same-value"
	case 5:
		w.r.Probe("val-typed-nil-pointer")
		return (*resVal)(nil)
	}
	return 1000 + e.id
}

func (w *world) errValue(e *exec, ek int) error {
	switch ek {
	case 1:
		w.r.Probe("err-shared-sentinel")
		return errSentinel
	case 2:
		w.r.Probe("err-wrapping-sentinel")
		return fmt.Errorf("exec %d: %w", e.id, errSentinel)
	case 3:
		w.r.Probe("err-context-deadline-exceeded")
		return context.DeadlineExceeded
	case 4:
		w.r.Probe("err-context-canceled")
		return context.Canceled
	case 5:
		w.r.Probe("err-uncomparable-type")
		return multiErr{&execErr{id: e.id}, errSentinel}
	}
	return &execErr{id: e.id}
}

func (w *world) panicValue(e *exec, pk int) any {
	switch pk {
	case 1:
		w.r.Probe("panic-error-value")
		return &execErr{id: e.id}
	case 2:
		w.r.Probe("panic-runtime-error")
		return runtimeErr()
	case 3:
		w.r.Probe("panic-http-abort-handler")
		return http.ErrAbortHandler
	case 4:
		w.r.Probe("panic-shared-sentinel-error")
		return errSentinel
	}
	return fmt.Sprintf("panic-of-exec-%d", e.id)
}

// finish ends an execution with the planned outcome.
func (w *world) finish(e *exec, o outcome) (any, error) {
	switch o.kind {
	case 2:
		e.panicked = true
		e.panicVal = w.panicValue(e, o.pk)
		panic(e.panicVal)
	case 1:
		e.err = w.errValue(e, o.ek)
		if o.both {
			e.val = w.value(e, o.vk)
			if e.val != nil {
				w.r.Probe("val-together-with-error")
			}
		}
	default:
		e.val = w.value(e, o.vk)
	}
	return e.val, e.err
}

// ---------------------------------------------------------------------------------------------
// plans

type plan struct {
	g        int // object index
	ki       int // key index
	key      string
	ex       bool // SingleFlight: DoEx instead of Do
	op       int  // ResourceManager: 0 GetResource, 1 Inject
	dur      time.Duration
	yields   int
	out      outcome
	think    time.Duration
	nest     *plan // call made from inside the function (strictly larger (g, ki): no cycles)
	nestLate bool  // nested call after (instead of before) the function's own work
}

func (p *plan) wkey() string { return fmt.Sprintf("%d|%d", p.g, p.ki) }

func (p *plan) String() string {
	s := fmt.Sprintf("{g%d %q ex=%v op=%d dur=%v y=%d %v think=%v", p.g, p.key, p.ex, p.op, p.dur, p.yields, p.out, p.think)
	if p.nest != nil {
		s += fmt.Sprintf(" nest(late=%v)=%v", p.nestLate, p.nest)
	}
	return s + "}"
}

var longPrefix = strings.Repeat("tenant-0001/", 6) // 72 bytes in common

// keyPool: three keys per style.  Style 0 is the plain one.
func keyPool(style int) []string {
	switch style {
	case 1: // the empty key, keys differing in case only
		return []string{"", "k", "K"}
	case 2: // long keys that differ after a long common prefix, and that prefix itself
		return []string{longPrefix + "0", longPrefix + "1", longPrefix}
	case 3: // separator characters, one key a prefix of the others
		return []string{"a:b", "a:c", "a"}
	case 4: // keys differing in surrounding white space only
		return []string{"k", " k", "k\n"}
	}
	return []string{"k0", "k1", "k2"}
}

var keyStyleNames = []string{"plain", "empty-and-case", "long-common-prefix", "separator-and-prefix", "white-space"}

// env is the per-run shape of the workload (swarm style: each dimension is on in a part of the
// runs only; the zero draw switches everything off).
type env struct {
	t          *simrt.Tape
	nTasks     int
	nKeys      int
	perTask    int
	nGroups    int
	keyStyle   int
	keys       []string
	allowPanic bool
	rich       bool // result / error / panic kinds beyond the plain ones
	nestOn     bool
	burst      bool
	injectOn   bool
	churn      *churn // long-lived object: quick calls on other keys of one object (nil: off)
}

// churn: the object ch.g serves a history of quick calls (no virtual time, no yields) on keys
// other than the clients' keys: ch.pre of them made one after the other by the main task before
// the clients start, the others by churn tasks running alongside the clients (each: think,
// then segments of back-to-back quick calls separated by pauses).
type churnSeg struct {
	n     int
	pause time.Duration
}

type churnTask struct {
	think time.Duration
	segs  []churnSeg
}

type churn struct {
	g        int
	total    int
	pre      int
	tasks    []churnTask
	keyMode  int // 0 a fresh key for every quick call, 1 each churn task cycles through 3 keys of its own, 2 all of them cycle through the same 3 keys
	errEvery int // every errEvery-th quick call returns an error (0: none)
	made     int
}

var churnKeyModes = []string{"fresh-key-per-call", "3-keys-per-churn-task", "3-keys-shared-by-churn-tasks"}

func (ch *churn) String() string {
	if ch == nil {
		return "off"
	}
	s := fmt.Sprintf("object %d, %d quick calls (%d before the clients), keys: %s, error every %d", ch.g, ch.total, ch.pre, churnKeyModes[ch.keyMode], ch.errEvery)
	for i, ct := range ch.tasks {
		s += fmt.Sprintf("; churn task %d: think %v", i, ct.think)
		for _, sg := range ct.segs {
			s += fmt.Sprintf(", %d calls, pause %v", sg.n, sg.pause)
		}
	}
	return s
}

// drawChurnCount: the length of a churn history, from a mix of small values, values around
// landmarks (powers of two and round numbers, where implementations tend to switch behaviour:
// resize, rebuild, sample, wrap) and large values.
func drawChurnCount(t *simrt.Tape) int {
	switch t.Intn(4) {
	case 0:
		return t.Range(1, 40)
	case 1, 2:
		lm := []int{256, 512, 128, 256, 512, 64, 100, 200, 384, 500, 640}[t.Intn(11)]
		return lm - 8 + t.Intn(11) // lm-8 .. lm+2: the clients' own calls make up for a few
	}
	return t.Range(41, 700)
}

// split n >= parts >= 1 into parts positive shares (draw 0: 1, 1, ..., rest)
func splitCount(t *simrt.Tape, n, parts int) []int {
	out := make([]int, parts)
	for i := 0; i < parts; i++ {
		out[i] = n
		if i < parts-1 {
			out[i] = 1 + t.Intn(n-(parts-1-i))
		}
		n -= out[i]
	}
	return out
}

func (ev *env) drawChurn(r *simrt.Run, tier string) {
	t := ev.t
	if ev.burst || !t.Chance(1, 12) {
		return
	}
	ch := &churn{}
	ev.churn = ch
	if ev.nGroups > 1 {
		ch.g = t.Intn(ev.nGroups)
	}
	ch.total = drawChurnCount(t)
	during := 0
	switch t.Intn(3) {
	case 0:
		ch.pre = ch.total
	case 1:
		during = ch.total
	default:
		ch.pre = t.Intn(ch.total + 1)
		during = ch.total - ch.pre
	}
	if during > 0 {
		maxC := 2
		if tier == "thorough" {
			maxC = 3
		}
		n := min(1+t.Intn(maxC), during)
		for _, share := range splitCount(t, during, n) {
			ct := churnTask{think: drawDur(t) / 2}
			segs := splitCount(t, share, min(1+t.Intn(3), share))
			for j, m := range segs {
				sg := churnSeg{n: m}
				if j < len(segs)-1 {
					sg.pause = drawDur(t) / 2
				}
				ct.segs = append(ct.segs, sg)
			}
			ch.tasks = append(ch.tasks, ct)
		}
	}
	ch.keyMode = t.Intn(3)
	if t.Chance(1, 3) {
		ch.errEvery = []int{7, 3}[t.Intn(2)]
	}
	// the history is long already: fewer ordinary clients
	ev.nTasks = min(ev.nTasks, 4)
	r.Probe("churn-long-lived-object")
	if ch.pre > 0 {
		r.Probe("churn-before-the-clients")
	}
	if len(ch.tasks) > 0 {
		r.Probe("churn-alongside-the-clients")
	}
	if len(ch.tasks) > 1 {
		r.Probe("churn-tasks-2-or-more")
	}
	switch {
	case ch.total <= 40:
		r.Probe("churn-1-to-40-quick-calls")
	case ch.total < 250:
		r.Probe("churn-41-to-249-quick-calls")
	case ch.total < 500:
		r.Probe("churn-250-to-499-quick-calls")
	default:
		r.Probe("churn-500-or-more-quick-calls")
	}
	r.Probe("churn-" + churnKeyModes[ch.keyMode])
	if ch.errEvery > 0 {
		r.Probe("churn-quick-calls-returning-errors")
	}
}

// quickPlan is the i-th quick call of churn task who (-1: the main task, before the clients).
func (ev *env) quickPlan(who, i int) *plan {
	ch := ev.churn
	var kid int
	switch ch.keyMode {
	case 0:
		kid = (who+1)*1000 + i
	case 1:
		kid = (who+1)*3 + i%3
	default:
		kid = i % 3
	}
	p := &plan{g: ch.g, ki: 100 + kid, key: ev.keys[0] + "#q" + strconv.Itoa(kid), ex: i%2 == 1}
	ch.made++
	if ch.errEvery > 0 && ch.made%ch.errEvery == 0 {
		p.out.kind = 1
	}
	return p
}

// churnBefore makes the quick calls that precede the clients (main task).
func (ev *env) churnBefore(invoke func(p *plan)) {
	if ev.churn == nil {
		return
	}
	for i := 0; i < ev.churn.pre; i++ {
		invoke(ev.quickPlan(-1, i))
	}
}

// churnStart starts the churn tasks; the caller joins them together with the clients.
func (ev *env) churnStart(r *simrt.Run, invoke func(p *plan)) []*simrt.Task {
	if ev.churn == nil {
		return nil
	}
	var tasks []*simrt.Task
	for who, ct := range ev.churn.tasks {
		who, ct := who, ct
		tasks = append(tasks, r.Go(fmt.Sprintf("churn%d", who), func() {
			if ct.think > 0 {
				r.Sleep(ct.think)
			}
			i := 0
			for _, sg := range ct.segs {
				for k := 0; k < sg.n; k++ {
					invoke(ev.quickPlan(who, i))
					i++
				}
				if sg.pause > 0 {
					r.Sleep(sg.pause)
				}
			}
		}))
	}
	return tasks
}

func drawEnv(r *simrt.Run, tier string, withEx bool) *env {
	t := r.Tape
	ev := &env{t: t}
	maxT, maxP := 5, 3
	if tier == "thorough" {
		maxT, maxP = 8, 5
	}
	ev.nTasks, ev.nKeys, ev.perTask = t.Range(2, maxT), t.Range(1, 3), t.Range(1, maxP)
	ev.allowPanic = t.Chance(1, 4)
	ev.rich = t.Chance(1, 2)
	ev.nGroups = 1
	if t.Chance(1, 4) {
		ev.nGroups = 2
	}
	if t.Chance(1, 3) {
		ev.keyStyle = 1 + t.Intn(4)
	}
	ev.nestOn = t.Chance(1, 4)
	if t.Chance(1, 16) {
		// many callers of one key at once
		ev.burst = true
		hi := 32
		if tier == "thorough" {
			hi = 64
		}
		ev.nTasks, ev.nKeys, ev.perTask = t.Range(9, hi), 1, t.Range(1, 2)
	}
	ev.keys = keyPool(ev.keyStyle)
	if ev.nGroups > 1 {
		r.Probe("objects-2-sharing-keys")
	}
	if ev.keyStyle > 0 && (ev.nKeys > 1 || ev.keyStyle == 1) {
		r.Probe("keys-" + keyStyleNames[ev.keyStyle])
	}
	if ev.burst {
		r.Probe("burst-9-or-more-callers")
	}
	ev.drawChurn(r, tier)
	return ev
}

func drawDur(t *simrt.Tape) time.Duration {
	switch t.Intn(4) {
	case 0, 1:
		return 0
	case 2:
		return time.Duration(t.Range(1, 50)) * time.Millisecond
	default:
		return time.Duration(t.Range(1, 5)) * time.Second
	}
}

func (ev *env) drawOutcome(allowPanic bool) outcome {
	t := ev.t
	var o outcome
	switch v := t.Intn(10); {
	case v < 6:
	case v < 9 || !allowPanic:
		o.kind = 1
	default:
		o.kind = 2
	}
	if ev.rich {
		switch o.kind {
		case 0:
			o.vk = t.Intn(nValKinds)
		case 1:
			o.ek = t.Intn(nErrKinds)
			if o.both = t.Chance(1, 3); o.both {
				o.vk = t.Intn(nValKinds)
			}
		case 2:
			o.pk = t.Intn(nPanicKinds)
		}
	}
	return o
}

func (ev *env) drawPlan(withEx, top bool, after *plan) *plan {
	t := ev.t
	p := &plan{}
	if after == nil {
		if ev.nGroups > 1 {
			p.g = t.Intn(ev.nGroups)
		}
		p.ki = t.Intn(ev.nKeys)
	} else {
		// strictly larger (g, ki) than the enclosing call
		rank := after.g*ev.nKeys + after.ki
		n := ev.nGroups*ev.nKeys - rank - 1
		rank += 1 + t.Intn(n)
		p.g, p.ki = rank/ev.nKeys, rank%ev.nKeys
	}
	p.key = ev.keys[p.ki]
	if withEx {
		p.ex = t.Bool()
	}
	p.dur, p.yields = drawDur(t), t.Intn(3)
	p.out = ev.drawOutcome(ev.allowPanic && top)
	if top {
		p.think = drawDur(t) / 2
		if ev.burst {
			p.think = 0
		}
		if ev.nestOn && p.g*ev.nKeys+p.ki < ev.nGroups*ev.nKeys-1 && t.Chance(1, 3) {
			p.nest = ev.drawPlan(withEx, false, p)
			p.nestLate = t.Bool()
		}
	}
	return p
}

func (ev *env) drawPlans(withEx bool) [][]*plan {
	plans := make([][]*plan, ev.nTasks)
	for i := range plans {
		for j := 0; j < ev.perTask; j++ {
			plans[i] = append(plans[i], ev.drawPlan(withEx, true, nil))
		}
	}
	return plans
}

func (ev *env) sample(component string, plans [][]*plan) map[string]any {
	return map[string]any{"component": component, "tasks": ev.nTasks, "keys": ev.nKeys, "calls_per_task": ev.perTask,
		"objects": ev.nGroups, "key_style": keyStyleNames[ev.keyStyle], "rich_results": ev.rich, "panics": ev.allowPanic,
		"nested_calls": ev.nestOn, "burst": ev.burst, "churn": ev.churn.String(), "first_task_plan": fmt.Sprintf("%v", plans[0])}
}

// ---------------------------------------------------------------------------------------------

func (w *world) newCall(p *plan) *call {
	c := &call{id: len(w.calls), g: p.g, key: p.wkey(), raw: p.key}
	w.calls = append(w.calls, c)
	w.callsBy[c.key] = append(w.callsBy[c.key], c)
	c.inv = w.tick()
	c.invT = time.Now()
	if a := w.active[c.key]; a != nil {
		// a caller arriving on a key with an execution in flight, on an object with a history
		if w.done[c.g] >= 250 {
			w.r.Probe("late-caller-on-object-with-250-or-more-completed-executions")
		}
		if w.done[c.g]-a.doneAtStart >= 64 {
			w.r.Probe("late-caller-after-64-or-more-executions-completed-during-the-flight")
		}
	}
	return c
}

// runFn is the body of a supplied function: records the execution, takes some virtual time /
// scheduling points, optionally calls into the component again (another key), and produces the
// planned result.
func (w *world) runFn(c *call, p *plan, gate chan struct{}) (any, error) {
	e := &exec{id: len(w.execs), g: c.g, key: c.key, leader: c.id, start: w.tick(), startT: time.Now(), doneAtStart: w.done[c.g]}
	w.execs = append(w.execs, e)
	w.execsBy[c.key] = append(w.execsBy[c.key], e)
	c.ownRuns++
	c.ownExec = e
	if other := w.active[c.key]; other != nil {
		w.r.Fail("overlap", "key %q (object|key %s): execution %d (call %d) started while execution %d (call %d) is still running", c.raw, c.key, e.id, c.id, other.id, other.leader)
	}
	w.active[c.key] = e
	for i := 0; i < p.yields; i++ {
		w.r.Yield()
	}
	if p.nest != nil && !p.nestLate {
		w.r.Probe("nested-call-from-function")
		w.nested(p.nest)
	}
	if p.dur > 0 {
		w.r.Sleep(p.dur)
	}
	if p.nest != nil && p.nestLate {
		w.r.Probe("nested-call-from-function")
		w.nested(p.nest)
	}
	if gate != nil {
		simrt.Recv("gate", gate)
	}
	if w.active[c.key] == e {
		delete(w.active, c.key)
	}
	e.end = w.tick()
	e.endT = time.Now()
	w.done[e.g]++
	return w.finish(e, p.out)
}

func overlaps(a, b *call) bool {
	// call intervals [inv, ret]; a call that has not returned extends to infinity
	aret, bret := a.ret, b.ret
	if !a.returned {
		aret = 1 << 60
	}
	if !b.returned {
		bret = 1 << 60
	}
	return a.inv < bret && b.inv < aret
}

// sharedPanicked returns the panicked executions of c's key whose leading call overlaps c (the
// executions c may have shared without running its own function).
func (w *world) sharedPanicked(c *call) []*exec {
	var out []*exec
	for _, e := range w.execsBy[c.key] {
		if e.panicked && e.leader != c.id && overlaps(c, w.calls[e.leader]) {
			out = append(out, e)
		}
	}
	return out
}

// checkPanic: a caller panics exactly when its own function did, with the very same value; a
// caller that did not run its function may only see the re-raised panic value of an execution
// it shares.  waiterClass names the violation "a caller sharing a panicked execution panics
// with something else".  Returns true when the call ended by a (legitimate or not) panic or a
// violation was reported.
func (w *world) checkPanic(c *call, waiterClass string) bool {
	own := c.ownExec
	if c.panicked {
		if own != nil && own.panicked {
			if !sameAny(c.panicVal, own.panicVal) {
				w.r.Fail("panic-value-changed", "call %d on %q: its function panicked with %#v, the caller saw %#v", c.id, c.raw, own.panicVal, c.panicVal)
			}
			return true
		}
		if own == nil {
			sh := w.sharedPanicked(c)
			for _, e := range sh {
				if sameAny(c.panicVal, e.panicVal) {
					w.r.Probe("waiter-got-reraised-panic-of-shared-exec")
					return true
				}
			}
			if len(sh) > 0 {
				w.r.Fail(waiterClass, "call %d on %q did not run its function, shared the flight of call %d whose function panicked (%v), and itself panicked with something else: %v", c.id, c.raw, sh[0].leader, sh[0].panicVal, c.panicVal)
				return true
			}
		}
		w.r.Fail("foreign-panic", "call %d on %q panicked with %v although its own function did not", c.id, c.raw, c.panicVal)
		return true
	}
	if own != nil && own.panicked {
		w.r.Fail("panic-swallowed", "call %d on %q: its own function panicked with %v but the call returned (%v, %v)", c.id, c.raw, own.panicVal, c.val, c.err)
		return true
	}
	return false
}

func body(r *simrt.Run, tier string) {
	t := r.Tape
	switch t.Intn(3) {
	case 0:
		singleFlight(r, tier)
	case 1:
		lockedCalls(r, tier)
	default:
		resourceManager(r, tier)
	}
}

// stallOn: the scheduler may inject virtual-time stalls in this run (set by
// config, which the engine calls right before body); exact virtual-time
// reasoning is only done in runs without them.
var stallOn bool

func config(t *simrt.Tape, tier string) simrt.Config {
	c := simharness.DefaultConfig(t, tier)
	stallOn = c.StallPerMille > 0
	// a long-lived object's history (several hundred quick calls) needs more scheduling points
	c.MaxSteps = 40000
	return c
}

func TestSim(t *testing.T) {
	simharness.Main(t, &simharness.Spec{ID: "C07", Body: body, Config: config, StuckIsViolation: true, CrashIsViolation: true})
}
