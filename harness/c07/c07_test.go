package c07

import (
	"errors"
	"fmt"
	"io"
	"testing"
	"time"

	"github.com/zeromicro/go-zero/core/syncx"

	"verifsim/simharness"
	"verifsim/simrt"
)

// C07: SingleFlight / LockedCalls / ResourceManager.

type exec struct {
	id         int
	key        string
	leader     int // call index
	start, end int // logical clock; end==0 while running
	startT     time.Time
	endT       time.Time
	val        int
	err        error
	panicked   bool
}

type call struct {
	id          int
	key         string
	inv, ret    int
	invT        time.Time
	val         any
	fresh       bool
	err         error
	panicked    bool
	ownRuns     int
	returned    bool
	ownExec     *exec
}

type closer struct{ id int }

func (c *closer) Close() error { return nil }

type world struct {
	r      *simrt.Run
	t0     time.Time
	clk    int
	execs  []*exec
	calls  []*call
	active map[string]*exec
}

func (w *world) tick() int { w.clk++; return w.clk }

// runFn is the body of a supplied function: records the execution, takes some
// virtual time / scheduling points, and produces a unique result.
func (w *world) runFn(c *call, dur time.Duration, yields int, outcome int, gate chan struct{}) (*exec, error) {
	e := &exec{id: len(w.execs), key: c.key, leader: c.id, start: w.tick(), startT: time.Now()}
	w.execs = append(w.execs, e)
	c.ownRuns++
	c.ownExec = e
	if other := w.active[c.key]; other != nil {
		w.r.Fail("overlap", "key %s: execution %d (call %d) started while execution %d (call %d) is still running", c.key, e.id, c.id, other.id, other.leader)
	}
	w.active[c.key] = e
	for i := 0; i < yields; i++ {
		w.r.Yield()
	}
	if dur > 0 {
		w.r.Sleep(dur)
	}
	if gate != nil {
		simrt.Recv("gate", gate)
	}
	if w.active[c.key] == e {
		delete(w.active, c.key)
	}
	e.end = w.tick()
	e.endT = time.Now()
	e.val = 1000 + e.id
	switch outcome {
	case 1:
		e.err = fmt.Errorf("err-of-exec-%d", e.id)
	case 2:
		e.panicked = true
		panic(fmt.Sprintf("panic-of-exec-%d", e.id))
	}
	return e, e.err
}

func overlaps(a, b *call) bool {
	// call intervals [inv, ret]; a call that has not returned extends to infinity
	aret, bret := a.ret, b.ret
	if !a.returned {
		aret = 1 << 60
	}
	if !b.returned {
		bret = 1 << 60
	}
	return a.inv < bret && b.inv < aret
}

func body(r *simrt.Run, tier string) {
	t := r.Tape
	switch t.Intn(3) {
	case 0:
		singleFlight(r, tier)
	case 1:
		lockedCalls(r, tier)
	default:
		resourceManager(r, tier)
	}
}

func sizes(t *simrt.Tape, tier string) (nTasks, nKeys, perTask int) {
	maxT, maxP := 5, 3
	if tier == "thorough" {
		maxT, maxP = 8, 5
	}
	return t.Range(2, maxT), t.Range(1, 3), t.Range(1, maxP)
}

func drawDur(t *simrt.Tape) time.Duration {
	switch t.Intn(4) {
	case 0, 1:
		return 0
	case 2:
		return time.Duration(t.Range(1, 50)) * time.Millisecond
	default:
		return time.Duration(t.Range(1, 5)) * time.Second
	}
}

func singleFlight(r *simrt.Run, tier string) {
	t := r.Tape
	w := &world{r: r, active: map[string]*exec{}}
	g := syncx.NewSingleFlight()
	nTasks, nKeys, perTask := sizes(t, tier)
	allowPanic := t.Chance(1, 4)
	type plan struct {
		key     string
		ex      bool
		dur     time.Duration
		yields  int
		outcome int
		think   time.Duration
	}
	plans := make([][]plan, nTasks)
	for i := range plans {
		for j := 0; j < perTask; j++ {
			p := plan{key: fmt.Sprintf("k%d", t.Intn(nKeys)), ex: t.Bool(), dur: drawDur(t), yields: t.Intn(3), think: drawDur(t) / 2}
			switch v := t.Intn(10); {
			case v < 6:
			case v < 9 || !allowPanic:
				p.outcome = 1
			default:
				p.outcome = 2
			}
			plans[i] = append(plans[i], p)
		}
	}
	if r.Tracing() {
		r.Logf("singleflight tasks=%d keys=%d plans=%+v", nTasks, nKeys, plans)
	}
	r.Sample(map[string]any{"component": "SingleFlight", "tasks": nTasks, "keys": nKeys, "calls_per_task": perTask, "first_task_plan": fmt.Sprintf("%+v", plans[0])})
	var tasks []*simrt.Task
	for i := 0; i < nTasks; i++ {
		i := i
		tasks = append(tasks, r.Go(fmt.Sprintf("client%d", i), func() {
			for _, p := range plans[i] {
				if p.think > 0 {
					r.Sleep(p.think)
				}
				c := &call{id: len(w.calls), key: p.key}
				w.calls = append(w.calls, c)
				c.inv = w.tick()
				r.Ev("invoke", int64(c.id))
				func() {
					defer func() {
						if rec := recover(); rec != nil {
							c.panicked = true
						}
					}()
					fn := func() (any, error) {
						e, err := w.runFn(c, p.dur, p.yields, p.outcome, nil)
						return e.val, err
					}
					if p.ex {
						c.val, c.fresh, c.err = g.DoEx(p.key, fn)
					} else {
						c.val, c.err = g.Do(p.key, fn)
						c.fresh = c.ownRuns > 0 // Do does not report freshness
					}
				}()
				c.ret = w.tick()
				c.returned = true
				r.Ev("return", int64(c.id))
				w.checkSF(c)
			}
		}))
	}
	if !r.JoinTimeout(6*time.Hour, tasks...) {
		r.Fail("stuck", "SingleFlight callers did not all return: %v", r.AliveTasks())
	}
	r.Probe("oracle")
}

// checkSF validates one returned SingleFlight call against the recorded executions.
func (w *world) checkSF(c *call) {
	r := w.r
	if c.ownRuns > 1 {
		r.Fail("multi-run", "call %d ran its function %d times", c.id, c.ownRuns)
		return
	}
	if c.panicked {
		if c.ownExec == nil || !c.ownExec.panicked {
			r.Fail("foreign-panic", "call %d panicked although its own function did not", c.id)
		}
		return
	}
	// which execution produced the returned value?
	var src *exec
	for _, e := range w.execs {
		if e.key != c.key || e.end == 0 {
			continue
		}
		if e.panicked {
			continue
		}
		if c.err != nil {
			if errors.Is(c.err, e.err) && e.err != nil {
				src = e
			}
		} else if e.err == nil && c.val == any(e.val) {
			src = e
		}
	}
	if src == nil {
		// (nil, nil) is what waiters of a panicked execution get
		if c.val == nil && c.err == nil {
			for _, e := range w.execs {
				if e.key == c.key && e.panicked && e.leader != c.id && overlaps(c, w.calls[e.leader]) {
					r.Probe("waiter-of-panicked-exec")
					if c.fresh {
						r.Fail("fresh", "call %d reported fresh but did not run", c.id)
					}
					return
				}
			}
		}
		r.Fail("unattributable", "call %d on %s returned (%v, %v) which no execution of that key produced (own runs=%d)", c.id, c.key, c.val, c.err, c.ownRuns)
		return
	}
	isLeader := src.leader == c.id
	if c.ownRuns == 1 && !isLeader {
		r.Fail("own-result-lost", "call %d ran its own function (exec %d) but received the result of exec %d", c.id, c.ownExec.id, src.id)
		return
	}
	if !isLeader {
		r.Probe("shared-result")
		L := w.calls[src.leader]
		if !overlaps(c, L) {
			r.Fail("stale", "call %d [%d,%d] on %s received the result of exec %d whose leading call %d [%d,%d] does not overlap it", c.id, c.inv, c.ret, c.key, src.id, L.id, L.inv, L.ret)
			return
		}
	}
	if c.fresh != isLeader {
		r.Fail("fresh", "call %d fresh=%v but leader=%v (exec %d led by call %d)", c.id, c.fresh, isLeader, src.id, src.leader)
	}
}

func lockedCalls(r *simrt.Run, tier string) {
	t := r.Tape
	w := &world{r: r, active: map[string]*exec{}, t0: time.Now()}
	g := syncx.NewLockedCalls()
	nTasks, nKeys, perTask := sizes(t, tier)
	// optionally one call on key "gate" blocks until main has seen all other keys finish
	useGate := nKeys >= 1 && t.Chance(1, 3)
	gate := make(chan struct{})
	type plan struct {
		key     string
		dur     time.Duration
		yields  int
		outcome int
		think   time.Duration
	}
	plans := make([][]plan, nTasks)
	for i := range plans {
		for j := 0; j < perTask; j++ {
			p := plan{key: fmt.Sprintf("k%d", t.Intn(nKeys)), dur: drawDur(t), yields: t.Intn(3), think: drawDur(t) / 2}
			if t.Intn(10) >= 7 {
				p.outcome = 1
			}
			plans[i] = append(plans[i], p)
		}
	}
	if r.Tracing() {
		r.Logf("lockedcalls tasks=%d keys=%d gate=%v plans=%+v", nTasks, nKeys, useGate, plans)
	}
	r.Sample(map[string]any{"component": "LockedCalls", "tasks": nTasks, "keys": nKeys, "gate_key_stalled": useGate, "first_task_plan": fmt.Sprintf("%+v", plans[0])})
	do := func(c *call, p plan, gt chan struct{}) {
		w.calls = append(w.calls, c)
		c.inv = w.tick()
		c.invT = time.Now()
		v, err := g.Do(c.key, func() (any, error) {
			e, err := w.runFn(c, p.dur, p.yields, p.outcome, gt)
			return e.val, err
		})
		c.ret = w.tick()
		c.returned = true
		if c.ownRuns != 1 {
			r.Fail("own-runs", "LockedCalls call %d ran its function %d times", c.id, c.ownRuns)
			return
		}
		e := c.ownExec
		if e.err != nil {
			if err != e.err {
				r.Fail("result", "LockedCalls call %d: got error %v, own function returned %v", c.id, err, e.err)
			}
		} else if err != nil || v != any(e.val) {
			r.Fail("result", "LockedCalls call %d: got (%v,%v), own function returned (%v,nil)", c.id, v, err, e.val)
		}
	}
	var gated *simrt.Task
	var gateWaiters []*simrt.Task
	if useGate {
		gated = r.Go("gated", func() {
			do(&call{id: len(w.calls), key: "gatekey"}, plan{key: "gatekey"}, gate)
		})
		// let the gated call get going (it may or may not have registered yet; both are fine)
		for i := t.Intn(4); i > 0; i-- {
			r.Yield()
		}
		// further callers of the stalled key: they may stay blocked until the release (or run
		// before the gated call if they win the race), but whatever they do inside LockedCalls
		// while waiting must not hold up the calls on the other keys
		for i := t.Intn(3); i > 0; i-- {
			i := i
			th := drawDur(t) / 2
			gateWaiters = append(gateWaiters, r.Go(fmt.Sprintf("gatewaiter%d", i), func() {
				if th > 0 {
					r.Sleep(th)
				}
				do(&call{id: len(w.calls), key: "gatekey"}, plan{key: "gatekey"}, nil)
			}))
			r.Probe("waiter-on-stalled-key")
		}
	}
	var tasks []*simrt.Task
	for i := 0; i < nTasks; i++ {
		i := i
		tasks = append(tasks, r.Go(fmt.Sprintf("client%d", i), func() {
			for _, p := range plans[i] {
				if p.think > 0 {
					r.Sleep(p.think)
				}
				do(&call{id: len(w.calls), key: p.key}, p, nil)
			}
		}))
	}
	if !r.JoinTimeout(6*time.Hour, tasks...) {
		if useGate {
			r.Fail("cross-key-blocking", "calls on other keys did not finish while key gatekey's function was stalled: %v", r.AliveTasks())
		} else {
			r.Fail("stuck", "LockedCalls callers did not all return: %v", r.AliveTasks())
		}
		return
	}
	if useGate {
		r.Probe("cross-key-progress-checked")
		simrt.Close("gate", gate)
		if !r.JoinTimeout(time.Hour, append([]*simrt.Task{gated}, gateWaiters...)...) {
			r.Fail("stuck", "LockedCalls calls on the stalled key did not return after its release: %v", r.AliveTasks())
		}
	}
	// "calls on different keys never wait for each other", timed form: computation takes no
	// virtual time, so in a run without injected stalls a call starts its function either at
	// the instant it was made or at an instant at which an execution on the SAME key ended;
	// any other start instant means it was held up by (the end of) a call on another key.
	if !stallOn {
		for _, c := range w.calls {
			e := c.ownExec
			if e == nil || e.startT.Equal(c.invT) {
				continue
			}
			ok := false
			for _, o := range w.execs {
				if o != e && o.key == c.key && o.end != 0 && o.endT.Equal(e.startT) {
					ok = true
					break
				}
			}
			r.Probe("waiter-start-instant-checked")
			if !ok {
				r.Fail("cross-key-wait", "LockedCalls call %d on key %s was made at +%v and started its function at +%v, an instant at which no execution on key %s ended (no stalls injected): it waited for a call on another key",
					c.id, c.key, c.invT.Sub(w.t0), e.startT.Sub(w.t0), c.key)
				break
			}
		}
	}
	r.Probe("oracle")
}

func resourceManager(r *simrt.Run, tier string) {
	t := r.Tape
	w := &world{r: r, active: map[string]*exec{}}
	m := syncx.NewResourceManager()
	nTasks, nKeys, perTask := sizes(t, tier)
	created := map[string]*closer{} // first successful creation per key
	type plan struct {
		key    string
		dur    time.Duration
		yields int
		fail   bool
		think  time.Duration
	}
	plans := make([][]plan, nTasks)
	for i := range plans {
		for j := 0; j < perTask; j++ {
			plans[i] = append(plans[i], plan{key: fmt.Sprintf("k%d", t.Intn(nKeys)), dur: drawDur(t), yields: t.Intn(3), fail: t.Chance(1, 3), think: drawDur(t) / 2})
		}
	}
	if r.Tracing() {
		r.Logf("resourcemanager tasks=%d keys=%d plans=%+v", nTasks, nKeys, plans)
	}
	r.Sample(map[string]any{"component": "ResourceManager", "tasks": nTasks, "keys": nKeys, "first_task_plan": fmt.Sprintf("%+v", plans[0])})
	var tasks []*simrt.Task
	for i := 0; i < nTasks; i++ {
		i := i
		tasks = append(tasks, r.Go(fmt.Sprintf("client%d", i), func() {
			for _, p := range plans[i] {
				if p.think > 0 {
					r.Sleep(p.think)
				}
				c := &call{id: len(w.calls), key: p.key}
				w.calls = append(w.calls, c)
				c.inv = w.tick()
				var mine *closer
				res, err := m.GetResource(p.key, func() (io.Closer, error) {
					outcome := 0
					if p.fail {
						outcome = 1
					}
					e, err := w.runFn(c, p.dur, p.yields, outcome, nil)
					if err != nil {
						return nil, err
					}
					mine = &closer{id: e.id}
					if prev := created[p.key]; prev != nil {
						r.Fail("created-twice", "resource %s created successfully twice (exec %d after exec %d)", p.key, e.id, prev.id)
					} else {
						created[p.key] = mine
					}
					return mine, nil
				})
				c.ret = w.tick()
				c.returned = true
				if err != nil {
					// must be the error of a failed creation that overlaps this call
					ok := false
					for _, e := range w.execs {
						if e.key == p.key && e.err != nil && errors.Is(err, e.err) && overlaps(c, w.calls[e.leader]) {
							ok = true
						}
					}
					if !ok {
						r.Fail("stale-error", "GetResource(%s) call %d returned error %v that no overlapping creation produced", p.key, c.id, err)
					}
					if res != nil {
						r.Fail("result", "GetResource returned both a resource and an error")
					}
					continue
				}
				first := created[p.key]
				if first == nil || res != io.Closer(first) {
					r.Fail("different-instance", "GetResource(%s) call %d returned %v, the created instance is %v", p.key, c.id, res, first)
				}
			}
		}))
	}
	if !r.JoinTimeout(6*time.Hour, tasks...) {
		r.Fail("stuck", "ResourceManager callers did not all return: %v", r.AliveTasks())
	}
	r.Probe("oracle")
}

// stallOn: the scheduler may inject virtual-time stalls in this run (set by
// config, which the engine calls right before body); exact virtual-time
// reasoning is only done in runs without them.
var stallOn bool

func config(t *simrt.Tape, tier string) simrt.Config {
	c := simharness.DefaultConfig(t, tier)
	stallOn = c.StallPerMille > 0
	return c
}

func TestSim(t *testing.T) {
	simharness.Main(t, &simharness.Spec{ID: "C07", Body: body, Config: config, StuckIsViolation: true, CrashIsViolation: true})
}
