package c07

import (
	"fmt"
	"time"

	"github.com/zeromicro/go-zero/core/syncx"

	"verifsim/simrt"
)

func singleFlight(r *simrt.Run, tier string) {
	w := newWorld(r)
	ev := drawEnv(r, tier, true)
	groups := make([]syncx.SingleFlight, ev.nGroups)
	for i := range groups {
		groups[i] = syncx.NewSingleFlight()
	}
	plans := ev.drawPlans(true)
	if r.Tracing() {
		r.Logf("singleflight %v plans=%v", ev.sample("SingleFlight", plans), plans)
	}
	r.Sample(ev.sample("SingleFlight", plans))
	var invoke func(p *plan)
	invoke = func(p *plan) {
		c := w.newCall(p)
		r.Ev("invoke", int64(c.id))
		func() {
			defer func() {
				if rec := recover(); rec != nil {
					c.panicked = true
					c.panicVal = rec
				}
			}()
			fn := func() (any, error) { return w.runFn(c, p, nil) }
			if p.ex {
				c.val, c.fresh, c.err = groups[p.g].DoEx(p.key, fn)
			} else {
				c.val, c.err = groups[p.g].Do(p.key, fn)
				c.fresh = c.ownRuns > 0 // Do does not report freshness
			}
		}()
		c.ret = w.tick()
		c.returned = true
		r.Ev("return", int64(c.id))
		w.checkSF(c)
	}
	w.nested = invoke
	if ev.churn != nil {
		r.Probe("churn-singleflight")
	}
	ev.churnBefore(invoke)
	tasks := ev.churnStart(r, invoke)
	for i := 0; i < ev.nTasks; i++ {
		i := i
		tasks = append(tasks, r.Go(fmt.Sprintf("client%d", i), func() {
			for _, p := range plans[i] {
				if p.think > 0 {
					r.Sleep(p.think)
				}
				invoke(p)
			}
		}))
	}
	if !r.JoinTimeout(6*time.Hour, tasks...) {
		r.Fail("stuck", "SingleFlight callers did not all return: %v", r.AliveTasks())
	}
	for _, e := range w.execs {
		if e.shared >= 8 {
			r.Probe("execution-shared-by-8-or-more-callers")
			break
		}
	}
	r.Probe("oracle")
}

// checkSF validates one returned SingleFlight call against the recorded executions: the caller
// got the value and error (both, by identity) of its own execution, or of an execution of the
// same key on the same object whose leading call overlaps it; fresh exactly for the leader.
func (w *world) checkSF(c *call) {
	r := w.r
	if c.ownRuns > 1 {
		r.Fail("multi-run", "call %d ran its function %d times", c.id, c.ownRuns)
		return
	}
	if w.checkPanic(c, "sf-waiter-of-panicked-call-panics-with-other-value") {
		return
	}
	if own := c.ownExec; own != nil {
		if own.end == 0 {
			r.Fail("own-result-lost", "call %d returned while its own execution %d was still running", c.id, own.id)
			return
		}
		if !sameAny(c.val, own.val) || !sameErr(c.err, own.err) {
			r.Fail("own-result-lost", "call %d on %q ran its own function (exec %d, result (%v, %v)) but received (%v, %v)", c.id, c.raw, own.id, own.val, own.err, c.val, c.err)
			return
		}
		if !c.fresh {
			r.Fail("fresh", "call %d ran the function (exec %d) but was reported fresh=false", c.id, own.id)
		}
		return
	}
	// the call did not run its function: which execution produced what it got?
	var src, stale *exec
	es := w.execsBy[c.key]
	for i := len(es) - 1; i >= 0; i-- { // latest first: the usual source is a recent execution
		e := es[i]
		if e.end == 0 || e.panicked || !sameAny(c.val, e.val) || !sameErr(c.err, e.err) {
			continue
		}
		if overlaps(c, w.calls[e.leader]) {
			src = e
			break
		}
		stale = e
	}
	if src == nil {
		// a caller sharing an execution that panicked: a non-nil error and no value (or the
		// re-raised panic, see checkPanic), never a success or a value nobody produced
		if sh := w.sharedPanicked(c); len(sh) > 0 {
			if c.err != nil && c.val == nil {
				r.Probe("waiter-of-panicked-exec-got-error")
				if c.fresh {
					r.Fail("fresh", "call %d reported fresh but did not run", c.id)
				}
				return
			}
			r.Fail("sf-waiter-of-panicked-call-gets-fabricated-result", "call %d on %q did not run its function and shared the flight of call %d whose function panicked (%v): it received (%v, %v), which no execution produced", c.id, c.raw, sh[0].leader, sh[0].panicVal, c.val, c.err)
			return
		}
		if stale != nil {
			L := w.calls[stale.leader]
			r.Fail("stale", "call %d [%d,%d] on %q received the result of exec %d whose leading call %d [%d,%d] does not overlap it", c.id, c.inv, c.ret, c.raw, stale.id, L.id, L.inv, L.ret)
			return
		}
		r.Fail("unattributable", "call %d on %q returned (%v, %v) which no execution of that key on that object produced (own runs=%d)", c.id, c.raw, c.val, c.err, c.ownRuns)
		return
	}
	r.Probe("shared-result")
	src.shared++
	if c.fresh {
		r.Fail("fresh", "call %d fresh=true but it did not run the function (result of exec %d led by call %d)", c.id, src.id, src.leader)
	}
}
