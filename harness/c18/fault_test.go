package c18

import (
	"bytes"
	"fmt"
	"io"
	"net/http"
	"time"

	"verifsim/simrt"
)

// ---------------------------------------------------------------------------
// faults on the request body reader
//
// A request body is a stream that arrives over a network: a Read may return fewer bytes than asked
// for, the last bytes may come together with io.EOF, reads may take time, a read may fail with an
// error that is reported ONCE (a read deadline that expired and was extended: the next Read
// continues with the following bytes, like testing/iotest.TimeoutReader) or with an error that
// stays (connection reset).  The gate hashes the body while it verifies the signature and hands a
// copy on to the protected handler; whatever the reader does, the handler may only run on bytes
// the verified signature covers.
//
// The zero plan is the plain in-memory body (bytes.Reader) of the earlier workload.
// ---------------------------------------------------------------------------

const (
	bfNone      = iota
	bfTransient // the error is reported once at the offset, reading continues afterwards
	bfSticky    // every Read at the offset fails
)

var bfErrNames = [...]string{"none", "transient", "sticky"}

// where the error sits in the body (bfPlan.off)
const (
	boSignedEnd = iota // at the end of the bytes the client signed (= end of the body unless a tail was appended)
	boStart
	boAfterFirst
	boMiddle
	boBeforeLast
	boEnd // at the very end of what is sent (incl. an appended tail)
	boCount
)

var boNames = [...]string{"signed-end", "start", "after-first-byte", "middle", "before-last-byte", "end"}

var bfTails = []int{0, 1, 18, 33, 1000}
var bfMaxReads = []int{0, 1, 2, 7, 16, 64}

type bfPlan struct {
	err      int  // bfNone / bfTransient / bfSticky
	off      int  // bo*
	tail     int  // index into bfTails: bytes appended to the body AFTER signing, sent after the error (only with off == boSignedEnd)
	withData bool // the error is returned together with the last bytes before it (n > 0, err != nil)
	maxRead  int  // index into bfMaxReads: a Read returns at most that many bytes (0 = as many as asked for)
	eofData  bool // the last bytes come together with io.EOF
	slow     int  // wait before each of the first reads (hbWait code: 0 none, 1 scheduling point, 2 1 ms, 3 40 ms)
	tseed    uint64
}

func (b bfPlan) active() bool { return b.err != 0 || b.maxRead != 0 || b.eofData || b.slow != 0 }

// drawBf: 2/3 of the requests keep the plain in-memory body.
func drawBf(t *simrt.Tape) bfPlan {
	var b bfPlan
	if !t.Chance(1, 3) {
		return b
	}
	b.err = weighted(t, 3, 3, 1)
	if b.err != bfNone {
		b.off = weighted(t, 4, 1, 1, 1, 1, 1)
		if b.off == boSignedEnd {
			b.tail = weighted(t, 2, 1, 1, 1, 1)
			b.tseed = seedOf(t)
		}
		b.withData = t.Chance(1, 4)
	}
	b.maxRead = weighted(t, 3, 1, 1, 1, 1, 1)
	b.eofData = t.Chance(1, 3)
	b.slow = weighted(t, 3, 2, 1, 1)
	return b
}

func (b bfPlan) String() string {
	if !b.active() {
		return "plain"
	}
	s := ""
	if b.err != bfNone {
		s = fmt.Sprintf("%s read error at %s", bfErrNames[b.err], boNames[b.off])
		if b.tail > 0 {
			s += fmt.Sprintf(" followed by %d appended bytes", bfTails[b.tail])
		}
		if b.withData {
			s += " (returned together with data)"
		}
	}
	if b.maxRead > 0 {
		s += fmt.Sprintf(" reads<=%d", bfMaxReads[b.maxRead])
	}
	if b.eofData {
		s += " data+EOF"
	}
	if b.slow > 0 {
		s += fmt.Sprintf(" slow=%d", b.slow)
	}
	return s
}

// bodyFault is the plan resolved against the bytes of one request.
type bodyFault struct {
	plan   bfPlan
	run    *simrt.Run
	errOff int // offset of the error in the body as sent (err != bfNone)
}

func (f *bodyFault) active() bool    { return f != nil && f.plan.active() }
func (f *bodyFault) hasError() bool  { return f != nil && f.plan.err != bfNone }
func (f *bodyFault) transient() bool { return f != nil && f.plan.err == bfTransient }

// applyFault attaches the fault to the wire request (after it was built and signed).  signedLen is the
// length of the body the signature was made over when the body as sent starts with it.
func applyFault(r *simrt.Run, q *wire, b bfPlan, signedLen int) {
	if !b.active() {
		return
	}
	f := &bodyFault{plan: b, run: r}
	if b.err != bfNone {
		n := len(q.body)
		if signedLen > n {
			signedLen = n
		}
		switch b.off {
		case boSignedEnd:
			f.errOff = signedLen
			if k := bfTails[b.tail]; k > 0 && signedLen == n {
				// bytes no signature covers, sent after the point at which the read error is reported
				q.body = append(append([]byte{}, q.body...), []byte((&prng{s: b.tseed}).text(k))...)
				r.Probe("body-fault-unsigned-tail-after-error")
			}
		case boStart:
			f.errOff = 0
		case boAfterFirst:
			f.errOff = min(1, n)
		case boMiddle:
			f.errOff = n / 2
		case boBeforeLast:
			f.errOff = max(n-1, 0)
		default:
			f.errOff = n
		}
		r.Probe("body-fault-" + bfErrNames[b.err] + "-error-at-" + boNames[b.off])
		if f.errOff == len(q.body) {
			r.Probe("body-fault-error-instead-of-eof")
		}
	}
	if b.maxRead > 0 {
		r.Probe("body-fault-short-reads")
	}
	if b.eofData {
		r.Probe("body-fault-data-with-eof")
	}
	if b.slow > 0 {
		r.Probe("body-fault-slow-reader")
	}
	q.fault = f
}

// errBodyTimeout is what the reader reports: a timeout in the sense of net.Error.
type errBodyTimeout struct{}

func (errBodyTimeout) Error() string   { return "verif: i/o timeout reading the request body" }
func (errBodyTimeout) Timeout() bool   { return true }
func (errBodyTimeout) Temporary() bool { return true }

// faultReader is the body of one request on the wire.
type faultReader struct {
	f      *bodyFault
	data   []byte
	pos    int
	fired  bool
	reads  int
	errs   int
	closed int
}

func (fr *faultReader) Read(p []byte) (int, error) {
	b := &fr.f.plan
	fr.reads++
	if b.slow > 0 && fr.reads <= 4 {
		hbWait(fr.f.run, b.slow)
	}
	pending := b.err != bfNone && (!fr.fired || b.err == bfSticky) && fr.pos <= fr.f.errOff
	if pending && fr.pos == fr.f.errOff {
		fr.fired = true
		fr.errs++
		fr.f.run.Probe("body-fault-error-fired")
		return 0, errBodyTimeout{}
	}
	if fr.pos >= len(fr.data) {
		return 0, io.EOF
	}
	n := len(p)
	if n == 0 {
		return 0, nil
	}
	if m := bfMaxReads[b.maxRead]; m > 0 && n > m {
		n = m
	}
	if left := len(fr.data) - fr.pos; n > left {
		n = left
	}
	if pending && n > fr.f.errOff-fr.pos {
		n = fr.f.errOff - fr.pos
	}
	copy(p, fr.data[fr.pos:fr.pos+n])
	fr.pos += n
	if pending && b.withData && fr.pos == fr.f.errOff {
		fr.fired = true
		fr.errs++
		fr.f.run.Probe("body-fault-error-fired")
		return n, errBodyTimeout{}
	}
	if b.eofData && fr.pos == len(fr.data) {
		return n, io.EOF
	}
	return n, nil
}

func (fr *faultReader) Close() error {
	fr.closed++
	return nil
}

// faultyRequest: the request with the faulty reader as its body; the length is declared like for the
// in-memory body (Content-Length = bytes sent) unless the request is a chunked upload.
func (q *wire) faultyBody(req *http.Request) {
	req.Body = &faultReader{f: q.fault, data: q.body}
	req.ContentLength = int64(len(q.body))
	if q.chunked {
		req.ContentLength = -1
	}
}

// ---------------------------------------------------------------------------
// sessions: several signed requests that carry the SAME secret blob
//
// A client encrypts its secret (key, type, time) once and uses the resulting X-Content-Security
// secret for every request of a session; only the signature differs from request to request.
// Members of a session: exact copies of the session's base request (a client retrying), the base
// request with ONE field altered but the secret and - except for the signature forgeries - the
// signature kept, and requests with content of their own signed correctly under the session key.
// They are issued at (almost) the same instant, so the requests of a session are inside the gate
// together.  The verdict is per request, as for every other request.
// ---------------------------------------------------------------------------

const (
	svCopy = iota
	svSigCorrupt
	svOwnContent
	svBody
	svPath
	svQuery
	svMethod
	svSignedOtherTimestamp
	svSigOtherKey
	svCount
)

var svNames = [...]string{"copy", "signature-altered", "own-content", "body-altered", "path-altered", "query-altered", "method-altered",
	"signed-other-timestamp", "signed-with-other-key"}
var svKinds = [...]int{ckHonest, ckSigCorrupt, ckHonest, ckBody, ckPath, ckQuery, ckMethod, ckSignedOtherTimestamp, ckSigOtherKey}

// csSession: what the members of one session share on the wire (made by the first member that is built).
type csSession struct {
	made     bool
	ts       int64
	tss      string
	secret   string
	inflight []*csRec
}

func drawSessionBase(t *simrt.Tape, s int) csPlan {
	b := drawCsPlan(t)
	b.kind, b.delay, b.think = ckHonest, 0, 0
	if !t.Chance(1, 4) {
		b.tsCode = toNow
	}
	b.pid = 900 + s + 1
	b.bf = bfPlan{}
	return b
}

// drawSessionMember derives one member of the session from its base request.
func drawSessionMember(t *simrt.Tape, base csPlan, s int) csPlan {
	p := base
	p.sess = s + 1
	p.variant = weighted(t, 3, 3, 2, 1, 1, 1, 1, 1, 1)
	p.kind = svKinds[p.variant]
	if p.variant == svOwnContent {
		o := drawCsPlan(t)
		p.method, p.path, p.query, p.size, p.pseed, p.encEmpty, p.pid = o.method, o.path, o.query, o.size, o.pseed, o.encEmpty, 0
	}
	p.think = []time.Duration{0, 0, time.Nanosecond, time.Millisecond, 2 * time.Millisecond}[t.Intn(5)]
	p.mseed, p.rseed = seedOf(t), seedOf(t)
	p.yields = t.Intn(3)
	p.hb = drawHb(t)
	p.hdrForm = weighted(t, 6, 1, 1, 1)
	return p
}

// enter / leave: which members of a session are in flight together (evidence only).
func (w *csWorld) enter(rec *csRec) {
	if rec.plan.sess == 0 {
		return
	}
	ss := w.sessions[rec.plan.sess-1]
	if len(ss.inflight) > 0 {
		w.r.Probe("cs-session-secret-shared-by-requests-in-flight")
		for _, o := range ss.inflight {
			if (o.plan.kind == ckHonest) != (rec.plan.kind == ckHonest) {
				w.r.Probe("cs-session-forged-and-valid-request-in-flight-together")
			}
			if o.plan.kind == ckHonest && rec.plan.kind == ckHonest && !bytes.Equal(o.q.body, rec.q.body) {
				w.r.Probe("cs-session-valid-requests-of-different-content-in-flight-together")
			}
		}
	}
	ss.inflight = append(ss.inflight, rec)
}

func (w *csWorld) leave(rec *csRec) {
	if rec.plan.sess == 0 {
		return
	}
	ss := w.sessions[rec.plan.sess-1]
	for i, o := range ss.inflight {
		if o == rec {
			ss.inflight = append(ss.inflight[:i], ss.inflight[i+1:]...)
			break
		}
	}
}
