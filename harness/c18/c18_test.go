package c18

import (
	"crypto/aes"
	"crypto/rand"
	"crypto/rsa"
	"crypto/x509"
	"encoding/pem"
	"fmt"
	"os"
	"strings"
	"testing"
	"time"

	"github.com/zeromicro/go-zero/core/codec"
	"github.com/zeromicro/go-zero/core/logx"

	"verifsim/simharness"
	"verifsim/simrt"
)

// C18: authentication gates.
//
//   jwt_test.go   handler.Authorize / token.TokenParser (token validity against the virtual
//                 clock, current/previous secret, rotation with a shared parser history)
//   cs_test.go    handler.ContentSecurityHandler (strict / non-strict; timestamp tolerance
//                 against the virtual clock; encrypted bodies) and handler.CryptionHandler
//   engine_test.go the same gates as the REST engine wires them for 1-4 route groups on one server
//                 (rest.WithJwt / WithJwtTransition / WithSignature, Server.Use, callbacks); the groups'
//                 jwt settings are drawn independently, partly from a shared pool of secrets
//   extremes_test.go extreme values of the content-security timestamp and of the JWT time claims (far from the
//                 clock, at the wrap-around points of fixed-width arithmetic, beyond int64, no numbers at
//                 all) and the big-number arithmetic of the independent verifiers
//   handler_test.go how the protected handlers treat the request body (delayed / chunked / partial
//                 reads, closes) and the per-request body oracle; bursts of overlapping requests
//   fault_test.go what the request body READER does while the gate and the handler read it (short reads, data
//                 with EOF, slow reads, a read error reported once or for good at a drawn offset, unsigned bytes
//                 after the error point) and sessions: several requests carrying one and the same secret blob
//
// Every verdict is computed by an independent verifier from the request *as sent* (final
// header strings, url, body bytes) and the virtual instants of the call; the way a request
// was generated (honest, forged, which field mutated) is only used for probes.

const rsaBits = 1024

// Process-wide RSA material.  Generated once (real entropy): the key bytes only ever travel
// inside opaque header strings, they never reach a tape draw, a schedule decision, an Ev() or
// a verdict (verdicts only depend on whether a ciphertext decrypts under the key it was
// produced for).
var (
	rsaKeys    [5]*rsa.PrivateKey    // 0,1 (and 3,4 in engine mode): configurable on a server; 2: never configured
	keyPEM     [5][]byte             // PKCS#1 PEM of each key (written to key files in engine mode)
	decrypters [2]codec.RsaDecrypter // real go-zero decrypters for keys 0,1
)

// findings that are masked while developing (VERIF_C18_MASK=class,class): the scenario is
// still generated but only counted, not reported.
var masked = map[string]bool{}

func init() {
	logx.Disable()
	for _, c := range strings.Split(os.Getenv("VERIF_C18_MASK"), ",") {
		if c = strings.TrimSpace(c); c != "" {
			masked[c] = true
		}
	}
	for i := range rsaKeys {
		k, err := rsa.GenerateKey(rand.Reader, rsaBits)
		if err != nil {
			panic(err)
		}
		rsaKeys[i] = k
		keyPEM[i] = pem.EncodeToMemory(&pem.Block{Type: "RSA PRIVATE KEY", Bytes: x509.MarshalPKCS1PrivateKey(k)})
	}
	for i := range decrypters {
		f, err := os.CreateTemp("", "verif-c18-key-*.pem")
		if err != nil {
			panic(err)
		}
		name := f.Name()
		f.Write(keyPEM[i])
		f.Close()
		d, err := codec.NewRsaDecrypter(name)
		os.Remove(name)
		if err != nil {
			panic(err)
		}
		decrypters[i] = d
	}
}

// prng expands one tape draw into many bytes (payloads, keys): a pure function of the tape.
type prng struct{ s uint64 }

func (p *prng) next() uint64 {
	p.s += 0x9e3779b97f4a7c15
	z := p.s
	z = (z ^ (z >> 30)) * 0xbf58476d1ce4e5b9
	z = (z ^ (z >> 27)) * 0x94d049bb133111eb
	return z ^ (z >> 31)
}

func (p *prng) bytes(n int) []byte {
	b := make([]byte, n)
	for i := range b {
		b[i] = byte(p.next() >> 24)
	}
	return b
}

func (p *prng) text(n int) string {
	const al = "abcdefghijklmnopqrstuvwxyzABCDEFGHIJKLMNOPQRSTUVWXYZ0123456789-_!%*"
	b := make([]byte, n)
	for i := range b {
		b[i] = al[p.next()%uint64(len(al))]
	}
	return string(b)
}

func seedOf(t *simrt.Tape) uint64 { return t.Draw(1 << 32) }

// secret forms: 0 the usual short printable secret; very long (longer than the block of every HMAC hash, so
// the key gets hashed first); binary (NUL, high bytes, invalid UTF-8); a single character
const (
	sfUsual = iota
	sfLong
	sfBinary
	sfTiny
	sfCount
)

var sfNames = [...]string{"usual", "very-long", "binary", "tiny"}

// secretOf renders a secret of the given form; prefix keeps secrets of one run distinct.
func secretOf(g *prng, form int, prefix string) string {
	switch form {
	case sfLong:
		return prefix + g.text(140+int(g.next()%260))
	case sfBinary:
		b := g.bytes(8 + int(g.next()%40))
		b[0], b[len(b)-1] = 0, 0xff
		return prefix + string(b)
	case sfTiny:
		return prefix[:1]
	}
	return prefix + g.text(4+int(g.next()%30))
}

// weighted draws an index with the given weights; index 0 must be the simplest choice.
func weighted(t *simrt.Tape, w ...int) int {
	sum := 0
	for _, x := range w {
		sum += x
	}
	v := t.Intn(sum)
	for i, x := range w {
		if v < x {
			return i
		}
		v -= x
	}
	return 0
}

func sec(t time.Time) int64 { return t.Unix() }

// think times: mostly nothing, sometimes sub-second, seconds, rarely more than the 24h
// history-reset period of the token parser.
func drawThink(t *simrt.Tape) time.Duration {
	switch weighted(t, 8, 3, 3, 2, 1, 1) {
	case 0:
		return 0
	case 1:
		return time.Duration(t.Range(1, 999)) * time.Millisecond
	case 2:
		return time.Duration(t.Range(1, 5)) * time.Second
	case 3:
		return time.Duration(t.Range(1, 90)) * time.Minute
	case 4:
		return 1
	default:
		return 25 * time.Hour
	}
}

// ---- independent AES-ECB / PKCS#7 (client side and oracle side) ----

func ecbEncrypt(key, plain []byte) []byte {
	blk, err := aes.NewCipher(key)
	if err != nil {
		panic(err)
	}
	pad := 16 - len(plain)%16
	src := append(append([]byte{}, plain...), make([]byte, pad)...)
	for i := len(plain); i < len(src); i++ {
		src[i] = byte(pad)
	}
	out := make([]byte, len(src))
	for i := 0; i < len(src); i += 16 {
		blk.Encrypt(out[i:i+16], src[i:i+16])
	}
	return out
}

func ecbDecrypt(key, ct []byte) ([]byte, bool) {
	blk, err := aes.NewCipher(key)
	if err != nil || len(ct) == 0 || len(ct)%16 != 0 {
		return nil, false
	}
	out := make([]byte, len(ct))
	for i := 0; i < len(ct); i += 16 {
		blk.Decrypt(out[i:i+16], ct[i:i+16])
	}
	pad := int(out[len(out)-1])
	if pad < 1 || pad > 16 {
		return nil, false
	}
	for _, b := range out[len(out)-pad:] {
		if int(b) != pad {
			return nil, false
		}
	}
	return out[:len(out)-pad], true
}

func short(b []byte) string {
	if len(b) > 24 {
		return fmt.Sprintf("%x…(%d bytes)", b[:24], len(b))
	}
	return fmt.Sprintf("%x", b)
}

func body(r *simrt.Run, tier string) {
	switch weighted(r.Tape, 3, 2, 3, 1, 4) {
	case 0:
		jwtAuthorize(r, tier)
	case 1:
		jwtRotation(r, tier)
	case 2:
		contentSecurity(r, tier)
	case 3:
		cryption(r, tier)
	default:
		engineWiring(r, tier)
	}
}

func config(t *simrt.Tape, tier string) simrt.Config {
	c := simharness.DefaultConfig(t, tier)
	c.MaxVirtual = 90 * 24 * time.Hour // think times may cross the parser's 24h history reset several times
	return c
}

func TestSim(t *testing.T) {
	simharness.Main(t, &simharness.Spec{ID: "C18", Body: body, Config: config, StuckIsViolation: true, CrashIsViolation: true})
}
