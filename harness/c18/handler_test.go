package c18

import (
	"bytes"
	"errors"
	"fmt"
	"io"
	"time"

	"verifsim/simrt"
)

// ---------------------------------------------------------------------------
// how a protected handler treats the request body
//
// Real handlers do not all call io.ReadAll the instant they are entered: they
// do other work first, stream the body in pieces, stop reading once they have
// what they need, ignore the body, and most of them close it (`defer
// r.Body.Close()`), some twice (handler + a helper it calls).  None of that
// may change what the handler reads: the bytes coming out of the body the
// gate handed over are exactly the payload of THIS request, whatever other
// requests are in flight meanwhile.
//
// The zero plan is the simplest handler: reads everything at once, never closes.
// ---------------------------------------------------------------------------

const (
	hbAll     = iota // io.ReadAll
	hbChunks         // Read calls with a small buffer until EOF
	hbPartial        // Read calls until `limit` bytes arrived, the rest is left unread
)

var hbReadNames = [...]string{"all", "chunks", "partial"}

type hbPlan struct {
	read    int
	chunk   int // buffer size of the Read calls (hbChunks, hbPartial)
	limit   int // hbPartial: bytes wanted
	pre     int // wait between being called and the first touch of the body (wait code, see hbWait)
	gap     int // wait between reads, before the first read after an early close, before closes
	closes  int // how often the handler closes the body: 0, 1, 2
	closeAt int // 0: after reading; 1: the first close comes BEFORE reading
}

var hbChunkSizes = []int{7, 1, 16, 64, 3}
var hbLimits = []int{4, 0, 1, 16, 17, 100}

func drawHb(t *simrt.Tape) hbPlan {
	var h hbPlan
	h.read = weighted(t, 4, 2, 1)
	switch h.read {
	case hbChunks:
		h.chunk = hbChunkSizes[t.Intn(len(hbChunkSizes))]
	case hbPartial:
		h.limit = hbLimits[t.Intn(len(hbLimits))]
		h.chunk = hbChunkSizes[t.Intn(len(hbChunkSizes))]
	}
	h.pre = weighted(t, 4, 2, 2, 1)
	h.gap = weighted(t, 4, 2, 1)
	h.closes = weighted(t, 3, 3, 1)
	if h.closes > 0 {
		h.closeAt = weighted(t, 4, 1)
	}
	return h
}

func (h hbPlan) String() string {
	s := "reads " + hbReadNames[h.read]
	switch h.read {
	case hbChunks:
		s += fmt.Sprintf(" (%d-byte reads)", h.chunk)
	case hbPartial:
		s += fmt.Sprintf(" (first %d bytes, %d-byte reads)", h.limit, h.chunk)
	}
	s += fmt.Sprintf(", wait before=%d between=%d, closes the body %d time(s)", h.pre, h.gap, h.closes)
	if h.closes > 0 && h.closeAt == 1 {
		s += " (first close before reading)"
	}
	return s
}

// simple reports whether the plan is the simplest handler.
func (h hbPlan) simple() bool { return h == hbPlan{} }

// hbWait models work of the handler: 0 nothing, 1 a scheduling point, 2 / 3 a short / longer
// stretch of virtual time (other requests run meanwhile).
func hbWait(r *simrt.Run, code int) {
	switch code {
	case 1:
		r.Yield()
	case 2:
		r.Sleep(time.Millisecond)
	case 3:
		r.Sleep(40 * time.Millisecond)
	}
}

// what the handler did with the body and what came out of it
type hbSeen struct {
	gotBody     []byte
	readErr     error // a Read error other than io.EOF
	closedFirst bool  // the handler closed the body before reading: what it read afterwards is its own business
	reads       int
	closed      int
}

// readBody is the body-related part of every protected handler of the harness.
func readBody(r *simrt.Run, rec *csRec, body io.ReadCloser) {
	hb := rec.plan.hb
	if !hb.simple() {
		r.Probe("handler-body-behaviour-varied")
	}
	if body == nil {
		rec.readErr = errors.New("request body is nil")
		return
	}
	hbWait(r, hb.pre)
	left := hb.closes
	if left > 0 && hb.closeAt == 1 {
		body.Close()
		left--
		rec.closed++
		rec.closedFirst = true
		hbWait(r, hb.gap)
	}
	switch hb.read {
	case hbAll:
		b, err := io.ReadAll(body)
		rec.gotBody, rec.readErr = b, err
		rec.reads++
	default:
		size := hb.chunk
		if size < 1 {
			size = 1
		}
		buf := make([]byte, size)
		idle := 0
		for {
			want := size
			if hb.read == hbPartial && hb.limit-len(rec.gotBody) < want {
				want = hb.limit - len(rec.gotBody)
			}
			if want <= 0 {
				break
			}
			n, err := body.Read(buf[:want])
			rec.reads++
			rec.gotBody = append(rec.gotBody, buf[:n]...)
			if err == io.EOF {
				break
			}
			if err != nil {
				rec.readErr = err
				break
			}
			if n == 0 {
				if idle++; idle > 100 {
					rec.readErr = errors.New("Read keeps returning 0, nil")
					break
				}
			}
			if rec.reads <= 6 {
				hbWait(r, hb.gap)
			}
		}
	}
	for ; left > 0; left-- {
		hbWait(r, hb.gap)
		body.Close()
		rec.closed++
	}
	if rec.closed > 0 {
		r.Probe(fmt.Sprintf("handler-closed-body-%d-times", rec.closed))
	}
}

// expectRead: what this handler's reads return from a body that holds b.
func (rec *csRec) expectRead(b []byte) []byte {
	hb := rec.plan.hb
	if hb.read == hbPartial && hb.limit < len(b) {
		return b[:hb.limit]
	}
	return b
}

// bodyProblem judges what the handler read against the payload `want` the gate had to hand over.
// Returns the class suffix ("" = fine) and a text.
func (w *csWorld) bodyProblem(rec *csRec, want []byte) (string, string) {
	r := w.r
	if rec.closedFirst {
		// reading a body after closing it is the handler's own mistake: not judged
		r.Probe("handler-read-after-own-close")
		return "", ""
	}
	if rec.readErr != nil {
		return "body-read-error", fmt.Sprintf("handler (%s) got error %q reading the body after %s, want %s", rec.plan.hb, rec.readErr, short(rec.gotBody), short(rec.expectRead(want)))
	}
	exp := rec.expectRead(want)
	if bytes.Equal(rec.gotBody, exp) {
		if rec.plan.hb.read == hbPartial && len(exp) < len(want) {
			r.Probe("handler-read-prefix-only")
		}
		return "", ""
	}
	cls := "body-mismatch"
	txt := fmt.Sprintf("handler (%s) read body %s, want %s", rec.plan.hb, short(rec.gotBody), short(exp))
	if len(rec.gotBody) > 0 {
		for _, o := range w.recs {
			if o == rec || len(o.plain) == 0 {
				continue
			}
			if bytes.Contains(o.plain, rec.gotBody) || bytes.Contains(rec.gotBody, o.plain) {
				cls = "body-of-other-request"
				txt += fmt.Sprintf(" - that is payload of request %d (%s), in flight %s .. %s", o.id, short(o.plain), stamp(o.t0), stamp(o.t1))
				break
			}
		}
	}
	return cls, txt
}

func stamp(t time.Time) string {
	if t.IsZero() {
		return "(not yet)"
	}
	return t.UTC().Format("15:04:05.000000000")
}

// payload bytes are a function of the plan's seed AND the request's number in the run, so that two
// requests of a run never carry the same payload (a body delivered to the wrong request must show).
func payloadOf(seed uint64, id, size int) []byte {
	return (&prng{s: seed ^ uint64(id+1)<<40}).bytes(size)
}

// overlapCsPlan turns a drawn plan into one of a burst: requests issued (almost) at the same instant
// from several tasks, mostly honest and encrypted, so that several of them are inside the gate and
// the protected handler at the same time.
func overlapCsPlan(t *simrt.Tape, p *csPlan) {
	p.think = []time.Duration{0, 0, time.Millisecond, 2 * time.Millisecond, 41 * time.Millisecond, time.Nanosecond}[t.Intn(6)]
	if !t.Chance(1, 4) {
		p.kind, p.tsCode, p.delay = ckHonest, toNow, 0
	}
	if !t.Chance(1, 4) {
		p.crypt = true
		if p.keyLen != 16 && p.keyLen != 24 && p.keyLen != 32 {
			p.keyLen = 32 // an AES key now
		}
		if p.size == 0 {
			p.size = payloadSizes[t.Intn(len(payloadSizes))]
		}
	}
	if p.hb.pre == 0 && t.Bool() {
		p.hb.pre = 1 + t.Intn(3)
	}
}
