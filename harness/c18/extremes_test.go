package c18

import (
	"fmt"
	"math"
	"math/big"
	"strconv"
	"strings"
	"time"
)

// ---------------------------------------------------------------------------
// extreme values of the content-security timestamp
//
// A correctly signed request may carry ANY timestamp string; the gate must let
// it through only if that timestamp lies within the tolerance of the clock.
// Besides the offsets around the tolerance (tsOffset) the workload draws
// timestamps far away from the clock, at the places where fixed-width
// arithmetic wraps or saturates, and strings that are no timestamp at all.
// The independent verifier compares with big integers.
// ---------------------------------------------------------------------------

const year = int64(365 * 24 * 3600)

// durEdge: the largest whole number of seconds a time.Duration can hold
const durEdge = int64(math.MaxInt64 / int64(time.Second)) // 9223372036

type tsExtreme struct {
	name string
	f    func(now, tol int64) string
}

func dec(v int64) string { return strconv.FormatInt(v, 10) }

func bigDec(now int64, mul, add string) string {
	m, _ := new(big.Int).SetString(mul, 10)
	a, _ := new(big.Int).SetString(add, 10)
	return new(big.Int).Add(new(big.Int).Mul(big.NewInt(now), m), a).String()
}

// index 0 is the tamest
var tsExtremes = []tsExtreme{
	{"day-past", func(n, t int64) string { return dec(n - 86400) }},
	{"day-future", func(n, t int64) string { return dec(n + 86400) }},
	{"year-past", func(n, t int64) string { return dec(n - year) }},
	{"year-future", func(n, t int64) string { return dec(n + year) }},
	{"100y-past", func(n, t int64) string { return dec(n - 100*year) }},
	{"100y-future", func(n, t int64) string { return dec(n + 100*year) }},
	{"292y-past", func(n, t int64) string { return dec(n - 292*year) }},
	{"292y-future", func(n, t int64) string { return dec(n + 292*year) }},
	{"293y-past", func(n, t int64) string { return dec(n - 293*year) }},
	{"293y-future", func(n, t int64) string { return dec(n + 293*year) }},
	{"300y-past", func(n, t int64) string { return dec(n - 300*year) }},
	{"300y-future", func(n, t int64) string { return dec(n + 300*year) }},
	{"1000y-past", func(n, t int64) string { return dec(n - 1000*year) }},
	{"1000y-future", func(n, t int64) string { return dec(n + 1000*year) }},
	{"10000y-past", func(n, t int64) string { return dec(n - 10000*year) }},
	{"10000y-future", func(n, t int64) string { return dec(n + 10000*year) }},
	// where a nanosecond count of 64 bits ends
	{"duration-edge-future-inside", func(n, t int64) string { return dec(n + durEdge) }},
	{"duration-edge-future-outside", func(n, t int64) string { return dec(n + durEdge + 1) }},
	{"duration-edge-past-inside", func(n, t int64) string { return dec(n - durEdge) }},
	{"duration-edge-past-outside", func(n, t int64) string { return dec(n - durEdge - 1) }},
	{"twice-duration-edge-future", func(n, t int64) string { return dec(n + 2*durEdge + 1) }},
	// where 32-bit second counts wrap
	{"2^31-future", func(n, t int64) string { return dec(n + 1<<31) }},
	{"2^31-past", func(n, t int64) string { return dec(n - 1<<31) }},
	{"2^32-future", func(n, t int64) string { return dec(n + 1<<32) }},
	{"2^32-past", func(n, t int64) string { return dec(n - 1<<32) }},
	{"2^32-future-at-tolerance", func(n, t int64) string { return dec(n + 1<<32 + t) }},
	// other units
	{"milliseconds", func(n, t int64) string { return dec(n * 1000) }},
	{"microseconds", func(n, t int64) string { return dec(n * 1000000) }},
	{"nanoseconds", func(n, t int64) string { return dec(n * 1000000000) }},
	// small and negative
	{"zero", func(n, t int64) string { return "0" }},
	{"minus-one", func(n, t int64) string { return "-1" }},
	{"minus-now", func(n, t int64) string { return dec(-n) }},
	{"tolerance", func(n, t int64) string { return dec(t) }},
	// the ends of int64
	{"max-int64", func(n, t int64) string { return dec(math.MaxInt64) }},
	{"max-int64-minus-1", func(n, t int64) string { return dec(math.MaxInt64 - 1) }},
	{"max-int64-minus-tolerance", func(n, t int64) string { return dec(math.MaxInt64 - t) }},
	{"max-int64-minus-tolerance-minus-1", func(n, t int64) string { return dec(math.MaxInt64 - t - 1) }},
	{"max-int64-minus-now", func(n, t int64) string { return dec(math.MaxInt64 - n) }},
	{"min-int64", func(n, t int64) string { return dec(math.MinInt64) }},
	{"min-int64-plus-1", func(n, t int64) string { return dec(math.MinInt64 + 1) }},
	{"min-int64-plus-tolerance", func(n, t int64) string { return dec(math.MinInt64 + t) }},
	{"min-int64-plus-now", func(n, t int64) string { return dec(math.MinInt64 + n) }},
	// beyond int64: congruent to now modulo 2^64 / 2^63, and simply huge
	{"now-plus-2^64", func(n, t int64) string { return bigDec(n, "1", "18446744073709551616") }},
	{"now-plus-2^63", func(n, t int64) string { return bigDec(n, "1", "9223372036854775808") }},
	{"now-minus-2^64", func(n, t int64) string { return bigDec(n, "1", "-18446744073709551616") }},
	{"max-int64-plus-1", func(n, t int64) string { return "9223372036854775808" }},
	{"min-int64-minus-1", func(n, t int64) string { return "-9223372036854775809" }},
	{"30-digits", func(n, t int64) string { return "123456789012345678901234567890" }},
	// not a whole number of seconds in plain decimal notation
	{"empty", func(n, t int64) string { return "" }},
	{"word", func(n, t int64) string { return "now" }},
	{"trailing-unit", func(n, t int64) string { return dec(n) + "s" }},
	{"rfc3339", func(n, t int64) string { return "2000-01-01T00:00:00Z" }},
	{"hex", func(n, t int64) string { return "0x" + strconv.FormatInt(n, 16) }},
	{"inf", func(n, t int64) string { return "Inf" }},
	{"nan", func(n, t int64) string { return "NaN" }},
	{"arabic-indic-digits", func(n, t int64) string {
		s := []rune(dec(n))
		for i := range s {
			s[i] = s[i] - '0' + 0x0660
		}
		return string(s)
	}},
	{"inner-space", func(n, t int64) string { s := dec(n); return s[:3] + " " + s[3:] }},
	{"underscores", func(n, t int64) string { s := dec(n); return s[:3] + "_" + s[3:] }},
	{"minus-minus", func(n, t int64) string { return "--" + dec(n) }},
	// other notations of (about) now: whether such a request is let in is left open
	{"plus-sign", func(n, t int64) string { return "+" + dec(n) }},
	{"leading-zero", func(n, t int64) string { return "0" + dec(n) }},
	{"decimal-point", func(n, t int64) string { return dec(n) + ".0" }},
	{"fraction", func(n, t int64) string { return dec(n) + ".5" }},
	{"exponent", func(n, t int64) string { return strconv.FormatFloat(float64(n), 'e', -1, 64) }},
	{"exponent-far", func(n, t int64) string { return "1e30" }},
	{"minus-zero", func(n, t int64) string { return "-0" }},
}

// readTimestamp reads a timestamp string: a whole number of seconds in plain decimal notation
// (any size) is THE timestamp; other notations that a lenient reader could take for a number
// (sign, leading zeros, decimal point, exponent) give a value but leave the decision open;
// anything else is no timestamp.
func readTimestamp(s string) (ts *big.Int, open, ok bool) {
	canonical := func(d string) bool {
		if d == "" {
			return false
		}
		for _, c := range d {
			if c < '0' || c > '9' {
				return false
			}
		}
		return d == "0" || d[0] != '0'
	}
	if canonical(s) || (strings.HasPrefix(s, "-") && canonical(s[1:]) && s != "-0") {
		v, _ := new(big.Int).SetString(s, 10)
		return v, false, true
	}
	hasDigit := false
	for _, c := range s {
		if c >= '0' && c <= '9' {
			hasDigit = true
		} else if !strings.ContainsRune("+-.eE", c) {
			return nil, false, false
		}
	}
	if !hasDigit || len(s) > 40 {
		return nil, false, false
	}
	f, _, err := big.ParseFloat(s, 10, 256, big.ToNegativeInf)
	if err != nil || f.IsInf() {
		return nil, false, false
	}
	v, _ := f.Int(nil) // truncated towards zero
	if f.Sign() < 0 && !f.IsInt() {
		v.Sub(v, big.NewInt(1))
	}
	return v, true, true
}

func nsOf(t time.Time) *big.Int { return big.NewInt(t.UnixNano()) }

var bigSecond = big.NewInt(int64(time.Second))

// tsJudge: the server accepts at instant t iff |t - ts| <= tolerance, compared on whole seconds.
// Instants in [ts-tol, ts+tol] are inside, instants before ts-tol or at/after ts+tol+1s are outside;
// the open second after ts+tol is left undecided (second granularity).  The call lasted from t0
// to t1, the server read the clock at some instant of [t0, end].
// must: the request had to be let in; may: it was allowed to be let in.
func tsJudge(ts *big.Int, open bool, tol time.Duration, t0, end, t1 time.Time) (may, must, atEdge bool) {
	if ts == nil {
		return false, false, false
	}
	base := new(big.Int).Mul(ts, bigSecond)
	lo := new(big.Int).Sub(base, big.NewInt(int64(tol)))
	hi := new(big.Int).Add(base, big.NewInt(int64(tol)))
	slack := new(big.Int).Add(hi, bigSecond)
	if open {
		// the value is only known to the second below: widen, and nothing is owed
		slack.Add(slack, bigSecond)
	}
	a, e, b := nsOf(t0), nsOf(end), nsOf(t1)
	must = !open && a.Cmp(lo) >= 0 && b.Cmp(hi) <= 0
	may = a.Cmp(slack) < 0 && e.Cmp(lo) >= 0
	atEdge = a.Cmp(lo) == 0 || a.Cmp(hi) == 0
	return
}

func tsText(v *csVerdict) string {
	switch {
	case v.ts == nil:
		return fmt.Sprintf("%q (unreadable)", v.tsRaw)
	case v.tsOpen:
		return fmt.Sprintf("%q (read leniently as %s)", v.tsRaw, v.ts)
	}
	return v.ts.String()
}

// ---------------------------------------------------------------------------
// extreme values of the JWT time claims exp / nbf / iat
//
// Each of the three claims may, independently of the others, be replaced by one of these JSON
// literals: far past / far future, other units, fractions and exponent notation, the ends of
// int64 and beyond, and values that are no NumericDate at all (strings, null, booleans, ...).
// RFC 7519: a NumericDate is a JSON number of seconds; exp: the current time MUST be before it;
// nbf: the current time MUST be after or equal to it; iat in the future = issued in the future,
// not (yet) valid.  A time claim that is no NumericDate makes the token malformed.
// ---------------------------------------------------------------------------

type claimExtreme struct {
	name     string
	f        func(now int64) string
	overflow bool // |value| beyond what an int64 second count / time.Time can hold: see overflowFinding
}

func qdec(v int64) string { return `"` + dec(v) + `"` }

var claimExtremes = []claimExtreme{
	{"day-future", func(n int64) string { return dec(n + 86400) }, false},
	{"day-past", func(n int64) string { return dec(n - 86400) }, false},
	{"year-future", func(n int64) string { return dec(n + year) }, false},
	{"year-past", func(n int64) string { return dec(n - year) }, false},
	{"100y-future", func(n int64) string { return dec(n + 100*year) }, false},
	{"292y-future", func(n int64) string { return dec(n + 292*year) }, false},
	{"293y-future", func(n int64) string { return dec(n + 293*year) }, false},
	{"300y-future", func(n int64) string { return dec(n + 300*year) }, false},
	{"300y-past", func(n int64) string { return dec(n - 300*year) }, false},
	{"year-10000", func(n int64) string { return "253402300800" }, false},
	{"10000y-future", func(n int64) string { return dec(n + 10000*year) }, false},
	{"2^31-future", func(n int64) string { return dec(n + 1<<31) }, false},
	{"2^32-future", func(n int64) string { return dec(n + 1<<32) }, false},
	{"2^32-past", func(n int64) string { return dec(n - 1<<32) }, false},
	{"milliseconds", func(n int64) string { return dec(n * 1000) }, false},
	{"nanoseconds", func(n int64) string { return dec(n * 1000000000) }, false},
	{"4e18", func(n int64) string { return "4000000000000000000" }, false},
	{"zero", func(n int64) string { return "0" }, false},
	{"minus-one", func(n int64) string { return "-1" }, false},
	{"minus-now", func(n int64) string { return dec(-n) }, false},
	{"minus-4e18", func(n int64) string { return "-4000000000000000000" }, false},
	// not whole seconds, other notations of a JSON number
	{"now-plus-half-second", func(n int64) string { return dec(n) + ".5" }, false},
	{"now-minus-half-second", func(n int64) string { return dec(n-1) + ".5" }, false},
	{"now-plus-one-and-a-half", func(n int64) string { return dec(n+1) + ".5" }, false},
	{"hour-future-decimal-point", func(n int64) string { return dec(n+3600) + ".0" }, false},
	{"hour-past-decimal-point", func(n int64) string { return dec(n-3600) + ".000" }, false},
	{"exponent-now", func(n int64) string { return strconv.FormatFloat(float64(n), 'e', -1, 64) }, false},
	{"exponent-future", func(n int64) string { return "1e10" }, false},
	{"exponent-past", func(n int64) string { return "9E8" }, false},
	{"exponent-tiny", func(n int64) string { return "1e-9" }, false},
	{"minus-zero", func(n int64) string { return "-0" }, false},
	// no NumericDate
	{"string-future", func(n int64) string { return qdec(n + 3600) }, false},
	{"string-past", func(n int64) string { return qdec(n - 3600) }, false},
	{"string-word", func(n int64) string { return `"soon"` }, false},
	{"string-empty", func(n int64) string { return `""` }, false},
	{"string-rfc3339", func(n int64) string { return `"2000-01-01T00:00:00Z"` }, false},
	{"null", func(n int64) string { return "null" }, false},
	{"true", func(n int64) string { return "true" }, false},
	{"false", func(n int64) string { return "false" }, false},
	{"array", func(n int64) string { return "[" + dec(n+3600) + "]" }, false},
	{"object", func(n int64) string { return `{"seconds":` + dec(n+3600) + "}" }, false},
	// the end of int64 and beyond
	{"max-int64", func(n int64) string { return dec(math.MaxInt64) }, true},
	{"max-int64-minus-now", func(n int64) string { return dec(math.MaxInt64 - n) }, true},
	{"2^63", func(n int64) string { return "9223372036854775808" }, true},
	{"now-plus-2^64", func(n int64) string { return bigDec(n, "1", "18446744073709551616") }, true},
	{"1e19", func(n int64) string { return "1e19" }, true},
	{"1e30", func(n int64) string { return "1e30" }, true},
	{"1e400", func(n int64) string { return "1e400" }, true},
	{"min-int64", func(n int64) string { return dec(math.MinInt64) }, true},
	{"minus-1e19", func(n int64) string { return "-1e19" }, true},
	{"minus-1e400", func(n int64) string { return "-1e400" }, true},
}

// firstOverflowExtreme: index of the first entry of claimExtremes in the overflow zone
var firstOverflowExtreme = func() int {
	for i, c := range claimExtremes {
		if c.overflow {
			return i
		}
	}
	return len(claimExtremes)
}()

// overflowZone: second counts from here on cannot be held by time.Time built with time.Unix
var overflowZone = big.NewRat(9200000000000000000, 1)

// numericDate reads a decoded claim value (json.Number expected) as an exact rational number of seconds.
func numericDate(v any) (*big.Rat, bool) {
	n, ok := v.(interface{ String() string })
	if !ok {
		return nil, false
	}
	if _, isNum := v.(interface{ Float64() (float64, error) }); !isNum {
		return nil, false
	}
	s := n.String()
	if len(s) > 64 {
		return nil, false
	}
	r, ok := new(big.Rat).SetString(s)
	return r, ok
}

func ratFloor(r *big.Rat) *big.Int { return new(big.Int).Div(r.Num(), r.Denom()) } // Euclidean: floor for a positive denominator

func ratCeil(r *big.Rat) *big.Int {
	f := ratFloor(r)
	if !r.IsInt() {
		f.Add(f, big.NewInt(1))
	}
	return f
}

// sat clamps to int64: MaxInt64 / MinInt64 stand for "beyond every clock reading".
func sat(v *big.Int) int64 {
	if v.IsInt64() {
		return v.Int64()
	}
	if v.Sign() > 0 {
		return math.MaxInt64
	}
	return math.MinInt64
}
