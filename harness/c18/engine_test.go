package c18

import (
	"context"
	"fmt"
	"net/http"
	"net/http/httptest"
	"os"
	"path/filepath"
	"reflect"
	"sort"
	"strings"
	"time"

	"github.com/zeromicro/go-zero/rest"
	"github.com/zeromicro/go-zero/rest/chain"

	"verifsim/simrt"
)

// ---------------------------------------------------------------------------
// scenario 5: the gates as the REST engine wires them
//
// 1-4 route groups on ONE server, built the way a Server builds them
// (newEngine, Use, AddRoutes with rest.WithJwt / WithJwtTransition / WithSignature /
// no option, bindRoutes onto the pat router; seam rest.VerifNewServerHandler), each
// group with its own secrets / RSA keys / tolerance / strictness (jwt secrets
// unique to the group or drawn from a pool shared by the groups: same current
// secret with different previous secrets, one group's previous secret being
// another's current one, ...; AddRoutes order = a drawn permutation).  The request
// kinds of the direct scenarios are sent through the router to routes of
// different groups, also with credentials made for ANOTHER group.
//
// Oracle (same as direct mode, per target group): protected code of group g
// (user middlewares added with Server.Use, then the route handler) runs  <=>
// the request carries a credential valid for g's OWN configuration at the
// virtual instant; an ungated group always runs; otherwise 401 (jwt) / >= 400
// (strict signature) and nothing protected ran.
// ---------------------------------------------------------------------------

const (
	gkJwt = iota
	gkNone
	gkJwtTransition
	gkSigStrict
	gkSigLoose
	gkJwtSig
	gkJwtTransitionSig
	gkCount
)

var gkNames = [...]string{"jwt", "none", "jwt-transition", "signature-strict", "signature-non-strict", "jwt+signature", "jwt-transition+signature"}

type egroup struct {
	idx       int
	kind      int
	prefix    string
	hasJwt    bool
	hasSig    bool
	sec       jwtSecrets // cur / prev are what the gate is configured with (prev "" = none)
	sig       csServer
	prefixOpt bool // paths given relative + rest.WithPrefix
}

func (g *egroup) allowed() []string {
	a := []string{g.sec.cur}
	if g.sec.prev != "" {
		a = append(a, g.sec.prev)
	}
	return a
}

func (g *egroup) String() string {
	s := fmt.Sprintf("group %d %s [%s]", g.idx, g.prefix, gkNames[g.kind])
	if g.hasJwt {
		s += fmt.Sprintf(" secret=%q prev=%q", g.sec.cur, g.sec.prev)
	}
	if g.hasSig {
		s += fmt.Sprintf(" strict=%v expiry=%v keys=%v:%v", g.sig.strict, g.sig.tolerance, g.sig.fps, g.sig.keys)
	}
	return s
}

type ereqPlan struct {
	target  int
	jsrc    int // group whose secrets the token is made with
	csrc    int // group whose key configuration the content-security client uses
	withJwt bool
	jp      jwtPlan
	cp      csPlan
}

type erec struct {
	id         int
	reusedFrom int // the request whose token is presented again (-1: freshly issued token)
	plan       *ereqPlan
	bt         builtToken
	c          *csRec // the request on the wire + what the route handler saw
	ranGroup   int
	seen       map[string]any // claims seen by the route handler
	mwRan      []int          // per user middleware
	mwAt       time.Time      // first user middleware entered
	mwSeen     map[string]any
	chainRan   int
	unauth     int
	unsigned   int
	unsStrict  bool
	unsFlagBad bool
	t0, t1     time.Time
}

type engWorld struct {
	r        *simrt.Run
	cw       *csWorld
	groups   []*egroup
	order    []int // order[k] = index of the group registered k-th (AddRoutes call order)
	recs     []*erec
	nUse     int
	unauthCb bool
	unsCb    bool
	custom   bool
	boundary bool
}

var engBases = []string{"/", "/a", "/a/b", "/a/bc", "/internal/route"}

func engSizes(t *simrt.Tape, tier string) (nTasks, perTask int) {
	maxT, maxP := 3, 4
	if tier == "thorough" {
		maxT, maxP = 4, 6
	}
	return t.Range(1, maxT), t.Range(1, maxP)
}

func engineWiring(r *simrt.Run, tier string) {
	t := r.Tape
	e := &engWorld{r: r, cw: &csWorld{r: r, cache: rsaCache{}, pfx: "engine-"}}
	g := &prng{s: seedOf(t)}
	ng := t.Range(1, 4)
	keyPool := []int{0, 1, 3, 4}
	fpNames := []string{"fp-0", "fp-1", "fp-2"}
	tolerances := []time.Duration{time.Hour, time.Second, 5 * time.Second, time.Minute, 2 * time.Second}
	// a small pool of secrets the jwt settings of the groups may be drawn from, so that groups can share the
	// current secret and differ in the previous one, honour as previous secret what another group uses now or
	// honoured before, ... (every group is judged by exactly its own pair)
	secretPool := []string{"pool0-" + g.text(4+int(g.next()%24)), "pool1-" + g.text(4+int(g.next()%24)), "pool2-" + g.text(4+int(g.next()%24))}
	for i := 0; i < ng; i++ {
		gr := &egroup{idx: i, prefix: fmt.Sprintf("/g%d", i)}
		gr.kind = weighted(t, 3, 2, 3, 3, 1, 1, 1)
		switch gr.kind {
		case gkJwt, gkJwtTransition:
			gr.hasJwt = true
		case gkSigStrict, gkSigLoose:
			gr.hasSig = true
		case gkJwtSig, gkJwtTransitionSig:
			gr.hasJwt, gr.hasSig = true, true
		}
		gr.sec = jwtSecrets{
			cur:      fmt.Sprintf("g%dc-%s", i, g.text(4+int(g.next()%24))),
			retired:  fmt.Sprintf("g%do-%s", i, g.text(4+int(g.next()%24))),
			next:     fmt.Sprintf("g%dn-%s", i, g.text(8)),
			attacker: fmt.Sprintf("g%dx-%s", i, g.text(4+int(g.next()%24))),
		}
		ownPrev := fmt.Sprintf("g%dp-%s", i, g.text(4+int(g.next()%24)))
		if sf := weighted(t, 8, 1, 1); sf != sfUsual && gr.hasJwt {
			// very long / binary secrets of the group (rest.WithJwt wants at least 8 bytes: no tiny ones)
			gr.sec.cur = secretOf(g, sf, fmt.Sprintf("g%dc-long", i))
			ownPrev = secretOf(g, sf, fmt.Sprintf("g%dp-long", i))
			r.Probe("engine-group-secret-" + sfNames[sf])
		}
		curPool := -1
		if cs := weighted(t, 3, 1, 1, 1); cs > 0 && gr.hasJwt {
			curPool = cs - 1
			gr.sec.cur = secretPool[curPool]
			r.Probe("engine-group-current-secret-from-pool")
		}
		pv := weighted(t, 4, 1, 1, 2, 1)
		if gr.kind == gkJwtTransition || gr.kind == gkJwtTransitionSig {
			gr.sec.prev = ownPrev
			switch {
			case pv == 1:
				gr.sec.prev = "" // WithJwtTransition(secret, ""): no previous secret
			case pv == 2 && i > 0:
				gr.sec.prev = e.groups[t.Intn(i)].sec.cur // this group still honours what another group uses now
			case pv == 3:
				// a pool secret other than the own current one
				if curPool >= 0 {
					gr.sec.prev = secretPool[(curPool+1+t.Intn(2))%3]
				} else {
					gr.sec.prev = secretPool[t.Intn(3)]
				}
			case pv == 4 && i > 0:
				if o := e.groups[t.Intn(i)].sec.prev; o != "" {
					gr.sec.prev = o // the same previous secret as another group
				}
			}
		}
		if gr.hasJwt && t.Chance(1, 3) {
			// the secret this group has retired is one of the pool: other groups may still use or honour it
			if s := secretPool[t.Intn(3)]; s != gr.sec.cur && s != gr.sec.prev {
				gr.sec.retired = s
			}
		}
		gr.sig.strict = gr.kind != gkSigLoose
		gr.sig.tolerance = tolerances[t.Intn(len(tolerances))]
		k0 := t.Intn(4)
		k1 := (k0 + 1 + t.Intn(3)) % 4
		gr.sig.keys = [2]int{keyPool[k0], keyPool[k1]}
		n0 := t.Intn(3)
		n1 := (n0 + 1 + t.Intn(2)) % 3
		switch t.Intn(3) {
		case 0:
			gr.sig.fps = [2]string{fpNames[n0], fpNames[n1]}
		case 1:
			gr.sig.fps = [2]string{fpNames[n0], ""}
		default:
			gr.sig.fps = [2]string{"", fpNames[n1]}
		}
		gr.prefixOpt = t.Chance(1, 3)
		e.groups = append(e.groups, gr)
		r.Probe("engine-group-" + gkNames[gr.kind])
	}

	// server-level settings
	var conf rest.RestConf
	conf.Name = "c18-engine"
	conf.Host, conf.Port = "localhost", 0
	conf.MaxBytes = 1 << 20
	conf.MaxConns = 10000
	conf.Middlewares.MaxBytes = t.Bool()
	conf.Middlewares.Gunzip = t.Bool()
	conf.Middlewares.Recover = t.Bool()
	conf.Middlewares.MaxConns = t.Chance(1, 4)
	e.unauthCb = t.Chance(1, 3)
	e.unsCb = t.Chance(1, 4)
	e.custom = t.Chance(1, 6)
	e.nUse = weighted(t, 3, 2, 1)
	usePos := make([]int, e.nUse)
	for i := range usePos {
		usePos[i] = t.Intn(ng + 1)
	}
	e.order = t.Perm(ng) // AddRoutes call order
	for k, gi := range e.order {
		if k != gi {
			r.Probe("engine-groups-registered-out-of-index-order")
			break
		}
	}
	e.probeSharedSecrets()

	// requests
	nTasks, perTask := engSizes(t, tier)
	// burst: 2-4 tasks issue their requests (almost) at the same instant, most of them honest
	burst := t.Chance(1, 4)
	if burst {
		nTasks = t.Range(2, 4)
		r.Probe("engine-burst")
	}
	plans := make([][]*ereqPlan, nTasks)
	for i := range plans {
		for j := 0; j < perTask; j++ {
			p := &ereqPlan{target: t.Intn(ng)}
			tg := e.groups[p.target]
			p.jsrc, p.csrc = p.target, p.target
			if ng > 1 && t.Chance(1, 4) {
				p.jsrc = (p.target + 1 + t.Intn(ng-1)) % ng
			}
			if ng > 1 && t.Chance(1, 4) {
				p.csrc = (p.target + 1 + t.Intn(ng-1)) % ng
			}
			if tg.hasJwt {
				p.withJwt = !t.Chance(1, 8)
			} else {
				p.withJwt = t.Chance(1, 3)
			}
			p.jp = drawJwtPlan(t, false)
			p.cp = drawCsPlan(t)
			if burst {
				overlapCsPlan(t, &p.cp)
				if !t.Chance(1, 4) {
					p.jp = jwtPlan{signer: p.jp.signer, alg: p.jp.alg, exp: 1, nclaims: p.jp.nclaims, cseed: p.jp.cseed, mseed: p.jp.mseed}
				}
			}
			if !tg.hasSig && !t.Chance(1, 3) {
				p.cp.kind = ckNoHeader
			}
			plans[i] = append(plans[i], p)
		}
	}

	if !t.Chance(1, 8) { // see limitEncryptedChunked
		for i := range plans {
			for _, p := range plans[i] {
				if p.cp.crypt {
					p.cp.chunked = false
				}
			}
		}
	}
	if !t.Chance(1, 8) { // see limitClaimOverflow
		for i := range plans {
			for _, p := range plans[i] {
				tameClaims(&p.jp)
			}
		}
	}

	h := e.buildServer(conf, usePos)
	if h == nil {
		return
	}
	var gdesc []string
	for _, gr := range e.groups {
		gdesc = append(gdesc, gr.String())
	}
	r.Sample(map[string]any{"scenario": "rest engine wiring", "groups": gdesc, "user_middlewares": e.nUse, "custom_chain": e.custom,
		"unauthorized_callback": e.unauthCb, "unsigned_callback": e.unsCb, "registration_order": e.order, "burst": burst, "tasks": nTasks, "requests_per_task": perTask,
		"first_request": fmt.Sprintf("%+v", *plans[0][0])})
	if r.Tracing() {
		r.Logf("engine wiring: %s; registration order %v; use=%d@%v custom-chain=%v unauthorized-cb=%v unsigned-cb=%v middlewares=%+v", strings.Join(gdesc, "; "), e.order, e.nUse, usePos, e.custom, e.unauthCb, e.unsCb, conf.Middlewares)
	}
	r.Probe("engine-wiring")

	var tasks []*simrt.Task
	for i := 0; i < nTasks; i++ {
		i := i
		tasks = append(tasks, r.Go(fmt.Sprintf("client%d", i), func() {
			for _, p := range plans[i] {
				e.send(h, p)
			}
		}))
	}
	if !r.JoinTimeout(80*24*time.Hour, tasks...) {
		r.Fail("stuck", "requests through the engine's router did not all return: %v", r.AliveTasks())
		return
	}
	if e.boundary || e.cw.boundary {
		r.Probe("nontrivial")
	}
}

// probeSharedSecrets: coverage of the jwt configurations that relate two groups of the server.
func (e *engWorld) probeSharedSecrets() {
	r := e.r
	for _, a := range e.groups {
		for _, b := range e.groups {
			if a == b || !a.hasJwt || !b.hasJwt {
				continue
			}
			if a.sec.cur == b.sec.cur && a.sec.prev != b.sec.prev {
				r.Probe("engine-groups-share-current-secret-differ-in-previous")
			}
			if a.sec.cur == b.sec.cur && a.sec.prev == b.sec.prev {
				r.Probe("engine-groups-with-identical-jwt-setting")
			}
			if a.sec.prev != "" && a.sec.prev == b.sec.cur {
				r.Probe("engine-group-previous-secret-is-current-of-other-group")
			}
			if a.sec.prev != "" && a.sec.prev == b.sec.prev && a.sec.cur != b.sec.cur {
				r.Probe("engine-groups-share-previous-secret-only")
			}
			if a.sec.retired == b.sec.cur || (b.sec.prev != "" && a.sec.retired == b.sec.prev) {
				r.Probe("engine-group-retired-secret-still-valid-for-other-group")
			}
		}
	}
}

// buildServer writes the key files the signature groups name, builds the server and removes the files.
func (e *engWorld) buildServer(conf rest.RestConf, usePos []int) http.Handler {
	r, t := e.r, e.r.Tape
	var dir string
	keyFile := map[int]string{}
	defer func() {
		if dir != "" {
			os.RemoveAll(dir)
		}
	}()
	ioTrouble := false
	// signatureVerifier loads every private key from a file (codec.NewRsaDecrypter): the files live in a
	// run-unique directory for the duration of bindRoutes only
	fileOf := func(key int) string {
		if f, ok := keyFile[key]; ok {
			return f
		}
		if dir == "" {
			d, err := os.MkdirTemp("", "verif-c18-eng-")
			if err != nil {
				ioTrouble = true
				return ""
			}
			dir = d
		}
		f := filepath.Join(dir, fmt.Sprintf("key%d.pem", key))
		if err := os.WriteFile(f, keyPEM[key], 0o600); err != nil {
			ioTrouble = true
			return ""
		}
		keyFile[key] = f
		return f
	}

	var ropts []rest.RunOption
	if e.unauthCb {
		ropts = append(ropts, rest.WithUnauthorizedCallback(func(rw http.ResponseWriter, req *http.Request, err error) {
			if rec, _ := req.Context().Value(reqKey{}).(*erec); rec != nil {
				rec.unauth++
			}
			rw.Header().Set("X-Reason", "denied")
		}))
	}
	if e.unsCb {
		ropts = append(ropts, rest.WithUnsignedCallback(func(rw http.ResponseWriter, req *http.Request, next http.Handler, strict bool, code int) {
			// behaves like the default; additionally records what it was told
			if rec, _ := req.Context().Value(reqKey{}).(*erec); rec != nil {
				rec.unsigned++
				rec.unsStrict = strict
				if strict != e.groups[rec.plan.target].sig.strict {
					rec.unsFlagBad = true
				}
			}
			if strict {
				rw.WriteHeader(http.StatusForbidden)
			} else {
				next.ServeHTTP(rw, req)
			}
		}))
	}
	if e.custom {
		ropts = append(ropts, rest.WithChain(chain.New(func(next http.Handler) http.Handler {
			return http.HandlerFunc(func(rw http.ResponseWriter, req *http.Request) {
				if rec, _ := req.Context().Value(reqKey{}).(*erec); rec != nil {
					rec.chainRan++
				}
				next.ServeHTTP(rw, req)
			})
		})))
		r.Probe("engine-custom-chain")
	}

	mkUse := func(k int) rest.Middleware {
		return func(next http.HandlerFunc) http.HandlerFunc {
			return func(rw http.ResponseWriter, req *http.Request) {
				rec, _ := req.Context().Value(reqKey{}).(*erec)
				if rec == nil {
					r.Fail("engine-context-lost", "user middleware got a request whose context lost the caller's values")
					return
				}
				if rec.mwAt.IsZero() {
					rec.mwAt = time.Now()
					for _, key := range rec.bt.claimKeys {
						rec.mwSeen[key] = req.Context().Value(key)
					}
					for _, key := range standardClaims {
						rec.mwSeen[key] = req.Context().Value(key)
					}
				}
				rec.mwRan[k]++
				if rec.c.plan.yields > 1 {
					r.Yield()
				}
				next(rw, req)
			}
		}
	}
	mkHandler := func(gi int) http.HandlerFunc {
		return func(rw http.ResponseWriter, req *http.Request) {
			rec, _ := req.Context().Value(reqKey{}).(*erec)
			if rec == nil {
				r.Fail("engine-context-lost", "protected handler got a request whose context lost the caller's values")
				return
			}
			c := rec.c
			c.ran++
			rec.ranGroup = gi
			c.th = time.Now()
			readBody(r, c, req.Body)
			for _, key := range rec.bt.claimKeys {
				rec.seen[key] = req.Context().Value(key)
			}
			for _, key := range standardClaims {
				rec.seen[key] = req.Context().Value(key)
			}
			for i := 0; i < c.plan.yields; i++ {
				r.Yield()
			}
			rw.WriteHeader(http.StatusOK)
			writeChunks(rw, c.respWant, c.plan.chunks)
		}
	}

	var steps []rest.VerifServerStep
	use := 0
	for i := 0; i <= len(e.groups); i++ {
		for k, pos := range usePos {
			if pos == i {
				steps = append(steps, rest.VerifServerStep{Use: mkUse(k)})
				use++
			}
		}
		if i == len(e.groups) {
			break
		}
		gr := e.groups[e.order[i]]
		hf := mkHandler(gr.idx)
		grp := &rest.VerifRouteGroup{}
		for _, m := range csMethods {
			for _, b := range engBases {
				p := gr.prefix + b
				if gr.prefixOpt {
					p = b
				}
				grp.Routes = append(grp.Routes, rest.Route{Method: m, Path: p, Handler: hf})
			}
		}
		var opts []rest.RouteOption
		if gr.prefixOpt {
			opts = append(opts, rest.WithPrefix(gr.prefix))
		}
		if gr.hasJwt {
			if gr.kind == gkJwtTransition || gr.kind == gkJwtTransitionSig {
				opts = append(opts, rest.WithJwtTransition(gr.sec.cur, gr.sec.prev))
			} else {
				opts = append(opts, rest.WithJwt(gr.sec.cur))
			}
		}
		if gr.hasSig {
			sc := rest.SignatureConf{Strict: gr.sig.strict, Expiry: gr.sig.tolerance}
			slots := []int{0, 1}
			if t.Bool() {
				slots = []int{1, 0}
			}
			for _, s := range slots {
				if gr.sig.fps[s] != "" {
					sc.PrivateKeys = append(sc.PrivateKeys, rest.PrivateKeyConf{Fingerprint: gr.sig.fps[s], KeyFile: fileOf(gr.sig.keys[s])})
				}
			}
			opts = append(opts, rest.WithSignature(sc))
		}
		switch t.Intn(6) { // options that must not matter
		case 1:
			opts = append(opts, rest.WithPriority())
		case 2:
			opts = append(opts, rest.WithMaxBytes(1<<20))
		case 3:
			opts = append(opts, rest.WithTimeout(time.Duration(t.Range(1, 5000))*time.Millisecond))
		}
		for _, j := range t.Perm(len(opts)) {
			grp.Opts = append(grp.Opts, opts[j])
		}
		steps = append(steps, rest.VerifServerStep{Group: grp})
	}
	if ioTrouble {
		// the sandbox could not hold the key files: not a statement about go-zero, the run is void
		r.Probe("engine-keyfile-io-trouble")
		return nil
	}
	h, err := rest.VerifNewServerHandler(conf, ropts, steps)
	if err != nil {
		r.Fail("engine-bind-error", "bindRoutes: %v", err)
		return nil
	}
	return h
}

func (e *engWorld) send(h http.Handler, p *ereqPlan) {
	r, cw := e.r, e.cw
	tg := e.groups[p.target]
	if p.cp.think > 0 {
		r.Sleep(p.cp.think)
	}
	nowS := time.Now().Unix()
	rec := &erec{plan: p, seen: map[string]any{}, mwSeen: map[string]any{}, mwRan: make([]int, e.nUse), ranGroup: -1, reusedFrom: -1}
	if p.withJwt {
		rec.bt = buildToken(p.jp, e.groups[p.jsrc].sec, nowS)
		if p.jp.reuse > 0 {
			var earlier []*erec
			for _, o := range e.recs {
				if o.bt.present && o.bt.auth != "" {
					earlier = append(earlier, o)
				}
			}
			if len(earlier) > 0 {
				o := earlier[(p.jp.reuse-1)%len(earlier)]
				rec.bt, rec.reusedFrom = o.bt, o.id
				r.Probe("engine-token-presented-again")
			}
		}
	}
	e.recs = append(e.recs, rec)
	// the client's key configuration is that of group csrc, the timestamps aim at the target's tolerance
	cw.srv = e.groups[p.csrc].sig
	cw.srv.tolerance, cw.srv.strict = tg.sig.tolerance, tg.sig.strict
	cw.prefix = tg.prefix
	rec.c = cw.build(p.cp, nowS)
	rec.id = rec.c.id
	if p.jsrc != p.target && p.withJwt {
		r.Probe("engine-token-made-for-other-group")
	}
	if p.csrc != p.target && rec.c.q.hasCS {
		r.Probe("engine-signature-made-for-other-group")
	}
	// clock boundary: either the token's claim second or the close of the signature window
	tgt, alignOK := time.Time{}, false
	if p.withJwt {
		tgt, alignOK = alignTarget(p.jp, rec.bt)
	}
	delay, delayOK := deliveryDelay(p.cp.delay, tg.sig.tolerance)
	if alignOK && delayOK {
		switch {
		case tg.hasJwt && !tg.hasSig:
			delayOK = false
		case tg.hasSig && !tg.hasJwt:
			alignOK = false
		case rec.id%2 == 0:
			delayOK = false
		default:
			alignOK = false
		}
	}
	if alignOK {
		if d := time.Until(tgt); d > 0 {
			r.Sleep(d)
		}
		if d := time.Since(tgt); d >= -1 && d <= 1 && tg.hasJwt {
			e.boundary = true
			r.Probe("engine-request-at-claim-boundary")
		}
	}
	if delayOK {
		r.Sleep(delay)
		if tg.hasSig {
			e.boundary = true
			r.Probe("engine-delayed-delivery")
		}
	}
	req := rec.c.q.request(context.WithValue(context.Background(), reqKey{}, rec))
	if p.withJwt && rec.bt.present {
		req.Header.Set("Authorization", rec.bt.auth)
	}
	rw := httptest.NewRecorder()
	r.Ev("invoke", int64(rec.id), int64(p.target), int64(p.jp.kind), int64(p.cp.kind))
	rec.t0 = time.Now()
	h.ServeHTTP(rw, req)
	rec.t1 = time.Now()
	rec.c.t0, rec.c.t1, rec.c.status = rec.t0, rec.t1, rw.Code
	r.Ev("return", int64(rec.id), int64(rw.Code), int64(rec.c.ran))
	e.check(rec, rw)
}

func (e *engWorld) describe(rec *erec, jv *jwtVerdict, cv *csVerdict) string {
	p, q := rec.plan, &rec.c.q
	tg := e.groups[p.target]
	s := fmt.Sprintf("request %d to %s: %s %s", rec.id, tg, q.method, q.url())
	if p.withJwt && rec.reusedFrom >= 0 {
		s += fmt.Sprintf("; token of request %d presented again, Authorization=%q", rec.reusedFrom, rec.bt.auth)
	} else if p.withJwt {
		s += fmt.Sprintf("; token (%s, made with group %d's secrets, signer %d) Authorization=%q", fkNames[p.jp.kind], p.jsrc, p.jp.signer, rec.bt.auth)
	} else {
		s += "; no Authorization header"
	}
	if tg.hasJwt {
		s += fmt.Sprintf(" [verifier: reason=%q sigOK=%v window=[%d,%d)]", jv.reason, jv.sigOK, jv.lo, jv.hi)
	}
	if q.hasCS {
		s += fmt.Sprintf("; signed request (%s, client configured like group %d, crypt=%v chunked=%v) body=%s X-Request-Uri=%q", ckNames[p.cp.kind], p.csrc, p.cp.crypt, q.chunked, short(q.body), q.reqURI)
	} else {
		s += fmt.Sprintf("; no X-Content-Security header, body=%s", short(q.body))
	}
	if tg.hasSig {
		s += fmt.Sprintf(" [verifier: reason=%q ts=%s]", cv.reason, tsText(cv))
	}
	return s + fmt.Sprintf("; sent %s returned %s status %d handler-ran=%d middleware-ran=%v",
		rec.t0.UTC().Format("2006-01-02T15:04:05.000000000"), rec.t1.UTC().Format("15:04:05.000000000"), rec.c.status, rec.c.ran, rec.mwRan)
}

// claimsProblem compares what protected code saw in its context with the token's claims.
func claimsProblem(v *jwtVerdict, seen map[string]any) (string, string) {
	keys := make([]string, 0, len(v.claims))
	for k := range v.claims {
		keys = append(keys, k)
	}
	sort.Strings(keys)
	for _, k := range keys {
		want, got := v.claims[k], seen[k]
		if isStandard(k) {
			if got != nil {
				return "standard-claim-visible", fmt.Sprintf("standard claim %q is visible as %#v", k, got)
			}
			continue
		}
		if !reflect.DeepEqual(got, want) {
			return "claims-mismatch", fmt.Sprintf("claim %q: seen %#v, token says %#v", k, got, want)
		}
	}
	return "", ""
}

func (e *engWorld) check(rec *erec, rw *httptest.ResponseRecorder) {
	r, cw := e.r, e.cw
	c := rec.c
	tg := e.groups[rec.plan.target]
	r.Probe("oracle")
	mwAny, mwAll := false, true
	for _, n := range rec.mwRan {
		if n > 0 {
			mwAny = true
		} else {
			mwAll = false
		}
	}
	ranAny := c.ran > 0 || mwAny
	first := c.th
	if mwAny {
		first = rec.mwAt
	}
	s0, s1 := sec(rec.t0), sec(rec.t1)

	// what each gate of the TARGET group must / may have decided
	mayJ, mustJ := true, true
	var jv jwtVerdict
	if tg.hasJwt {
		jv = judgeJWT(rec.bt.auth, rec.plan.withJwt && rec.bt.present, tg.allowed())
		end := s1
		if ranAny {
			end = sec(first)
		}
		mayJ, mustJ = jv.validSomewhere(s0, end), jv.validThroughout(s0, s1)
	}
	csMay, mustC := true, true
	var cv csVerdict
	if tg.hasSig {
		cv = cw.judgeWith(&tg.sig, &c.q)
		csMay, mustC = false, false
		if cv.reason == "" {
			end := rec.t1
			if ranAny {
				end = first
			}
			var atEdge bool
			csMay, mustC, atEdge = tsJudge(cv.ts, cv.tsOpen, tg.sig.tolerance, rec.t0, end, rec.t1)
			if !csMay {
				r.Probe("engine-timestamp-outside-tolerance")
				e.boundary = true
			}
			if atEdge {
				r.Probe("engine-timestamp-exactly-at-tolerance")
				e.boundary = true
			}
		}
	}
	mayC := csMay || !tg.sig.strict // the statement is about strict mode
	may, must := mayJ && mayC, mustJ && mustC
	desc := e.describe(rec, &jv, &cv)
	if r.Tracing() {
		r.Logf("%s -> mayJ=%v mustJ=%v mayC=%v mustC=%v", desc, mayJ, mustJ, mayC, mustC)
	}
	if tg.hasJwt && jv.sigOK && !mayJ {
		r.Probe("engine-token-rejected-by-time-claims")
		e.boundary = true
	}
	if tg.hasJwt {
		probeTimeClaims(r, &rec.bt, &jv, s0)
	}
	if s0 != s1 {
		r.Probe("engine-call-straddled-a-second")
	}

	// a token with a time claim beyond the range of an int64 second count: see overflowFinding
	if tg.hasJwt && overflowClass(&jv, true) != "" {
		switch {
		case ranAny && !mayJ:
			finding(r, overflowAccepted, "%s: protected code of the group RAN although the token's %s claim lies in the (unreachable) future", desc, jv.overflow)
			return
		case !ranAny && !mayJ && c.status != http.StatusUnauthorized:
			finding(r, overflowAccepted, "%s: rejected with %d, not 401: the jwt gate let the token pass although its %s claim lies in the (unreachable) future", desc, c.status, jv.overflow)
			return
		case !ranAny && mustJ && c.status == http.StatusUnauthorized:
			finding(r, overflowRejected, "%s: the token is valid for this group's configuration (%s lies beyond the range of an int64 second count), but the jwt gate answered 401", desc, jv.overflow)
			return
		}
	}
	if c.ran > 1 {
		r.Fail("engine-handler-ran-twice", "%s: the route handler ran %d times", desc, c.ran)
		return
	}
	for k, n := range rec.mwRan {
		if n > 1 {
			r.Fail("engine-user-middleware-ran-twice", "%s: user middleware %d ran %d times", desc, k, n)
			return
		}
	}
	if c.ran > 0 && rec.ranGroup != tg.idx {
		r.Fail("engine-misrouted", "%s: the handler of group %d ran", desc, rec.ranGroup)
		return
	}
	if rec.unauth > 0 && !tg.hasJwt {
		r.Fail("engine-unauthorized-callback-on-group-without-jwt", "%s: the unauthorized callback was called %d times", desc, rec.unauth)
		return
	}
	if rec.unsigned > 0 && !tg.hasSig {
		r.Fail("engine-unsigned-callback-on-group-without-signature", "%s: the unsigned callback was called %d times", desc, rec.unsigned)
		return
	}
	if rec.unsFlagBad {
		r.Fail("engine-unsigned-callback-wrong-strict-flag", "%s: the unsigned callback was called with strict=%v, the group is configured with Strict=%v", desc, rec.unsStrict, tg.sig.strict)
		return
	}

	if ranAny && !may {
		var cls string
		switch {
		case !mayJ && c.ran == 0:
			cls = "engine-user-middleware-ran-without-valid-token"
		case !mayJ:
			cls = "engine-" + failClassAccepted(&jv)
			if jv.reason == "bad-signature" {
				// the token is no credential for THIS group; is it one for another group of the server?
				for _, o := range e.groups {
					if o != tg && o.hasJwt && judgeJWT(rec.bt.auth, true, o.allowed()).sigOK {
						cls = "engine-jwt-accepted-secret-of-other-group"
						desc += fmt.Sprintf(" [the token verifies under a secret configured for %s]", o)
						break
					}
				}
			}
		case c.ran == 0:
			cls = "engine-user-middleware-ran-without-valid-signature"
		case cv.reason == "":
			cls = "engine-cs-strict-accepted-outside-tolerance"
		default:
			cls = "engine-cs-strict-accepted-" + cv.reason
		}
		r.Fail(cls, "%s: protected code of the group RAN (first at %s) although the request carries no credential valid for THIS group's configuration in that interval",
			desc, first.UTC().Format("15:04:05.000000000"))
		return
	}

	if !ranAny {
		if !tg.hasJwt && !tg.hasSig {
			r.Fail("engine-ungated-route-rejected", "%s: the group has no gate, but its handler did not run", desc)
			return
		}
		if c.status < 400 {
			r.Fail("engine-reject-status", "%s: nothing protected ran but the status is %d", desc, c.status)
			return
		}
		if must {
			cls := "engine-valid-rejected"
			switch {
			case !tg.hasSig:
				cls = "engine-jwt-valid-rejected"
			case !tg.hasJwt:
				cls = "engine-cs-valid-rejected"
			}
			r.Fail(cls, "%s: the credentials are valid for this group's configuration during the whole call, but the request was rejected", desc)
			return
		}
		// a request without a valid token gets 401 from a group with the jwt gate
		if tg.hasJwt && (!mayJ || mustC) && c.status != http.StatusUnauthorized {
			r.Fail("engine-jwt-reject-not-401", "%s: rejected for its token, want 401", desc)
			return
		}
		if tg.hasJwt && !tg.hasSig && e.unauthCb {
			if rec.unauth != 1 || rw.Header().Get("X-Reason") != "denied" {
				r.Fail("engine-unauthorized-callback-not-called", "%s: server has an unauthorized callback; it was called %d times, X-Reason=%q", desc, rec.unauth, rw.Header().Get("X-Reason"))
				return
			}
			r.Probe("engine-unauthorized-callback")
		}
		if tg.hasSig && e.unsCb && !csMay && mustJ && rec.unsigned != 1 {
			r.Fail("engine-unsigned-callback-not-called", "%s: server has an unsigned callback and the signature is invalid; it was called %d times", desc, rec.unsigned)
			return
		}
		r.Probe(fmt.Sprintf("engine-rejected-%d", c.status))
		if rec.plan.withJwt && rec.plan.jsrc != rec.plan.target && tg.hasJwt && rec.plan.jp.kind == fkHonest {
			r.Probe("engine-honest-token-of-other-group-rejected")
		}
		if rec.plan.csrc != rec.plan.target && tg.hasSig && rec.plan.cp.kind == ckHonest {
			r.Probe("engine-honest-signature-of-other-group-rejected")
		}
		return
	}

	// protected code ran, and it was allowed to
	if c.ran == 0 {
		// only user middlewares ran and something behind them rejected: with the gates in front of the
		// user middlewares that cannot happen
		r.Fail("engine-user-middleware-ran-handler-did-not", "%s: user middleware ran but the route handler did not", desc)
		return
	}
	if !mwAll {
		r.Fail("engine-user-middleware-skipped", "%s: the route handler ran but not every middleware added with Use did", desc)
		return
	}
	if e.custom && rec.chainRan != 1 {
		r.Fail("engine-custom-chain-skipped", "%s: the chain given with WithChain ran %d times", desc, rec.chainRan)
		return
	}
	switch {
	case !tg.hasJwt && !tg.hasSig:
		r.Probe("engine-ungated-ran")
	default:
		r.Probe("engine-accepted")
		if tg.hasJwt && jv.under == 1 {
			r.Probe("engine-accepted-under-previous-secret")
		}
	}
	if tg.hasJwt {
		if cls, msg := claimsProblem(&jv, rec.seen); cls != "" {
			r.Fail("engine-jwt-"+cls, "%s: route handler: %s", desc, msg)
			return
		}
		if e.nUse > 0 {
			if cls, msg := claimsProblem(&jv, rec.mwSeen); cls != "" {
				r.Fail("engine-jwt-"+cls+"-in-user-middleware", "%s: user middleware: %s", desc, msg)
				return
			}
		}
		if len(jv.claims) > 0 {
			r.Probe("engine-claims-checked")
		}
	}
	// delivery: body as the application meant it, response as the handler wrote it
	if mustC {
		v := cv
		if !tg.hasSig {
			v = csVerdict{}
		}
		cw.srv = tg.sig // for the description only
		cw.checkDelivered(c, rw, &v)
	}
}
