package c18

import (
	"bytes"
	"context"
	"crypto"
	"crypto/hmac"
	"crypto/rand"
	"crypto/rsa"
	"crypto/sha256"
	"crypto/sha512"
	"encoding/base64"
	"encoding/json"
	"fmt"
	"hash"
	"math"
	"math/big"
	"net/http"
	"net/http/httptest"
	"reflect"
	"sort"
	"strings"
	"time"

	"github.com/zeromicro/go-zero/rest/handler"
	"github.com/zeromicro/go-zero/rest/token"

	"verifsim/simrt"
)

// ---------------------------------------------------------------------------
// token construction (harness side; independent of golang-jwt)
// ---------------------------------------------------------------------------

var rawURL = base64.RawURLEncoding

func hmacOf(alg, secret, input string) []byte {
	var h func() hash.Hash
	switch alg {
	case "HS256":
		h = sha256.New
	case "HS384":
		h = sha512.New384
	case "HS512":
		h = sha512.New
	default:
		return nil
	}
	m := hmac.New(h, []byte(secret))
	m.Write([]byte(input))
	return m.Sum(nil)
}

func signHS(alg, hdr, pay, secret string) string {
	in := rawURL.EncodeToString([]byte(hdr)) + "." + rawURL.EncodeToString([]byte(pay))
	return in + "." + rawURL.EncodeToString(hmacOf(alg, secret, in))
}

var algs = []string{"HS256", "HS384", "HS512"}

var standardClaims = []string{"aud", "exp", "jti", "iat", "iss", "nbf", "sub"}

func isStandard(k string) bool {
	for _, s := range standardClaims {
		if s == k {
			return true
		}
	}
	return false
}

// claim value literals (JSON text); index 0 is the simplest
var claimKeys = []string{"uid", "role", "tenant", "flags", "meta", "scope", "n", "sub", "iss", "jti", "aud"}
var claimLits = []string{`"u-1"`, `42`, `-7`, `1.5`, `12345678901234567890`, `true`, `false`, `null`, `["a",1,true]`, `{"x":1,"y":"z"}`, `""`, `"admin"`}

// forgery kinds (0 = honest token)
const (
	fkHonest = iota
	fkNoHeader
	fkEmptyBearer
	fkGarbage
	fkTwoSegments
	fkEmptySignature
	fkExtraSegment
	fkPayloadTampered
	fkHeaderTampered
	fkSigBitFlip
	fkSigTruncated
	fkWrongSecret
	fkRetiredSecret
	fkEmptySecret
	fkNearMissSecret
	fkAlgNone
	fkAlgNoneKeepSig
	fkAlgNoneCase
	fkAlgRS256
	fkAlgMissing
	fkAlgUnknown
	fkPayloadNotObject
	fkStdBase64
	fkSwappedSegments
	fkOtherSchemes
	fkCount
)

var fkNames = [...]string{"honest", "no-header", "empty-bearer", "garbage", "two-segments", "empty-signature", "extra-segment",
	"payload-tampered", "header-tampered", "sig-bitflip", "sig-truncated", "wrong-secret", "retired-secret", "empty-secret",
	"near-miss-secret", "alg-none", "alg-none-keep-sig", "alg-none-case", "alg-rs256", "alg-missing", "alg-unknown",
	"payload-not-object", "std-base64", "swapped-segments", "other-scheme"}

var expOffsets = []int64{0 /*absent*/, 3600, 1, 2, 0, -1, -3600, 60}
var nbfOffsets = []int64{0 /*absent*/, -60, 0, 1, 2, 60}
var iatOffsets = []int64{0 /*absent*/, -1, 0, 1, 5}

type jwtPlan struct {
	think   time.Duration
	kind    int
	signer  int // 0 current, 1 previous, (rotation only) 2 retired, 3 next
	alg     int
	exp     int // index into expOffsets (0 absent; index 4 = "exp == issue second")
	nbf     int
	iat     int
	align   int // 0 none, 1..3 exp-1ns/exp/exp+1ns, 4..6 nbf-1ns/nbf/nbf+1ns, 7..8 iat-1ns/iat
	nclaims int
	cseed   uint64
	lower   bool // "bearer " instead of "Bearer "
	mseed   uint64
	post    bool
	yields  int
	// 0 = the claim comes from the offset tables above; k > 0: claimExtremes[k-1] instead
	expX, nbfX, iatX int
	bearer           int // spelling of the scheme: see bearerSpellings (0 = "Bearer ", or "bearer " when lower)
	// clients keep using a token: k > 0 = present again the Authorization header an earlier request of the
	// run was sent with (the k-th candidate), now, instead of a freshly issued token
	reuse int
}

func drawJwtPlan(t *simrt.Tape, rotation bool) jwtPlan {
	p := jwtPlan{think: drawThink(t)}
	if t.Chance(2, 5) {
		p.kind = 1 + t.Intn(fkCount-1)
	}
	if rotation {
		p.signer = weighted(t, 4, 3, 2, 1)
	} else {
		p.signer = t.Intn(2)
	}
	p.alg = weighted(t, 6, 1, 1)
	p.exp = t.Intn(len(expOffsets))
	p.nbf = weighted(t, 6, 1, 1, 1, 1, 1)
	p.iat = weighted(t, 6, 1, 1, 1, 1)
	p.align = weighted(t, 6, 2, 3, 2, 1, 2, 1, 1, 1)
	p.nclaims = t.Intn(5)
	p.cseed = seedOf(t)
	p.lower = t.Chance(1, 6)
	p.mseed = seedOf(t)
	p.post = t.Chance(1, 4)
	p.yields = t.Intn(3)
	if t.Chance(1, 4) {
		// extreme / malformed time claims, each claim independently
		n := len(claimExtremes)
		switch t.Intn(4) {
		case 0:
			p.expX = 1 + t.Intn(n)
		case 1:
			p.nbfX = 1 + t.Intn(n)
		case 2:
			p.iatX = 1 + t.Intn(n)
		default:
			p.expX, p.nbfX, p.iatX = t.Intn(n+1), t.Intn(n+1), t.Intn(n+1)
		}
	}
	if t.Chance(1, 8) {
		p.bearer = 1 + t.Intn(len(bearerSpellings)-1)
	}
	if t.Chance(1, 4) {
		p.reuse = 1 + t.Intn(4)
	}
	return p
}

// other spellings of the scheme that name the same scheme (RFC 7235: case-insensitive)
var bearerSpellings = []string{"", "BEARER ", "BeArEr ", "bEARER "}

// limitClaimOverflow: a time claim beyond the range of an int64 second count ends in the finding
// overflowFinding (first failure wins), so only one run in eight may contain such tokens; in the
// other runs they are replaced by the largest tame values.
func limitClaimOverflow(t *simrt.Tape, plans [][]jwtPlan) {
	if t.Chance(1, 8) {
		return
	}
	for i := range plans {
		for j := range plans[i] {
			tameClaims(&plans[i][j])
		}
	}
}

func tameClaims(p *jwtPlan) {
	for _, x := range []*int{&p.expX, &p.nbfX, &p.iatX} {
		if *x > 0 && claimExtremes[*x-1].overflow {
			*x = 1 + (*x-1-firstOverflowExtreme)%firstOverflowExtreme
		}
	}
}

type jwtSecrets struct {
	cur, prev     string // prev "" = not configured
	retired, next string
	attacker      string
}

type builtToken struct {
	auth      string // Authorization header value
	present   bool   // header set at all
	expAt     int64  // absolute seconds (valid only if hasExp)
	nbfAt     int64
	iatAt     int64
	hasExp    bool
	hasNbf    bool
	hasIat    bool
	claimKeys []string
	extremes  []string // names of the extreme time claims used (probes)
}

// buildToken renders the plan into an Authorization header at issue second nowS.
func buildToken(p jwtPlan, s jwtSecrets, nowS int64) builtToken {
	bt := builtToken{present: true}
	g := &prng{s: p.cseed}
	var fields []string
	used := map[string]bool{}
	for i := 0; i < p.nclaims; i++ {
		k := claimKeys[g.next()%uint64(len(claimKeys))]
		if used[k] {
			continue
		}
		used[k] = true
		lit := claimLits[g.next()%uint64(len(claimLits))]
		if isStandard(k) {
			lit = `"std-` + k + `"`
		}
		fields = append(fields, fmt.Sprintf("%q:%s", k, lit))
		bt.claimKeys = append(bt.claimKeys, k)
	}
	extreme := func(claim string, x int) {
		c := claimExtremes[x-1]
		fields = append(fields, fmt.Sprintf(`%q:%s`, claim, c.f(nowS)))
		bt.extremes = append(bt.extremes, c.name)
	}
	switch {
	case p.expX != 0:
		extreme("exp", p.expX)
	case p.exp != 0:
		bt.hasExp, bt.expAt = true, nowS+expOffsets[p.exp]
		fields = append(fields, fmt.Sprintf(`"exp":%d`, bt.expAt))
	}
	switch {
	case p.nbfX != 0:
		extreme("nbf", p.nbfX)
	case p.nbf != 0:
		bt.hasNbf, bt.nbfAt = true, nowS+nbfOffsets[p.nbf]
		fields = append(fields, fmt.Sprintf(`"nbf":%d`, bt.nbfAt))
	}
	switch {
	case p.iatX != 0:
		extreme("iat", p.iatX)
	case p.iat != 0:
		bt.hasIat, bt.iatAt = true, nowS+iatOffsets[p.iat]
		fields = append(fields, fmt.Sprintf(`"iat":%d`, bt.iatAt))
	}
	pay := "{" + strings.Join(fields, ",") + "}"
	alg := algs[p.alg]
	hdr := fmt.Sprintf(`{"alg":%q,"typ":"JWT"}`, alg)
	secret := s.cur
	switch p.signer {
	case 1:
		if s.prev != "" {
			secret = s.prev
		}
	case 2:
		secret = s.retired
	case 3:
		secret = s.next
	}
	m := &prng{s: p.mseed}
	tok := signHS(alg, hdr, pay, secret)
	parts := strings.Split(tok, ".")
	switch p.kind {
	case fkHonest:
	case fkNoHeader:
		bt.present = false
		return bt
	case fkEmptyBearer:
		tok = ""
	case fkGarbage:
		tok = []string{"not-a-jwt", "a.b.c", "..", "e30.e30.e30", "null"}[m.next()%5]
	case fkTwoSegments:
		tok = parts[0] + "." + parts[1]
	case fkEmptySignature:
		tok = parts[0] + "." + parts[1] + "."
	case fkExtraSegment:
		tok = tok + "." + parts[2]
	case fkPayloadTampered:
		// keep the signature, change the claims (privilege escalation / lifetime extension)
		var np string
		switch m.next() % 3 {
		case 0:
			np = "{" + strings.Join(append([]string{`"role":"root"`}, fields...), ",") + "}"
		case 1:
			np = strings.Replace(pay, fmt.Sprintf(`"exp":%d`, bt.expAt), fmt.Sprintf(`"exp":%d`, bt.expAt+86400*365), 1)
			if np == pay {
				np = "{" + strings.Join(append(append([]string{}, fields...), `"x":1`), ",") + "}"
			}
		default:
			np = pay + " "
		}
		tok = parts[0] + "." + rawURL.EncodeToString([]byte(np)) + "." + parts[2]
	case fkHeaderTampered:
		nh := []string{`{"alg":"HS384","typ":"JWT"}`, `{"alg":"HS256","typ":"JWS"}`, `{"typ":"JWT","alg":"HS256"}`, `{"alg":"HS512","typ":"JWT"}`}[m.next()%4]
		if nh == hdr {
			nh = `{"alg":"` + alg + `"}`
		}
		tok = rawURL.EncodeToString([]byte(nh)) + "." + parts[1] + "." + parts[2]
	case fkSigBitFlip:
		sig, _ := rawURL.DecodeString(parts[2])
		bit := int(m.next() % uint64(len(sig)*8))
		sig[bit/8] ^= 1 << (bit % 8)
		tok = parts[0] + "." + parts[1] + "." + rawURL.EncodeToString(sig)
	case fkSigTruncated:
		sig, _ := rawURL.DecodeString(parts[2])
		tok = parts[0] + "." + parts[1] + "." + rawURL.EncodeToString(sig[:len(sig)-1-int(m.next()%4)])
	case fkWrongSecret:
		tok = signHS(alg, hdr, pay, s.attacker)
	case fkRetiredSecret:
		tok = signHS(alg, hdr, pay, s.retired)
	case fkEmptySecret:
		tok = signHS(alg, hdr, pay, "")
	case fkNearMissSecret:
		var ns string
		switch m.next() % 4 {
		case 0:
			ns = secret + "x"
		case 1:
			if len(secret) == 0 {
				ns = "\x00"
			} else {
				ns = secret[:len(secret)-1]
			}
		case 2:
			ns = strings.ToUpper(secret)
		default:
			ns = secret + "\x00"
		}
		tok = signHS(alg, hdr, pay, ns)
	case fkAlgNone:
		tok = rawURL.EncodeToString([]byte(`{"alg":"none","typ":"JWT"}`)) + "." + parts[1] + "."
	case fkAlgNoneKeepSig:
		tok = rawURL.EncodeToString([]byte(`{"alg":"none","typ":"JWT"}`)) + "." + parts[1] + "." + parts[2]
	case fkAlgNoneCase:
		a := []string{"None", "NONE", "nOnE"}[m.next()%3]
		tok = rawURL.EncodeToString([]byte(`{"alg":"`+a+`","typ":"JWT"}`)) + "." + parts[1] + "."
	case fkAlgRS256:
		a := []string{"RS256", "PS256", "RS512"}[m.next()%3]
		h := rawURL.EncodeToString([]byte(`{"alg":"`+a+`","typ":"JWT"}`)) + "." + parts[1]
		var sig []byte
		switch a {
		case "RS256":
			d := sha256.Sum256([]byte(h))
			sig, _ = rsa.SignPKCS1v15(nil, rsaKeys[2], crypto.SHA256, d[:])
		case "RS512":
			d := sha512.Sum512([]byte(h))
			sig, _ = rsa.SignPKCS1v15(nil, rsaKeys[2], crypto.SHA512, d[:])
		default:
			d := sha256.Sum256([]byte(h))
			sig, _ = rsa.SignPSS(rand.Reader, rsaKeys[2], crypto.SHA256, d[:], nil)
		}
		tok = h + "." + rawURL.EncodeToString(sig)
	case fkAlgMissing:
		tok = signHS(alg, `{"typ":"JWT"}`, pay, secret)
	case fkAlgUnknown:
		a := []string{"hs256", "HS999", "HMAC", ""}[m.next()%4]
		nh := `{"alg":"` + a + `","typ":"JWT"}`
		in := rawURL.EncodeToString([]byte(nh)) + "." + parts[1]
		tok = in + "." + rawURL.EncodeToString(hmacOf("HS256", secret, in))
	case fkPayloadNotObject:
		// properly signed, but the payload is not a claims object
		np := []string{`[1,2]`, `"claims"`, `123`, `{"uid":`, `not json`}[m.next()%5]
		tok = signHS(alg, hdr, np, secret)
	case fkStdBase64:
		// properly signed over std-base64 (padded) segments: not a compact JWS
		in := base64.StdEncoding.EncodeToString([]byte(hdr+" ")) + "." + base64.StdEncoding.EncodeToString([]byte(pay+"  "))
		tok = in + "." + base64.StdEncoding.EncodeToString(hmacOf(alg, secret, in))
	case fkSwappedSegments:
		tok = parts[1] + "." + parts[0] + "." + parts[2]
	case fkOtherSchemes:
		bt.auth = []string{"Basic ", "Token ", "Bearer", "Bearer  "}[m.next()%4] + tok
		return bt
	}
	switch {
	case p.bearer > 0:
		bt.auth = bearerSpellings[p.bearer] + tok
	case p.lower:
		bt.auth = "bearer " + tok
	default:
		bt.auth = "Bearer " + tok
	}
	return bt
}

// ---------------------------------------------------------------------------
// independent verifier
// ---------------------------------------------------------------------------

type jwtVerdict struct {
	reason string // "" when the signature verifies; otherwise why the token is no credential at all
	sigOK  bool
	under  int   // index of the allowed secret the signature verifies under
	lo, hi int64 // the token may be valid at second s only if lo <= s < hi
	// the token must be valid at second s if mustLo <= s < mustHi (differs from lo, hi only for claims
	// with a fraction of a second: the second containing the claim instant is left open)
	mustLo, mustHi int64
	claims         map[string]any
	hasToken       bool
	overflow       string // a time claim whose value is beyond the range of an int64 second count ("" = none)
	// for probes: where the three claims lie (seconds, saturated); has* = claim present and a NumericDate
	expS, nbfS, iatS       int64
	hasExp, hasNbf, hasIat bool
	malformedClaim         string // a time claim that is no NumericDate
}

// judgeJWT decides from the header value alone whether it carries an HMAC-signed token under one
// of the allowed secrets, and the window of seconds in which its time claims hold.
func judgeJWT(auth string, present bool, allowed []string) jwtVerdict {
	v := jwtVerdict{lo: math.MinInt64, hi: math.MaxInt64, mustLo: math.MinInt64, mustHi: math.MaxInt64, under: -1}
	if !present || auth == "" {
		v.reason = "no-token"
		return v
	}
	tok := auth
	if len(auth) > 6 && strings.EqualFold(auth[:7], "bearer ") {
		tok = auth[7:]
	}
	v.hasToken = tok != ""
	parts := strings.Split(tok, ".")
	if len(parts) != 3 {
		v.reason = "malformed"
		return v
	}
	hb, err1 := rawURL.DecodeString(parts[0])
	pb, err2 := rawURL.DecodeString(parts[1])
	sig, err3 := rawURL.DecodeString(parts[2])
	if err1 != nil || err2 != nil || err3 != nil {
		v.reason = "malformed"
		return v
	}
	var hdr map[string]any
	if json.Unmarshal(hb, &hdr) != nil {
		v.reason = "malformed"
		return v
	}
	dec := json.NewDecoder(bytes.NewReader(pb))
	dec.UseNumber()
	var claims map[string]any
	if dec.Decode(&claims) != nil {
		v.reason = "malformed"
		return v
	}
	v.claims = claims
	alg, _ := hdr["alg"].(string)
	if alg != "HS256" && alg != "HS384" && alg != "HS512" {
		v.reason = "bad-alg"
		return v
	}
	in := parts[0] + "." + parts[1]
	for i, s := range allowed {
		if hmac.Equal(hmacOf(alg, s, in), sig) {
			v.sigOK, v.under = true, i
			break
		}
	}
	if !v.sigOK {
		v.reason = "bad-signature"
		return v
	}
	zone := func(k string, d *big.Rat) {
		if v.overflow == "" && new(big.Rat).Abs(d).Cmp(overflowZone) >= 0 {
			v.overflow = k
		}
	}
	if e, ok := claims["exp"]; ok {
		if d, ok := numericDate(e); ok {
			// valid at instant t iff t < exp
			v.hi, v.mustHi = sat(ratCeil(d)), sat(ratFloor(d))
			v.hasExp, v.expS = true, v.hi
			zone("exp", d)
		} else {
			v.hi, v.mustHi = math.MinInt64, math.MinInt64 // never valid
			v.malformedClaim = "exp"
		}
	}
	for _, k := range []string{"nbf", "iat"} {
		if e, ok := claims[k]; ok {
			if d, ok := numericDate(e); ok {
				// valid at instant t iff t >= claim
				lo, mustLo := sat(ratFloor(d)), sat(ratCeil(d))
				if lo > v.lo {
					v.lo = lo
				}
				if mustLo > v.mustLo {
					v.mustLo = mustLo
				}
				if k == "nbf" {
					v.hasNbf, v.nbfS = true, lo
				} else {
					v.hasIat, v.iatS = true, lo
				}
				zone(k, d)
			} else {
				v.lo, v.mustLo = math.MaxInt64, math.MaxInt64
				if v.malformedClaim == "" {
					v.malformedClaim = k
				}
			}
		}
	}
	return v
}

// validSomewhere: is there a second in [a,b] at which the token is valid?
func (v *jwtVerdict) validSomewhere(a, b int64) bool {
	if !v.sigOK || v.hi == math.MinInt64 {
		return false
	}
	lo, hi := a, b
	if v.lo > lo {
		lo = v.lo
	}
	if v.hi-1 < hi {
		hi = v.hi - 1
	}
	return lo <= hi
}

// validThroughout: is the token valid at every second of [a,b]?
func (v *jwtVerdict) validThroughout(a, b int64) bool {
	return v.sigOK && v.mustLo <= a && b < v.mustHi
}

// ---------------------------------------------------------------------------
// shared bookkeeping
// ---------------------------------------------------------------------------

type reqKey struct{}

type jwtRec struct {
	id         int
	reusedFrom int // the request whose token is presented again (-1: freshly issued token)
	plan       jwtPlan
	bt         builtToken
	ran        int
	th         time.Time
	seen       map[string]any
	t0, t1     time.Time
	status     int
}

type jwtWorld struct {
	r        *simrt.Run
	recs     []*jwtRec
	cbErrs   int
	boundary bool
}

func alignTarget(p jwtPlan, bt builtToken) (time.Time, bool) {
	var base int64
	var d time.Duration
	switch p.align {
	case 1, 2, 3:
		if !bt.hasExp {
			return time.Time{}, false
		}
		base, d = bt.expAt, time.Duration(p.align-2)
	case 4, 5, 6:
		if !bt.hasNbf {
			return time.Time{}, false
		}
		base, d = bt.nbfAt, time.Duration(p.align-5)
	case 7, 8:
		if !bt.hasIat {
			return time.Time{}, false
		}
		base, d = bt.iatAt, time.Duration(p.align-8)
	default:
		return time.Time{}, false
	}
	return time.Unix(base, 0).Add(d), true
}

func (w *jwtWorld) prepare(p jwtPlan, s func() jwtSecrets) (*jwtRec, *http.Request) {
	r := w.r
	if p.think > 0 {
		r.Sleep(p.think)
	}
	rec := &jwtRec{id: len(w.recs), plan: p, seen: map[string]any{}, reusedFrom: -1}
	w.recs = append(w.recs, rec)
	rec.bt = buildToken(p, s(), time.Now().Unix())
	if p.reuse > 0 {
		var earlier []*jwtRec
		for _, o := range w.recs[:rec.id] {
			if o.bt.present && o.bt.auth != "" {
				earlier = append(earlier, o)
			}
		}
		if len(earlier) > 0 {
			o := earlier[(p.reuse-1)%len(earlier)]
			rec.bt, rec.reusedFrom = o.bt, o.id
			r.Probe("jwt-token-presented-again")
		}
	}
	if tgt, ok := alignTarget(p, rec.bt); ok {
		if d := time.Until(tgt); d > 0 {
			r.Sleep(d)
		}
		if d := time.Since(tgt); d >= -1 && d <= 1 {
			w.boundary = true
			r.Probe("jwt-request-at-claim-boundary")
		}
	}
	method, url := http.MethodGet, "http://localhost/api/items?id=1"
	var rd *strings.Reader
	if p.post {
		method = http.MethodPost
		rd = strings.NewReader(`{"name":"x"}`)
	}
	var req *http.Request
	if rd != nil {
		req = httptest.NewRequest(method, url, rd)
	} else {
		req = httptest.NewRequest(method, url, nil)
	}
	if rec.bt.present {
		req.Header.Set("Authorization", rec.bt.auth)
	}
	req = req.WithContext(context.WithValue(req.Context(), reqKey{}, rec))
	return rec, req
}

func failClassAccepted(v *jwtVerdict) string {
	switch v.reason {
	case "no-token":
		return "jwt-accepted-without-token"
	case "malformed":
		return "jwt-accepted-malformed"
	case "bad-alg":
		return "jwt-accepted-non-hmac-alg"
	case "bad-signature":
		return "jwt-accepted-bad-signature"
	}
	if v.sigOK && v.malformedClaim != "" {
		return "jwt-accepted-time-claim-not-a-number"
	}
	return "jwt-accepted-outside-validity"
}

// overflowFinding: a time claim whose value lies beyond the range of an int64 second count (MaxInt64,
// 2^63, 1e19, 1e400, ...) is converted by golang-jwt with a float64 -> int64 conversion that is out of
// range: an nbf / iat in the unreachable future counts as long past (token ACCEPTED), an exp in the
// unreachable future counts as long past too (valid token REJECTED).
const (
	overflowAccepted = "jwt-time-claim-overflow-accepted"
	overflowRejected = "jwt-time-claim-overflow-rejected"
)

// overflowClass: the finding class for a wrong verdict on a token with such a claim ("" = not that case).
func overflowClass(v *jwtVerdict, accepted bool) string {
	if !v.sigOK || v.overflow == "" {
		return ""
	}
	if accepted {
		return overflowAccepted
	}
	return overflowRejected
}

func finding(r *simrt.Run, class, format string, a ...any) {
	if masked[class] {
		r.Probe("masked-finding-" + class)
		return
	}
	r.Fail(class, format, a...)
}

// probeTimeClaims: coverage of the time-claim dimensions.
func probeTimeClaims(r *simrt.Run, bt *builtToken, v *jwtVerdict, nowS int64) {
	for _, n := range bt.extremes {
		r.Probe("jwt-time-claim-extreme-" + n)
	}
	if !v.sigOK {
		return
	}
	if len(bt.extremes) > 0 && v.under == 1 {
		r.Probe("jwt-extreme-time-claim-under-previous-secret")
	}
	if v.hasExp && v.hasIat && v.expS <= nowS && v.iatS > nowS {
		r.Probe("jwt-claims-exp-past-iat-future")
	}
	if v.hasNbf && v.hasIat && v.nbfS > nowS && v.iatS > nowS {
		r.Probe("jwt-claims-nbf-and-iat-future")
	}
	if v.hasExp && v.hasNbf && v.hasIat {
		r.Probe("jwt-claims-all-three-time-claims")
	}
	if v.hasExp && (v.hasNbf && v.expS <= v.nbfS || v.hasIat && v.expS <= v.iatS) {
		r.Probe("jwt-claims-exp-not-after-nbf-or-iat")
	}
	if v.malformedClaim != "" {
		r.Probe("jwt-time-claim-not-a-number-" + v.malformedClaim)
	}
	if v.overflow != "" {
		r.Probe("jwt-time-claim-in-overflow-zone-" + v.overflow)
	}
	if v.lo != v.mustLo || v.hi != v.mustHi {
		r.Probe("jwt-time-claim-with-fraction")
	}
}

func describe(rec *jwtRec, v *jwtVerdict) string {
	kind := fkNames[rec.plan.kind]
	if rec.reusedFrom >= 0 {
		kind = fmt.Sprintf("token of request %d presented again", rec.reusedFrom)
	}
	return fmt.Sprintf("request %d (%s, signer %d, auth %q; verifier: reason=%q sigOK=%v window=[%d,%d)) sent %s returned %s",
		rec.id, kind, rec.plan.signer, rec.bt.auth, v.reason, v.sigOK, v.lo, v.hi,
		rec.t0.UTC().Format("15:04:05.000000000"), rec.t1.UTC().Format("15:04:05.000000000"))
}

func (w *jwtWorld) probeOutcome(rec *jwtRec, v *jwtVerdict, accepted bool) {
	r := w.r
	r.Probe("oracle")
	probeTimeClaims(r, &rec.bt, v, sec(rec.t0))
	if rec.plan.bearer > 0 {
		r.Probe("jwt-scheme-in-other-case")
	}
	if accepted {
		r.Probe("jwt-accepted")
		if v.under == 1 {
			r.Probe("jwt-accepted-under-previous-secret")
		}
	} else {
		r.Probe("jwt-rejected")
		if v.sigOK {
			r.Probe("jwt-rejected-by-time-claims")
			w.boundary = true
		} else if rec.plan.kind != fkHonest {
			r.Probe("jwt-forgery-rejected")
		}
	}
	if sec(rec.t0) != sec(rec.t1) {
		r.Probe("jwt-call-straddled-a-second")
	}
}

// ---------------------------------------------------------------------------
// scenario 1: handler.Authorize
// ---------------------------------------------------------------------------

func jwtSizes(t *simrt.Tape, tier string) (nTasks, perTask int) {
	maxT, maxP := 3, 4
	if tier == "thorough" {
		maxT, maxP = 4, 8
	}
	return t.Range(1, maxT), t.Range(1, maxP)
}

func jwtAuthorize(r *simrt.Run, tier string) {
	t := r.Tape
	w := &jwtWorld{r: r}
	g := &prng{s: seedOf(t)}
	curForm, prevForm := weighted(t, 6, 1, 1, 1), weighted(t, 6, 1, 1, 1)
	sc := jwtSecrets{
		cur:      secretOf(g, curForm, "cur-"),
		retired:  "old-" + g.text(4+int(g.next()%30)),
		next:     "nxt-" + g.text(8),
		attacker: "evil-" + g.text(4+int(g.next()%30)),
	}
	withPrev := t.Bool()
	if withPrev {
		sc.prev = secretOf(g, prevForm, "prv-")
		if prevForm != sfUsual {
			r.Probe("jwt-previous-secret-" + sfNames[prevForm])
		}
	}
	if curForm != sfUsual {
		r.Probe("jwt-current-secret-" + sfNames[curForm])
	}
	if t.Chance(1, 12) {
		// a server (mis)configured with the empty secret: the statement still holds with "" as the current secret
		sc.cur = ""
		r.Probe("jwt-current-secret-empty")
	}
	withCallback := t.Chance(1, 3)
	nTasks, perTask := jwtSizes(t, tier)
	plans := make([][]jwtPlan, nTasks)
	for i := range plans {
		for j := 0; j < perTask; j++ {
			plans[i] = append(plans[i], drawJwtPlan(t, false))
		}
	}
	limitClaimOverflow(t, plans)
	var opts []handler.AuthorizeOption
	if withPrev {
		opts = append(opts, handler.WithPrevSecret(sc.prev))
	}
	if withCallback {
		opts = append(opts, handler.WithUnauthorizedCallback(func(rw http.ResponseWriter, req *http.Request, err error) {
			w.cbErrs++
			rw.Header().Set("X-Reason", "denied")
		}))
	}
	next := http.HandlerFunc(func(rw http.ResponseWriter, req *http.Request) {
		rec, _ := req.Context().Value(reqKey{}).(*jwtRec)
		if rec == nil {
			r.Fail("jwt-context-lost", "protected handler got a request whose context lost the caller's values")
			return
		}
		rec.ran++
		rec.th = time.Now()
		for _, k := range rec.bt.claimKeys {
			rec.seen[k] = req.Context().Value(k)
		}
		for _, k := range standardClaims {
			rec.seen[k] = req.Context().Value(k)
		}
		for i := 0; i < rec.plan.yields; i++ {
			r.Yield()
		}
		rw.WriteHeader(http.StatusOK)
		rw.Write([]byte("ok"))
	})
	h := handler.Authorize(sc.cur, opts...)(next)
	allowed := []string{sc.cur}
	if withPrev {
		allowed = append(allowed, sc.prev)
	}
	r.Sample(map[string]any{"scenario": "handler.Authorize", "tasks": nTasks, "requests_per_task": perTask, "prev_secret": withPrev,
		"callback": withCallback, "first_task_plan": fmt.Sprintf("%+v", plans[0])})
	if r.Tracing() {
		r.Logf("authorize secrets=%+v plans=%+v", sc, plans)
	}
	var tasks []*simrt.Task
	for i := 0; i < nTasks; i++ {
		i := i
		tasks = append(tasks, r.Go(fmt.Sprintf("client%d", i), func() {
			for _, p := range plans[i] {
				rec, req := w.prepare(p, func() jwtSecrets { return sc })
				rw := httptest.NewRecorder()
				r.Ev("invoke", int64(rec.id), int64(p.kind))
				rec.t0 = time.Now()
				h.ServeHTTP(rw, req)
				rec.t1 = time.Now()
				rec.status = rw.Code
				r.Ev("return", int64(rec.id), int64(rec.status), int64(rec.ran))
				w.checkAuthorize(rec, rw, allowed)
			}
		}))
	}
	if !r.JoinTimeout(80*24*time.Hour, tasks...) {
		r.Fail("stuck", "requests through handler.Authorize did not all return: %v", r.AliveTasks())
		return
	}
	if w.boundary && len(w.recs) > 0 {
		r.Probe("nontrivial")
	}
}

func (w *jwtWorld) checkAuthorize(rec *jwtRec, rw *httptest.ResponseRecorder, allowed []string) {
	r := w.r
	v := judgeJWT(rec.bt.auth, rec.bt.present, allowed)
	s0, s1 := sec(rec.t0), sec(rec.t1)
	if r.Tracing() {
		r.Logf("%s -> status %d ran %d", describe(rec, &v), rec.status, rec.ran)
	}
	w.probeOutcome(rec, &v, rec.ran > 0)
	if rec.ran > 1 {
		r.Fail("jwt-handler-ran-twice", "%s: protected handler ran %d times", describe(rec, &v), rec.ran)
		return
	}
	if rec.ran == 1 {
		if !v.validSomewhere(s0, sec(rec.th)) {
			if cls := overflowClass(&v, true); cls != "" {
				finding(r, cls, "%s: the protected handler RAN (at %s) although the token's %s claim lies in the (unreachable) future",
					describe(rec, &v), rec.th.UTC().Format("15:04:05.000000000"), v.overflow)
				return
			}
			r.Fail(failClassAccepted(&v), "%s: the protected handler RAN (at %s) although the request carries no credential valid in that interval",
				describe(rec, &v), rec.th.UTC().Format("15:04:05.000000000"))
			return
		}
		if rec.status != http.StatusOK {
			r.Fail("jwt-accepted-status", "%s: handler ran and wrote 200 but the client got %d", describe(rec, &v), rec.status)
			return
		}
		// sorted: which claim is reported first (and so the failure class) must not depend on map order
		keys := make([]string, 0, len(v.claims))
		for k := range v.claims {
			keys = append(keys, k)
		}
		sort.Strings(keys)
		for _, k := range keys {
			want := v.claims[k]
			got := rec.seen[k]
			if isStandard(k) {
				if got != nil {
					r.Fail("jwt-standard-claim-visible", "%s: standard claim %q is visible to the handler as %#v", describe(rec, &v), k, got)
					return
				}
				continue
			}
			if !reflect.DeepEqual(got, want) {
				r.Fail("jwt-claims-mismatch", "%s: claim %q: handler sees %#v, token says %#v", describe(rec, &v), k, got, want)
				return
			}
			r.Probe("jwt-claim-checked")
		}
		return
	}
	// handler did not run
	if rec.status != http.StatusUnauthorized {
		r.Fail("jwt-reject-not-401", "%s: handler not called but status is %d, want 401", describe(rec, &v), rec.status)
		return
	}
	if v.validThroughout(s0, s1) {
		if cls := overflowClass(&v, false); cls != "" {
			finding(r, cls, "%s: token verifies under allowed secret #%d and its time claims hold (%s lies beyond the range of an int64 second count), but it got 401",
				describe(rec, &v), v.under, v.overflow)
			return
		}
		r.Fail("jwt-valid-rejected", "%s: token verifies under allowed secret #%d and its time claims hold during the whole call, but it got 401",
			describe(rec, &v), v.under)
	}
}

// ---------------------------------------------------------------------------
// scenario 2: one token.TokenParser shared by concurrent requests while the secrets rotate
// ---------------------------------------------------------------------------

func jwtRotation(r *simrt.Run, tier string) {
	t := r.Tape
	w := &jwtWorld{r: r}
	g := &prng{s: seedOf(t)}
	nEpochs := t.Range(1, 4)
	secrets := make([]string, nEpochs+2)
	for i := range secrets {
		secrets[i] = fmt.Sprintf("s%d-%s", i, g.text(6+int(g.next()%20)))
	}
	attacker := "evil-" + g.text(12)
	keepPrev := make([]bool, nEpochs)
	for i := range keepPrev {
		keepPrev[i] = i > 0 && !t.Chance(1, 4)
	}
	var popts []token.ParseOption
	var reset time.Duration = 24 * time.Hour
	switch weighted(t, 3, 1, 1, 1) {
	case 1:
		reset = time.Second
	case 2:
		reset = time.Minute
	case 3:
		reset = time.Hour
	}
	if reset != 24*time.Hour {
		popts = append(popts, token.WithResetDuration(reset))
	}
	epochGaps := make([]time.Duration, nEpochs-1)
	for i := range epochGaps {
		epochGaps[i] = drawThink(t)
	}
	nTasks, perTask := jwtSizes(t, tier)
	if nTasks < 2 {
		nTasks = 2
	}
	plans := make([][]jwtPlan, nTasks)
	for i := range plans {
		for j := 0; j < perTask; j++ {
			plans[i] = append(plans[i], drawJwtPlan(t, true))
		}
	}
	limitClaimOverflow(t, plans)
	epoch := 0
	view := func() jwtSecrets {
		s := jwtSecrets{cur: secrets[epoch], next: secrets[epoch+1], attacker: attacker, retired: attacker}
		if keepPrev[epoch] {
			s.prev = secrets[epoch-1]
		}
		if epoch >= 2 {
			s.retired = secrets[epoch-2]
		} else if epoch == 1 && !keepPrev[1] {
			s.retired = secrets[0]
		}
		return s
	}
	parser := token.NewTokenParser(popts...)
	start := time.Now()
	r.Sample(map[string]any{"scenario": "token.TokenParser under rotation", "epochs": nEpochs, "tasks": nTasks, "requests_per_task": perTask,
		"history_reset": reset.String(), "first_task_plan": fmt.Sprintf("%+v", plans[0])})
	if r.Tracing() {
		r.Logf("rotation secrets=%q keepPrev=%v gaps=%v reset=%v plans=%+v", secrets, keepPrev, epochGaps, reset, plans)
	}
	var tasks []*simrt.Task
	tasks = append(tasks, r.Go("rotator", func() {
		for _, gap := range epochGaps {
			if gap > 0 {
				r.Sleep(gap)
			} else {
				r.Yield()
			}
			epoch++
			r.Ev("rotate", int64(epoch))
			r.Probe("jwt-secret-rotated")
		}
	}))
	for i := 0; i < nTasks; i++ {
		i := i
		tasks = append(tasks, r.Go(fmt.Sprintf("client%d", i), func() {
			for _, p := range plans[i] {
				rec, req := w.prepare(p, view)
				// the configuration this call is made with (no scheduling point up to the call)
				cfg := view()
				allowed := []string{cfg.cur}
				if cfg.prev != "" {
					allowed = append(allowed, cfg.prev)
				}
				r.Ev("invoke", int64(rec.id), int64(p.kind), int64(epoch))
				rec.t0 = time.Now()
				tok, err := parser.ParseToken(req, cfg.cur, cfg.prev)
				rec.t1 = time.Now()
				accepted := err == nil && tok != nil && tok.Valid
				if accepted {
					rec.status = 200
				} else {
					rec.status = 401
				}
				r.Ev("return", int64(rec.id), int64(rec.status))
				v := judgeJWT(rec.bt.auth, rec.bt.present, allowed)
				if r.Tracing() {
					r.Logf("%s epoch-config cur=%q prev=%q -> accepted=%v err=%v", describe(rec, &v), cfg.cur, cfg.prev, accepted, err)
				}
				w.probeOutcome(rec, &v, accepted)
				if time.Since(start) > reset && cfg.prev != "" && accepted {
					r.Probe("jwt-accepted-after-history-reset-period")
				}
				s0, s1 := sec(rec.t0), sec(rec.t1)
				if accepted && !v.validSomewhere(s0, s1) {
					if cls := overflowClass(&v, true); cls != "" {
						finding(r, cls, "%s: ParseToken(cur=%q, prev=%q) ACCEPTED a token whose %s claim lies in the (unreachable) future", describe(rec, &v), cfg.cur, cfg.prev, v.overflow)
						continue
					}
					cls := failClassAccepted(&v)
					r.Fail("parser-"+cls[len("jwt-"):], "%s: ParseToken(cur=%q, prev=%q) ACCEPTED a request that carries no credential valid in that interval",
						describe(rec, &v), cfg.cur, cfg.prev)
					return
				}
				if !accepted && v.validThroughout(s0, s1) {
					if cls := overflowClass(&v, false); cls != "" {
						finding(r, cls, "%s: ParseToken(cur=%q, prev=%q) rejected (%v) a token whose time claims hold (%s lies beyond the range of an int64 second count)", describe(rec, &v), cfg.cur, cfg.prev, err, v.overflow)
						continue
					}
					r.Fail("parser-valid-rejected", "%s: ParseToken(cur=%q, prev=%q) rejected (%v) a token that verifies under allowed secret #%d with valid time claims",
						describe(rec, &v), cfg.cur, cfg.prev, err, v.under)
					return
				}
			}
		}))
	}
	if !r.JoinTimeout(80*24*time.Hour, tasks...) {
		r.Fail("stuck", "ParseToken calls did not all return: %v", r.AliveTasks())
		return
	}
	if w.boundary && len(w.recs) > 0 {
		r.Probe("nontrivial")
	}
}
